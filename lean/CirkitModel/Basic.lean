def hello := "world"
