/-
  CirkitModel.Model.Registry — the compiler registry / pipeline-context state machine.
  Import-free.

  Mirrors `cirkit/pipeline.py` (PipelineContext: one compiler per context object, `compile`,
  operators on compiled circuits, `__enter__`/`__exit__` with a `ContextVar` token),
  `cirkit/backend/compiler.py` (`CompiledCircuitsMap`: a `BiMap`, `compile` = lookup or
  `compile_pipeline`), `cirkit/backend/torch/compiler.py::compile_pipeline`,
  `cirkit/symbolic/circuit.py::pipeline_topological_ordering` with `cirkit/utils/algorithms.py`
  (`bfs`, `topological_ordering` = Kahn's algorithm over the BFS node list).
-/
namespace Cirkit

/-- association-list lookup -/
def alookup {β : Type} (l : List (Nat × β)) (k : Nat) : Option β := (l.find? (·.1 == k)).map (·.2)

/-- `bfs(roots, incomings_fn)`: roots first, then unseen operands in discovery order. `fuel` bounds
    the number of dequeues (the graph is finite and acyclic; the driver passes the number of known
    circuits + 1). -/
def bfsOrder (operands : Nat → List Nat) : Nat → List Nat → List Nat → List Nat → List Nat
  | 0, _, _, out => out
  | _ + 1, [], _, out => out
  | fuel + 1, n :: queue, seen, out =>
      let news := (operands n).foldl (fun acc ch => if seen.contains ch || acc.contains ch then acc else acc ++ [ch]) []
      bfsOrder operands fuel (queue ++ news) (seen ++ news) (out ++ [n])

/-- consumers of `n` among `nodes` in the order `graph_nodes_outgoings` records them (one entry per
    occurrence of `n` in the operand list of a consumer) -/
def outgoings (operands : Nat → List Nat) (nodes : List Nat) (n : Nat) : List Nat :=
  nodes.flatMap fun m => (operands m).filterMap fun ch => if ch == n then some m else none

/-- Kahn's algorithm as in `topological_ordering`: queue of nodes whose pending-input counter is 0 -/
def kahn (operands : Nat → List Nat) (nodes : List Nat) :
    Nat → List Nat → List (Nat × Nat) → List Nat → List Nat
  | 0, _, _, out => out
  | _ + 1, [], _, out => out
  | fuel + 1, child :: queue, counts, out =>
      let (counts', ready) := (outgoings operands nodes child).foldl (fun (acc : List (Nat × Nat) × List Nat) n =>
        let c := (alookup acc.1 n).getD 0
        let acc1 := acc.1.map fun p => if p.1 == n then (n, c - 1) else p
        if c - 1 == 0 && c != 0 then (acc1, acc.2 ++ [n]) else (acc1, acc.2)) (counts, [])
      kahn operands nodes fuel (queue ++ ready) counts' (out ++ [child])

/-- `pipeline_topological_ordering([root])` -/
def pipelineOrder (operands : Nat → List Nat) (fuel : Nat) (root : Nat) : List Nat :=
  let nodes := bfsOrder operands fuel [root] [root] []
  let counts := nodes.map fun n => (n, (operands n).length)
  let inputs := (counts.filter (·.2 == 0)).map (·.1)
  kahn operands nodes (fuel * fuel + fuel + 1) inputs counts []

/-- One pipeline context = one compiler = one bimap symbolic ↔ compiled. -/
structure CtxState where
  /-- (symbolic id, compiled id) pairs -/
  bimap : List (Nat × Nat) := []
  /-- while entered: the context that was active before (`Token`), else none -/
  token : Option Nat := none

structure PState where
  /-- operands of every symbolic circuit created so far (`operation.operands`), indexed by id -/
  operands : List (List Nat) := []
  /-- contexts; context 0 is the default one of the `ContextVar` -/
  ctxs : List CtxState := [{}]
  /-- fresh compiled-circuit id (global: every compiled object is distinct) -/
  nextCc : Nat := 0
  /-- every `_compile_circuit` call so far: (context, symbolic id) in call order -/
  compileLog : List (Nat × Nat) := []
  /-- value of the `_PIPELINE_CONTEXT` context variable -/
  active : Nat := 0

inductive POp' where
  /-- build a base symbolic circuit -/
  | newCircuit
  /-- apply a symbolic operator to existing symbolic circuits -/
  | symOp (operands : List Nat)
  /-- create a new context object -/
  | newCtx
  /-- `ctx.compile(sc)` (ctx = none: the active context, as `cirkit.pipeline.compile`) -/
  | compile (ctx : Option Nat) (sc : Nat)
  /-- `ctx.<operator>(cc…)`: operator function on compiled circuits -/
  | ccOp (ctx : Option Nat) (ccs : List Nat)
  /-- `with ctx:` enter -/
  | enter (ctx : Nat)
  /-- leave (also on an exception escaping the block) -/
  | exit (ctx : Nat)
  /-- queries -/
  | isCompiled (ctx : Option Nat) (sc : Nat)
  | hasSymbolic (ctx : Option Nat) (cc : Nat)
  | getCompiled (ctx : Option Nat) (sc : Nat)
  | getSymbolic (ctx : Option Nat) (cc : Nat)

inductive POut where
  | sc (id : Nat)
  | cc (id : Nat)
  | ctx (id : Nat)
  | bool (b : Bool)
  | unit
  /-- `ValueError` / `KeyError` / refused -/
  | error
  deriving BEq, Repr

namespace PState

def operandsOf (s : PState) (sc : Nat) : List Nat := s.operands.getD sc []

def ctx (s : PState) (c : Nat) : CtxState := s.ctxs.getD c {}

def setCtx (s : PState) (c : Nat) (cs : CtxState) : PState := { s with ctxs := s.ctxs.set c cs }

def compiledOf (s : PState) (c : Nat) (sc : Nat) : Option Nat := alookup (s.ctx c).bimap sc

def symbolicOf (s : PState) (c : Nat) (cc : Nat) : Option Nat :=
  ((s.ctx c).bimap.find? (·.2 == cc)).map (·.1)

/-- `compile_pipeline`: compile every not-yet-compiled circuit of the pipeline in topological
    order, registering each. -/
def compilePipeline (s : PState) (c : Nat) (sc : Nat) : PState :=
  (pipelineOrder s.operandsOf (s.operands.length + 1) sc).foldl (fun s sci =>
    if (s.compiledOf c sci).isSome then s
    else
      let cs := s.ctx c
      { s.setCtx c { cs with bimap := cs.bimap ++ [(sci, s.nextCc)] } with
        nextCc := s.nextCc + 1, compileLog := s.compileLog ++ [(c, sci)] }) s

def compile (s : PState) (c : Nat) (sc : Nat) : PState × POut :=
  if sc ≥ s.operands.length ∨ c ≥ s.ctxs.length then (s, .error)
  else
    match s.compiledOf c sc with
    | some cc => (s, .cc cc)
    | none =>
        let s' := s.compilePipeline c sc
        match s'.compiledOf c sc with
        | some cc => (s', .cc cc)
        | none => (s', .error)

def step (s : PState) : POp' → PState × POut
  | .newCircuit => ({ s with operands := s.operands ++ [[]] }, .sc s.operands.length)
  | .symOp ops =>
      if ops.all (· < s.operands.length) && !ops.isEmpty then
        ({ s with operands := s.operands ++ [ops] }, .sc s.operands.length)
      else (s, .error)
  | .newCtx => ({ s with ctxs := s.ctxs ++ [{}] }, .ctx s.ctxs.length)
  | .compile c sc => s.compile (c.getD s.active) sc
  | .ccOp c ccs =>
      let c := c.getD s.active
      if c ≥ s.ctxs.length ∨ ccs.isEmpty then (s, .error)
      else
        match ccs.mapM (s.symbolicOf c) with
        | none => (s, .error)            -- "not known in this pipeline": ValueError
        | some scs =>
            let s1 := { s with operands := s.operands ++ [scs] }
            s1.compile c s.operands.length
  | .enter c =>
      if c ≥ s.ctxs.length ∨ (s.ctx c).token.isSome then (s, .error)   -- re-entering is not claimed
      else ({ s.setCtx c { s.ctx c with token := some s.active } with active := c }, .unit)
  | .exit c =>
      match (s.ctx c).token with
      | some prev => ({ s.setCtx c { s.ctx c with token := none } with active := prev }, .unit)
      | none => (s, .error)
  | .isCompiled c sc => (s, .bool (s.compiledOf (c.getD s.active) sc).isSome)
  | .hasSymbolic c cc => (s, .bool (s.symbolicOf (c.getD s.active) cc).isSome)
  | .getCompiled c sc => (s, match s.compiledOf (c.getD s.active) sc with | some cc => .cc cc | none => .error)
  | .getSymbolic c cc => (s, match s.symbolicOf (c.getD s.active) cc with | some sc => .sc sc | none => .error)

def run (s : PState) (ops : List POp') : PState × List POut :=
  ops.foldl (fun (acc : PState × List POut) op =>
    let (s', o) := acc.1.step op
    (s', acc.2 ++ [o])) (s, [])

end PState
end Cirkit
