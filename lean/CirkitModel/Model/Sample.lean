/-
  CirkitModel.Model.Sample — the sampling query on the `Node` model, with the random choices as
  data (no probabilities here): the bottom-up batched propagation the implementation performs
  (`propagate`) and the top-down walk that defines the law of the sampler (`follow`).  Import-free.

  Mirrors (modelled, not verified): `cirkit/backend/torch/queries.py` (`SamplingQuery.__call__`,
  `_layer_fn`, `_pad_samples`), `cirkit/backend/torch/layers/inner.py`
  (`TorchHadamardLayer.sample`, `TorchKroneckerLayer.sample`, `TorchSumLayer.sample`),
  `cirkit/backend/torch/layers/optimized.py` (`TorchTuckerLayer.sample` = Kronecker then sum,
  `TorchCPTLayer.sample` = Hadamard then sum), `cirkit/backend/torch/layers/input.py` (`sample` of
  the input layers: one drawn value per unit and per sample).

  For ONE sample index, the implementation computes for every layer a tensor `(K, D)`: one row of
  length `D` (number of variables) per unit.
  * input layer over variable `v`: unit `r` draws a value `a` and its row is zero except column `v`
    which holds `a` (`_pad_samples`);
  * Hadamard layer: the row of unit `i` is the sum over the inputs of the rows of unit `i`
    (`torch.sum(x, dim=1)`);
  * Kronecker layer: the row of unit `o` is the sum over the inputs `h` of the rows of unit
    `digit k ar h o` (`flatten(y0 + y1)`, first input most significant);
  * sum layer: unit `o` has drawn a column `m` of its weight matrix and its row is the row of unit
    `m % kin` of input `m / kin` (`torch.gather` on the inputs flattened as `h * kin + j`).
  The sample returned is the row of unit 0 of the output layer.

  `Draw A` holds the choices: for every position of the tree (a path = list of input indices from
  the root) the value drawn by every unit (read at input layers) and the column drawn by every
  output unit (read at sum layers).  Positions of the unfolded tree that come from the same DAG
  layer may hold the same draws (that is what the implementation does); nothing below depends on
  it.  `A` (the type of drawn values) is independent of the `V` of the node so that the driver can
  record naturals; the theorems that compare with `Node.Reach` take `A = V`.
-/
import CirkitModel.Model.Node

namespace Cirkit

/-- The random choices of one sample, addressed by tree position (path from the root). -/
structure Draw (A : Type) where
  /-- `val p r`: the value drawn by unit `r` of the input layer at position `p` -/
  val : List Nat → Nat → A
  /-- `col p o`: the weight column drawn by output unit `o` of the sum layer at position `p` -/
  col : List Nat → Nat → Nat

namespace Draw
variable {A : Type}

/-- the draws of the sub-tree under input `h` -/
def child (d : Draw A) (h : Nat) : Draw A :=
  { val := fun p => d.val (h :: p), col := fun p => d.col (h :: p) }

/-- `f 0 + f 1 + … + f (n-1)`, left to right, starting from `zero`. -/
def foldN (zero : A) (add : A → A → A) : Nat → (Nat → A) → A
  | 0, _ => zero
  | n + 1, f => add (foldN zero add n f) (f n)

/-- the same over `Fin n` -/
def foldFin (zero : A) (add : A → A → A) (n : Nat) (f : Fin n → A) : A :=
  foldN zero add n (fun i => if h : i < n then f ⟨i, h⟩ else zero)

/-- the first `some` among `f 0, …, f (n-1)` -/
def firstN : Nat → (Nat → Option A) → Option A
  | 0, _ => none
  | n + 1, f => match firstN n f with
      | some a => some a
      | none => f n

/-- the same over `Fin n` -/
def firstFin (n : Nat) (f : Fin n → Option A) : Option A :=
  firstN n (fun i => if h : i < n then f ⟨i, h⟩ else none)

end Draw

namespace Node
variable {R V A : Type}

/-- Bottom-up propagation, as the implementation computes it: `propagate zero add n d i u` is
    column `u` of the row of unit `i` of layer `n` under the draws `d`.  A drawn column outside the
    weight matrix (`m / kin ≥ ar`; `torch.gather` would raise) gives the zero row. -/
def propagate (zero : A) (add : A → A → A) : Node R V → Draw A → Nat → Nat → A
  | leaf v _ _, d, r, u => if u = v then d.val [] r else zero
  | const _ _, _, _, _ => zero
  | sum ar kin _ _ ch, d, o, u =>
      if h : d.col [] o / kin < ar then
        (ch ⟨d.col [] o / kin, h⟩).propagate zero add (d.child (d.col [] o / kin))
          (d.col [] o % kin) u
      else zero
  | had ar _ ch, d, i, u =>
      Draw.foldFin zero add ar fun h => (ch h).propagate zero add (d.child h.val) i u
  | kron ar k ch, d, i, u =>
      Draw.foldFin zero add ar fun h =>
        (ch h).propagate zero add (d.child h.val) (digit k ar h.val i) u

/-- Top-down walk from unit `i`: at a sum layer only the drawn input / unit is followed, at a
    product layer every input; at an input layer over `v` the variable `v` gets the value drawn by
    the unit reached.  `follow n d i u` is the value assigned to variable `u` (`none`: the walk
    does not reach an input layer over `u`; at a product layer the first input that assigns `u` is
    taken — for a decomposable circuit there is at most one). -/
def follow : Node R V → Draw A → Nat → Nat → Option A
  | leaf v _ _, d, r, u => if u = v then some (d.val [] r) else none
  | const _ _, _, _, _ => none
  | sum ar kin _ _ ch, d, o, u =>
      if h : d.col [] o / kin < ar then
        (ch ⟨d.col [] o / kin, h⟩).follow (d.child (d.col [] o / kin)) (d.col [] o % kin) u
      else none
  | had ar _ ch, d, i, u => Draw.firstFin ar fun h => (ch h).follow (d.child h.val) i u
  | kron ar k ch, d, i, u =>
      Draw.firstFin ar fun h => (ch h).follow (d.child h.val) (digit k ar h.val i) u

/-- The draws fit the layer tree: every column drawn by an output unit of a sum layer is a column
    of its weight matrix (`Categorical(probs = weight)` over `ar * kin` columns). -/
def Fits : Node R V → Draw A → Prop
  | leaf _ _ _, _ => True
  | const _ _, _ => True
  | sum ar kin kout _ ch, d =>
      (∀ o, o < kout → d.col [] o < ar * kin) ∧ ∀ h : Fin ar, (ch h).Fits (d.child h.val)
  | had _ _ ch, d => ∀ h : Fin _, (ch h).Fits (d.child h.val)
  | kron _ _ ch, d => ∀ h : Fin _, (ch h).Fits (d.child h.val)

/-- "Unit `r` of an input layer over variable `v` sits at position `p` of the tree." -/
def LeafAt (v : Nat) : Node R V → List Nat → Nat → Prop
  | leaf v' k _, [], r => v = v' ∧ r < k
  | sum ar _ _ _ ch, h :: p, r => ∃ hh : h < ar, (ch ⟨h, hh⟩).LeafAt v p r
  | had ar _ ch, h :: p, r => ∃ hh : h < ar, (ch ⟨h, hh⟩).LeafAt v p r
  | kron ar _ ch, h :: p, r => ∃ hh : h < ar, (ch ⟨h, hh⟩).LeafAt v p r
  | _, _, _ => False

end Node
end Cirkit
