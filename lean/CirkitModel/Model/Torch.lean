/-
  CirkitModel.Model.Torch — the index arithmetic of the torch layer forwards, written literally
  (`cirkit/backend/torch/layers/inner.py`, `layers/optimized.py`, `semiring.py`).  Import-free.
-/
import CirkitModel.Model.Node

namespace Cirkit
variable {R : Type}

/-- one iteration of `TorchKroneckerLayer.forward`:
    `y0 ← flatten(y0.unsqueeze(-1) * x_i.unsqueeze(-2))`, i.e. `new[a * k + b] = y0[a] * x_i[b]` -/
def kronStep (o : Ops R) (k : Nat) (acc v : Nat → R) : Nat → R :=
  fun i => o.mul (acc (i / k)) (v (i % k))

/-- `TorchKroneckerLayer.forward` on the list of input vectors (each with `k` units). -/
def kronLoop (o : Ops R) (k : Nat) : List (Nat → R) → Nat → R
  | [] => fun _ => o.one
  | v :: vs => vs.foldl (kronStep o k) v

/-- Operations pulled back along a bijection given by `φ` and its inverse `ψ`
    (`LSESumSemiring`: `φ = log`, `ψ = exp`). -/
def Ops.transport {L : Type} (o : Ops R) (φ : R → L) (ψ : L → R) : Ops L :=
  { zero := φ o.zero, one := φ o.one
    add := fun a b => φ (o.add (ψ a) (ψ b))
    mul := fun a b => φ (o.mul (ψ a) (ψ b)) }

/-- The same circuit with every input value and weight mapped through `φ`. -/
def Node.mapVals {L V : Type} (φ : R → L) : Node R V → Node L V
  | .leaf v k f => .leaf v k (fun i a => φ (f i a))
  | .const k c => .const k (fun i => φ (c i))
  | .sum ar kin kout W ch => .sum ar kin kout (fun i c => φ (W i c)) (fun h => (ch h).mapVals φ)
  | .had ar k ch => .had ar k (fun h => (ch h).mapVals φ)
  | .kron ar k ch => .kron ar k (fun h => (ch h).mapVals φ)

end Cirkit
