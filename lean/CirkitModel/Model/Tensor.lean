/-
  CirkitModel.Model.Tensor — row-major dense tensors and the index arithmetic of the parameter
  operators (`cirkit/symbolic/parameters.py`, `cirkit/backend/torch/parameters/nodes.py`).
  Import-free.
-/
import CirkitModel.Model.Basic

namespace Cirkit

/-- product of a shape -/
def shapeSize (s : List Nat) : Nat := s.foldl (· * ·) 1

/-- Row-major dense tensor. Invariant (checked by `Tensor.ok`): `data.size = shapeSize shape`. -/
structure Tensor (R : Type) where
  shape : List Nat
  data : Array R

namespace Tensor
variable {R : Type}

def ok (t : Tensor R) : Bool := t.data.size == shapeSize t.shape

/-- flat offset of a multi-index (no bounds check) -/
def offset : List Nat → List Nat → Nat
  | [], _ => 0
  | _, [] => 0
  | d :: ds, i :: is => i * shapeSize ds + offset ds is
  -- (d itself is not needed for the offset, only the trailing sizes)

/-- multi-index of a flat offset -/
def unravel : List Nat → Nat → List Nat
  | [], _ => []
  | _ :: ds, n => (n / shapeSize ds) :: unravel ds (n % shapeSize ds)

def getD (t : Tensor R) (idx : List Nat) (d : R) : R := t.data.getD (offset t.shape idx) d

/-- build from a function on multi-indices -/
def ofFn (shape : List Nat) (f : List Nat → R) : Tensor R :=
  { shape := shape, data := Array.ofFn (n := shapeSize shape) fun i => f (unravel shape i.val) }

/-- entry of a rank-2 tensor -/
def get2 (t : Tensor R) (i j : Nat) (d : R) : R :=
  match t.shape with
  | [_, n] => t.data.getD (i * n + j) d
  | _ => d

/-- entry of a rank-1 tensor -/
def get1 (t : Tensor R) (i : Nat) (d : R) : R := t.data.getD i d

/-- View of `shape` around `axis` as (outer, len, inner). -/
def split3 (shape : List Nat) (axis : Nat) : Nat × Nat × Nat :=
  (shapeSize (shape.take axis), shape.getD axis 1, shapeSize (shape.drop (axis + 1)))

/-- entry `(o, a, i)` of the 3-d view around `axis` -/
def get3 (t : Tensor R) (axis : Nat) (o a i : Nat) (d : R) : R :=
  let (_, len, inner) := split3 t.shape axis
  t.data.getD ((o * len + a) * inner + i) d

/-- build a tensor from its 3-d view around `axis` of the *output* shape -/
def ofFn3 (shape : List Nat) (axis : Nat) (f : Nat → Nat → Nat → R) : Tensor R :=
  let (_, len, inner) := split3 shape axis
  { shape := shape,
    data := Array.ofFn (n := shapeSize shape) fun n =>
      f (n.val / (len * inner)) ((n.val / inner) % len) (n.val % inner) }

def map (f : R → R) (t : Tensor R) : Tensor R := { t with data := t.data.map f }

def zipWith (f : R → R → R) (a b : Tensor R) : Tensor R :=
  { shape := a.shape, data := Array.ofFn (n := a.data.size) fun i =>
      f (a.data.getD i.val (a.data[i])) (b.data.getD i.val (a.data[i])) }

/-- replace position `axis` of a shape -/
def setAxis (shape : List Nat) (axis n : Nat) : List Nat := shape.set axis n

/-- remove position `axis` of a shape -/
def dropAxis (shape : List Nat) (axis : Nat) : List Nat := shape.eraseIdx axis

end Tensor
end Cirkit
