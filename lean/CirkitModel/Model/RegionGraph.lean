/-
  CirkitModel.Model.RegionGraph — region graphs, their validity and structured-decomposability.
  Import-free.

  Mirrors `cirkit/templates/region_graph/graph.py` (`RegionGraph._check_structure`, `scope`,
  `is_structured_decomposable`, `is_omni_compatible`, `dump` / `load`).
-/
import CirkitModel.Model.Scope

namespace Cirkit

/-- A region graph: regions with their scopes, partitions as (output region, input regions), roots. -/
structure RG where
  regions : List Scope
  /-- (index of the region this partition decomposes, indices of its input regions in order) -/
  partitions : List (Nat × List Nat)
  roots : List Nat
  deriving BEq, Repr

namespace RG

def regionScope (g : RG) (i : Nat) : Scope := g.regions.getD i []

/-- all variables = union of the root scopes -/
def scope (g : RG) : Scope := Scope.unionAll (g.roots.map g.regionScope)

/-- total number of variables over the inputs of a partition (with multiplicity) -/
def partSize (g : RG) (ins : List Nat) : Nat := (ins.map fun i => (g.regionScope i).length).sum

/-- `_check_structure` + non-empty scopes + roots exist: every partition splits its region into
    non-empty, pairwise disjoint regions covering it (union equal and sizes add up). -/
def valid (g : RG) : Bool :=
  g.regions.all (fun s => !s.isEmpty) &&
  g.roots.all (· < g.regions.length) && !g.roots.isEmpty &&
  g.partitions.all (fun p =>
    p.1 < g.regions.length && p.2.all (· < g.regions.length) && !p.2.isEmpty &&
    Scope.unionAll (p.2.map g.regionScope) == g.regionScope p.1 &&
    g.partSize p.2 == (g.regionScope p.1).length)

/-- every root covers all the variables of the graph -/
def rootsCover (g : RG) : Bool := g.roots.all fun r => g.regionScope r == g.scope

/-- the decomposition a partition induces, as a canonically sorted list of scopes -/
def decomposition (g : RG) (p : Nat × List Nat) : List Scope := Scope.sortScopes (p.2.map g.regionScope)

/-- `is_structured_decomposable` (set comparison, after the fix of D13): all partitions of one
    scope induce the same set of parts. -/
def isSD (g : RG) : Bool :=
  g.partitions.all fun p => g.partitions.all fun q =>
    g.regionScope p.1 != g.regionScope q.1 || g.decomposition p == g.decomposition q

/-- `is_omni_compatible`: every partition splits into single variables -/
def isOmni (g : RG) : Bool :=
  g.partitions.all fun p => p.2.all fun i => (g.regionScope i).length == 1

/-- `dump`: regions are numbered in node order; each partition records output and inputs -/
structure Dump where
  regions : List (Nat × Scope)
  roots : List Nat
  graph : List (Nat × List Nat)
  deriving BEq

def dump (g : RG) : Dump :=
  { regions := (List.range g.regions.length).map (fun i => (i, g.regionScope i)), roots := g.roots, graph := g.partitions }

/-- `load`: rebuild the graph from a dump -/
def load (d : Dump) : RG :=
  { regions := d.regions.map (·.2), roots := d.roots, partitions := d.graph }

end RG
end Cirkit
