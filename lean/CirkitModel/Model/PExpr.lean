/-
  CirkitModel.Model.PExpr — symbolic parameter graphs and their evaluation.
  Mirrors `cirkit/symbolic/parameters.py` (node kinds, shape rules) and the documented tensor
  function of every node (`cirkit/backend/torch/parameters/nodes.py`).  Import-free.
-/
import CirkitModel.Model.Tensor

namespace Cirkit

/-- Parameter operators (inner nodes of a parameter graph); axes are already normalised to be
    non-negative, as the constructors of the symbolic nodes do. -/
inductive POp where
  | index (indices : List Nat) (axis : Nat)
  | sum | hadamard | kronecker
  | outerProduct (axis : Nat) | outerSum (axis : Nat)
  | exp | log | square | softplus | sigmoid
  | scaledSigmoid (vmin vmax : Rat)
  | clamp (vmin vmax : Option Rat)
  | conj
  | reduceSum (axis : Nat) | reduceProd (axis : Nat) | reduceLSE (axis : Nat)
  | softmax (axis : Nat) | logSoftmax (axis : Nat)
  | mixing
  | gaussProdMean | gaussProdStddev | gaussProdLogPart
  | polyProduct | polyDiff (order : Nat)
  | matmul | flatten (startDim endDim : Nat)
  deriving Repr

/-- Parameter graphs (as trees; sharing is irrelevant for the value). -/
inductive PExpr (R : Type) where
  /-- learnable/constant dense tensor leaf identified by `uid`; its value comes from the valuation -/
  | tensor (uid : Nat) (shape : List Nat)
  /-- constant leaf with the values written in the symbolic circuit -/
  | const (shape : List Nat) (vals : Array R)
  /-- reference to the tensor leaf `uid` of another layer / circuit -/
  | ref (uid : Nat) (shape : List Nat)
  | app (op : POp) (args : List (PExpr R))

/-- shape rules of `cirkit/symbolic/parameters.py` -/
def POp.shape (op : POp) (ins : List (List Nat)) : Option (List Nat) :=
  match op, ins with
  | .index idx ax, [s] => if ax < s.length then some (s.set ax idx.length) else none
  | .sum, [s1, s2] => if s1 = s2 then some s1 else none
  | .hadamard, [s1, s2] => if s1 = s2 then some s1 else none
  | .kronecker, [s1, s2] =>
      if s1.length = s2.length then some (List.zipWith (· * ·) s1 s2) else none
  | .outerProduct ax, [s1, s2] | .outerSum ax, [s1, s2] =>
      if s1.length = s2.length ∧ ax < s1.length then
        some (s1.set ax (s1.getD ax 0 * s2.getD ax 0)) else none
  | .exp, [s] | .log, [s] | .square, [s] | .softplus, [s] | .sigmoid, [s]
  | .scaledSigmoid _ _, [s] | .clamp _ _, [s] | .conj, [s] => some s
  | .reduceSum ax, [s] | .reduceProd ax, [s] | .reduceLSE ax, [s] =>
      if ax < s.length then some (s.eraseIdx ax) else none
  | .softmax ax, [s] | .logSoftmax ax, [s] => if ax < s.length then some s else none
  | .mixing, [[k, h]] => some [k, k * h]
  | .gaussProdMean, [[k1], [_], [k2], [_]] => some [k1 * k2]
  | .gaussProdLogPart, [[k1], [_], [k2], [_]] => some [k1 * k2]
  | .gaussProdStddev, [[k1], [k2]] => some [k1 * k2]
  | .polyProduct, [[k1, d1], [k2, d2]] => some [k1 * k2, d1 + d2 - 1]
  | .polyDiff ord, [[k, d]] => some [k, if d > ord then d - ord else 1]
  | .matmul, [[a, b], [b', c]] => if b = b' then some [a, c] else none
  | .flatten s e, [sh] =>
      if s < e ∧ e < sh.length then
        some (sh.take s ++ [shapeSize ((sh.drop s).take (e - s + 1))] ++ sh.drop (e + 1))
      else none
  | _, _ => none

namespace PExpr
variable {R : Type}

/-- `n!` as a value -/
def factR (A : AOps R) : Nat → R
  | 0 => A.one
  | n + 1 => A.mul (A.ofRat (n + 1 : Nat)) (factR A n)

/-- `n * (n-1) * ... * (n-k+1)` (falling factorial) as a value -/
def fallR (A : AOps R) (n k : Nat) : R :=
  A.toOps.prodN k fun i => A.ofRat ((n - i : Nat) : Rat)

/-- a maximal entry among `f 0 .. f (len-1)` where the order is decidable (`A.le`), else `0`; only
    used as the shift of the stable log-sum-exp / softmax below, which do not depend on its value
    mathematically (`C01.lse_shift`) but do in floating point -/
def shiftOf (A : AOps R) (len : Nat) (f : Nat → R) : R := Id.run do
  if len = 0 then return A.zero
  let mut m := f 0
  for a in [1:len] do
    match A.le m (f a) with
    | some true => m := f a
    | some false => pure ()
    | none => return A.zero
  return m

/-- log-sum-exp of `len` entries, shifted by a maximal entry: `m + log Σ exp (f a - m)` -/
def lse (A : AOps R) (len : Nat) (f : Nat → R) : Option R := do
  let m := shiftOf A len f
  let mut acc := A.zero
  for a in [0:len] do
    acc := A.add acc (← A.exp (A.sub (f a) m))
  pure (A.add m (← A.log acc))

/-- Apply one operator to evaluated arguments. `none` = the value domain cannot carry this
    operator exactly (e.g. `exp` over `Rat`) or the arguments are ill-shaped. -/
def applyOp (A : AOps R) (op : POp) (args : List (Tensor R)) : Option (Tensor R) := do
  let z := A.zero
  let outShape ← op.shape (args.map (·.shape))
  match op, args with
  | .index idx ax, [t] =>
      some <| Tensor.ofFn3 outShape ax fun o j i => t.get3 ax o (idx.getD j 0) i z
  | .sum, [a, b] => some <| Tensor.zipWith A.add a b
  | .hadamard, [a, b] => some <| Tensor.zipWith A.mul a b
  | .kronecker, [a, b] =>
      some <| Tensor.ofFn outShape fun idx =>
        let ia := List.zipWith (· / ·) idx b.shape
        let ib := List.zipWith (· % ·) idx b.shape
        A.mul (a.getD ia z) (b.getD ib z)
  | .outerProduct ax, [a, b] =>
      let n2 := b.shape.getD ax 1
      some <| Tensor.ofFn3 outShape ax fun o c i =>
        A.mul (a.get3 ax o (c / n2) i z) (b.get3 ax o (c % n2) i z)
  | .outerSum ax, [a, b] =>
      let n2 := b.shape.getD ax 1
      some <| Tensor.ofFn3 outShape ax fun o c i =>
        A.add (a.get3 ax o (c / n2) i z) (b.get3 ax o (c % n2) i z)
  | .exp, [t] => do some { t with data := ← t.data.mapM A.exp }
  | .log, [t] => do some { t with data := ← t.data.mapM A.log }
  | .square, [t] => some <| t.map fun x => A.mul x x
  | .softplus, [t] => do
      -- log (1 + exp x), computed as x + log (1 + exp (-x)) for x ≥ 0 (the same number; no overflow
      -- of `exp` in floating point for large x)
      some { t with data := ← t.data.mapM fun x => do
        match A.le A.zero x with
        | some true => pure (A.add x (← A.log (A.add A.one (← A.exp (A.neg x)))))
        | _ => A.log (A.add A.one (← A.exp x)) }
  | .sigmoid, [t] => do
      some { t with data := ← t.data.mapM fun x => do A.inv (A.add A.one (← A.exp (A.neg x))) }
  | .scaledSigmoid vmin vmax, [t] => do
      some { t with data := ← t.data.mapM fun x => do
        let s ← A.inv (A.add A.one (← A.exp (A.neg x)))
        pure (A.add (A.mul s (A.ofRat (vmax - vmin))) (A.ofRat vmin)) }
  | .clamp vmin vmax, [t] => do
      some { t with data := ← t.data.mapM fun x => do
        let x1 ← match vmin with
          | some lo => do if (← A.le x (A.ofRat lo)) then pure (A.ofRat lo) else pure x
          | none => pure x
        match vmax with
          | some hi => do if (← A.le (A.ofRat hi) x1) then pure (A.ofRat hi) else pure x1
          | none => pure x1 }
  | .conj, [t] => some <| t.map A.conj
  | .reduceSum ax, [t] =>
      let (_, len, inner) := Tensor.split3 t.shape ax
      some { shape := outShape, data := Array.ofFn (n := shapeSize outShape) fun n =>
        A.toOps.sumN len fun a => t.get3 ax (n.val / inner) a (n.val % inner) z }
  | .reduceProd ax, [t] =>
      let (_, len, inner) := Tensor.split3 t.shape ax
      some { shape := outShape, data := Array.ofFn (n := shapeSize outShape) fun n =>
        A.toOps.prodN len fun a => t.get3 ax (n.val / inner) a (n.val % inner) z }
  | .reduceLSE ax, [t] => do
      let (_, len, inner) := Tensor.split3 t.shape ax
      let data ← (Array.range (shapeSize outShape)).mapM fun n =>
        lse A len fun a => t.get3 ax (n / inner) a (n % inner) z
      some { shape := outShape, data := data }
  | .softmax ax, [t] => do
      let (_, len, inner) := Tensor.split3 t.shape ax
      -- softmax = exp (x - lse x), with the shifted log-sum-exp (no overflow in floating point)
      let data ← (Array.range (shapeSize outShape)).mapM fun n => do
        let o := n / (len * inner); let i := n % inner
        let l ← lse A len fun a => t.get3 ax o a i z
        A.exp (A.sub (t.data.getD n z) l)
      some { shape := outShape, data := data }
  | .logSoftmax ax, [t] => do
      let (_, len, inner) := Tensor.split3 t.shape ax
      let data ← (Array.range (shapeSize outShape)).mapM fun n => do
        let o := n / (len * inner); let i := n % inner
        let l ← lse A len fun a => t.get3 ax o a i z
        pure (A.sub (t.data.getD n z) l)
      some { shape := outShape, data := data }
  | .mixing, [t] =>
      match t.shape with
      | [k, _] => some <| Tensor.ofFn outShape fun idx =>
          match idx with
          | [r, c] => if c % k = r then t.get2 r (c / k) z else z
          | _ => z
      | _ => none
  | .gaussProdMean, [m1, s1, m2, s2] => do
      let k2 := m2.data.size
      let data ← (Array.range (shapeSize outShape)).mapM fun n => do
        let i := n / k2; let j := n % k2
        let v1 := A.mul (s1.get1 i z) (s1.get1 i z); let v2 := A.mul (s2.get1 j z) (s2.get1 j z)
        let iv ← A.inv (A.add v1 v2)
        pure (A.mul (A.add (A.mul (m1.get1 i z) v2) (A.mul (m2.get1 j z) v1)) iv)
      some { shape := outShape, data := data }
  | .gaussProdStddev, [s1, s2] => do
      let k2 := s2.data.size
      let data ← (Array.range (shapeSize outShape)).mapM fun n => do
        let i := n / k2; let j := n % k2
        let v1 := A.mul (s1.get1 i z) (s1.get1 i z); let v2 := A.mul (s2.get1 j z) (s2.get1 j z)
        let v ← A.inv (A.add (← A.inv v1) (← A.inv v2))
        A.sqrt v
      some { shape := outShape, data := data }
  | .gaussProdLogPart, [m1, s1, m2, s2] => do
      let k2 := m2.data.size
      let twoPi ← A.log (A.mul (A.ofRat 2) (A.ofRat (884279719003555 / 281474976710656)))
      let data ← (Array.range (shapeSize outShape)).mapM fun n => do
        let i := n / k2; let j := n % k2
        let v1 := A.mul (s1.get1 i z) (s1.get1 i z); let v2 := A.mul (s2.get1 j z) (s2.get1 j z)
        let v12 := A.add v1 v2
        let d := A.sub (m1.get1 i z) (m2.get1 j z)
        let maha := A.mul (A.mul d d) (← A.inv v12)
        pure (A.mul (A.ofRat (-1/2)) (A.add (A.add twoPi (← A.log v12)) maha))
      some { shape := outShape, data := data }
  | .polyProduct, [a, b] =>
      match a.shape, b.shape with
      | [_, d1], [k2, d2] => some <| Tensor.ofFn outShape fun idx =>
          match idx with
          | [r, n] =>
              A.toOps.sumN d1 fun p =>
                if p ≤ n ∧ n - p < d2 then A.mul (a.get2 (r / k2) p z) (b.get2 (r % k2) (n - p) z)
                else z
          | _ => z
      | _, _ => none
  | .polyDiff ord, [t] =>
      match t.shape with
      | [_, d] =>
          if d > ord then
            some <| Tensor.ofFn outShape fun idx =>
              match idx with
              | [r, n] => A.mul (fallR A (n + ord) ord) (t.get2 r (n + ord) z)
              | _ => z
          else some <| Tensor.ofFn outShape fun _ => z
      | _ => none
  | .matmul, [a, b] =>
      match a.shape with
      | [_, m] => some <| Tensor.ofFn outShape fun idx =>
          match idx with
          | [r, c] => A.toOps.sumN m fun p => A.mul (a.get2 r p z) (b.get2 p c z)
          | _ => z
      | _ => none
  | .flatten _ _, [t] => some { t with shape := outShape }
  | _, _ => none

/-- Evaluate under a valuation of the tensor leaves. Errors: `unbound uid`, `bad shape`,
    `unsupported <op>` (operator not exact in this value domain). -/
def eval (A : AOps R) (θ : Nat → Option (Array R)) (pre : R → R := id) : PExpr R → Except String (Tensor R)
  | tensor uid shape | ref uid shape =>
      match θ uid with
      | some d => if d.size = shapeSize shape then .ok { shape := shape, data := d.map pre }
                  else .error s!"bad size for tensor {uid}"
      | none => .error s!"unbound tensor {uid}"
  | const shape vals =>
      if vals.size = shapeSize shape then .ok { shape := shape, data := vals.map pre }
      else .error "bad size for constant"
  | app op args => do
      let vs ← evalList A θ pre args
      match applyOp A op vs with
      | some t => .ok t
      | none => .error s!"unsupported {repr op}"
where
  evalList (A : AOps R) (θ : Nat → Option (Array R)) (pre : R → R) : List (PExpr R) → Except String (List (Tensor R))
  | [] => .ok []
  | e :: es => do
      let v ← eval A θ pre e
      let vs ← evalList A θ pre es
      .ok (v :: vs)

/-- symbolic shape of a parameter graph -/
def shape : PExpr R → Option (List Nat)
  | tensor _ s | ref _ s | const s _ => some s
  | app op args => do
      let ss ← shapeList args
      op.shape ss
where
  shapeList : List (PExpr R) → Option (List (List Nat))
  | [] => some []
  | e :: es => do
      let s ← shape e
      let ss ← shapeList es
      some (s :: ss)

/-- The leaves of a parameter graph: `(uid, isRef)` for tensors and references. -/
def leaves : PExpr R → List (Nat × Bool)
  | tensor uid _ => [(uid, false)]
  | ref uid _ => [(uid, true)]
  | const _ _ => []
  | app _ args => leavesList args
where
  leavesList : List (PExpr R) → List (Nat × Bool)
  | [] => []
  | e :: es => leaves e ++ leavesList es

end PExpr
end Cirkit
