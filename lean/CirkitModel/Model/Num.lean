/-
  CirkitModel.Model.Num — the executable value domains: `Rat` (exact), `GaussRat` (ℚ[i], exact
  complex), `Dual` numbers over `Rat` (exact forward-mode derivative) and `Float` (tolerance oracle
  only; no theorem mentions it).  Import-free.
-/
import CirkitModel.Model.Basic

namespace Cirkit

def ratOps : Ops Rat := { zero := 0, one := 1, add := (· + ·), mul := (· * ·) }

def showRat (x : Rat) : String := s!"{x.num}/{x.den}"

def ratToNat (x : Rat) : Option Nat := if x.den = 1 ∧ 0 ≤ x.num then some x.num.toNat else none

def ratA : AOps Rat :=
  { ratOps with
    neg := fun x => -x
    sub := (· - ·)
    inv := fun x => if x = 0 then none else some x⁻¹
    exp := fun x => if x = 0 then some 1 else none
    log := fun x => if x = 1 then some 0 else none
    sqrt := fun x => if x = 0 then some 0 else if x = 1 then some 1 else none
    conj := id
    absv := fun x => if x < 0 then -x else x
    ofRat := id
    toNat := ratToNat
    le := fun a b => some (decide (a ≤ b))
    show_ := showRat
    analytic := false }

/-- ℚ[i] -/
structure GaussRat where
  re : Rat
  im : Rat
  deriving BEq

namespace GaussRat
def add (a b : GaussRat) : GaussRat := ⟨a.re + b.re, a.im + b.im⟩
def mul (a b : GaussRat) : GaussRat := ⟨a.re * b.re - a.im * b.im, a.re * b.im + a.im * b.re⟩
def neg (a : GaussRat) : GaussRat := ⟨-a.re, -a.im⟩
def conj (a : GaussRat) : GaussRat := ⟨a.re, -a.im⟩
def inv (a : GaussRat) : Option GaussRat :=
  let n := a.re * a.re + a.im * a.im
  if n = 0 then none else some ⟨a.re / n, -a.im / n⟩
end GaussRat

def gaussOps : Ops GaussRat :=
  { zero := ⟨0, 0⟩, one := ⟨1, 0⟩, add := GaussRat.add, mul := GaussRat.mul }

def gaussA : AOps GaussRat :=
  { gaussOps with
    neg := GaussRat.neg
    sub := fun a b => GaussRat.add a (GaussRat.neg b)
    inv := GaussRat.inv
    exp := fun a => if a.re = 0 ∧ a.im = 0 then some ⟨1, 0⟩ else none
    log := fun a => if a.re = 1 ∧ a.im = 0 then some ⟨0, 0⟩ else none
    sqrt := fun _ => none
    conj := GaussRat.conj
    absv := fun a => ⟨(if a.re < 0 then -a.re else a.re) + (if a.im < 0 then -a.im else a.im), 0⟩
    ofRat := fun q => ⟨q, 0⟩
    toNat := fun a => if a.im = 0 then ratToNat a.re else none
    le := fun _ _ => none
    show_ := fun a => s!"{showRat a.re},{showRat a.im}"
    analytic := false }

/-- dual numbers `a + b ε`, `ε² = 0` -/
structure Dual where
  v : Rat
  d : Rat
  deriving BEq

def dualOps : Ops Dual :=
  { zero := ⟨0, 0⟩, one := ⟨1, 0⟩
    add := fun a b => ⟨a.v + b.v, a.d + b.d⟩
    mul := fun a b => ⟨a.v * b.v, a.v * b.d + a.d * b.v⟩ }

def dualA : AOps Dual :=
  { dualOps with
    neg := fun a => ⟨-a.v, -a.d⟩
    sub := fun a b => ⟨a.v - b.v, a.d - b.d⟩
    inv := fun a => if a.v = 0 then none else some ⟨a.v⁻¹, -a.d / (a.v * a.v)⟩
    exp := fun _ => none
    log := fun _ => none
    sqrt := fun _ => none
    conj := id
    absv := fun a => ⟨(if a.v < 0 then -a.v else a.v), (if a.d < 0 then -a.d else a.d)⟩
    ofRat := fun q => ⟨q, 0⟩
    toNat := fun a => ratToNat a.v
    le := fun a b => some (decide (a.v ≤ b.v))
    show_ := fun a => s!"{showRat a.v},{showRat a.d}"
    analytic := false }

def floatOps : Ops Float := { zero := 0.0, one := 1.0, add := (· + ·), mul := (· * ·) }

def ratToFloat (q : Rat) : Float := Float.ofInt q.num / Float.ofNat q.den

def floatA : AOps Float :=
  { floatOps with
    neg := fun x => -x
    sub := (· - ·)
    inv := fun x => some (1.0 / x)
    exp := fun x => some x.exp
    log := fun x => some x.log
    sqrt := fun x => some x.sqrt
    conj := id
    absv := Float.abs
    ofRat := ratToFloat
    toNat := fun x => if x ≥ 0.0 ∧ x.floor == x then some x.toUInt64.toNat else none
    le := fun a b => some (decide (a ≤ b))
    show_ := fun x => toString x.toBits
    analytic := true }

end Cirkit

namespace Cirkit

/-- Truncated power series ("jets") `a₀ + a₁ t + … + a_K t^K` over `Rat`: evaluating a polynomial
    circuit at `x_v + t` gives, in the coefficient of `t^k`, the k-th partial derivative in `v`
    divided by `k!` (the exact specification side of C05). -/
abbrev Jet := Array Rat

namespace Jet
def coeff (a : Jet) (i : Nat) : Rat := a.getD i 0
def ofConst (K : Nat) (q : Rat) : Jet := Array.ofFn (n := K + 1) fun i => if i.val = 0 then q else 0
def add (K : Nat) (a b : Jet) : Jet := Array.ofFn (n := K + 1) fun i => coeff a i.val + coeff b i.val
def mul (K : Nat) (a b : Jet) : Jet :=
  Array.ofFn (n := K + 1) fun i =>
    (List.range (i.val + 1)).foldl (fun acc j => acc + coeff a j * coeff b (i.val - j)) 0
end Jet

def jetOps (K : Nat) : Ops Jet :=
  { zero := Jet.ofConst K 0, one := Jet.ofConst K 1, add := Jet.add K, mul := Jet.mul K }

def jetA (K : Nat) : AOps Jet :=
  { jetOps K with
    neg := fun a => a.map (fun x => -x)
    sub := fun a b => Jet.add K a (b.map (fun x => -x))
    inv := fun _ => none
    exp := fun _ => none
    log := fun _ => none
    sqrt := fun _ => none
    conj := id
    absv := fun a => a.map (fun x => if x < 0 then -x else x)
    ofRat := Jet.ofConst K
    toNat := fun a => if (a.toList.drop 1).all (· == 0) then ratToNat (Jet.coeff a 0) else none
    le := fun _ _ => none
    show_ := fun a => ",".intercalate (a.toList.map showRat)
    analytic := false }

end Cirkit
