/-
  CirkitModel.Model.Basic — the operation records over which every semantic function of the
  model is written.  Import-free (core Lean only), so the very same definitions are
  (a) instantiated at an arbitrary Mathlib `CommSemiring` in the proof files and
  (b) executed by the driver at `Rat`, `GaussRat`, `Dual Rat` and `Float`.
-/
namespace Cirkit

/-- The semiring operations used by circuit evaluation. -/
structure Ops (R : Type) where
  zero : R
  one : R
  add : R → R → R
  mul : R → R → R

namespace Ops
variable {R : Type}

/-- `Σ_{i<n} f i`, left to right. -/
def sumN (o : Ops R) : Nat → (Nat → R) → R
  | 0, _ => o.zero
  | n + 1, f => o.add (sumN o n f) (f n)

/-- `Π_{i<n} f i`, left to right. -/
def prodN (o : Ops R) : Nat → (Nat → R) → R
  | 0, _ => o.one
  | n + 1, f => o.mul (prodN o n f) (f n)

/-- `Σ_{h : Fin n} f h`. -/
def sumFin (o : Ops R) (n : Nat) (f : Fin n → R) : R :=
  o.sumN n (fun i => if h : i < n then f ⟨i, h⟩ else o.zero)

/-- `Π_{h : Fin n} f h`. -/
def prodFin (o : Ops R) (n : Nat) (f : Fin n → R) : R :=
  o.prodN n (fun i => if h : i < n then f ⟨i, h⟩ else o.one)

/-- Sum of a list. -/
def sumL (o : Ops R) (l : List R) : R := l.foldl o.add o.zero

end Ops

/-- Analytic / ordered extension used only by parameter graphs and input layers that are not
    polynomial (softmax, Gaussian densities, clamp ...).  Operations that an instance cannot
    perform exactly return `none` (e.g. `exp` over `Rat`); the evaluator then reports
    `unsupported` instead of inventing a value. -/
structure AOps (R : Type) extends Ops R where
  neg : R → R
  sub : R → R → R
  inv : R → Option R
  exp : R → Option R
  log : R → Option R
  sqrt : R → Option R
  conj : R → R
  /-- a real upper bound of the size (|x|; |re|+|im| for complex): magnitude evaluation only -/
  absv : R → R
  ofRat : Rat → R
  /-- the natural number a value denotes, if it is one (category index of a discrete input) -/
  toNat : R → Option Nat
  /-- order comparison (clamp); `none` where there is no order (complex) -/
  le : R → R → Option Bool
  /-- canonical printing (exact fraction, pair of fractions, or 17-digit decimal) -/
  show_ : R → String
  /-- whether exp / log / sqrt are available at every argument (Float) or only at exact points -/
  analytic : Bool

/-- The digit of unit index `i` that input `h` of a Kronecker layer of arity `ar` over inputs with
    `k` units reads: most significant digit first. -/
def digit (k ar : Nat) (h : Nat) (i : Nat) : Nat := (i / k ^ (ar - 1 - h)) % k

end Cirkit
