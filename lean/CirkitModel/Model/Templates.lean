/-
  CirkitModel.Model.Templates — the layer trees built by the circuit templates
  `cirkit/templates/tensor_factorizations.py` (`cp`, `tucker`, `tensor_train`) and
  `cirkit/templates/pgms.py` (`hmm`, `fully_factorized`), as computable builders of `Node R V`.

  Import-free (core Lean only): the driver executes these builders (`Driver/TemplateCmd.lean`) and
  `CirkitModel/Proofs/TemplatesFull.lean` / `Properties/C20.lean` prove what they evaluate to.

  Conventions shared by all builders
  * an input layer over variable `v` with `k` units is `Node.leaf v k f`, unit `r` computes
    `f r (x v)`.  For an `EmbeddingLayer` with weight `E` of shape `(num_units, num_states)` this is
    `f r a = E[r, a]` (`tbl2`);
  * a sum layer of arity `H` over inputs with `kin` units reads column `h * kin + j` of its weight
    for unit `j` of input `h` (`Node.sum`);
  * the DAG of the real circuit is unfolded into a tree (a shared layer is repeated); the denoted
    function is the same.
-/
import CirkitModel.Model.Node

namespace Cirkit.Tpl
variable {R V : Type}

/-! ### table look-ups (plain data → the Nat-indexed functions the builders take) -/

/-- entry `i` of a vector given as a list, `z` outside -/
def tbl1 (z : R) (t : List R) (i : Nat) : R := t.getD i z

/-- entry `[r, a]` of a matrix given as a list of rows, `z` outside -/
def tbl2 (z : R) (t : List (List R)) (r a : Nat) : R := (t.getD r []).getD a z

/-- entry `[m][r, a]` of a list of matrices -/
def tbl3 (z : R) (t : List (List (List R))) (m r a : Nat) : R := tbl2 z (t.getD m []) r a

/-- entry `[m][q][r, a]` of a list of lists of matrices -/
def tbl4 (z : R) (t : List (List (List (List R)))) (m q r a : Nat) : R := tbl3 z (t.getD m []) q r a

/-! ### CP — `tensor_factorizations.cp(shape, rank)`

  `embedding_layers[j] = Embedding(Scope([j]), rank)` for `j = 0 … n-1` (`n = len(shape)`),
  `hadamard_layer = HadamardLayer(rank, arity=n)` over them in that order,
  `sum_layer = SumLayer(rank, 1, arity=1, weight=w)` (`w` has shape `(1, rank)`; all ones when
  `weight_param is None`) over the Hadamard layer; output = the sum layer. -/

/-- `A j r a` = unit `r` of the factor of mode `j` at index `a`; `w r` = the weight of rank `r`. -/
def cpNode (n rank : Nat) (w : Nat → R) (A : Nat → Nat → V → R) : Node R V :=
  .sum 1 rank 1 (fun _ c => w c)
    (fun _ => .had n rank (fun j => .leaf j.val rank (A j.val)))

/-! ### Tucker — `tensor_factorizations.tucker(shape, rank)`

  Same embeddings; `kronecker_layer = KroneckerLayer(rank, arity=n)` over them in order (first
  mode most significant in the unit index), `sum_layer = SumLayer(rank ** n, 1, arity=1)` whose
  weight row (shape `(1, rank ** n)`) is the core tensor flattened in row-major order. -/

/-- `core c` = entry `c` of the flattened core (`c < rank ^ n`). -/
def tuckerNode (n rank : Nat) (core : Nat → R) (A : Nat → Nat → V → R) : Node R V :=
  .sum 1 (rank ^ n) 1 (fun _ c => core c)
    (fun _ => .kron n rank (fun j => .leaf j.val rank (A j.val)))

/-! ### tensor train — `tensor_factorizations.tensor_train(shape, rank)`

  `first_embedding = Embedding(Scope([0]), rank)`, `last_embedding = Embedding(Scope([n-1]), rank)`,
  and for every inner mode `m = 1 … n-2`, `rank` embeddings `inner_embeddings[m-1][q]`
  (`q = 0 … rank-1`) over `Scope([m])` with `rank` units each.

  Loop `for i in range(n - 1)` with `cur_sl = first_embedding`:
  * `i < n-2` : `prod_sls[q] = HadamardLayer(rank, arity=2)` with inputs
    `[cur_sl, inner_embeddings[i][q]]` for `q = 0 … rank-1`, then
    `sum_sl = SumLayer(rank, rank, arity=rank, weight = block_diag(1_{1×rank}, …, 1_{1×rank}))` over
    `prod_sls`; `cur_sl = sum_sl`.  Row `o` of the `(rank, rank*rank)` weight is 1 exactly on the
    columns `o*rank … o*rank + rank-1`, i.e. on the units of input `o`.
  * `i = n-2` : `prod_sl = HadamardLayer(rank, arity=2)` with inputs `[cur_sl, last_embedding]`,
    `sum_sl = SumLayer(rank, 1, arity=1, weight = 1_{1×rank})`; output.
  When `n = 2` only the second branch runs. -/

/-- the block-diagonal ones matrix `block_diag(1_{1×rank}, …)`: entry `[o, c]` -/
def mavOnes (o : Ops R) (rank : Nat) (i c : Nat) : R := if c / rank = i then o.one else o.zero

/-- `cur_sl` after `m` matrix–vector steps (modes `0 … m` consumed).
    `G m q r a` = unit `r` of inner embedding number `q` of mode `m` at index `a`. -/
def ttChain (o : Ops R) (rank : Nat) (first : Nat → V → R) (G : Nat → Nat → Nat → V → R) :
    Nat → Node R V
  | 0 => .leaf 0 rank first
  | m + 1 =>
      .sum rank rank rank (mavOnes o rank)
        (fun q => .had 2 rank (fun h =>
          if h.val = 0 then ttChain o rank first G m else .leaf (m + 1) rank (G (m + 1) q.val)))

/-- The tensor-train circuit over `n = inner + 2` modes (variables `0 … inner + 1`).
    `first r a`, `last r a` = unit `r` of the first / last embedding at index `a`. -/
def ttNode (o : Ops R) (inner rank : Nat) (first : Nat → V → R) (G : Nat → Nat → Nat → V → R)
    (last : Nat → V → R) : Node R V :=
  .sum 1 rank 1 (fun _ _ => o.one)
    (fun _ => .had 2 rank (fun h =>
      if h.val = 0 then ttChain o rank first G inner else .leaf (inner + 1) rank last))

/-! ### hidden Markov model — `pgms.hmm(ordering, num_latent_states = K)`

  With `n = len(ordering)`: `input_sl = input_factories[ordering[n-1]](Scope([ordering[n-1]]), K)`
  and `sum_sl = SumLayer(K, 1 if n == 1 else K)` over it.  Then for `i = n-2, …, 0`:
  `input_sl = input_factories[ordering[i]](Scope([ordering[i]]), K)`,
  `prod_sl = HadamardLayer(K, 2)` with inputs `[last_dense, input_sl]`,
  `sum_sl = SumLayer(K, 1 if i == 0 else K)` over `prod_sl`.  Output = the last sum layer.

  So the layer of position `i` of the ordering is a dense sum layer (`T i`, weight of shape
  `(outUnits i, K)`, arity 1) over `[layer of position i+1] ⊙ [input layer of variable
  ordering[i]]` (just the input layer for the last position).  The input layer of variable id `v`
  is built by factory number `v` (per-variable kwargs are looked up by variable id):
  `E v r a` = unit `r` of that layer at value `a`. -/

/-- number of output units of the sum layer at position `pos` of the ordering -/
def hmmOut (K pos : Nat) : Nat := if pos = 0 then 1 else K

/-- The sub-circuit rooted at the sum layer of position `pos`, where `v = ordering[pos]` and
    `rest = ordering[pos+1:]`. -/
def hmmFrom (K : Nat) (E : Nat → Nat → V → R) (T : Nat → Nat → Nat → R) :
    Nat → Nat → List Nat → Node R V
  | pos, v, [] => .sum 1 K (hmmOut K pos) (T pos) (fun _ => .leaf v K (E v))
  | pos, v, w :: rest =>
      .sum 1 K (hmmOut K pos) (T pos)
        (fun _ => .had 2 K (fun h =>
          if h.val = 0 then hmmFrom K E T (pos + 1) w rest else .leaf v K (E v)))

/-- The HMM circuit of an ordering.  (The real template raises `ValueError` on the empty ordering;
    the model returns a layer with no units.) -/
def hmmNode (K : Nat) (E : Nat → Nat → V → R) (T : Nat → Nat → Nat → R) : List Nat → Node R V
  | [] => .const 0 (fun _ => T 0 0 0)
  | v :: rest => hmmFrom K E T 0 v rest

/-! ### fully factorised — `pgms.fully_factorized(num_variables = n)`

  `input_layers[i] = input_factories[i](Scope([i]), 1)`; for `n = 1` the output is that input layer,
  otherwise `HadamardLayer(1, arity=n)` over them in order.  (`n = 0` raises in the real template;
  the model then builds the empty Hadamard layer.) -/

/-- `F i a` = the single unit of the input layer of variable `i` at value `a`. -/
def ffNode (n : Nat) (F : Nat → V → R) : Node R V :=
  if n = 1 then .leaf 0 1 (fun _ => F 0)
  else .had n 1 (fun j => .leaf j.val 1 (fun _ => F j.val))

/-! ### the documented contractions, as executable recursions (specification side) -/

/-- tensor train: the left-to-right vector after `m` steps,
    `v_0 = first[·, x_0]`, `v_{m+1}[q] = Σ_r v_m[r] · G_{m+1}[q][r, x_{m+1}]`. -/
def ttVec (o : Ops R) (rank : Nat) (first : Nat → V → R) (G : Nat → Nat → Nat → V → R)
    (x : Nat → V) : Nat → Nat → R
  | 0, r => first r (x 0)
  | m + 1, q => o.sumN rank fun r => o.mul (ttVec o rank first G x m r) (G (m + 1) q r (x (m + 1)))

/-- tensor train: the value `Σ_r v_{n-2}[r] · last[r, x_{n-1}]`. -/
def ttVal (o : Ops R) (inner rank : Nat) (first : Nat → V → R) (G : Nat → Nat → Nat → V → R)
    (last : Nat → V → R) (x : Nat → V) : R :=
  o.sumN rank fun r => o.mul (ttVec o rank first G x inner r) (last r (x (inner + 1)))

/-- HMM: the backward message of position `pos` (`v = ordering[pos]`, `rest = ordering[pos+1:]`):
    `β_pos[o] = Σ_j T_pos[o, j] · β_{pos+1}[j] · E_v[j](x_v)` (no `β` factor at the last position). -/
def hmmBack (o : Ops R) (K : Nat) (E : Nat → Nat → V → R) (T : Nat → Nat → Nat → R) (x : Nat → V) :
    Nat → Nat → List Nat → Nat → R
  | pos, v, [], i => o.sumN K fun j => o.mul (T pos i j) (E v j (x v))
  | pos, v, w :: rest, i =>
      o.sumN K fun j => o.mul (T pos i j) (o.mul (hmmBack o K E T x (pos + 1) w rest j) (E v j (x v)))

end Cirkit.Tpl
