/-
  CirkitModel.Model.Scope — variable scopes as strictly increasing lists of variable ids
  (`cirkit/utils/scope.py`: an immutable set of ints, iterated in increasing id order).
  Import-free.
-/
namespace Cirkit

abbrev Scope := List Nat

namespace Scope

/-- insert into a strictly increasing list -/
def insert (v : Nat) : Scope → Scope
  | [] => [v]
  | a :: as => if v < a then v :: a :: as else if v = a then a :: as else a :: insert v as

def ofList (l : List Nat) : Scope := l.foldr insert []

def union (a b : Scope) : Scope := a.foldr insert b

def unionAll (ss : List Scope) : Scope := ss.foldr union []

def inter (a b : Scope) : Scope := a.filter (fun v => b.contains v)

def diff (a b : Scope) : Scope := a.filter (fun v => !b.contains v)

def subset (a b : Scope) : Bool := a.all (fun v => b.contains v)

def disjoint (a b : Scope) : Bool := a.all (fun v => !b.contains v)

/-- lexicographic order on sorted lists: the canonical total order used to sort sub-scopes
    (`key=sorted` in `_scope_factorizations`). -/
def lexLt : Scope → Scope → Bool
  | [], [] => false
  | [], _ :: _ => true
  | _ :: _, [] => false
  | a :: as, b :: bs => if a < b then true else if b < a then false else lexLt as bs

def lexLe (a b : Scope) : Bool := !lexLt b a

/-- insertion sort of a list of scopes by `lexLe` (stable) -/
def sortScopes (l : List Scope) : List Scope :=
  l.foldr (fun s acc => ins s acc) []
where
  ins (s : Scope) : List Scope → List Scope
    | [] => [s]
    | t :: ts => if lexLe s t then s :: t :: ts else t :: ins s ts

end Scope
end Cirkit
