/-
  CirkitModel.Model.Node — the denotational model of a symbolic circuit.

  A circuit output is a tree of layers (sharing in the DAG is irrelevant for the denoted
  function; the driver unfolds the DAG).  Children are `Fin ar → Node`, which gives the induction
  principle `∀ h, P (ch h)` and lines up with `∑ h : Fin ar` in the proofs.

  Mirrors (modelled, not verified): `cirkit/symbolic/layers.py` (what each layer denotes),
  `cirkit/symbolic/circuit.py` (scopes, smoothness, decomposability),
  `cirkit/symbolic/functional.py` (integrate / evidence / conjugate / multiply at the level of the
  denoted function), `cirkit/backend/torch/layers/inner.py` (unit order of Kronecker layers, column
  order `h * K + j` of sum-layer weights), `cirkit/backend/torch/queries.py` (masked evaluation).
-/
import CirkitModel.Model.Basic

namespace Cirkit

/-- A layer tree. `R` = values, `V` = what a variable can be assigned. -/
inductive Node (R V : Type) where
  /-- univariate input layer over variable `v` with `k` units; unit `i` computes `f i (x v)` -/
  | leaf (v : Nat) (k : Nat) (f : Nat → V → R)
  /-- constant layer (`ConstantValueLayer`, `EvidenceLayer`): empty scope -/
  | const (k : Nat) (c : Nat → R)
  /-- sum layer `W · concat(inputs)`; `W o (h * kin + j)` weighs unit `j` of input `h` -/
  | sum (ar kin kout : Nat) (W : Nat → Nat → R) (ch : Fin ar → Node R V)
  /-- Hadamard (element-wise) product layer -/
  | had (ar k : Nat) (ch : Fin ar → Node R V)
  /-- Kronecker product layer over inputs with `k` units: `k ^ ar` units, first input most
      significant -/
  | kron (ar k : Nat) (ch : Fin ar → Node R V)

namespace Node
variable {R V : Type}

/-- number of output units -/
def units : Node R V → Nat
  | leaf _ k _ => k
  | const k _ => k
  | sum _ _ kout _ _ => kout
  | had _ k _ => k
  | kron ar k _ => k ^ ar

/-- Unit `i` of the layer at assignment `x`. -/
def eval (o : Ops R) (x : Nat → V) : Node R V → Nat → R
  | leaf v _ f, i => f i (x v)
  | const _ c, i => c i
  | sum ar kin _ W ch, i =>
      o.sumFin ar fun h => o.sumN kin fun j => o.mul (W i (h.val * kin + j)) ((ch h).eval o x j)
  | had ar _ ch, i => o.prodFin ar fun h => (ch h).eval o x i
  | kron ar k ch, i => o.prodFin ar fun h => (ch h).eval o x (digit k ar h.val i)

/-- All units at once (what the driver runs; `evalV_getD` in the proofs ties it to `eval`). -/
def evalV (o : Ops R) (x : Nat → V) : Node R V → Array R
  | leaf v k f => Array.ofFn (n := k) fun i => f i.val (x v)
  | const k c => Array.ofFn (n := k) fun i => c i.val
  | sum ar kin kout W ch =>
      let cs : Array (Array R) := Array.ofFn (n := ar) fun h => (ch h).evalV o x
      Array.ofFn (n := kout) fun i =>
        o.sumN ar fun h => o.sumN kin fun j =>
          o.mul (W i.val (h * kin + j)) ((cs.getD h #[]).getD j o.zero)
  | had ar k ch =>
      let cs : Array (Array R) := Array.ofFn (n := ar) fun h => (ch h).evalV o x
      Array.ofFn (n := k) fun i => o.prodN ar fun h => (cs.getD h #[]).getD i.val o.one
  | kron ar k ch =>
      let cs : Array (Array R) := Array.ofFn (n := ar) fun h => (ch h).evalV o x
      Array.ofFn (n := k ^ ar) fun i =>
        o.prodN ar fun h => (cs.getD h #[]).getD (digit k ar h i.val) o.one

/-- Variables the layer depends on (with repetitions; only membership matters). -/
def vars : Node R V → List Nat
  | leaf v _ _ => [v]
  | const _ _ => []
  | sum _ _ _ _ ch => (List.ofFn fun h => (ch h).vars).flatten
  | had _ _ ch => (List.ofFn fun h => (ch h).vars).flatten
  | kron _ _ ch => (List.ofFn fun h => (ch h).vars).flatten

/-- `v` is in the scope of the layer. -/
def Mem (v : Nat) : Node R V → Prop
  | leaf v' _ _ => v = v'
  | const _ _ => False
  | sum _ _ _ _ ch => ∃ h, Mem v (ch h)
  | had _ _ ch => ∃ h, Mem v (ch h)
  | kron _ _ ch => ∃ h, Mem v (ch h)

/-- Well-formedness = the checks of `Circuit.__init__`: every input of an inner layer has the
    declared number of units. -/
def WF : Node R V → Prop
  | leaf _ _ _ => True
  | const _ _ => True
  | sum _ kin _ _ ch => ∀ h, (ch h).WF ∧ (ch h).units = kin
  | had _ k ch => ∀ h, (ch h).WF ∧ (ch h).units = k
  | kron _ k ch => ∀ h, (ch h).WF ∧ (ch h).units = k

/-- Smooth: all inputs of a sum layer have the same scope. -/
def Smooth : Node R V → Prop
  | leaf _ _ _ => True
  | const _ _ => True
  | sum _ _ _ _ ch => (∀ h, (ch h).Smooth) ∧ ∀ h h' v, Mem v (ch h) ↔ Mem v (ch h')
  | had _ _ ch => ∀ h, (ch h).Smooth
  | kron _ _ ch => ∀ h, (ch h).Smooth

/-- Decomposable: inputs of a product layer have pairwise disjoint scopes. -/
def Decomp : Node R V → Prop
  | leaf _ _ _ => True
  | const _ _ => True
  | sum _ _ _ _ ch => ∀ h, (ch h).Decomp
  | had _ _ ch => (∀ h, (ch h).Decomp) ∧ ∀ h h' v, h ≠ h' → Mem v (ch h) → ¬ Mem v (ch h')
  | kron _ _ ch => (∀ h, (ch h).Decomp) ∧ ∀ h h' v, h ≠ h' → Mem v (ch h) → ¬ Mem v (ch h')

/-- `y[v ↦ a]` -/
def upd {V : Type} (y : Nat → V) (v : Nat) (a : V) : Nat → V := fun u => if u = v then a else y u

/-- A finite weighted sum `g ↦ Σ_{a ∈ dom} w a · g a`: the sum over a discrete domain (`w = 1`) or
    any quadrature rule. -/
def quad (o : Ops R) (dom : List V) (w : V → R) (g : V → R) : R :=
  o.sumL (dom.map fun a => o.mul (w a) (g a))

/-! ### integrate -/

/-- Integrate variable `v` out with the linear functional `S` (`S g = Σ_{a ∈ dom} w a · g a` for a
    discrete variable or a quadrature rule): every input layer over `v` becomes the constant layer
    of its integrals; everything else is passed through — `functional.integrate`. -/
def integ1 (v : Nat) (S : (V → R) → R) : Node R V → Node R V
  | leaf v' k f => if v' = v then const k (fun i => S (f i)) else leaf v' k f
  | const k c => const k c
  | sum ar kin kout W ch => sum ar kin kout W (fun h => (ch h).integ1 v S)
  | had ar k ch => had ar k (fun h => (ch h).integ1 v S)
  | kron ar k ch => kron ar k (fun h => (ch h).integ1 v S)

/-- Integrate the listed variables, each with its own functional (`S v`). The first listed is the
    innermost. -/
def integ (S : Nat → (V → R) → R) : List Nat → Node R V → Node R V
  | [], n => n
  | v :: vs, n => integ S vs (n.integ1 v (S v))

/-- The specification side: iterated weighted sums of the *operand* over the listed variables. -/
def sumOver (S : Nat → (V → R) → R) : List Nat → ((Nat → V) → R) → (Nat → V) → R
  | [], g, y => g y
  | v :: vs, g, y =>
      sumOver S vs (fun y' => S v (fun a => g (upd y' v a))) y

/-! ### evidence -/

/-- Condition on `obs`: input layers over an observed variable become constants — `evidence`. -/
def evid (obs : Nat → Option V) : Node R V → Node R V
  | leaf v k f => match obs v with
      | some a => const k (fun i => f i a)
      | none => leaf v k f
  | const k c => const k c
  | sum ar kin kout W ch => sum ar kin kout W (fun h => (ch h).evid obs)
  | had ar k ch => had ar k (fun h => (ch h).evid obs)
  | kron ar k ch => kron ar k (fun h => (ch h).evid obs)

/-! ### conjugate -/

/-- Conjugate every input function and every sum weight; products are kept — `conjugate`. -/
def conj (star : R → R) : Node R V → Node R V
  | leaf v k f => leaf v k (fun i a => star (f i a))
  | const k c => const k (fun i => star (c i))
  | sum ar kin kout W ch => sum ar kin kout (fun i c => star (W i c)) (fun h => (ch h).conj star)
  | had ar k ch => had ar k (fun h => (ch h).conj star)
  | kron ar k ch => kron ar k (fun h => (ch h).conj star)

/-! ### masked evaluation (IntegrateQuery) -/

/-- `IntegrateQuery`: evaluate with the input layers of the masked variables replaced by their
    integrals — per sample, so the mask is an argument of evaluation, not of compilation. -/
def maskedEval (o : Ops R) (S : Nat → (V → R) → R) (mask : Nat → Bool) (x : Nat → V) :
    Node R V → Nat → R
  | leaf v _ f, i => if mask v then S v (f i) else f i (x v)
  | const _ c, i => c i
  | sum ar kin _ W ch, i =>
      o.sumFin ar fun h => o.sumN kin fun j =>
        o.mul (W i (h.val * kin + j)) ((ch h).maskedEval o S mask x j)
  | had ar _ ch, i => o.prodFin ar fun h => (ch h).maskedEval o S mask x i
  | kron ar k ch, i => o.prodFin ar fun h => (ch h).maskedEval o S mask x (digit k ar h.val i)

end Node

/-- A circuit = its ordered outputs. -/
structure Circ (R V : Type) where
  outputs : List (Node R V)

end Cirkit
