/-
  CirkitModel.Model.Params — initialisation and state-dictionary bookkeeping of compiled parameters.
  Import-free.

  Mirrors `cirkit/backend/torch/initializers.py` (`foldwise_initializer_`, `dirichlet_`),
  `cirkit/backend/torch/rules/initializers.py` (`compile_dirichlet_initializer`: the axis shift for
  the fold dimension), `cirkit/backend/torch/compiler.py::_fold_parameter_nodes_group` (one
  initialiser per slice) and the `nn.Module` state dictionary of a compiled circuit
  (`cirkit/backend/torch/parameters/nodes.py`: tensor parameters own a storage, pointer parameters
  register their target as a sub-module, so the target's storage appears again under the pointer's key).
-/
namespace Cirkit

/-- `foldwise_initializer_`: initialiser `i` is applied to slice `i` (and nothing else). -/
def foldwiseInit {T : Type} (inits : List (T → T)) (slices : List T) : List T :=
  List.zipWith (fun f t => f t) inits slices

/-- The dimension `dirichlet_` normalises along, in the coordinates of the tensor it receives — a
    slice *with* its leading fold dimension (rank `r + 1`): `compile_dirichlet_initializer` passes
    `axis` unchanged if negative and `axis + 1` otherwise; `dirichlet_` then normalises negatives. -/
def compiledDirichletDim (axis : Int) (r : Nat) : Int :=
  let d := if axis < 0 then axis else axis + 1
  if d ≥ 0 then d else d + (r + 1)

/-- the declared axis, normalised, in the coordinates of the symbolic (unfolded) tensor of rank `r` -/
def declaredAxis (axis : Int) (r : Nat) : Int := if axis ≥ 0 then axis else axis + r

/-- shape of the Dirichlet samples drawn by `dirichlet_` for a tensor of shape `shape` along `dim`:
    all other dimensions, then the categories last -/
def dirichletSampleShape (shape : List Nat) (dim : Nat) : List Nat :=
  shape.eraseIdx dim ++ [shape.getD dim 0]

/-- `torch.movedim(samples, -1, dim)` on shapes -/
def moveLastTo (s : List Nat) (dim : Nat) : List Nat :=
  match s.getLast? with
  | some last => (s.dropLast).insertIdx dim last
  | none => s

/-- `torch.transpose(samples, dim, -1)` on shapes (the pre-fix behaviour, kept as a refutation witness) -/
def swapWithLast (s : List Nat) (dim : Nat) : List Nat :=
  match s.getLast? with
  | some last => (s.set dim last).set (s.length - 1) (s.getD dim 0)
  | none => s

/-! ### state dictionary -/

/-- A compiled circuit, as far as its state dictionary is concerned: the registered tensors in
    module-tree order, each with its key and the storage it aliases. -/
structure StateLayout where
  entries : List (String × Nat)

/-- `state_dict()`: key ↦ current value of the storage -/
def StateLayout.save {α : Type} (l : StateLayout) (vals : Nat → α) : List (String × α) :=
  l.entries.map fun e => (e.1, vals e.2)

/-- `load_state_dict(sd)`: every entry copies the value stored under its key into its storage
    (entries in order; later writes win) -/
def StateLayout.load {α : Type} (l : StateLayout) (sd : List (String × α)) (vals : Nat → α) : Nat → α :=
  l.entries.foldl (fun v e =>
    match sd.find? (·.1 == e.1) with
    | some kv => fun sid => if sid = e.2 then kv.2 else v sid
    | none => v) vals

end Cirkit
