/-
  CirkitModel.Model.Diff — the model of `functional.differentiate` at the level of the denoted
  function.  Import-free.

  Mirrors `cirkit/symbolic/functional.py::differentiate`: input layers are replaced by their k-th
  derivative (`differentiate_polynomial_layer`), sum layers are copied over the differentiated
  inputs, a product layer differentiated in `v` is the same product with the one input that
  contains `v` replaced by its derivative; the outputs are the derivatives in increasing variable
  id order followed by the layer itself.
-/
import CirkitModel.Model.Mul

namespace Cirkit
namespace Node
variable {R V : Type}

/-- executable scope membership -/
def hasVar (v : Nat) (n : Node R V) : Bool := n.vars.contains v

/-- Differentiate in variable `v`; `D` maps the unit function of an input layer over `v` to its
    (k-th) derivative. Only meaningful when `v` is in the scope. -/
def diff1 (v : Nat) (D : (V → R) → (V → R)) : Node R V → Node R V
  | leaf v' k f => leaf v' k (fun i => D (f i))
  | const k c => const k c
  | sum ar kin kout W ch => sum ar kin kout W (fun h => (ch h).diff1 v D)
  | had ar k ch => had ar k (fun h => if (ch h).hasVar v then (ch h).diff1 v D else ch h)
  | kron ar k ch => kron ar k (fun h => if (ch h).hasVar v then (ch h).diff1 v D else ch h)

/-- The outputs `differentiate` produces for one output layer: one derivative per variable of its
    scope, in increasing variable id order, then the layer itself. -/
def diffOutputs (D : Nat → (V → R) → (V → R)) (n : Node R V) : List (Node R V) :=
  (n.scopeL.map fun v => n.diff1 v (D v)) ++ [n]

end Node

/-- `differentiate` on circuits: the concatenation over the outputs. -/
def Circ.diff {R V : Type} (D : Nat → (V → R) → (V → R)) (c : Circ R V) : Circ R V :=
  ⟨c.outputs.flatMap (Node.diffOutputs D)⟩

/-- `PolynomialDifferential`: coefficient `n` of the k-th derivative of `Σ a_m x^m` is
    `(n+k)(n+k-1)…(n+1) · a_{n+k}` (the falling factorial the model of the parameter node uses). -/
def polyDiffCoeff (k n : Nat) : Nat := (List.range k).foldl (fun acc i => acc * (n + k - i)) 1

end Cirkit
