/-
  CirkitModel.Model.Sym — symbolic circuits as layer DAGs (what the harness serialises from
  `cirkit.symbolic.circuit.Circuit`), their structural properties and their denotation as `Node`
  trees.  Import-free.

  Mirrors: `cirkit/symbolic/layers.py` (layer kinds, parameter names, what each input layer
  computes — with `cirkit/backend/torch/layers/input.py` for the densities),
  `cirkit/symbolic/circuit.py` (`Circuit.__init__` checks, `is_smooth`, `is_decomposable`,
  `_scope_factorizations`, `_are_compatible`, `is_structured_decomposable`, `is_omni_compatible`,
  `are_compatible`).
-/
import CirkitModel.Model.Node
import CirkitModel.Model.PExpr
import CirkitModel.Model.Scope

namespace Cirkit

/-- Layer kinds with their configuration and parameter graphs. -/
inductive LKind (R : Type) where
  | embedding (v k n : Nat) (weight : PExpr R)
  | categorical (v k n : Nat) (probs logits : Option (PExpr R))
  | binomial (v k total : Nat) (probs logits : Option (PExpr R))
  | gaussian (v k : Nat) (mean stddev : PExpr R) (logPartition : Option (PExpr R))
  | polynomial (v k degree : Nat) (coeff : PExpr R)
  | constantValue (k : Nat) (logSpace : Bool) (value : PExpr R)
  | evidence (inner : LKind R) (obs : PExpr R)
  | sum (kin kout ar : Nat) (weight : PExpr R)
  | hadamard (k ar : Nat)
  | kronecker (k ar : Nat)

structure SLayer (R : Type) where
  kind : LKind R
  /-- positions (in the layer array) of the input layers, in order -/
  ins : List Nat

/-- Layers are listed in a topological order (inputs before the layers reading them). -/
structure SCirc (R : Type) where
  layers : Array (SLayer R)
  outputs : List Nat

namespace LKind
variable {R : Type}

def isInput : LKind R → Bool
  | sum .. | hadamard .. | kronecker .. => false
  | _ => true

def isSum : LKind R → Bool
  | sum .. => true
  | _ => false

def isProduct : LKind R → Bool
  | hadamard .. | kronecker .. => true
  | _ => false

/-- scope of an input layer -/
def inputScope : LKind R → Scope
  | embedding v .. | categorical v .. | binomial v .. | gaussian v .. | polynomial v .. => [v]
  | _ => []

def numOutputUnits : LKind R → Nat
  | embedding _ k .. | categorical _ k .. | binomial _ k .. | gaussian _ k .. | polynomial _ k .. => k
  | constantValue k .. => k
  | evidence inner _ => numOutputUnits inner
  | sum _ kout _ _ => kout
  | hadamard k _ => k
  | kronecker k ar => k ^ ar

def numInputUnits : LKind R → Nat
  | sum kin .. => kin
  | hadamard k _ | kronecker k _ => k
  | _ => 0

def arity : LKind R → Nat
  | sum _ _ ar _ | hadamard _ ar | kronecker _ ar => ar
  | _ => 0

/-- number of values of the (discrete) variable of an input layer, if it has a finite domain -/
def domainSize : LKind R → Option Nat
  | embedding _ _ n _ => some n
  | categorical _ _ n .. => some n
  | binomial _ _ total .. => some (total + 1)
  | _ => none

/-- all parameter graphs of the layer -/
def params : LKind R → List (PExpr R)
  | embedding _ _ _ w => [w]
  | categorical _ _ _ p l => p.toList ++ l.toList
  | binomial _ _ _ p l => p.toList ++ l.toList
  | gaussian _ _ m s lp => [m, s] ++ lp.toList
  | polynomial _ _ _ c => [c]
  | constantValue _ _ v => [v]
  | evidence inner obs => params inner ++ [obs]
  | sum _ _ _ w => [w]
  | _ => []

end LKind

namespace SCirc
variable {R : Type}

/-- scopes of all layers, bottom-up (`Circuit.__init__`) -/
def scopes (c : SCirc R) : Array Scope :=
  c.layers.foldl (init := #[]) fun acc l =>
    if l.kind.isInput then acc.push l.kind.inputScope
    else acc.push (Scope.unionAll (l.ins.map fun i => acc.getD i []))

def scope (c : SCirc R) : Scope :=
  let sc := c.scopes
  Scope.unionAll (c.outputs.map fun i => sc.getD i [])

/-- The checks of `Circuit.__init__`: inputs are earlier layers, input layers have no inputs,
    arity and unit counts agree. -/
def wf (c : SCirc R) : Bool :=
  (List.range c.layers.size).all (fun p =>
    match c.layers[p]? with
    | none => false
    | some l =>
        l.ins.all (· < p) &&
        (if l.kind.isInput then l.ins.isEmpty
         else l.kind.arity == l.ins.length &&
              l.ins.all (fun i => (c.layers[i]?.map (·.kind.numOutputUnits)) == some l.kind.numInputUnits)))
  && c.outputs.all (· < c.layers.size)

/-- `Circuit.is_smooth` -/
def isSmooth (c : SCirc R) : Bool :=
  let sc := c.scopes
  (List.range c.layers.size).all fun p =>
    match c.layers[p]? with
    | some l => if l.kind.isSum then l.ins.all (fun i => sc.getD i [] == sc.getD p []) else true
    | none => true

/-- all unordered pairs of a list -/
def pairs {α : Type} : List α → List (α × α)
  | [] => []
  | a :: as => as.map (fun b => (a, b)) ++ pairs as

/-- `Circuit.is_decomposable` -/
def isDecomposable (c : SCirc R) : Bool :=
  let sc := c.scopes
  (List.range c.layers.size).all fun p =>
    match c.layers[p]? with
    | some l =>
        if l.kind.isProduct then
          (pairs l.ins).all fun (i, j) => Scope.disjoint (sc.getD i []) (sc.getD j [])
        else true
    | none => true

/-- `_scope_factorizations` (after the fix of D4: sub-scopes in canonical order): for every product
    layer, its scope and the sorted list of the non-empty scopes of its inputs, kept only if there
    are at least two. Returned as an association list scope ↦ set (duplicate-free list). -/
def scopeFactorizations (c : SCirc R) : List (Scope × List (List Scope)) :=
  let sc := c.scopes
  (List.range c.layers.size).foldl (init := []) fun acc p =>
    match c.layers[p]? with
    | some l =>
        if l.kind.isProduct then
          let fs := (Scope.sortScopes (l.ins.map fun i => sc.getD i [])).filter (fun s => !s.isEmpty)
          if fs.length > 1 then
            let s := sc.getD p []
            match acc.find? (·.1 == s) with
            | some (_, set) =>
                if set.contains fs then acc
                else acc.map fun (s', set') => if s' == s then (s', set' ++ [fs]) else (s', set')
            | none => acc ++ [(s, [fs])]
          else acc
        else acc
    | none => acc

/-- one direction of `_are_compatible` -/
def compatDir (f1 f2 : List (Scope × List (List Scope))) : Bool :=
  f1.all fun (s, fs1) =>
    match f2.find? (·.1 == s) with
    | none => false
    | some (_, fs2) =>
        match fs1, fs2 with
        | [a], [b] => a == b
        | _, _ => false

def isStructuredDecomposable (c : SCirc R) : Bool :=
  c.isSmooth && c.isDecomposable && c.scopeFactorizations.all (fun (_, fs) => fs.length == 1)

/-- `is_omni_compatible`: compatible with the fully factorised circuit over `range(num_variables)`
    (one-directional, as in the code) -/
def isOmniCompatible (c : SCirc R) : Bool :=
  c.isSmooth && c.isDecomposable &&
    let n := c.scope.length
    let vs : Scope := List.range n
    compatDir c.scopeFactorizations [(vs, [vs.map fun v => [v]])]

/-- `are_compatible` (symmetric after the fix of D4) -/
def areCompatible (c1 c2 : SCirc R) : Bool :=
  c1.isSmooth && c1.isDecomposable && c2.isSmooth && c2.isDecomposable &&
    compatDir c1.scopeFactorizations c2.scopeFactorizations &&
    compatDir c2.scopeFactorizations c1.scopeFactorizations

/-- every tensor leaf / reference of the circuit: `(uid, isRef)` -/
def leaves (c : SCirc R) : List (Nat × Bool) :=
  c.layers.toList.flatMap fun l => l.kind.params.flatMap PExpr.leaves

end SCirc

/-! ### denotation -/

section denote
variable {R : Type}

/-- `n choose k` -/
def choose (n k : Nat) : Nat :=
  -- multiplicative formula: after step i the accumulator is C(n, i+1) (each division is exact)
  (List.range k).foldl (fun acc i => acc * (n - i) / (i + 1)) 1

def powR (A : AOps R) (x : R) : Nat → R
  | 0 => A.one
  | n + 1 => A.mul (powR A x n) x

/-- Horner evaluation of `Σ_n c n · x^n`, `n < d` -/
def horner (A : AOps R) (c : Nat → R) (x : R) : Nat → R
  | 0 => A.zero
  | d + 1 => A.add (c 0) (A.mul x (horner A (fun n => c (n + 1)) x d))

/-- The unit functions of an input layer: `(k, f)` with `f i a` the value of unit `i` at value `a`
    of the layer's variable (ignored by constant layers). Tables are evaluated once. -/
def leafFun (A : AOps R) (θ : Nat → Option (Array R)) (pre : R → R := id) :
    LKind R → Except String (Nat × (Nat → R → R))
  | .embedding _ k _ w => do
      let W ← w.eval A θ pre
      .ok (k, fun i a => match A.toNat a with
        | some c => W.get2 i c A.zero
        | none => A.zero)
  | .categorical _ k _ probs logits => do
      match probs, logits with
      | some p, none =>
          let P ← p.eval A θ pre
          .ok (k, fun i a => match A.toNat a with
            | some c => P.get2 i c A.zero
            | none => A.zero)
      | none, some l =>
          let L ← l.eval A θ pre
          match L.data.mapM A.exp with
          | some e =>
              let E : Tensor R := { L with data := e }
              .ok (k, fun i a => match A.toNat a with
                | some c => E.get2 i c A.zero
                | none => A.zero)
          | none => .error "unsupported exp (categorical logits)"
      | _, _ => .error "categorical: exactly one of probs/logits"
  | .binomial _ k total probs logits => do
      let P ← match probs, logits with
        | some p, none => p.eval A θ pre
        | none, some l => do
            let L ← l.eval A θ pre
            match L.data.mapM (fun x => do A.inv (A.add A.one (← A.exp (A.neg x)))) with
            | some s => pure { L with data := s }
            | none => throw "unsupported sigmoid (binomial logits)"
        | _, _ => throw "binomial: exactly one of probs/logits"
      .ok (k, fun i a => match A.toNat a with
        | some c =>
            if c ≤ total then
              let p := P.get1 i A.zero
              A.mul (A.ofRat (choose total c : Nat)) (A.mul (powR A p c) (powR A (A.sub A.one p) (total - c)))
            else A.zero
        | none => A.zero)
  | .gaussian _ k mean stddev lp => do
      let M ← mean.eval A θ pre
      let S ← stddev.eval A θ pre
      let LP ← match lp with
        | some e => do let t ← e.eval A θ pre; pure (some t)
        | none => pure none
      if !A.analytic then throw "unsupported exp (gaussian)"
      .ok (k, fun i x =>
        let m := M.get1 i A.zero
        let s := S.get1 i A.one
        let d := A.sub x m
        let r := do
          let is ← A.inv s
          let z := A.mul d is
          let twoPi := A.mul (A.ofRat 2) (A.ofRat (884279719003555 / 281474976710656))
          let l2p ← A.log twoPi
          let ls ← A.log s
          -- log N(x; m, s) = -z²/2 - log s - log(2π)/2
          let lg := A.sub (A.sub (A.mul (A.ofRat (-1/2)) (A.mul z z)) ls) (A.mul (A.ofRat (1/2)) l2p)
          let lg := match LP with
            | some t => A.add lg (t.get1 i A.zero)
            | none => lg
          A.exp lg
        r.getD A.zero)
  | .polynomial _ k degree coeff => do
      let C ← coeff.eval A θ pre
      .ok (k, fun i x => horner A (fun n => C.get2 i n A.zero) x (degree + 1))
  | .constantValue k logSpace value => do
      let Vt ← value.eval A θ pre
      if logSpace then
        match Vt.data.mapM A.exp with
        | some e => .ok (k, fun i _ => e.getD i A.zero)
        | none => .error "unsupported exp (log-space constant)"
      else .ok (k, fun i _ => Vt.get1 i A.zero)
  | .evidence inner obs => do
      let (k, f) ← leafFun A θ pre inner
      let O ← obs.eval A θ pre
      let a := O.get1 0 A.zero
      .ok (k, fun i _ => f i a)
  | _ => .error "not an input layer"

/-- Denote every layer of the DAG as a `Node` tree (children looked up among the already built
    layers, so sharing is unfolded). -/
def SCirc.denoteLayers (A : AOps R) (θ : Nat → Option (Array R)) (c : SCirc R) (pre : R → R := id) :
    Except String (Array (Node R R)) :=
  c.layers.foldlM (init := #[]) fun acc l => do
    let dflt : Node R R := .const 0 (fun _ => A.zero)
    let child (ar : Nat) : Fin ar → Node R R := fun h => acc.getD (l.ins.getD h.val 0) dflt
    match l.kind with
    | .sum kin kout ar w => do
        let W ← w.eval A θ pre
        if W.shape != [kout, ar * kin] then throw s!"sum weight shape {W.shape}"
        pure (acc.push (.sum ar kin kout (fun i cidx => W.get2 i cidx A.zero) (child ar)))
    | .hadamard k ar => pure (acc.push (.had ar k (child ar)))
    | .kronecker k ar => pure (acc.push (.kron ar k (child ar)))
    | kind => do
        let (k, f) ← leafFun A θ pre kind
        match kind.inputScope with
        | [v] => pure (acc.push (.leaf v k f))
        | _ => pure (acc.push (.const k (fun i => f i A.zero)))

/-- The ordered output trees. -/
def SCirc.denote (A : AOps R) (θ : Nat → Option (Array R)) (c : SCirc R) (pre : R → R := id) :
    Except String (List (Node R R)) := do
  if !c.wf then throw "ill-formed circuit"
  let ls ← c.denoteLayers A θ pre
  pure (c.outputs.map fun i => ls.getD i (.const 0 (fun _ => A.zero)))

/-- domain size of every discrete variable of the circuit (from its input layers) -/
def SCirc.domains (c : SCirc R) : List (Nat × Nat) :=
  c.layers.toList.filterMap fun l =>
    match l.kind.inputScope, l.kind.domainSize with
    | [v], some n => some (v, n)
    | _, _ => none

end denote
end Cirkit

/-! ### argument checks of the operators (`cirkit/symbolic/functional.py`), in the order the code
    performs them -/

namespace Cirkit

/-- error classes of the operators -/
inductive OpErr where
  /-- `StructuralPropertyError` -/
  | structural
  /-- `ValueError` -/
  | value
  /-- `NotImplementedError` -/
  | notImplemented
  deriving Repr, BEq, DecidableEq

namespace SCirc
variable {R : Type}

/-- `integrate(sc, scope)`: smooth ∧ decomposable, then non-empty scope ⊆ circuit scope -/
def integratePre (c : SCirc R) (zs : Scope) : Option OpErr :=
  if !(c.isSmooth && c.isDecomposable) then some .structural
  else if zs.isEmpty then some .value
  else if !(Scope.subset zs c.scope) then some .value
  else none

/-- `differentiate(sc, order)`: smooth ∧ decomposable, then positive order -/
def differentiatePre (c : SCirc R) (order : Int) : Option OpErr :=
  if !(c.isSmooth && c.isDecomposable) then some .structural
  else if order ≤ 0 then some .value
  else none

/-- `evidence(sc, obs)`: non-empty set of observed variables ⊆ circuit scope -/
def evidencePre (c : SCirc R) (obsVars : Scope) : Option OpErr :=
  if obsVars.isEmpty then some .value
  else if !(Scope.subset obsVars c.scope) then some .value
  else none

/-- `multiply(sc1, sc2)`: same scope, then compatible -/
def multiplyPre (c1 c2 : SCirc R) : Option OpErr :=
  if c1.scope != c2.scope then some .notImplemented
  else if !(c1.areCompatible c2) then some .structural
  else none

/-- `IntegrateQuery.__init__` / `SamplingQuery.__init__` -/
def queryPre (c : SCirc R) : Option OpErr :=
  if !(c.isSmooth && c.isDecomposable) then some .value else none

end SCirc
end Cirkit
