/-
  CirkitModel.Model.Mul — the model of `functional.multiply` at the level of the denoted function.
  Import-free.

  Mirrors `cirkit/symbolic/functional.py::multiply` (which pairs of layers are multiplied, in which
  order the inputs of product layers are paired, the Kronecker layer introduced for disjoint
  scopes) and the layer rules of `cirkit/symbolic/operators.py` (`multiply_*_layers`: unit order
  `i * K2 + j`, the weight layout of the product sum layer, the permutation sum layer on top of the
  product of two Kronecker layers).
-/
import CirkitModel.Model.Node
import CirkitModel.Model.Scope

namespace Cirkit

inductive MulErr where
  /-- layers over disjoint scopes must have the same number of units (`NotImplementedError`) -/
  | unitMismatch
  /-- no product rule for this pair of layers / different arities / differently ordered inputs -/
  | unsupported
  deriving Repr, BEq

namespace Node
variable {R V : Type}

/-- canonical scope (strictly increasing list) -/
def scopeL (n : Node R V) : Scope := Scope.ofList n.vars

/-- collect a family of results -/
def allOk {E α : Type} {n : Nat} (f : Fin n → Except E α) : Except E (List α) :=
  (List.ofFn f).mapM id

/-- rank of `h` among the children when sorted by the canonical scope order (stable):
    the number of children that come strictly before it -/
def rankOf {ar : Nat} (key : Fin ar → Scope) (h : Fin ar) : Nat :=
  ((List.finRange ar).filter fun g =>
    Scope.lexLt (key g) (key h) || (!Scope.lexLt (key h) (key g) && g.val < h.val)).length

/-- the child at position `p` of the sorted order -/
def atRank {ar : Nat} (key : Fin ar → Scope) (p : Nat) : Option (Fin ar) :=
  (List.finRange ar).find? fun h => rankOf key h == p

/-- the index the permutation sum layer on top of `kron × kron` reads for output unit `i`:
    `i = i1 * k2^ar + i2`, digit `h` of the result (base `k1 * k2`) is `digit_h(i1) * k2 + digit_h(i2)` -/
def kronPermIdx (k1 k2 ar : Nat) (i : Nat) : Nat :=
  let i1 := i / k2 ^ ar
  let i2 := i % k2 ^ ar
  (List.range ar).foldl (fun acc h => acc * (k1 * k2) + (digit k1 ar h i1 * k2 + digit k2 ar h i2)) 0

theorem div_lt_of_lt_mul' {a b n : Nat} (h : n < a * b) : n / b < a :=
  Nat.div_lt_of_lt_mul (by rw [Nat.mul_comm]; exact h)

theorem mod_lt_of_lt_mul' {a b n : Nat} (h : n < a * b) : n % b < b :=
  Nat.mod_lt _ (by
    rcases Nat.eq_zero_or_pos b with hb | hb
    · subst hb; simp at h
    · exact hb)

/-- layers over disjoint scopes: a fresh Kronecker layer over the two sub-circuits (same size) -/
def mulDisjoint (n1 n2 : Node R V) : Option (Except MulErr (Node R V)) :=
  if Scope.disjoint n1.scopeL n2.scopeL then
    some (if n1.units = n2.units then
      .ok (.kron 2 n1.units (fun h => if h.val = 0 then n1 else n2))
    else .error .unitMismatch)
  else none

/-- Product of two layers (`multiply` on the sub-circuits rooted at them). -/
def mul (o : Ops R) : Node R V → Node R V → Except MulErr (Node R V)
  | n1@(.leaf v1 k1 f1), n2 =>
      match mulDisjoint n1 n2 with
      | some r => r
      | none =>
        match n2 with
        | .leaf v2 k2 f2 =>
            if v1 = v2 then
              .ok (.leaf v1 (k1 * k2) (fun i a => o.mul (f1 (i / k2) a) (f2 (i % k2) a)))
            else .error .unsupported
        | _ => .error .unsupported
  | n1@(.const _ _), n2 =>
      match mulDisjoint n1 n2 with
      | some r => r
      | none => .error .unsupported
  | n1@(.sum ar1 kin1 ko1 W1 ch1), n2 =>
      match mulDisjoint n1 n2 with
      | some r => r
      | none =>
        match n2 with
        | .sum ar2 kin2 ko2 W2 ch2 => do
            let dflt : Node R V := .const 0 (fun _ => o.zero)
            let cs ← allOk (n := ar1 * ar2) fun h =>
              mul o (ch1 ⟨h.val / ar2, div_lt_of_lt_mul' h.isLt⟩) (ch2 ⟨h.val % ar2, mod_lt_of_lt_mul' h.isLt⟩)
            .ok (.sum (ar1 * ar2) (kin1 * kin2) (ko1 * ko2)
              (fun i c =>
                let h := c / (kin1 * kin2)
                let j := c % (kin1 * kin2)
                o.mul (W1 (i / ko2) ((h / ar2) * kin1 + j / kin2))
                      (W2 (i % ko2) ((h % ar2) * kin2 + j % kin2)))
              (fun h => cs.getD h.val dflt))
        | _ => .error .unsupported
  | n1@(.had ar1 k1 ch1), n2 =>
      match mulDisjoint n1 n2 with
      | some r => r
      | none =>
        match n2 with
        | .had ar2 k2 ch2 =>
            if ar1 = ar2 then do
              let dflt : Node R V := .const 0 (fun _ => o.zero)
              -- inputs are paired after sorting both lists by the canonical scope order
              let key1 : Fin ar1 → Scope := fun h => (ch1 h).scopeL
              let key2 : Fin ar2 → Scope := fun h => (ch2 h).scopeL
              let cs ← allOk (n := ar1) fun p =>
                match atRank key1 p.val, atRank key2 p.val with
                | some h1, some h2 => mul o (ch1 h1) (ch2 h2)
                | _, _ => .error .unsupported
              .ok (.had ar1 (k1 * k2) (fun h => cs.getD h.val dflt))
            else .error .unsupported
        | _ => .error .unsupported
  | n1@(.kron ar1 k1 ch1), n2 =>
      match mulDisjoint n1 n2 with
      | some r => r
      | none =>
        match n2 with
        | .kron ar2 k2 ch2 =>
            if h : ar1 = ar2 then
              -- inputs keep their order; both must list the same scopes in the same order
              if (List.finRange ar1).all (fun g => (ch1 g).scopeL == (ch2 (h ▸ g)).scopeL) then do
                let dflt : Node R V := .const 0 (fun _ => o.zero)
                let cs ← allOk (n := ar1) fun g => mul o (ch1 g) (ch2 (h ▸ g))
                let K := k1 * k2
                .ok (.sum 1 (K ^ ar1) (K ^ ar1)
                  (fun i c => if c = kronPermIdx k1 k2 ar1 i then o.one else o.zero)
                  (fun _ => .kron ar1 K (fun g => cs.getD g.val dflt)))
              else .error .unsupported
            else .error .unsupported
        | _ => .error .unsupported

end Node

/-- `multiply` on circuits: output `(o1, o2)` at position `o1 * |O2| + o2`. -/
def Circ.mul {R V : Type} (o : Ops R) (c1 c2 : Circ R V) : Except MulErr (Circ R V) := do
  let outs ← (c1.outputs.flatMap fun n1 => c2.outputs.map fun n2 => Node.mul o n1 n2).mapM id
  .ok ⟨outs⟩

end Cirkit
