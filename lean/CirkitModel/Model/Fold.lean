/-
  CirkitModel.Model.Fold — folding of a computational graph as certificate checking, and the
  address-book index arithmetic.  Import-free.

  Mirrors `cirkit/backend/torch/graph/folding.py` (`build_folded_graph`, `group_foldable_modules`,
  `build_address_book_stacked_entry`, `build_address_book_entry`, `build_unfold_index_info`) and the
  evaluation loop of `cirkit/backend/torch/graph/modules.py` / `circuits.py`
  (`TorchDiAcyclicGraph.evaluate`, `LayerAddressBook.lookup`).
-/
namespace Cirkit

/-- An unfolded computational graph: modules `0 … n-1` in a topological order. -/
structure UGraph where
  n : Nat
  /-- inputs of each module, in order (ids of earlier modules) -/
  ins : Nat → List Nat
  /-- fold key of each module (`type` + `fold_settings`, canonicalised to a number by the harness) -/
  key : Nat → Nat
  outputs : List Nat

/-- What folding produced: the members of each folded module and the index bookkeeping
    (`FoldIndexInfo.in_fold_idx` / `out_fold_idx`). -/
structure FoldCert where
  /-- unfolded members of each folded module, in fold order -/
  groups : List (List Nat)
  /-- per folded module, per member, per input: (folded module id, slice) -/
  inIdx : List (List (List (Nat × Nat)))
  outIdx : List (Nat × Nat)

namespace FoldCert

/-- position of `m` in a list -/
def indexOf? (m : Nat) : List Nat → Option Nat
  | [] => none
  | a :: as => if a = m then some 0 else (indexOf? m as).map (· + 1)

/-- (folded module, slice) holding unfolded module `m` -/
def loc (groups : List (List Nat)) (m : Nat) : Option (Nat × Nat) :=
  go groups 0
where
  go : List (List Nat) → Nat → Option (Nat × Nat)
    | [], _ => none
    | g :: gs, gi => match indexOf? m g with
        | some s => some (gi, s)
        | none => go gs (gi + 1)

/-- every module `0 … n-1` occurs in exactly one group, exactly once -/
def partitions (n : Nat) (groups : List (List Nat)) : Bool :=
  let all := groups.flatten
  all.length == n && (List.range n).all (fun m => all.count m == 1)

/-- The certificate is valid for the graph: groups partition the modules; members of a group
    share key and arity; `inIdx` names, for input `h` of member `f` of group `gi`, the location of
    that input, which lies in an earlier group; `outIdx` are the locations of the outputs. -/
def valid (g : UGraph) (c : FoldCert) : Bool :=
  partitions g.n c.groups &&
  c.inIdx.length == c.groups.length &&
  (List.range c.groups.length).all (fun gi =>
    let members := c.groups.getD gi []
    let idx := c.inIdx.getD gi []
    idx.length == members.length &&
    !members.isEmpty &&
    members.all (fun m => g.key m == g.key (members.headD 0) &&
                          (g.ins m).length == (g.ins (members.headD 0)).length) &&
    (List.range members.length).all (fun f =>
      let m := members.getD f 0
      let row := idx.getD f []
      row.length == (g.ins m).length &&
      (List.range row.length).all (fun h =>
        match loc c.groups ((g.ins m).getD h 0) with
        | some p => p == row.getD h (0, 0) && p.1 < gi
        | none => false))) &&
  c.outIdx.length == g.outputs.length &&
  (List.range g.outputs.length).all (fun j =>
    loc c.groups (g.outputs.getD j 0) == some (c.outIdx.getD j (0, 0)))

end FoldCert

section semantics
variable {α : Type}

/-- Unfolded evaluation: module `m` applies its semantics to the values of its inputs. Returns the
    values of modules `0 … n-1`. -/
def evalUnfolded (g : UGraph) (sem : Nat → List α → α) (dflt : α) : List α :=
  (List.range g.n).foldl (fun acc m => acc ++ [sem m ((g.ins m).map fun i => acc.getD i dflt)]) []

/-- Folded evaluation: folded module `gi` computes, for each member slice `f`, the semantics of
    that member on the gathered slices named by `inIdx` (slice-wise independence of a folded torch
    module is the assumption this definition encodes). Returns, per folded module, its slices. -/
def evalFolded (c : FoldCert) (sem : Nat → List α → α) (dflt : α) : List (List α) :=
  (List.range c.groups.length).foldl (fun acc gi =>
    let members := c.groups.getD gi []
    let idx := c.inIdx.getD gi []
    acc ++ [(List.range members.length).map fun f =>
      sem (members.getD f 0) ((idx.getD f []).map fun p => (acc.getD p.1 []).getD p.2 dflt)]) []

/-- gather the outputs (`out_fold_idx`) -/
def gatherOutputs (c : FoldCert) (vals : List (List α)) (dflt : α) : List α :=
  c.outIdx.map fun p => (vals.getD p.1 []).getD p.2 dflt

end semantics

/-! ### the model of `build_folded_graph` / `group_foldable_modules` -/

/-- group the modules of one frontier by key, keeping first-occurrence order of keys and the
    frontier order inside a group (`dict` insertion order) -/
def groupFrontier (key : Nat → Nat) (frontier : List Nat) : List (List Nat) :=
  frontier.foldl (fun groups m =>
    if groups.any (fun grp => key (grp.headD 0) == key m) then
      groups.map (fun grp => if key (grp.headD 0) == key m then grp ++ [m] else grp)
    else groups ++ [[m]]) []

/-- `build_folded_graph` on the given frontiers (layer-wise topological ordering) -/
def buildFolded (g : UGraph) (frontiers : List (List Nat)) : FoldCert :=
  let groups := frontiers.flatMap (groupFrontier g.key)
  { groups := groups
    inIdx := groups.map fun members =>
      if ((g.ins (members.headD 0)).isEmpty) then members.map (fun _ => [])
      else members.map fun m => (g.ins m).map fun i => (FoldCert.loc groups i).getD (0, 0)
    outIdx := g.outputs.map fun o => (FoldCert.loc groups o).getD (0, 0) }

/-- Executable form of "the frontiers are a layer-wise topological ordering of the graph": they
    partition the modules, every input of a module lies in an earlier frontier, modules with the
    same fold key have the same arity, outputs are modules.  (Hypothesis of `C02.buildFolded_valid`;
    the driver evaluates it on the ordering handed to the real `build_folded_graph`.) -/
def layeredB (g : UGraph) (frs : List (List Nat)) : Bool :=
  FoldCert.partitions g.n frs &&
  (List.range frs.length).all (fun k => (frs.getD k []).all fun m =>
    (g.ins m).all fun i => ((frs.take k).flatten).contains i) &&
  (List.range g.n).all (fun m => (List.range g.n).all fun m' =>
    g.key m != g.key m' || (g.ins m).length == (g.ins m').length) &&
  g.outputs.all (· < g.n)

/-! ### address book entries -/

/-- first-occurrence de-duplication (`list(dict.fromkeys(...))`) -/
def dedup : List Nat → List Nat
  | [] => []
  | a :: as => a :: (dedup as).filter (· != a)

/-- offset of module `mid` in the concatenation of the outputs of `ids` -/
def cumOffset (numFolds : Nat → Nat) : List Nat → Nat → Nat
  | [], _ => 0
  | a :: as, mid => if a = mid then 0 else numFolds a + cumOffset numFolds as mid

/-- `build_address_book_stacked_entry`: the ids of the modules whose outputs are concatenated, and
    the (F × H) matrix of indices into that concatenation. -/
def stackedEntry (inIdx : List (List (Nat × Nat))) (numFolds : Nat → Nat) : List Nat × List (List Nat) :=
  let ids := dedup (inIdx.flatten.map (·.1))
  (ids, inIdx.map fun row => row.map fun p => cumOffset numFolds ids p.1 + p.2)

/-- `LayerAddressBook.lookup` for a stacked entry: concatenate the outputs of `ids` along the fold
    dimension and index with the matrix. -/
def lookupStacked {α : Type} (outs : Nat → List α) (e : List Nat × List (List Nat)) (dflt : α) :
    List (List α) :=
  let cat := e.1.flatMap outs
  e.2.map fun row => row.map fun i => cat.getD i dflt

/-- `build_address_book_entry` (parameter graphs: one gather per operand `h`). -/
def operandEntry (inIdx : List (List (Nat × Nat))) (numFolds : Nat → Nat) (h : Nat) :
    List Nat × List Nat :=
  let col := inIdx.map fun row => row.getD h (0, 0)
  let ids := dedup (col.map (·.1))
  (ids, col.map fun p => cumOffset numFolds ids p.1 + p.2)

def lookupOperand {α : Type} (outs : Nat → List α) (e : List Nat × List Nat) (dflt : α) : List α :=
  let cat := e.1.flatMap outs
  e.2.map fun i => cat.getD i dflt

end Cirkit
