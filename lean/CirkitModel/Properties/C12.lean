/-
  C12 — circuits in the normalised class have partition function one, and non-negative (positive)
  parameters give non-negative (positive) outputs.

  Theorems are about the model (`CirkitModel.Model.Node`).  The normalised class `Node.Norm S`
  (defined in `CirkitModel.Proofs.Norm`): every unit of an input layer over `v` integrates to one
  under the functional `S v` (a sum over a discrete domain or a quadrature rule, as in C03/C11),
  every constant unit is one, and every row of every sum-layer weight matrix sums to one over the
  `ar * kin` columns `h * kin + j` that the layer reads.  `Node.NonNeg` / `Node.StrictPos`: all
  input values, constants and weights are `≥ 0` / `> 0` (and, for `StrictPos`, every sum layer has
  at least one input and one input unit).

  * `normalised_partition`: with every variable marginalised (`IntegrateQuery` with the full
    mask, `Node.maskedEval … (fun _ => true)`), every unit of a well-formed normalised circuit
    evaluates to one.  No smoothness / decomposability is needed for this form.
  * `normalised_marginal`: for a smooth and decomposable, well-formed, normalised circuit, the
    iterated sum (`Node.sumOver`) of the *denoted function* over its whole scope is one (through
    C11 `maskedEval_correct`: the masked evaluation is the true marginal).
  * `eval_nonneg`, `eval_pos`: over an ordered commutative semiring, non-negative parameters give
    non-negative outputs, strictly positive parameters give strictly positive outputs (hence over
    `ℝ` the logarithm of every output is finite).
  * `softmax_rowsum`, `softmax_pos`: a softmax row (`e a / Σ_b e b`, `e = exp ∘ θ` or any family
    with non-zero sum) sums to one and is positive when all `e a` are.
  * `mixing_rowsum`: row `k` of the `(K, K·H)` mixing-weight matrix, whose column `c` holds
    `v k (c / K)` when `c % K = k` and `0` otherwise, sums to `Σ_h v k h`.
  * `sigmoid_range`: `0 < 1 / (1 + exp (-x)) < 1`.
  Partial (runtime, exercised by the correspondence check only): that the parameterisations the
  library actually builds land in `Node.Norm` up to float rounding; the integrals of the
  non-polynomial input layers (Gaussian …) being one is an assumption on `S` (`Norm` at leaves).
  Proofs: `CirkitModel.Proofs.Norm`.
-/
import Mathlib.Analysis.SpecialFunctions.Exp
import Mathlib.Tactic.Linarith
import Mathlib.Tactic.NormNum
import CirkitModel.Proofs.Bridge
import CirkitModel.Proofs.Operators
import CirkitModel.Proofs.Norm

open Finset

namespace Cirkit.C12

section Norm
variable {R V : Type} [CommSemiring R]

/-- 1. With every variable marginalised, every unit of a well-formed circuit in the normalised
    class evaluates to one. -/
theorem normalised_partition (n : Node R V) (S : ℕ → (V → R) → R) (hwf : n.WF) (hn : n.Norm S)
    (x : ℕ → V) (i : ℕ) (hi : i < n.units) :
    n.maskedEval (Ops.ofCommSemiring R) S (fun _ => true) x i = 1 :=
  Node.normalised_partition n S hwf hn x i hi

/-- 2. The denoted function of a smooth, decomposable, well-formed, normalised circuit sums to one
    over its whole scope (`zs` lists the scope, without repetition). -/
theorem normalised_marginal (n : Node R V) (S : ℕ → (V → R) → R) (hS : ∀ v, LinFun (S v))
    (zs : List ℕ) (hnd : zs.Nodup) (hz : ∀ z ∈ zs, Node.Mem z n)
    (hall : ∀ v, Node.Mem v n → v ∈ zs) (hs : n.Smooth) (hd : n.Decomp) (hwf : n.WF)
    (hn : n.Norm S) (x : ℕ → V) (i : ℕ) (hi : i < n.units) :
    Node.sumOver S zs (fun y' => n.eval (Ops.ofCommSemiring R) y' i) x = 1 :=
  Node.normalised_marginal n S hS zs hnd hz hall hs hd hwf hn x i hi

end Norm

section Order
variable {R V : Type} [CommSemiring R] [PartialOrder R]

/-- 3a. Non-negative parameters give non-negative outputs. -/
theorem eval_nonneg [IsOrderedRing R] (n : Node R V) (h : n.NonNeg) (x : ℕ → V) (i : ℕ) :
    0 ≤ n.eval (Ops.ofCommSemiring R) x i :=
  Node.eval_nonneg n h x i

/-- 3b. Strictly positive parameters give strictly positive outputs (over `ℝ`: the logarithm of
    every output is finite). -/
theorem eval_pos [IsStrictOrderedRing R] (n : Node R V) (h : n.StrictPos) (x : ℕ → V) (i : ℕ) :
    0 < n.eval (Ops.ofCommSemiring R) x i :=
  Node.eval_pos n h x i

end Order

/-- 4a. A softmax row sums to one. -/
theorem softmax_rowsum {F : Type} [Field F] (len : ℕ) (e : ℕ → F)
    (h : ∑ a ∈ range len, e a ≠ 0) :
    ∑ a ∈ range len, e a / (∑ b ∈ range len, e b) = 1 :=
  Cirkit.softmax_rowsum len e h

/-- 4b. A softmax row of positive numbers is positive. -/
theorem softmax_pos {F : Type} [Field F] [LinearOrder F] [IsStrictOrderedRing F] (len : ℕ)
    (e : ℕ → F) (h : ∀ a < len, 0 < e a) (a : ℕ) (ha : a < len) :
    0 < e a / (∑ b ∈ range len, e b) :=
  Cirkit.softmax_pos len e h a ha

/-- 4c. Rows of the `(K, K·H)` mixing-weight matrix sum to the sum of the mixing coefficients. -/
theorem mixing_rowsum {R : Type} [CommSemiring R] (K H : ℕ) (v : ℕ → ℕ → R) (k : ℕ)
    (hk : k < K) :
    ∑ c ∈ range (K * H), (if c % K = k then v k (c / K) else 0) = ∑ h ∈ range H, v k h :=
  Cirkit.mixing_rowsum K H v k hk

/-- 4d. The sigmoid takes values strictly between zero and one. -/
theorem sigmoid_range (x : ℝ) :
    0 < 1 / (1 + Real.exp (-x)) ∧ 1 / (1 + Real.exp (-x)) < 1 := by
  have he : 0 < Real.exp (-x) := Real.exp_pos _
  have hd : 0 < 1 + Real.exp (-x) := by linarith
  refine ⟨div_pos one_pos hd, ?_⟩
  rw [div_lt_one hd]
  linarith

/-- Non-vacuity: a normalised, non-negative, well-formed mixture of two products of input units
    over variables 0 and 1 with values in `Bool` (`S v g = g false + g true`). -/
example :
    let S : ℕ → (Bool → ℚ) → ℚ := fun _ g => g false + g true
    let n : Node ℚ Bool := Node.sum 1 2 1 (fun _ _ => 1 / 2)
      (fun _ => Node.had 2 2 (fun h => Node.leaf h.val 2 (fun _ _ => 1 / 2)))
    n.WF ∧ n.Norm S ∧ n.NonNeg := by
  refine ⟨fun _ => ⟨fun _ => ⟨trivial, rfl⟩, rfl⟩, ⟨fun i _ => ?_, fun _ _ i _ => ?_⟩,
    ⟨fun _ _ => ?_, fun _ _ _ _ => ?_⟩⟩
  · simp only [Fin.sum_univ_one, Finset.sum_range_succ, Finset.sum_range_zero]; norm_num
  · norm_num
  · norm_num
  · norm_num

end Cirkit.C12
