/-
  C10 — derived circuits share parameters with their operands.

  Theorems are about the model (`CirkitModel.Model.PExpr`: parameter graphs, whose leaves are
  tensors `.tensor uid`, references `.ref uid` to a tensor of another layer / circuit, and
  constants; `CirkitModel.Model.Sym`: symbolic circuits and their denotation as `Node` trees).
  A valuation `θ : ℕ → Option (Array R)` gives the current value of every tensor `uid`.

  * `eval_congr`
      — a parameter graph's value depends only on the valuation of its leaves.
  * `ref_reads_the_tensor`
      — a reference evaluates to the very tensor it points to, under every valuation (i.e. at
        every time: there is no copy that could go stale).
  * `denote_congr` (full statement, for whole circuits; `leafFun_congr` is the per-input-layer
    instance)
      — a circuit's denotation depends only on the valuation of its leaves.  Hence a derived
        circuit — whose leaves are references to the operand's tensors, and constants — denotes a
        function of the operand's *current* valuation only: after any update of the operand, the
        defining relations of C03/C04/C06/C07, which hold for EVERY valuation, still hold.
  * `no_new_leaves_of_refs`
      — if a graph is built from references and constants only (`PExpr.onlyRefs`), every one of its
        leaves is a reference: the symbolic side of "introduces no new learnable parameters".

  Note on `PExpr.eval` / `leafFun` / `SCirc.denote`: their optional argument `pre` (default `id`)
  comes before the expression.  The theorems below are stated for the default `pre = id`; the
  `_pre` variants hold for an arbitrary `pre`.
  Proofs: `CirkitModel.Proofs.ParamsLemmas`.
-/
import CirkitModel.Proofs.ParamsLemmas

namespace Cirkit.C10
open Cirkit
variable {R : Type}

/-! ### 6. evaluation depends on the leaves only -/

theorem eval_congr_pre (A : AOps R) (θ θ' : ℕ → Option (Array R)) (pre : R → R) (e : PExpr R)
    (h : ∀ p ∈ e.leaves, θ p.1 = θ' p.1) : PExpr.eval A θ pre e = PExpr.eval A θ' pre e :=
  PExpr.eval_congr_aux A θ θ' pre e h

theorem eval_congr (A : AOps R) (θ θ' : ℕ → Option (Array R)) (e : PExpr R)
    (h : ∀ p ∈ e.leaves, θ p.1 = θ' p.1) : PExpr.eval A θ id e = PExpr.eval A θ' id e :=
  eval_congr_pre A θ θ' id e h

/-! ### 7. a reference reads the tensor -/

theorem ref_reads_the_tensor_pre (A : AOps R) (θ : ℕ → Option (Array R)) (pre : R → R) (uid : ℕ)
    (shape : List ℕ) :
    PExpr.eval A θ pre (.ref uid shape) = PExpr.eval A θ pre (.tensor uid shape) := by
  rw [PExpr.eval, PExpr.eval]

theorem ref_reads_the_tensor (A : AOps R) (θ : ℕ → Option (Array R)) (uid : ℕ) (shape : List ℕ) :
    PExpr.eval A θ id (.ref uid shape) = PExpr.eval A θ id (.tensor uid shape) :=
  ref_reads_the_tensor_pre A θ id uid shape

/-! ### 8. the denotation depends on the leaves only -/

theorem leafFun_congr (A : AOps R) (θ θ' : ℕ → Option (Array R)) (pre : R → R) (K : LKind R)
    (h : ∀ p ∈ K.params.flatMap PExpr.leaves, θ p.1 = θ' p.1) :
    leafFun A θ pre K = leafFun A θ' pre K :=
  Cirkit.leafFun_congr A θ θ' pre K h

theorem denote_congr_pre (A : AOps R) (θ θ' : ℕ → Option (Array R)) (pre : R → R) (c : SCirc R)
    (h : ∀ p ∈ c.leaves, θ p.1 = θ' p.1) : c.denote A θ pre = c.denote A θ' pre :=
  denote_congr_aux A θ θ' pre c h

theorem denote_congr (A : AOps R) (θ θ' : ℕ → Option (Array R)) (c : SCirc R)
    (h : ∀ p ∈ c.leaves, θ p.1 = θ' p.1) : c.denote A θ = c.denote A θ' :=
  denote_congr_pre A θ θ' id c h

/-! ### 9. references introduce no new leaves -/

theorem no_new_leaves_of_refs (e : PExpr R) (h : e.onlyRefs = true) :
    ∀ p ∈ e.leaves, p.2 = true :=
  PExpr.onlyRefs_leaves e h

end Cirkit.C10
