/-
  C04 — `multiply` is the pointwise product, with units in Kronecker order.

  Theorems are about the model `Node.mul` / `Circ.mul` (`CirkitModel.Model.Mul`), which mirrors
  `cirkit.symbolic.functional.multiply` (which layers are paired, the Kronecker layer for disjoint
  scopes, the sorting of the inputs of Hadamard layers by scope) and the product rules
  `multiply_*_layers` of `cirkit.symbolic.operators` (unit order `i * K2 + j`, the weight layout of
  the product sum layer, the permutation sum layer on top of the product of two Kronecker layers).

  Whenever the model returns a layer `p` for operands `n1`, `n2`:
  * `mul_units`   : `p` has `n1.units * n2.units` units;
  * `mul_wf`      : `p` is well-formed if the operands are;
  * `mul_correct` : unit `i * n2.units + j` of `p` computes `n1[i] * n2[j]` at every assignment —
    for every pair of layers with a product rule (disjoint scopes, input × input, sum × sum with any
    arities, Hadamard × Hadamard with any input order, Kronecker × Kronecker), in full generality
    and without any compatibility hypothesis;
  * `mulC_outputs`, `mulC_correct` : on circuits, output `(a, b)` sits at position
    `a * |outputs c2| + b` and is the product of output `a` of `c1` and output `b` of `c2`
    (`mulC_eval` : and denotes their pointwise product);
  * `mul_refuses_unit_mismatch` : layers over disjoint scopes with different unit counts are refused
    (`NotImplementedError` in cirkit);
  * `kron_weight_layout` : the column order `(h1, h2, i1, i2)` of the product sum layer is not the
    column order `(h1, i1, h2, i2)` of the Kronecker product of the two weight matrices (historical
    defect D2).
  Proofs: `CirkitModel.Proofs.Mul` (`Node.MulRel`: the relation computed by `Node.mul`).
-/
import CirkitModel.Proofs.Bridge
import CirkitModel.Proofs.Mul

open Finset

namespace Cirkit.C04
variable {R V : Type} [CommSemiring R]

/-- The product layer has `K1 * K2` units. -/
theorem mul_units (n1 n2 p : Node R V) (h : Node.mul (Ops.ofCommSemiring R) n1 n2 = .ok p) :
    p.units = n1.units * n2.units :=
  Node.mul_units' _ n1 n2 p h

/-- The product of well-formed layers is well-formed. -/
theorem mul_wf (n1 n2 p : Node R V) (h : Node.mul (Ops.ofCommSemiring R) n1 n2 = .ok p)
    (h1 : n1.WF) (h2 : n2.WF) : p.WF :=
  Node.mul_wf' _ n1 n2 p h h1 h2

/-- Whenever `multiply` returns, the result is the pointwise product, units in Kronecker order. -/
theorem mul_correct (n1 n2 p : Node R V) (h : Node.mul (Ops.ofCommSemiring R) n1 n2 = .ok p)
    (h1 : n1.WF) (h2 : n2.WF) (x : ℕ → V) (i j : ℕ) (hi : i < n1.units) (hj : j < n2.units) :
    p.eval (Ops.ofCommSemiring R) x (i * n2.units + j)
      = n1.eval (Ops.ofCommSemiring R) x i * n2.eval (Ops.ofCommSemiring R) x j :=
  (Node.mul_rel _ n1 n2 p h).correct h1 h2 x i j hi hj

/-- `multiply` on circuits returns `|outputs c1| * |outputs c2|` outputs. -/
theorem mulC_outputs (c1 c2 p : Circ R V) (h : Circ.mul (Ops.ofCommSemiring R) c1 c2 = .ok p) :
    p.outputs.length = c1.outputs.length * c2.outputs.length :=
  Node.mulC_outputs' _ c1 c2 p h

/-- Output `(a, b)` is at position `a * |outputs c2| + b` and is the product of the two outputs. -/
theorem mulC_correct (c1 c2 p : Circ R V) (h : Circ.mul (Ops.ofCommSemiring R) c1 c2 = .ok p)
    (a b : ℕ) (ha : a < c1.outputs.length) (hb : b < c2.outputs.length) :
    ∃ q, p.outputs[a * c2.outputs.length + b]? = some q
      ∧ Node.mul (Ops.ofCommSemiring R) c1.outputs[a] c2.outputs[b] = .ok q :=
  Node.mulC_correct' _ c1 c2 p h a b ha hb

/-- The circuit-level statement: output `(a, b)` of the product circuit denotes the pointwise product
    of output `a` of `c1` and output `b` of `c2`. -/
theorem mulC_eval (c1 c2 p : Circ R V) (h : Circ.mul (Ops.ofCommSemiring R) c1 c2 = .ok p)
    (a b : ℕ) (ha : a < c1.outputs.length) (hb : b < c2.outputs.length)
    (h1 : c1.outputs[a].WF) (h2 : c2.outputs[b].WF) :
    ∃ q, p.outputs[a * c2.outputs.length + b]? = some q
      ∧ q.WF ∧ q.units = c1.outputs[a].units * c2.outputs[b].units
      ∧ ∀ (x : ℕ → V) (i j : ℕ), i < c1.outputs[a].units → j < c2.outputs[b].units →
          q.eval (Ops.ofCommSemiring R) x (i * c2.outputs[b].units + j)
            = c1.outputs[a].eval (Ops.ofCommSemiring R) x i
              * c2.outputs[b].eval (Ops.ofCommSemiring R) x j := by
  obtain ⟨q, hq, hm⟩ := mulC_correct c1 c2 p h a b ha hb
  exact ⟨q, hq, mul_wf _ _ _ hm h1 h2, mul_units _ _ _ hm,
    fun x i j hi hj => mul_correct _ _ _ hm h1 h2 x i j hi hj⟩

/-- Layers over disjoint scopes with different numbers of units are refused. -/
theorem mul_refuses_unit_mismatch (n1 n2 : Node R V)
    (hd : Scope.disjoint n1.scopeL n2.scopeL = true) (hu : n1.units ≠ n2.units) :
    Node.mul (Ops.ofCommSemiring R) n1 n2 = .error .unitMismatch :=
  Node.mul_unit_mismatch _ n1 n2 hd hu

/-- Why the sum × sum rule needs the column order `(h1, h2, i1, i2)`: the Kronecker product of the
    weight matrices has column order `(h1, i1, h2, i2)`, which differs as soon as `ar2 > 1` and
    `kin1 > 1`.  Instance `ar1 = 1, kin1 = 2, ar2 = 2, kin2 = 1` at `(h1, i1, h2, i2) = (0, 1, 0, 0)`. -/
theorem kron_weight_layout :
    let ar1 := 1; let kin1 := 2; let ar2 := 2; let kin2 := 1
    let h1 := 0; let i1 := 1; let h2 := 0; let i2 := 0
    h1 < ar1 ∧ i1 < kin1 ∧ h2 < ar2 ∧ i2 < kin2 ∧
      ((h1 * kin1 + i1) * ar2 + h2) * kin2 + i2
        ≠ (h1 * ar2 + h2) * (kin1 * kin2) + i1 * kin2 + i2 := by
  decide

/-! ### non-vacuity: the model returns on concrete well-formed operands -/

section NonVacuity

private def lf (v : ℕ) : Node ℚ ℚ := .leaf v 2 (fun i a => a + i)
private def s1 : Node ℚ ℚ := .sum 2 2 3 (fun i c => (i + c : ℚ)) (fun _ => lf 0)
private def s2 : Node ℚ ℚ := .sum 2 2 2 (fun i c => (i * c : ℚ)) (fun _ => lf 0)
private def hd1 : Node ℚ ℚ := .had 2 2 (fun h => if h.val = 0 then lf 1 else lf 0)
private def hd2 : Node ℚ ℚ := .had 2 2 (fun h => if h.val = 0 then lf 0 else lf 1)
private def kr : Node ℚ ℚ := .kron 2 2 (fun h => if h.val = 0 then lf 0 else lf 1)

example : s1.WF ∧ s2.WF := ⟨fun _ => ⟨trivial, rfl⟩, fun _ => ⟨trivial, rfl⟩⟩

/-- sum × sum (arity 2 × 2, same scope) -/
example : ∃ p, Node.mul (Ops.ofCommSemiring ℚ) s1 s2 = .ok p := ⟨_, rfl⟩

/-- Hadamard × Hadamard, inputs listed in different orders -/
example : ∃ p, Node.mul (Ops.ofCommSemiring ℚ) hd1 hd2 = .ok p := by
  unfold hd1 hd2
  rw [Node.mul]
  exact ⟨_, rfl⟩

/-- Kronecker × Kronecker -/
example : ∃ p, Node.mul (Ops.ofCommSemiring ℚ) kr kr = .ok p := ⟨_, rfl⟩

/-- disjoint scopes: a fresh Kronecker layer -/
example : ∃ p, Node.mul (Ops.ofCommSemiring ℚ) (lf 0) (lf 1) = .ok p := ⟨_, rfl⟩

/-- disjoint scopes, different unit counts: refused -/
example : Node.mul (Ops.ofCommSemiring ℚ) (lf 0) (.leaf 1 3 fun _ a => a)
    = .error .unitMismatch := rfl

end NonVacuity

end Cirkit.C04
