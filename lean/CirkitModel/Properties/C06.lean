/-
  C06 — `evidence` conditions the denoted function; `concatenate` stacks outputs in order.

  Theorems are about the model (`CirkitModel.Model.Node`): `Node.evid obs` replaces every input
  layer over an observed variable by the constant layer of its values at the observation
  (`cirkit.symbolic.functional.evidence`).  The result denotes the operand with the observed
  variables fixed (`evidence_correct`, no structural hypotheses), its scope is the unobserved part
  of the scope (`evidence_scope`), unit counts and well-formedness are preserved, and the values
  supplied for observed variables are ignored (`evidence_ignores_unobserved_values`).
  `Circ.concat` (`concatenate`) returns the outputs of the operands in order
  (`concatenate_correct`, any operation record).
  Proofs: `CirkitModel.Proofs.EvidConj`.
-/
import CirkitModel.Proofs.Bridge
import CirkitModel.Proofs.Operators
import CirkitModel.Proofs.EvidConj

open Finset

namespace Cirkit.C06
variable {R V : Type} [CommSemiring R]

/-- The conditioned circuit denotes the operand with the observed variables fixed. -/
theorem evidence_correct (n : Node R V) (obs : ℕ → Option V) (y : ℕ → V) (i : ℕ) :
    (n.evid obs).eval (Ops.ofCommSemiring R) y i
      = n.eval (Ops.ofCommSemiring R) (fun u => (obs u).getD (y u)) i :=
  Node.evid_correct n obs y i

omit [CommSemiring R] in
/-- The scope loses exactly the observed variables. -/
theorem evidence_scope (n : Node R V) (obs : ℕ → Option V) (z : ℕ) :
    Node.Mem z (n.evid obs) ↔ (Node.Mem z n ∧ obs z = none) :=
  Node.mem_evid n obs z

omit [CommSemiring R] in
theorem evidence_units (n : Node R V) (obs : ℕ → Option V) : (n.evid obs).units = n.units :=
  Node.evid_units n obs

omit [CommSemiring R] in
theorem evidence_wf (n : Node R V) (obs : ℕ → Option V) (h : n.WF) : (n.evid obs).WF :=
  Node.evid_wf n obs h

/-- The conditioned circuit depends only on the values of the unobserved variables. -/
theorem evidence_ignores_unobserved_values (n : Node R V) (obs : ℕ → Option V) (y y' : ℕ → V)
    (h : ∀ u, obs u = none → y u = y' u) (i : ℕ) :
    (n.evid obs).eval (Ops.ofCommSemiring R) y i = (n.evid obs).eval (Ops.ofCommSemiring R) y' i :=
  Node.evid_ignores n obs y y' h i

omit [CommSemiring R] in
/-- Concatenation evaluates to the operands' outputs, in order. -/
theorem concatenate_correct {S : Type} (o : Ops S) (cs : List (Circ S V)) (x : ℕ → V) :
    ((Circ.concat cs).outputs.map fun n => n.evalV o x)
      = (cs.map fun c => c.outputs.map fun n => n.evalV o x).flatten :=
  concat_evalV o cs x

end Cirkit.C06
