/-
  C01 — the compiled circuit computes the function its symbolic circuit denotes.

  Theorems are about the model (`CirkitModel.Model.Node`); the correspondence check
  (harness/c01.py) runs `Node.evalV` — proved here to be the denotation `Node.eval` — against the
  real compiled PyTorch circuit under every flag / semiring combination.

  Full statement (kept visible): for every well-formed symbolic circuit, parameter valuation and
  input batch, the compiled circuit returns, per output and unit, `Node.eval` of the denoted tree,
  expressed in the chosen semiring; shape (batch, outputs, units), outputs in declared order, each
  row a function of its own input row.
  Proved here: the denotation in Mathlib form (`eval_sum_layer`, `eval_hadamard_layer`,
  `eval_kronecker_layer`), executable = denotation (`evalV_correct`, `evalV_size_units`), the sum
  layer's flatten-concat-einsum is the documented double sum (`sum_forward_concat`), the Kronecker
  layer's iterated flatten loop yields mixed-radix order (`kron_forward_loop`), row independence of
  batched evaluation (`batch_rowwise`), semiring transport along a bijection (`eval_transport`)
  and the max-shifted log-sum-exp identity (`lse_shift`).
  Partial (runtime, exercised by the tie only): float rounding, exp/log over/underflow, the branch
  cut of the complex logarithm, torch kernels.
-/
import CirkitModel.Proofs.Bridge
import CirkitModel.Proofs.EvalV
import CirkitModel.Proofs.Index
import CirkitModel.Proofs.KronLoop
import CirkitModel.Proofs.Transport

open Finset

namespace Cirkit.C01
variable {R V : Type} [CommSemiring R]

/-- A sum layer denotes `W · concat(inputs)` with column `h * kin + j` for unit `j` of input `h`. -/
theorem eval_sum_layer (x : ℕ → V) (ar kin kout : ℕ) (W : ℕ → ℕ → R) (ch : Fin ar → Node R V)
    (i : ℕ) :
    (Node.sum ar kin kout W ch).eval (Ops.ofCommSemiring R) x i
      = ∑ h : Fin ar, ∑ j ∈ range kin,
          W i (h.val * kin + j) * (ch h).eval (Ops.ofCommSemiring R) x j := by
  simp only [Node.eval, sumFin_eq, sumN_eq, ofCS_mul]

theorem eval_hadamard_layer (x : ℕ → V) (ar k : ℕ) (ch : Fin ar → Node R V) (i : ℕ) :
    (Node.had ar k ch).eval (Ops.ofCommSemiring R) x i
      = ∏ h : Fin ar, (ch h).eval (Ops.ofCommSemiring R) x i := by
  simp only [Node.eval, prodFin_eq]

/-- Kronecker layer: unit `i` multiplies unit `digit_h(i)` (base `k`, first input most
    significant) of input `h`. -/
theorem eval_kronecker_layer (x : ℕ → V) (ar k : ℕ) (ch : Fin ar → Node R V) (i : ℕ) :
    (Node.kron ar k ch).eval (Ops.ofCommSemiring R) x i
      = ∏ h : Fin ar, (ch h).eval (Ops.ofCommSemiring R) x (digit k ar h.val i) := by
  simp only [Node.eval, prodFin_eq]

/-- What the driver executes is the denotation (any operation record, any well-formed tree). -/
theorem evalV_correct {S : Type} (o : Ops S) (x : ℕ → V) (n : Node S V) (hwf : n.WF) (i : ℕ)
    (hi : i < n.units) (d : S) : (n.evalV o x).getD i d = n.eval o x i :=
  Node.evalV_getD o x n hwf i hi d

/-- One value per unit: the result shape is (…, units). -/
theorem evalV_size_units {S : Type} (o : Ops S) (x : ℕ → V) (n : Node S V) :
    (n.evalV o x).size = n.units := Node.evalV_size o x n

/-- `TorchSumLayer.forward`: `permute(0,2,1,3).flatten(2)` lays unit `j` of input `h` at column
    `h * kin + j`; the einsum `fbi,foi->fbo` over that axis is the double sum of the denotation. -/
theorem sum_forward_concat (ar kin : ℕ) (Wrow : ℕ → R) (e : ℕ → ℕ → R) :
    ∑ c ∈ range (ar * kin), Wrow c * e (c / kin) (c % kin)
      = ∑ h ∈ range ar, ∑ j ∈ range kin, Wrow (h * kin + j) * e h j := by
  rw [sum_range_mul]
  refine Finset.sum_congr rfl (fun h _ => Finset.sum_congr rfl (fun j hj => ?_))
  have hj' : j < kin := Finset.mem_range.mp hj
  rw [div_of_lt_add hj', mod_of_lt_add hj']

/-- `TorchKroneckerLayer.forward`: the loop `y0 ← flatten(y0[:, None] * x_i[None, :])` over the
    inputs yields, at flat index `i`, the product of the mixed-radix digits of `i`. -/
theorem kron_forward_loop (k : ℕ) (hk : 0 < k) (vs : List (ℕ → R)) (i : ℕ) (hi : i < k ^ vs.length) :
    kronLoop (Ops.ofCommSemiring R) k vs i = ∏ h : Fin vs.length, (vs.get h) (digit k vs.length h.val i) :=
  kronLoop_eq k hk vs i hi

/-- Batched evaluation is row-wise evaluation: each row depends only on its own input row. -/
theorem batch_rowwise {S : Type} (o : Ops S) (n : Node S V) (rows : List (ℕ → V)) (b : ℕ)
    (hb : b < rows.length) :
    (rows.map (fun x => n.evalV o x))[b]'(by simpa using hb) = n.evalV o (rows[b]) := by
  simp

/-- Outputs come in the declared order, one entry per output. -/
theorem outputs_in_order {S : Type} (o : Ops S) (c : Circ S V) (x : ℕ → V) (j : ℕ)
    (hj : j < c.outputs.length) :
    (c.outputs.map (fun n => n.evalV o x))[j]'(by simpa using hj) = (c.outputs[j]).evalV o x := by
  simp

/-- Semiring transport: evaluating with the operations pulled back along a bijection `φ : R ≃ L`
    (`a ⊕ b = φ(φ⁻¹a + φ⁻¹b)`, `a ⊗ b = φ(φ⁻¹a · φ⁻¹b)`: the log-space semirings with φ = log)
    gives `φ` of the linear-space value. -/
theorem eval_transport {L : Type} (φ : R ≃ L) (x : ℕ → V) (n : Node R V) (i : ℕ) :
    (n.mapVals φ).eval (Ops.transport (Ops.ofCommSemiring R) φ φ.symm) x i
      = φ (n.eval (Ops.ofCommSemiring R) x i) :=
  Node.eval_transport φ x n i

/-- `LSESumSemiring.apply_reduce`: shifting by any `m` before exponentiating and adding it back
    after the logarithm does not change `log Σ w_i exp(x_i)` (when the sum is positive). -/
theorem lse_shift {ι : Type} (s : Finset ι) (w x : ι → ℝ) (m : ℝ)
    (hpos : 0 < ∑ i ∈ s, w i * Real.exp (x i)) :
    Real.log (∑ i ∈ s, w i * Real.exp (x i - m)) + m = Real.log (∑ i ∈ s, w i * Real.exp (x i)) :=
  lse_shift_real s w x m hpos

/-- `ComplexLSESumSemiring.apply_reduce` shifts by a *real* `m`; in linear space (through `exp`)
    the shift cancels.  (`_partial`: the statement is about `exp` of the result; the principal
    branch of the complex logarithm is runtime.) -/
theorem clse_shift_partial {ι : Type} (s : Finset ι) (w x : ι → ℂ) (m : ℝ) :
    (∑ i ∈ s, w i * Complex.exp (x i - (m : ℂ))) * Complex.exp (m : ℂ)
      = ∑ i ∈ s, w i * Complex.exp (x i) :=
  clse_shift s w x m

/-- non-vacuity: a concrete well-formed tree with a Kronecker and a sum layer -/
example : (Node.sum 1 4 1 (fun _ c => (c : ℚ) + 1)
    (fun _ => Node.kron 2 2 (fun h => Node.leaf h.val 2 (fun i (a : ℕ) => (i + a : ℚ))))).WF := by
  intro h; refine ⟨?_, rfl⟩; intro h'; exact ⟨trivial, rfl⟩

end Cirkit.C01
