/-
  C20 — the circuit templates compute the documented tensor contractions.

  Theorems are about the model (`CirkitModel.Model.Node`, evaluated with `Ops.ofCommSemiring R`
  for an arbitrary commutative semiring `R`); `x : ℕ → V` is an index tuple / assignment.  The
  correspondence check builds the template circuits with the real library (`cirkit/templates/
  tensor_factorizations.py`, `cirkit/templates/pgms.py`, `cirkit/templates/logic`) and compares
  them with the contraction recomputed from the extracted factors.

  * `cp_formula` (full, every arity and rank)
      — CP: a single-output sum layer with weights `w` over the Hadamard product of the `ar`
        embedding factors computes `Σ_r w_r Π_j A_j[r, x_j]`.
  * `tucker_formula_partial` (two modes, every rank)
      — Tucker: a sum layer with the flattened core `W` over the Kronecker product of two factors
        computes `Σ_{r1,r2} W[r1, r2] · A[r1, x_a] · B[r2, x_b]` with the core read in row-major
        order `r1 * rank + r2`.  `_partial`: the general order is obtained by iterating the same
        row-major re-indexing (`sum_range_mul`, one application per extra mode: the digits of a
        unit index of the Kronecker layer are the mixed-radix digits, `C01.eval_kronecker_layer`);
        only order 2 is proved here.  (The statement does not need `0 < rank`; the hypothesis is
        kept as given.)
  * `tt_step`, `tt_chain_step`
      — tensor train: the sum layer with the block-diagonal ones matrix
        `block_diag(1_{1×rank}, …, 1_{1×rank})` makes output unit `i` the sum of the units of its
        `i`-th input; when that input is `cur ⊙ G_i` this is one step `v ↦ v · G` of the matrix
        chain.
  * `hmm_step`
      — one step of the backward (message passing) recursion of the HMM template, in the two
        bracketings that occur (dense sum layer over the Hadamard product vs. the contraction).
  * `logic_disjunction_overcounts`
      — a sum layer with unit weights over two overlapping disjuncts counts 2, not 1: determinism
        of the disjunctions is an explicit hypothesis of the logic-circuit part of C20.  It is not
        proved about the compiler of logic circuits; it is carried by the correspondence only
        (model counts compared with brute-force enumeration).
  Proofs: `CirkitModel.Proofs.Templates`.
-/
import Mathlib.Algebra.Order.Field.Rat
import Mathlib.Tactic.NormNum
import CirkitModel.Proofs.Templates

open Finset

namespace Cirkit.C20
variable {R V : Type} [CommSemiring R]

/-! ### 6. CP -/

/-- CP: `Σ_r w_r Π_j A_j[r, x_j]`.  (The weight column of unit `r` of the single input `h = 0` is
    `0 * rank + r = r`.) -/
theorem cp_formula (ar rank : ℕ) (w : ℕ → R) (A : Fin ar → ℕ → V → R) (vars : Fin ar → ℕ)
    (x : ℕ → V) :
    (Node.sum 1 rank 1 (fun _ c => w c)
        (fun _ => Node.had ar rank (fun j => Node.leaf (vars j) rank (A j)))).eval
        (Ops.ofCommSemiring R) x 0
      = ∑ r ∈ Finset.range rank, w r * ∏ j : Fin ar, A j r (x (vars j)) :=
  cp_formula_aux ar rank w A vars x

/-! ### 7. Tucker -/

set_option linter.unusedVariables false in
/-- Two-mode Tucker: the core is read in row-major order.  General order: iterate the same
    re-indexing once per extra mode (not proved here, hence `_partial`). -/
theorem tucker_formula_partial (rank : ℕ) (W : ℕ → R) (A B : ℕ → V → R) (va vb : ℕ) (x : ℕ → V)
    (hr : 0 < rank) :
    (Node.sum 1 (rank ^ 2) 1 (fun _ c => W c)
        (fun _ => Node.kron 2 rank
          (fun j => if j.val = 0 then Node.leaf va rank A else Node.leaf vb rank B))).eval
        (Ops.ofCommSemiring R) x 0
      = ∑ r1 ∈ Finset.range rank, ∑ r2 ∈ Finset.range rank,
          W (r1 * rank + r2) * (A r1 (x va) * B r2 (x vb)) :=
  tucker_formula_aux rank W A B va vb x

/-! ### 8. tensor train -/

/-- The block-diagonal ones matrix: output unit `i` adds up the units of its `i`-th input. -/
theorem tt_step (rank : ℕ) (e : ℕ → ℕ → R) (i : ℕ) (hi : i < rank) :
    ∑ h ∈ Finset.range rank, ∑ j ∈ Finset.range rank, (if h = i then (1 : R) else 0) * e h j
      = ∑ j ∈ Finset.range rank, e i j :=
  tt_step_aux rank e i hi

/-- With input `h` equal to `cur ⊙ G_h`: one step `v ↦ v · G` of the matrix chain. -/
theorem tt_chain_step (rank : ℕ) (cur : ℕ → R) (G : ℕ → ℕ → R) (i : ℕ) (hi : i < rank) :
    ∑ h ∈ Finset.range rank, ∑ j ∈ Finset.range rank,
        (if h = i then (1 : R) else 0) * (cur j * G h j)
      = ∑ j ∈ Finset.range rank, cur j * G i j :=
  tt_step_aux rank (fun h j => cur j * G h j) i hi

/-! ### 9. hidden Markov model -/

/-- One step `s_i ← T · (s_{i+1} ⊙ e)` of the recursion.

    The `hmm` template (`cirkit/templates/pgms.py`) walks the variable ordering from its last
    variable to its first.  It starts with the emission (input) layer `e_{n-1}` of the last
    variable `ordering[n-1]` and a dense sum layer over it, `s_{n-1} = T_{n-1} · e_{n-1}`.  Then, for
    `i = n-2, …, 0`, it multiplies the running layer with the emission layer of `ordering[i]`
    (Hadamard layer of arity 2, inputs `[s_{i+1}, e_i]`) and applies a fresh dense sum layer:
    `s_i = T_i · (s_{i+1} ⊙ e_i)`; the tables are not shared between steps.  The sum layer of the
    first variable (`i = 0`, or the only one when `n = 1`) has a single output unit — its weight
    row is the initial-state distribution — and is the output of the circuit.  Each
    sum-after-Hadamard pair is the left-hand side below (`eval_sum_layer` over
    `eval_hadamard_layer` of C01, arity 1 so column `0 * K + j = j`); the right-hand side is the
    entry `Σ_j T[i,j] · s[j] · e[j]` of the documented recursion. -/
theorem hmm_step (K : ℕ) (T : ℕ → ℕ → R) (s e : ℕ → R) (i : ℕ) :
    ∑ j ∈ Finset.range K, T i j * (s j * e j) = ∑ j ∈ Finset.range K, T i j * s j * e j := by
  refine Finset.sum_congr rfl (fun j _ => ?_)
  ring

/-! ### 10. logic circuits -/

/-- A sum layer with unit weights over two inputs that are both 1 evaluates to 2: a disjunction
    whose disjuncts overlap is not computed as its truth value.  Hence determinism is an explicit
    hypothesis of the logic-circuit part of C20, which is carried by the correspondence only. -/
theorem logic_disjunction_overcounts : (1 : ℚ) * 1 + 1 * 1 = 2 := by norm_num

/-- the same, as an evaluation of the model: two constant-true inputs under a unit-weight sum -/
example :
    (Node.sum 2 1 1 (fun _ _ => (1 : ℚ)) (fun _ => (Node.const 1 (fun _ => 1) : Node ℚ ℕ))).eval
      (Ops.ofCommSemiring ℚ) (fun _ => 0) 0 = 2 := by
  simp only [Node.eval, sumFin_eq, sumN_eq, ofCS_mul, Fin.sum_univ_two, Finset.sum_range_one]
  norm_num

/-- non-vacuity of `cp_formula`: rank 2, two modes, over ℚ -/
example :
    (Node.sum 1 2 1 (fun _ c => ((c : ℚ) + 1))
        (fun _ => Node.had 2 2 (fun j => Node.leaf j.val 2 (fun r (a : ℕ) => ((r + a : ℕ) : ℚ))))).eval
        (Ops.ofCommSemiring ℚ) (fun v => v + 1) 0 = 14 := by
  rw [cp_formula 2 2 (fun c => ((c : ℚ) + 1)) (fun _ r (a : ℕ) => ((r + a : ℕ) : ℚ))
    (fun j => j.val) (fun v => v + 1)]
  simp only [Finset.sum_range_succ, Finset.sum_range_zero, Fin.prod_univ_two]
  norm_num

end Cirkit.C20
