/-
  C20 — the circuit templates compute the documented tensor contractions.

  Theorems are about the model (`CirkitModel.Model.Node`, evaluated with `Ops.ofCommSemiring R`
  for an arbitrary commutative semiring `R`); `x : ℕ → V` is an index tuple / assignment.  The
  correspondence check builds the template circuits with the real library (`cirkit/templates/
  tensor_factorizations.py`, `cirkit/templates/pgms.py`, `cirkit/templates/logic`) and compares
  them with the contraction recomputed from the extracted factors.

  * `cp_formula` (full, every arity and rank)
      — CP: a single-output sum layer with weights `w` over the Hadamard product of the `ar`
        embedding factors computes `Σ_r w_r Π_j A_j[r, x_j]`.
  * `tucker_formula_partial` (two modes, every rank)
      — Tucker: a sum layer with the flattened core `W` over the Kronecker product of two factors
        computes `Σ_{r1,r2} W[r1, r2] · A[r1, x_a] · B[r2, x_b]` with the core read in row-major
        order `r1 * rank + r2`.  `_partial`: the general order is obtained by iterating the same
        row-major re-indexing (`sum_range_mul`, one application per extra mode: the digits of a
        unit index of the Kronecker layer are the mixed-radix digits, `C01.eval_kronecker_layer`);
        only order 2 is proved here.  (The statement does not need `0 < rank`; the hypothesis is
        kept as given.)  Superseded by `tucker_formula` / `tucker_formula_fun` (every arity) below.
  * `tt_step`, `tt_chain_step`
      — tensor train: the sum layer with the block-diagonal ones matrix
        `block_diag(1_{1×rank}, …, 1_{1×rank})` makes output unit `i` the sum of the units of its
        `i`-th input; when that input is `cur ⊙ G_i` this is one step `v ↦ v · G` of the matrix
        chain.
  * `hmm_step`
      — one step of the backward (message passing) recursion of the HMM template, in the two
        bracketings that occur (dense sum layer over the Hadamard product vs. the contraction).
  * `logic_disjunction_overcounts`
      — a sum layer with unit weights over two overlapping disjuncts counts 2, not 1: determinism
        of the disjunctions is an explicit hypothesis of the logic-circuit part of C20.  It is not
        proved about the compiler of logic circuits; it is carried by the correspondence only
        (model counts compared with brute-force enumeration).
  Proofs: `CirkitModel.Proofs.Templates`.

  Second part (sections 11–16, end of the file): the same statements for the *whole* templates, for
  every number of modes / every ordering, about the computable builders of
  `CirkitModel.Model.Templates` (`Tpl.cpNode`, `Tpl.tuckerNode`, `Tpl.ttNode`, `Tpl.hmmNode`,
  `Tpl.ffNode`), which mirror layer by layer what `cirkit/templates/tensor_factorizations.py` and
  `cirkit/templates/pgms.py` build and which the driver executes (command `template`).
  * `cpNode_eval` (full)        — CP, every arity `n` and rank.
  * `tucker_formula` (full)     — Tucker, every arity: sum over flat core indices `c < rank ^ n`
                                   with the mixed-radix digits of `c`;
    `tucker_formula_fun` (full) — the same as a sum over multi-indices `f : Fin n → Fin rank`,
                                   the core read at the row-major index `Σ_j f_j · rank^(n-1-j)`.
  * `tt_formula` (full)         — tensor train, every `n = inner + 2 ≥ 2`: the left-to-right
                                   matrix-chain recursion `Tpl.ttVec` / `Tpl.ttVal`;
    `tt_joint` (full)           — the documented sum over all bond indices `r_0 … r_{n-2}`.
  * `hmm_formula` (full)        — HMM, every non-empty ordering: the backward recursion
                                   `Tpl.hmmBack` over the whole ordering;
    `hmm_joint` (full)          — the sum over all hidden state sequences of
                                   initial · transitions · emissions.
  * `ff_formula` (full)         — fully factorised: `Π_i F_i(x_i)`.
  * `template_evalV_*`          — the vectorised evaluator the driver runs returns these values.
  Proofs: `CirkitModel.Proofs.TemplatesFull`.
-/
import Mathlib.Algebra.Order.Field.Rat
import Mathlib.Tactic.NormNum
import CirkitModel.Proofs.Templates
import CirkitModel.Proofs.TemplatesFull
import CirkitModel.Proofs.EvalV

open Finset

namespace Cirkit.C20
variable {R V : Type} [CommSemiring R]

/-! ### 6. CP -/

/-- CP: `Σ_r w_r Π_j A_j[r, x_j]`.  (The weight column of unit `r` of the single input `h = 0` is
    `0 * rank + r = r`.) -/
theorem cp_formula (ar rank : ℕ) (w : ℕ → R) (A : Fin ar → ℕ → V → R) (vars : Fin ar → ℕ)
    (x : ℕ → V) :
    (Node.sum 1 rank 1 (fun _ c => w c)
        (fun _ => Node.had ar rank (fun j => Node.leaf (vars j) rank (A j)))).eval
        (Ops.ofCommSemiring R) x 0
      = ∑ r ∈ Finset.range rank, w r * ∏ j : Fin ar, A j r (x (vars j)) :=
  cp_formula_aux ar rank w A vars x

/-! ### 7. Tucker -/

set_option linter.unusedVariables false in
/-- Two-mode Tucker: the core is read in row-major order.  General order: iterate the same
    re-indexing once per extra mode (not proved here, hence `_partial`). -/
theorem tucker_formula_partial (rank : ℕ) (W : ℕ → R) (A B : ℕ → V → R) (va vb : ℕ) (x : ℕ → V)
    (hr : 0 < rank) :
    (Node.sum 1 (rank ^ 2) 1 (fun _ c => W c)
        (fun _ => Node.kron 2 rank
          (fun j => if j.val = 0 then Node.leaf va rank A else Node.leaf vb rank B))).eval
        (Ops.ofCommSemiring R) x 0
      = ∑ r1 ∈ Finset.range rank, ∑ r2 ∈ Finset.range rank,
          W (r1 * rank + r2) * (A r1 (x va) * B r2 (x vb)) :=
  tucker_formula_aux rank W A B va vb x

/-! ### 8. tensor train -/

/-- The block-diagonal ones matrix: output unit `i` adds up the units of its `i`-th input. -/
theorem tt_step (rank : ℕ) (e : ℕ → ℕ → R) (i : ℕ) (hi : i < rank) :
    ∑ h ∈ Finset.range rank, ∑ j ∈ Finset.range rank, (if h = i then (1 : R) else 0) * e h j
      = ∑ j ∈ Finset.range rank, e i j :=
  tt_step_aux rank e i hi

/-- With input `h` equal to `cur ⊙ G_h`: one step `v ↦ v · G` of the matrix chain. -/
theorem tt_chain_step (rank : ℕ) (cur : ℕ → R) (G : ℕ → ℕ → R) (i : ℕ) (hi : i < rank) :
    ∑ h ∈ Finset.range rank, ∑ j ∈ Finset.range rank,
        (if h = i then (1 : R) else 0) * (cur j * G h j)
      = ∑ j ∈ Finset.range rank, cur j * G i j :=
  tt_step_aux rank (fun h j => cur j * G h j) i hi

/-! ### 9. hidden Markov model -/

/-- One step `s_i ← T · (s_{i+1} ⊙ e)` of the recursion.

    The `hmm` template (`cirkit/templates/pgms.py`) walks the variable ordering from its last
    variable to its first.  It starts with the emission (input) layer `e_{n-1}` of the last
    variable `ordering[n-1]` and a dense sum layer over it, `s_{n-1} = T_{n-1} · e_{n-1}`.  Then, for
    `i = n-2, …, 0`, it multiplies the running layer with the emission layer of `ordering[i]`
    (Hadamard layer of arity 2, inputs `[s_{i+1}, e_i]`) and applies a fresh dense sum layer:
    `s_i = T_i · (s_{i+1} ⊙ e_i)`; the tables are not shared between steps.  The sum layer of the
    first variable (`i = 0`, or the only one when `n = 1`) has a single output unit — its weight
    row is the initial-state distribution — and is the output of the circuit.  Each
    sum-after-Hadamard pair is the left-hand side below (`eval_sum_layer` over
    `eval_hadamard_layer` of C01, arity 1 so column `0 * K + j = j`); the right-hand side is the
    entry `Σ_j T[i,j] · s[j] · e[j]` of the documented recursion. -/
theorem hmm_step (K : ℕ) (T : ℕ → ℕ → R) (s e : ℕ → R) (i : ℕ) :
    ∑ j ∈ Finset.range K, T i j * (s j * e j) = ∑ j ∈ Finset.range K, T i j * s j * e j := by
  refine Finset.sum_congr rfl (fun j _ => ?_)
  ring

/-! ### 10. logic circuits -/

/-- A sum layer with unit weights over two inputs that are both 1 evaluates to 2: a disjunction
    whose disjuncts overlap is not computed as its truth value.  Hence determinism is an explicit
    hypothesis of the logic-circuit part of C20, which is carried by the correspondence only. -/
theorem logic_disjunction_overcounts : (1 : ℚ) * 1 + 1 * 1 = 2 := by norm_num

/-- the same, as an evaluation of the model: two constant-true inputs under a unit-weight sum -/
example :
    (Node.sum 2 1 1 (fun _ _ => (1 : ℚ)) (fun _ => (Node.const 1 (fun _ => 1) : Node ℚ ℕ))).eval
      (Ops.ofCommSemiring ℚ) (fun _ => 0) 0 = 2 := by
  simp only [Node.eval, sumFin_eq, sumN_eq, ofCS_mul, Fin.sum_univ_two, Finset.sum_range_one]
  norm_num

/-- non-vacuity of `cp_formula`: rank 2, two modes, over ℚ -/
example :
    (Node.sum 1 2 1 (fun _ c => ((c : ℚ) + 1))
        (fun _ => Node.had 2 2 (fun j => Node.leaf j.val 2 (fun r (a : ℕ) => ((r + a : ℕ) : ℚ))))).eval
        (Ops.ofCommSemiring ℚ) (fun v => v + 1) 0 = 14 := by
  rw [cp_formula 2 2 (fun c => ((c : ℚ) + 1)) (fun _ r (a : ℕ) => ((r + a : ℕ) : ℚ))
    (fun j => j.val) (fun v => v + 1)]
  simp only [Finset.sum_range_succ, Finset.sum_range_zero, Fin.prod_univ_two]
  norm_num

/-! ## Whole templates, every arity / every ordering

  Index conventions (the ones of the real code):
  * an embedding factor is `A j r a` = entry `[r, a]` of the weight (shape `(rank, I_j)`) of the
    embedding layer of mode `j`, whose variable id is `j`; `x j` is the index of mode `j`;
  * everything is evaluated at output unit `0` of the single output layer. -/

/-! ### 11. CP, every arity -/

/-- CP (`cp(shape, rank)`, `n = len(shape)`): `Σ_r w_r Π_j A_j[r, x_j]`.  No hypothesis. -/
theorem cpNode_eval (n rank : ℕ) (w : ℕ → R) (A : ℕ → ℕ → V → R) (x : ℕ → V) :
    (Tpl.cpNode n rank w A).eval (Ops.ofCommSemiring R) x 0
      = ∑ r ∈ Finset.range rank, w r * ∏ j : Fin n, A j.val r (x j.val) :=
  Tpl.cpNode_eval_aux n rank w A x

omit [CommSemiring R] in
/-- `cpNode` is literally the tree `cp_formula` is about (with `vars j = j`). -/
theorem cpNode_eq (n rank : ℕ) (w : ℕ → R) (A : ℕ → ℕ → V → R) :
    Tpl.cpNode n rank w A
      = Node.sum 1 rank 1 (fun _ c => w c)
          (fun _ => Node.had n rank (fun j => Node.leaf j.val rank (A j.val))) := rfl

/-! ### 12. Tucker, every arity -/

/-- Tucker (`tucker(shape, rank)`, any `n = len(shape)`), `range (rank ^ n)` / `digit` form:
    `Σ_{c < rank^n} core[c] · Π_j A_j[digit_j(c), x_j]` where `digit_j(c) = (c / rank^(n-1-j)) % rank`
    (first mode most significant: `core` is the core tensor flattened in row-major order).
    No hypothesis. -/
theorem tucker_formula (n rank : ℕ) (core : ℕ → R) (A : ℕ → ℕ → V → R) (x : ℕ → V) :
    (Tpl.tuckerNode n rank core A).eval (Ops.ofCommSemiring R) x 0
      = ∑ c ∈ Finset.range (rank ^ n),
          core c * ∏ j : Fin n, A j.val (digit rank n j.val c) (x j.val) :=
  Tpl.tuckerNode_eval_digit n rank core A x

/-- Tucker as the documented multi-sum: over all `f : Fin n → Fin rank`,
    `core[r_1, …, r_n] · Π_j A_j[r_j, x_j]` with the core entry read at the row-major flat index
    `Tpl.flatIdx rank n f = Σ_j f_j · rank^(n-1-j)`.  No hypothesis. -/
theorem tucker_formula_fun (n rank : ℕ) (core : ℕ → R) (A : ℕ → ℕ → V → R) (x : ℕ → V) :
    (Tpl.tuckerNode n rank core A).eval (Ops.ofCommSemiring R) x 0
      = ∑ f : Fin n → Fin rank,
          core (Tpl.flatIdx rank n f) * ∏ j : Fin n, A j.val (f j).val (x j.val) :=
  Tpl.tuckerNode_eval_fun n rank core A x

/-- the flat index is what it is said to be, is in range, and its digits are the multi-index -/
theorem flatIdx_spec (k n : ℕ) (f : Fin n → Fin k) :
    Tpl.flatIdx k n f = ∑ j : Fin n, (f j).val * k ^ (n - 1 - j.val)
      ∧ Tpl.flatIdx k n f < k ^ n
      ∧ ∀ j : Fin n, digit k n j.val (Tpl.flatIdx k n f) = (f j).val :=
  ⟨rfl, Tpl.flatIdx_lt k n f, Tpl.digit_flatIdx k n f⟩

/-! ### 13. tensor train, every `n ≥ 2` -/

/-- Tensor train (`tensor_train(shape, rank)` with `n = inner + 2` modes, variables `0 … n-1`):
    the circuit computes the left-to-right contraction
    `v_0[r] = first[r, x_0]`, `v_{m+1}[q] = Σ_{r<rank} v_m[r] · G_{m+1}[q][r, x_{m+1}]`
    (`G m q` = inner embedding number `q` of mode `m`, `rank` units indexed by `r`),
    value `Σ_{r<rank} v_{n-2}[r] · last[r, x_{n-1}]` — `Tpl.ttVec` / `Tpl.ttVal`, unfolded by
    `tt_vec_zero`, `tt_vec_succ`, `tt_val`.  `inner = 0` is the case `n = 2` (only the final dot
    product).  No hypothesis. -/
theorem tt_formula (inner rank : ℕ) (first : ℕ → V → R) (G : ℕ → ℕ → ℕ → V → R)
    (last : ℕ → V → R) (x : ℕ → V) :
    (Tpl.ttNode (Ops.ofCommSemiring R) inner rank first G last).eval (Ops.ofCommSemiring R) x 0
      = Tpl.ttVal (Ops.ofCommSemiring R) inner rank first G last x :=
  Tpl.ttNode_eval inner rank first G last x

theorem tt_vec_zero (rank : ℕ) (first : ℕ → V → R) (G : ℕ → ℕ → ℕ → V → R) (x : ℕ → V) (r : ℕ) :
    Tpl.ttVec (Ops.ofCommSemiring R) rank first G x 0 r = first r (x 0) := rfl

theorem tt_vec_succ (rank : ℕ) (first : ℕ → V → R) (G : ℕ → ℕ → ℕ → V → R) (x : ℕ → V)
    (m q : ℕ) :
    Tpl.ttVec (Ops.ofCommSemiring R) rank first G x (m + 1) q
      = ∑ r ∈ Finset.range rank,
          Tpl.ttVec (Ops.ofCommSemiring R) rank first G x m r * G (m + 1) q r (x (m + 1)) :=
  Tpl.ttVec_succ rank first G x m q

theorem tt_val (inner rank : ℕ) (first : ℕ → V → R) (G : ℕ → ℕ → ℕ → V → R)
    (last : ℕ → V → R) (x : ℕ → V) :
    Tpl.ttVal (Ops.ofCommSemiring R) inner rank first G last x
      = ∑ r ∈ Finset.range rank,
          Tpl.ttVec (Ops.ofCommSemiring R) rank first G x inner r * last r (x (inner + 1)) :=
  Tpl.ttVal_eq inner rank first G last x

/-- Tensor train as the documented sum over all bond indices `r_0, …, r_{n-2}`
    (`r : Fin (inner + 1) → Fin rank`):
    `first[r_0, x_0] · Π_{i<inner} G_{i+1}[r_{i+1}][r_i, x_{i+1}] · last[r_{n-2}, x_{n-1}]`.
    No hypothesis. -/
theorem tt_joint (inner rank : ℕ) (first : ℕ → V → R) (G : ℕ → ℕ → ℕ → V → R)
    (last : ℕ → V → R) (x : ℕ → V) :
    (Tpl.ttNode (Ops.ofCommSemiring R) inner rank first G last).eval (Ops.ofCommSemiring R) x 0
      = ∑ r : Fin (inner + 1) → Fin rank,
          first (r 0).val (x 0)
            * (∏ i : Fin inner,
                G (i.val + 1) (r i.succ).val (r i.castSucc).val (x (i.val + 1)))
            * last (r (Fin.last inner)).val (x (inner + 1)) := by
  rw [tt_formula, Tpl.ttVal_joint]

/-! ### 14. hidden Markov model, every non-empty ordering -/

/-- HMM (`hmm(ordering, num_latent_states = K)`, ordering `v :: rest`): output unit `0` of the
    circuit is the backward message `β_0[0]`, where for position `pos` (variable `u = ordering[pos]`)
    `β_pos[o] = Σ_{j<K} T_pos[o, j] · (β_{pos+1}[j] · E_u[j](x_u))`, and
    `β_{n-1}[o] = Σ_{j<K} T_{n-1}[o, j] · E_u[j](x_u)` at the last position — `Tpl.hmmBack`,
    unfolded by `hmm_back_last`, `hmm_back_step`.  Variable `ordering[pos]` uses emission function
    number `ordering[pos]` (`E u`: the input layer and per-variable arguments of variable id `u`)
    and is read at `x (ordering[pos])`; `T pos` is the weight of the sum layer of position `pos`.
    Only hypothesis: the ordering is non-empty (it is `v :: rest`). -/
theorem hmm_formula (K : ℕ) (E : ℕ → ℕ → V → R) (T : ℕ → ℕ → ℕ → R) (v : ℕ) (rest : List ℕ)
    (x : ℕ → V) :
    (Tpl.hmmNode K E T (v :: rest)).eval (Ops.ofCommSemiring R) x 0
      = Tpl.hmmBack (Ops.ofCommSemiring R) K E T x 0 v rest 0 :=
  Tpl.hmmFrom_eval K E T x rest 0 v 0

theorem hmm_back_last (K : ℕ) (E : ℕ → ℕ → V → R) (T : ℕ → ℕ → ℕ → R) (x : ℕ → V)
    (pos u o : ℕ) :
    Tpl.hmmBack (Ops.ofCommSemiring R) K E T x pos u [] o
      = ∑ j ∈ Finset.range K, T pos o j * E u j (x u) :=
  Tpl.hmmBack_nil K E T x pos u o

theorem hmm_back_step (K : ℕ) (E : ℕ → ℕ → V → R) (T : ℕ → ℕ → ℕ → R) (x : ℕ → V)
    (pos u w : ℕ) (rest : List ℕ) (o : ℕ) :
    Tpl.hmmBack (Ops.ofCommSemiring R) K E T x pos u (w :: rest) o
      = ∑ j ∈ Finset.range K, T pos o j
          * (Tpl.hmmBack (Ops.ofCommSemiring R) K E T x (pos + 1) w rest j * E u j (x u)) :=
  Tpl.hmmBack_cons K E T x pos u w rest o

/-- HMM as the joint probability: the sum over all hidden state sequences
    `z : Fin n → Fin K` (`n = rest.length + 1 = len(ordering)`) of
    `T_0[0, z_0] · Π_{i<n-1} T_{i+1}[z_i, z_{i+1}] · Π_{i<n} E_{ordering[i]}[z_i](x_{ordering[i]})`:
    row 0 of the first sum layer is the initial distribution, `T_{i+1}` the transition table into
    position `i+1`, and position `i` emits variable `ordering[i]` with emission function number
    `ordering[i]`.  Only hypothesis: the ordering is non-empty. -/
theorem hmm_joint (K : ℕ) (E : ℕ → ℕ → V → R) (T : ℕ → ℕ → ℕ → R) (v : ℕ) (rest : List ℕ)
    (x : ℕ → V) :
    (Tpl.hmmNode K E T (v :: rest)).eval (Ops.ofCommSemiring R) x 0
      = ∑ z : Fin (rest.length + 1) → Fin K,
          T 0 0 (z 0).val
            * (∏ i : Fin rest.length, T (i.val + 1) (z i.castSucc).val (z i.succ).val)
            * ∏ i : Fin (rest.length + 1),
                E ((v :: rest).get i) (z i).val (x ((v :: rest).get i)) := by
  rw [hmm_formula, Tpl.hmmBack_joint]
  refine Finset.sum_congr rfl (fun z _ => ?_)
  congr 2
  refine Finset.prod_congr rfl (fun i _ => ?_)
  rw [Nat.zero_add, Nat.add_comm]

/-! ### 15. fully factorised -/

/-- Fully factorised (`fully_factorized(n)`): `Π_{i<n} F_i(x_i)` — variable id `i` uses unit
    function number `i` (its own input layer / kwargs).  Holds for every `n` (for `n = 1` the
    circuit is the single input layer; the real template rejects `n = 0`). -/
theorem ff_formula (n : ℕ) (F : ℕ → V → R) (x : ℕ → V) :
    (Tpl.ffNode n F).eval (Ops.ofCommSemiring R) x 0 = ∏ j : Fin n, F j.val (x j.val) :=
  Tpl.ffNode_eval_aux n F x

/-! ### 16. what the driver runs

  The driver's `template` command evaluates the builders with `Node.evalV`; on these (well-formed,
  single-output) trees entry 0 of the result is `Node.eval … 0`, over any operation record. -/

theorem template_evalV_cp {S : Type} (o : Ops S) (n rank : ℕ) (w : ℕ → S) (A : ℕ → ℕ → V → S)
    (x : ℕ → V) (d : S) :
    ((Tpl.cpNode n rank w A).evalV o x).size = 1
      ∧ ((Tpl.cpNode n rank w A).evalV o x).getD 0 d = (Tpl.cpNode n rank w A).eval o x 0 :=
  ⟨(Node.evalV_size o x _).trans (Tpl.cpNode_wf n rank w A).2,
    Node.evalV_getD o x _ (Tpl.cpNode_wf n rank w A).1 0
      (by rw [(Tpl.cpNode_wf n rank w A).2]; exact Nat.one_pos) d⟩

theorem template_evalV_tucker {S : Type} (o : Ops S) (n rank : ℕ) (core : ℕ → S)
    (A : ℕ → ℕ → V → S) (x : ℕ → V) (d : S) :
    ((Tpl.tuckerNode n rank core A).evalV o x).size = 1
      ∧ ((Tpl.tuckerNode n rank core A).evalV o x).getD 0 d
          = (Tpl.tuckerNode n rank core A).eval o x 0 :=
  ⟨(Node.evalV_size o x _).trans (Tpl.tuckerNode_wf n rank core A).2,
    Node.evalV_getD o x _ (Tpl.tuckerNode_wf n rank core A).1 0
      (by rw [(Tpl.tuckerNode_wf n rank core A).2]; exact Nat.one_pos) d⟩

theorem template_evalV_tt {S : Type} (o : Ops S) (inner rank : ℕ) (first : ℕ → V → S)
    (G : ℕ → ℕ → ℕ → V → S) (last : ℕ → V → S) (x : ℕ → V) (d : S) :
    ((Tpl.ttNode o inner rank first G last).evalV o x).size = 1
      ∧ ((Tpl.ttNode o inner rank first G last).evalV o x).getD 0 d
          = (Tpl.ttNode o inner rank first G last).eval o x 0 :=
  ⟨(Node.evalV_size o x _).trans (Tpl.ttNode_wf o inner rank first G last).2,
    Node.evalV_getD o x _ (Tpl.ttNode_wf o inner rank first G last).1 0
      (by rw [(Tpl.ttNode_wf o inner rank first G last).2]; exact Nat.one_pos) d⟩

theorem template_evalV_hmm {S : Type} (o : Ops S) (K : ℕ) (E : ℕ → ℕ → V → S)
    (T : ℕ → ℕ → ℕ → S) (v : ℕ) (rest : List ℕ) (x : ℕ → V) (d : S) :
    ((Tpl.hmmNode K E T (v :: rest)).evalV o x).size = 1
      ∧ ((Tpl.hmmNode K E T (v :: rest)).evalV o x).getD 0 d
          = (Tpl.hmmNode K E T (v :: rest)).eval o x 0 :=
  ⟨(Node.evalV_size o x _).trans (Tpl.hmmNode_wf K E T v rest).2,
    Node.evalV_getD o x _ (Tpl.hmmNode_wf K E T v rest).1 0
      (by rw [(Tpl.hmmNode_wf K E T v rest).2]; exact Nat.one_pos) d⟩

theorem template_evalV_ff {S : Type} (o : Ops S) (n : ℕ) (F : ℕ → V → S) (x : ℕ → V) (d : S) :
    ((Tpl.ffNode n F).evalV o x).size = 1
      ∧ ((Tpl.ffNode n F).evalV o x).getD 0 d = (Tpl.ffNode n F).eval o x 0 :=
  ⟨(Node.evalV_size o x _).trans (Tpl.ffNode_wf n F).2,
    Node.evalV_getD o x _ (Tpl.ffNode_wf n F).1 0
      (by rw [(Tpl.ffNode_wf n F).2]; exact Nat.one_pos) d⟩

/-! ### non-vacuity: concrete instances over ℕ (index tuple `x = (1, 0, 1, 1, …)`)

  Each instance is evaluated twice: the circuit directly (`decide` runs `Node.eval`), and through
  the theorem (the right-hand side is evaluated).  The numbers were also recomputed outside Lean. -/

/-- the index tuple used below: `x_1 = 0`, every other `x_v = 1` -/
def xs : ℕ → ℕ := fun v => if v = 1 then 0 else 1

/-- `cpNode_eval`: three modes, rank 2, weights `(1, 2)` -/
example : (Tpl.cpNode 3 2 (fun c => c + 1) (fun j r (a : ℕ) => (j + 1) * (r + 1) + a)).eval
    (Ops.ofCommSemiring ℕ) xs 0 = 184 := by decide
example : (Tpl.cpNode 3 2 (fun c => c + 1) (fun j r (a : ℕ) => (j + 1) * (r + 1) + a)).eval
    (Ops.ofCommSemiring ℕ) xs 0 = 184 := by rw [cpNode_eval]; decide

/-- `tucker_formula`, `tucker_formula_fun`: three modes, rank 2, core `1 … 8` -/
example : (Tpl.tuckerNode 3 2 (fun c => c + 1) (fun j r (a : ℕ) => (j + 1) * (r + 1) + a)).eval
    (Ops.ofCommSemiring ℕ) xs 0 = 1772 := by decide
example : (Tpl.tuckerNode 3 2 (fun c => c + 1) (fun j r (a : ℕ) => (j + 1) * (r + 1) + a)).eval
    (Ops.ofCommSemiring ℕ) xs 0 = 1772 := by rw [tucker_formula]; decide
example : (Tpl.tuckerNode 3 2 (fun c => c + 1) (fun j r (a : ℕ) => (j + 1) * (r + 1) + a)).eval
    (Ops.ofCommSemiring ℕ) xs 0 = 1772 := by rw [tucker_formula_fun]; decide

/-- `tt_formula`, `tt_joint`: `n = 2` (dot product only), `n = 3`, `n = 4`; rank 2 -/
example : (Tpl.ttNode (Ops.ofCommSemiring ℕ) 0 2 (fun r (a : ℕ) => r + a + 1)
    (fun m q r a => q + 2 * r + a + m) (fun r a => 2 * r + a + 1)).eval
    (Ops.ofCommSemiring ℕ) xs 0 = 11 := by decide
example : (Tpl.ttNode (Ops.ofCommSemiring ℕ) 1 2 (fun r (a : ℕ) => r + a + 1)
    (fun m q r a => q + 2 * r + a + m) (fun r a => 2 * r + a + 1)).eval
    (Ops.ofCommSemiring ℕ) xs 0 = 86 := by decide
example : (Tpl.ttNode (Ops.ofCommSemiring ℕ) 2 2 (fun r (a : ℕ) => r + a + 1)
    (fun m q r a => q + 2 * r + a + m) (fun r a => 2 * r + a + 1)).eval
    (Ops.ofCommSemiring ℕ) xs 0 = 786 := by rw [tt_formula]; decide
example : (Tpl.ttNode (Ops.ofCommSemiring ℕ) 2 2 (fun r (a : ℕ) => r + a + 1)
    (fun m q r a => q + 2 * r + a + m) (fun r a => 2 * r + a + 1)).eval
    (Ops.ofCommSemiring ℕ) xs 0 = 786 := by rw [tt_joint]; decide

/-- `hmm_formula`, `hmm_joint`: ordering `(2, 0, 1)`, two latent states; and a single variable
    with id 5 -/
example : (Tpl.hmmNode 2 (fun v r (a : ℕ) => v + r + a + 1) (fun pos o j => pos + 2 * o + j + 1)
    [2, 0, 1]).eval (Ops.ofCommSemiring ℕ) xs 0 = 6936 := by decide
example : (Tpl.hmmNode 2 (fun v r (a : ℕ) => v + r + a + 1) (fun pos o j => pos + 2 * o + j + 1)
    [2, 0, 1]).eval (Ops.ofCommSemiring ℕ) xs 0 = 6936 := by rw [hmm_formula]; decide
example : (Tpl.hmmNode 2 (fun v r (a : ℕ) => v + r + a + 1) (fun pos o j => pos + 2 * o + j + 1)
    [2, 0, 1]).eval (Ops.ofCommSemiring ℕ) xs 0 = 6936 := by rw [hmm_joint]; decide
example : (Tpl.hmmNode 2 (fun v r (a : ℕ) => v + r + a + 1) (fun pos o j => pos + 2 * o + j + 1)
    [5]).eval (Ops.ofCommSemiring ℕ) xs 0 = 23 := by rw [hmm_joint]; decide

/-- `ff_formula`: three variables; one variable -/
example : (Tpl.ffNode 3 (fun i (a : ℕ) => i + a + 2)).eval (Ops.ofCommSemiring ℕ) xs 0 = 45 := by
  rw [ff_formula]; decide
example : (Tpl.ffNode 1 (fun i (a : ℕ) => i + a + 2)).eval (Ops.ofCommSemiring ℕ) xs 0 = 3 := by
  decide

/-- the order of the ordering matters (per-variable emission functions are looked up by id):
    the orderings `(2, 0, 1)` and `(0, 1, 2)` give different values on the same instance -/
example : (Tpl.hmmNode 2 (fun v r (a : ℕ) => v + r + a + 1) (fun pos o j => pos + 2 * o + j + 1)
    [0, 1, 2]).eval (Ops.ofCommSemiring ℕ) xs 0 ≠ 6936 := by decide

end Cirkit.C20
