/-
  C09 — operator contracts: which arguments the operators of `cirkit.symbolic.functional` accept
  or refuse (and with which error class), and what structure their results keep.

  Decision logic (model: `SCirc.integratePre`, `differentiatePre`, `evidencePre`, `multiplyPre`,
  `queryPre` in `CirkitModel.Model.Sym`, mirroring the order of the checks in the code):
  `integrate` / `differentiate` refuse circuits that are not smooth and decomposable with a
  `StructuralPropertyError`, and reject bad scopes / orders with a `ValueError`; `evidence` only
  checks its scope; `multiply` needs equal scopes (`NotImplementedError` otherwise) and
  compatibility (`StructuralPropertyError` otherwise); queries need smooth and decomposable
  circuits (`ValueError`).
  Structure preservation (model: `Node`): the results of `integrate`, `evidence` and `conjugate`
  are again well-formed, smooth and decomposable, with the same number of units.
-/
import CirkitModel.Model.Sym
import CirkitModel.Properties.C03
import CirkitModel.Properties.C06
import CirkitModel.Properties.C07
import CirkitModel.Properties.C08

namespace Cirkit.C09

section Decision
variable {R : Type}

private theorem sd_iff (c : SCirc R) :
    (c.isSmooth && c.isDecomposable) = true ↔ (c.isSmooth = true ∧ c.isDecomposable = true) :=
  by rw [Bool.and_eq_true]

/-! ### integrate -/

theorem integrate_refuses (c : SCirc R) (zs : Scope) :
    (¬ (c.isSmooth = true ∧ c.isDecomposable = true)) → c.integratePre zs = some .structural := by
  intro h
  rw [← sd_iff] at h
  simp only [SCirc.integratePre, h, Bool.not_eq_true', if_true, Bool.not_false]

theorem integrate_rejects_bad_scope (c : SCirc R) (zs : Scope)
    (hok : c.isSmooth = true ∧ c.isDecomposable = true) :
    (zs = [] ∨ Scope.subset zs c.scope = false) → c.integratePre zs = some .value := by
  intro h
  rw [← sd_iff] at hok
  unfold SCirc.integratePre
  rw [hok]
  rcases h with h | h
  · subst h
    simp only [Bool.not_true, Bool.false_eq_true, if_false, List.isEmpty_nil, if_true]
  · rw [h]
    cases zs <;> simp only [Bool.not_true, Bool.false_eq_true, if_false, List.isEmpty_nil,
      List.isEmpty_cons, if_true, Bool.not_false]

theorem integrate_accepts_iff (c : SCirc R) (zs : Scope) :
    c.integratePre zs = none ↔
      (c.isSmooth = true ∧ c.isDecomposable = true ∧ zs ≠ [] ∧ Scope.subset zs c.scope = true) := by
  unfold SCirc.integratePre
  cases hs : c.isSmooth <;> cases hd : c.isDecomposable <;> cases zs <;>
    cases hsub : Scope.subset _ c.scope <;> simp

/-! ### differentiate -/

theorem differentiate_refuses (c : SCirc R) (order : Int) :
    (¬ (c.isSmooth = true ∧ c.isDecomposable = true)) →
      c.differentiatePre order = some .structural := by
  intro h
  rw [← sd_iff] at h
  simp only [SCirc.differentiatePre, h, if_true, Bool.not_false]

theorem differentiate_rejects_bad_order (c : SCirc R) (order : Int)
    (hok : c.isSmooth = true ∧ c.isDecomposable = true) :
    order ≤ 0 → c.differentiatePre order = some .value := by
  intro h
  rw [← sd_iff] at hok
  unfold SCirc.differentiatePre
  rw [hok]
  simp only [Bool.not_true, Bool.false_eq_true, if_false, h, if_true]

theorem differentiate_accepts_iff (c : SCirc R) (order : Int) :
    c.differentiatePre order = none ↔
      (c.isSmooth = true ∧ c.isDecomposable = true ∧ 0 < order) := by
  unfold SCirc.differentiatePre
  cases hs : c.isSmooth <;> cases hd : c.isDecomposable <;> by_cases ho : order ≤ 0 <;>
    simp [ho]
  all_goals omega

/-! ### evidence (no structural requirement) -/

theorem evidence_never_structural (c : SCirc R) (obsVars : Scope) :
    c.evidencePre obsVars ≠ some .structural := by
  unfold SCirc.evidencePre
  split
  · exact fun h => nomatch h
  · split
    · exact fun h => nomatch h
    · exact fun h => nomatch h

theorem evidence_rejects_bad_scope (c : SCirc R) (obsVars : Scope) :
    (obsVars = [] ∨ Scope.subset obsVars c.scope = false) →
      c.evidencePre obsVars = some .value := by
  intro h
  unfold SCirc.evidencePre
  rcases h with h | h
  · subst h
    simp only [List.isEmpty_nil, if_true]
  · rw [h]
    cases obsVars <;> simp only [List.isEmpty_nil, List.isEmpty_cons, if_true, Bool.not_false,
      Bool.false_eq_true, if_false]

theorem evidence_accepts_iff (c : SCirc R) (obsVars : Scope) :
    c.evidencePre obsVars = none ↔ (obsVars ≠ [] ∧ Scope.subset obsVars c.scope = true) := by
  unfold SCirc.evidencePre
  cases obsVars <;> cases hsub : Scope.subset _ c.scope <;> simp

/-! ### multiply -/

theorem multiply_accepts_iff (c1 c2 : SCirc R) :
    c1.multiplyPre c2 = none ↔ (c1.scope = c2.scope ∧ c1.areCompatible c2 = true) := by
  unfold SCirc.multiplyPre
  by_cases hs : c1.scope = c2.scope <;> cases hc : c1.areCompatible c2 <;> simp [hs]

theorem multiply_refuses_incompatible (c1 c2 : SCirc R) (hs : c1.scope = c2.scope)
    (h : c1.areCompatible c2 = false) : c1.multiplyPre c2 = some .structural := by
  unfold SCirc.multiplyPre
  simp [hs, h]

theorem multiply_refuses_scope_mismatch (c1 c2 : SCirc R) (hs : c1.scope ≠ c2.scope) :
    c1.multiplyPre c2 = some .notImplemented := by
  unfold SCirc.multiplyPre
  simp [hs]

/-! ### queries -/

theorem query_refuses (c : SCirc R) :
    (¬ (c.isSmooth = true ∧ c.isDecomposable = true)) → c.queryPre = some .value := by
  intro h
  rw [← sd_iff] at h
  simp only [SCirc.queryPre, h, if_true, Bool.not_false]

theorem query_accepts_iff (c : SCirc R) :
    c.queryPre = none ↔ (c.isSmooth = true ∧ c.isDecomposable = true) := by
  unfold SCirc.queryPre
  cases hs : c.isSmooth <;> cases hd : c.isDecomposable <;> simp

/-! ### non-vacuity: every outcome of the checks occurs -/

/-- a sum layer over two leaves with different variables: not smooth -/
def nonSmoothCirc : SCirc Rat :=
  { layers := #[
      ⟨.embedding 0 2 2 (.const [2, 2] #[1, 2, 3, 4]), []⟩,
      ⟨.embedding 1 2 2 (.const [2, 2] #[1, 2, 3, 4]), []⟩,
      ⟨.sum 2 1 2 (.const [1, 4] #[1, 2, 3, 4]), [0, 1]⟩],
    outputs := [2] }

example : C08.exampleCirc.integratePre [0] = none := by decide
example : C08.exampleCirc.integratePre [] = some .value := by decide
example : C08.exampleCirc.integratePre [0, 5] = some .value := by decide
example : nonSmoothCirc.integratePre [0] = some .structural := by decide
example : C08.exampleCirc.differentiatePre 1 = none := by decide
example : C08.exampleCirc.differentiatePre 0 = some .value := by decide
example : nonSmoothCirc.differentiatePre 1 = some .structural := by decide
example : nonSmoothCirc.evidencePre [1] = none := by decide
example : nonSmoothCirc.evidencePre [2] = some .value := by decide
example : C08.exampleCirc.multiplyPre C08.exampleCirc = none := by decide
example : C08.exampleCirc.multiplyPre nonSmoothCirc = some .structural := by decide
example : nonSmoothCirc.queryPre = some .value := by decide

end Decision

/-! ### structure preservation on the `Node` model -/

section Preservation
variable {R V : Type}

theorem integ_wf (n : Node R V) (S : ℕ → (V → R) → R) (zs : List ℕ) (h : n.WF) :
    (n.integ S zs).WF := by
  induction zs generalizing n with
  | nil => exact h
  | cons v vs ih => exact ih _ (Node.integ1_wf n v _ h)

theorem integ_units (n : Node R V) (S : ℕ → (V → R) → R) (zs : List ℕ) :
    (n.integ S zs).units = n.units := by
  induction zs generalizing n with
  | nil => rfl
  | cons v vs ih => exact (ih _).trans (Node.integ1_units n v _)

theorem integrate_preserves (n : Node R V) (S : ℕ → (V → R) → R) (zs : List ℕ) (hwf : n.WF)
    (hs : n.Smooth) (hd : n.Decomp) :
    (n.integ S zs).WF ∧ (n.integ S zs).Smooth ∧ (n.integ S zs).Decomp
      ∧ (n.integ S zs).units = n.units
      ∧ ∀ z, Node.Mem z (n.integ S zs) ↔ (Node.Mem z n ∧ z ∉ zs) :=
  ⟨integ_wf n S zs hwf, Node.integ_smooth n S zs hs, Node.integ_decomp n S zs hd,
    integ_units n S zs, fun z => Node.mem_integ n S zs z⟩

theorem evid_smooth (n : Node R V) (obs : ℕ → Option V) (hs : n.Smooth) : (n.evid obs).Smooth := by
  induction n with
  | leaf v k f => cases hobs : obs v <;> simp only [Node.evid, hobs, Node.Smooth]
  | const k c => trivial
  | sum ar kin kout W ch ih =>
    refine ⟨fun h => ih h (hs.1 h), fun h h' z => ?_⟩
    rw [Node.mem_evid, Node.mem_evid, hs.2 h h' z]
  | had ar k ch ih => exact fun h => ih h (hs h)
  | kron ar k ch ih => exact fun h => ih h (hs h)

theorem evid_decomp (n : Node R V) (obs : ℕ → Option V) (hd : n.Decomp) : (n.evid obs).Decomp := by
  induction n with
  | leaf v k f => cases hobs : obs v <;> simp only [Node.evid, hobs, Node.Decomp]
  | const k c => trivial
  | sum ar kin kout W ch ih => exact fun h => ih h (hd h)
  | had ar k ch ih =>
    refine ⟨fun h => ih h (hd.1 h), fun h h' z hne hm hm' => ?_⟩
    rw [Node.mem_evid] at hm hm'
    exact hd.2 h h' z hne hm.1 hm'.1
  | kron ar k ch ih =>
    refine ⟨fun h => ih h (hd.1 h), fun h h' z hne hm hm' => ?_⟩
    rw [Node.mem_evid] at hm hm'
    exact hd.2 h h' z hne hm.1 hm'.1

theorem evidence_preserves (n : Node R V) (obs : ℕ → Option V) (hwf : n.WF) (hs : n.Smooth)
    (hd : n.Decomp) :
    (n.evid obs).WF ∧ (n.evid obs).Smooth ∧ (n.evid obs).Decomp ∧ (n.evid obs).units = n.units :=
  ⟨Node.evid_wf n obs hwf, evid_smooth n obs hs, evid_decomp n obs hd, Node.evid_units n obs⟩

/-- the scope shrinks uniformly under `evidence` -/
theorem evidence_scope (n : Node R V) (obs : ℕ → Option V) (z : ℕ) :
    Node.Mem z (n.evid obs) ↔ (Node.Mem z n ∧ obs z = none) :=
  Node.mem_evid n obs z

theorem conjugate_preserves (n : Node R V) (σ : R → R) :
    ((n.conj σ).WF ↔ n.WF) ∧ ((n.conj σ).Smooth ↔ n.Smooth) ∧ ((n.conj σ).Decomp ↔ n.Decomp)
      ∧ (n.conj σ).units = n.units :=
  C07.conjugate_preserves_structure n σ

end Preservation

end Cirkit.C09
