/-
  C07 — `conjugate` denotes the conjugate of the denoted function.

  Theorems are about the model (`CirkitModel.Model.Node`): `Node.conj σ` applies `σ` to every
  input function and every sum-layer weight and keeps the products
  (`cirkit.symbolic.functional.conjugate`).  For a ring homomorphism `σ` (complex conjugation:
  `conjugate_complex`) the result denotes `σ ∘` the operand (`conjugate_correct`, no structural
  hypotheses); an involutive `σ` gives back the operand's function when applied twice
  (`conjugate_conjugate`); the identity (real circuits) changes nothing (`conjugate_real`); scope,
  well-formedness, smoothness, decomposability and unit counts are untouched for any map `σ`
  (`conjugate_scope`, `conjugate_preserves_structure`); conjugation commutes with integration
  against a quadrature with `σ`-fixed (real) weights (`conjugate_integral`).
  Proofs: `CirkitModel.Proofs.EvidConj`.
-/
import Mathlib.Data.Complex.Basic
import CirkitModel.Proofs.Bridge
import CirkitModel.Proofs.Operators
import CirkitModel.Proofs.EvidConj

open Finset

namespace Cirkit.C07
variable {R V : Type} [CommSemiring R]

/-- The conjugated circuit denotes the conjugate of the operand's function. -/
theorem conjugate_correct (n : Node R V) (σ : R →+* R) (x : ℕ → V) (i : ℕ) :
    (n.conj σ).eval (Ops.ofCommSemiring R) x i = σ (n.eval (Ops.ofCommSemiring R) x i) :=
  Node.conj_correct n σ x i

/-- Conjugating twice with an involution gives back the operand's function. -/
theorem conjugate_conjugate (n : Node R V) (σ : R →+* R) (hinv : ∀ a, σ (σ a) = a) (x : ℕ → V)
    (i : ℕ) :
    ((n.conj σ).conj σ).eval (Ops.ofCommSemiring R) x i = n.eval (Ops.ofCommSemiring R) x i := by
  rw [Node.conj_correct, Node.conj_correct, hinv]

/-- Conjugation of a real circuit (`σ = id`) does not change its function. -/
theorem conjugate_real (n : Node R V) (x : ℕ → V) (i : ℕ) :
    (n.conj (RingHom.id R)).eval (Ops.ofCommSemiring R) x i = n.eval (Ops.ofCommSemiring R) x i := by
  rw [Node.conj_correct, RingHom.id_apply]

omit [CommSemiring R] in
theorem conjugate_scope (n : Node R V) (σ : R → R) (z : ℕ) :
    Node.Mem z (n.conj σ) ↔ Node.Mem z n :=
  Node.mem_conj n σ z

omit [CommSemiring R] in
theorem conjugate_preserves_structure (n : Node R V) (σ : R → R) :
    ((n.conj σ).WF ↔ n.WF) ∧ ((n.conj σ).Smooth ↔ n.Smooth) ∧ ((n.conj σ).Decomp ↔ n.Decomp)
      ∧ (n.conj σ).units = n.units :=
  ⟨Node.conj_wf n σ, Node.conj_smooth n σ, Node.conj_decomp n σ, Node.conj_units n σ⟩

/-- Conjugation commutes with integration against a real quadrature. -/
theorem conjugate_integral (n : Node R V) (σ : R →+* R) (dom : List V) (w : V → R)
    (hw : ∀ a, σ (w a) = w a) (v : ℕ) (x : ℕ → V) (i : ℕ) :
    ((n.conj σ).integ1 v (Node.quad (Ops.ofCommSemiring R) dom w)).eval (Ops.ofCommSemiring R) x i
      = σ ((n.integ1 v (Node.quad (Ops.ofCommSemiring R) dom w)).eval
          (Ops.ofCommSemiring R) x i) := by
  rw [Node.conj_integ1 n σ dom w hw v, Node.conj_correct]

/-- Complex circuits: `conjugate` is complex conjugation of the denoted function. -/
theorem conjugate_complex (n : Node ℂ V) (x : ℕ → V) (i : ℕ) :
    (n.conj (starRingEnd ℂ)).eval (Ops.ofCommSemiring ℂ) x i
      = starRingEnd ℂ (n.eval (Ops.ofCommSemiring ℂ) x i) :=
  Node.conj_correct n (starRingEnd ℂ) x i

end Cirkit.C07
