/-
  C16 — region graphs: validity, structured decomposability, save / load, and the structural
  lemmas behind the circuits built from them.

  Theorems are about the model `CirkitModel.Model.RegionGraph` (`RG`: region scopes, partitions as
  (output region, input regions), roots; mirrors `cirkit/templates/region_graph/graph.py`) and, for
  item 5, `CirkitModel.Model.Node`.

  * `dump_load_id`
      — saving and loading a region graph gives back the same regions, partitions and roots, in the
        same order.
  * `isSD_iff`, `decomposition_perm`
      — `isSD` says exactly: partitions of regions with equal scope induce the same decomposition;
        the decomposition does not depend on the order in which a partition lists its parts (this
        is what the historical tuple comparison violated, known finding D13).
  * `valid_partition`
      — unpacking of `valid`: the parts of every partition are non-empty, their union is the
        region and their sizes add up to the size of the region.
    `valid_partition_disjoint` (full, any number of parts)
      — hence the parts of every partition of a valid graph are pairwise disjoint.  No hypothesis
        on the scopes is needed: `Scope.unionAll` always produces a strictly increasing list, so a
        union that is as long as the sum of the sizes cannot have dropped a repeated variable.
    `valid_partition_disjoint_partial`
      — the two-part instance in the form asked for (the `Nodup` hypotheses are not used; the
        general theorem above supersedes it, nothing is missing).
  * `roots_cover_scope`
      — every root of a graph accepted by `rootsCover` has the scope of the whole graph.
  * `product_of_disjoint_is_decomposable`, `sum_of_same_scope_is_smooth`
      — the two structural facts behind the builder: a product layer over inputs with pairwise
        disjoint scopes is decomposable, a sum layer over inputs with equal scopes is smooth.
    NOT proved: the general theorem `build_circuit_sound` ("for every valid region graph and every
    choice of layer factories, `build_circuit` returns a smooth and decomposable circuit, which is
    structured decomposable when the graph is").  The builder itself is not modelled; it is
    validated per run: the correspondence check builds the circuit with the real library and
    recomputes the flags (`SCirc.isSmooth`, `isDecomposable`, `isStructuredDecomposable` of C08)
    with the Lean model on the real circuit.
  Proofs: `CirkitModel.Proofs.Templates`.
-/
import CirkitModel.Proofs.Templates

namespace Cirkit.C16

/-! ### 1. dump / load -/

theorem dump_load_id (g : RG) : RG.load (RG.dump g) = g := RG.load_dump g

/-! ### 2. structured decomposability -/

theorem isSD_iff (g : RG) :
    g.isSD = true ↔ ∀ p ∈ g.partitions, ∀ q ∈ g.partitions,
      g.regionScope p.1 = g.regionScope q.1 → g.decomposition p = g.decomposition q :=
  RG.isSD_iff_aux g

/-- The decomposition induced by a partition does not depend on the order of its parts. -/
theorem decomposition_perm (g : RG) (o : ℕ) (ins ins' : List ℕ) (h : ins.Perm ins') :
    g.decomposition (o, ins) = g.decomposition (o, ins') :=
  Scope.sortScopes_perm' _ _ (h.map g.regionScope)

/-! ### 3. validity -/

theorem valid_partition (g : RG) (h : g.valid = true) (p : ℕ × List ℕ) (hp : p ∈ g.partitions) :
    p.2 ≠ [] ∧ (∀ i ∈ p.2, g.regionScope i ≠ []) ∧
      Scope.unionAll (p.2.map g.regionScope) = g.regionScope p.1 ∧
      g.partSize p.2 = (g.regionScope p.1).length :=
  RG.valid_partition_aux g h p hp

/-- The parts of every partition of a valid region graph are pairwise disjoint. -/
theorem valid_partition_disjoint (g : RG) (h : g.valid = true) (p : ℕ × List ℕ)
    (hp : p ∈ g.partitions) :
    (p.2.map g.regionScope).Pairwise (fun a b => Scope.disjoint a b = true) :=
  RG.valid_partition_disjoint_aux g h p hp

set_option linter.unusedVariables false in
/-- Two parts whose union is the region and whose sizes add up to its size are disjoint.
    (`ha`, `hb` are not needed.) -/
theorem valid_partition_disjoint_partial (g : RG) (o a b : ℕ)
    (ha : (g.regionScope a).Nodup) (hb : (g.regionScope b).Nodup)
    (hu : Scope.unionAll ([a, b].map g.regionScope) = g.regionScope o)
    (hs : g.partSize [a, b] = (g.regionScope o).length) :
    Scope.disjoint (g.regionScope a) (g.regionScope b) = true :=
  RG.two_parts_disjoint g o a b hu hs

/-! ### 4. roots -/

theorem roots_cover_scope (g : RG) (h : g.rootsCover = true) (r : ℕ) (hr : r ∈ g.roots) :
    g.regionScope r = g.scope :=
  RG.roots_cover_aux g h r hr

/-! ### 5. layers built from a partition -/

section Layers
variable {R V : Type}

/-- A product layer (Hadamard or Kronecker) over decomposable inputs with pairwise disjoint scopes
    is decomposable. -/
theorem product_of_disjoint_is_decomposable (ar k : ℕ) (ch : Fin ar → Node R V)
    (hd : ∀ h, (ch h).Decomp)
    (hdisj : ∀ h h' v, h ≠ h' → Node.Mem v (ch h) → ¬ Node.Mem v (ch h')) :
    (Node.had ar k ch).Decomp ∧ (Node.kron ar k ch).Decomp :=
  ⟨⟨hd, hdisj⟩, ⟨hd, hdisj⟩⟩

/-- A sum layer over smooth inputs that all have the same scope is smooth. -/
theorem sum_of_same_scope_is_smooth (ar kin kout : ℕ) (W : ℕ → ℕ → R) (ch : Fin ar → Node R V)
    (hs : ∀ h, (ch h).Smooth) (hsame : ∀ h h' v, Node.Mem v (ch h) ↔ Node.Mem v (ch h')) :
    (Node.sum ar kin kout W ch).Smooth :=
  ⟨hs, hsame⟩

end Layers

/-! ### non-vacuity -/

/-- variables {0,1,2}; the root region 0 is split as {0,1} | {2} and as {2} | {0,1}; region 1 =
    {0,1} is split as {0} | {1} -/
def exampleRG : RG :=
  { regions := [[0, 1, 2], [0, 1], [2], [0], [1]],
    partitions := [(0, [1, 2]), (0, [2, 1]), (1, [3, 4])],
    roots := [0] }

example : exampleRG.valid = true := by decide
example : exampleRG.rootsCover = true := by decide
example : exampleRG.isSD = true := by decide
example : exampleRG.isOmni = false := by decide
example : exampleRG.scope = [0, 1, 2] := by decide

/-- a graph that splits {0,1,2} in two different ways is valid but not structured decomposable -/
example :
    let g : RG := { regions := [[0, 1, 2], [0, 1], [2], [0], [1, 2]],
                    partitions := [(0, [1, 2]), (0, [3, 4])], roots := [0] }
    g.valid = true ∧ g.isSD = false := by decide

/-- overlapping parts are rejected by `valid` (sizes do not add up) -/
example :
    let g : RG := { regions := [[0, 1, 2], [0, 1], [1, 2]], partitions := [(0, [1, 2])], roots := [0] }
    g.valid = false := by decide

end Cirkit.C16
