/-
  C15 — sampling: every assignment the top-down sampler can return has positive probability, and
  the function the circuit denotes is the law the sampler is defined by.

  Theorems are about the model (`CirkitModel.Model.Node`).  The sampler of
  `cirkit/backend/torch/queries.py` (`SamplingQuery`) walks the circuit top-down: at unit `i` of a
  sum layer it draws a column `c` with probability `W i c` (so `W i c > 0`) and continues in input
  `c / kin` at unit `c % kin`; at a product layer it continues in every input (Hadamard: the same
  unit; Kronecker: the digit units); at unit `i` of an input layer it draws a value `a` of its
  variable with `f i a > 0`.  `Node.Reach n i x` (defined in `CirkitModel.Proofs.Norm`) is the
  inductive relation "this walk, started at unit `i` of `n`, can return the assignment `x`".

  * `sample_support`: for non-negative parameters, every assignment the sampler can return from
    unit `i` has strictly positive value `eval x i` (the selected branch contributes a positive
    term, all other terms are non-negative; products of positives are positive).
  * `sample_law_sum`, `sample_law_had`, `sample_law_kron`, `sample_law_equations`: `eval`
    satisfies the mixture equation at sum layers and the independent-product equations at product
    layers — the equations that define the law of the top-down sampler (these are C01
    `eval_sum_layer`, `eval_hadamard_layer`, `eval_kronecker_layer`).
  * `eval_is_distribution`: for a non-negative, normalised, well-formed, smooth and decomposable
    circuit, `y ↦ eval y i` is a probability distribution over its scope: non-negative everywhere
    and summing to one (C12 `normalised_marginal` + `eval_nonneg`).
  NOT mechanised: that the *implementation's* batched bottom-up propagation of the sampled branch
  indices equals this top-down law (C15 `propagate_eq_follow`) — that is checked by the
  correspondence check only; nor anything about the pseudo-random draws themselves.
  Proofs: `CirkitModel.Proofs.Norm`.
-/
import Mathlib.Tactic.NormNum
import CirkitModel.Proofs.Bridge
import CirkitModel.Proofs.Operators
import CirkitModel.Proofs.Norm

open Finset

namespace Cirkit.C15

section Order
variable {R V : Type} [CommSemiring R] [PartialOrder R]

/-- 5. Every assignment the sampler can return has positive probability. -/
theorem sample_support [IsStrictOrderedRing R] (n : Node R V) (hnn : n.NonNeg) (i : ℕ)
    (x : ℕ → V) (hr : n.Reach i x) : 0 < n.eval (Ops.ofCommSemiring R) x i :=
  Node.sample_support n hnn i x hr

end Order

section Law
variable {R V : Type} [CommSemiring R]

/-- 6a. Mixture equation: unit `i` of a sum layer is the `W i`-weighted mixture of the units of its
    inputs (the sampler picks column `h * kin + j` with probability `W i (h * kin + j)`). -/
theorem sample_law_sum (x : ℕ → V) (ar kin kout : ℕ) (W : ℕ → ℕ → R) (ch : Fin ar → Node R V)
    (i : ℕ) :
    (Node.sum ar kin kout W ch).eval (Ops.ofCommSemiring R) x i
      = ∑ h : Fin ar, ∑ j ∈ range kin,
          W i (h.val * kin + j) * (ch h).eval (Ops.ofCommSemiring R) x j :=
  Node.eval_sum' x ar kin kout W ch i

/-- 6b. Independent-product equation of a Hadamard layer (the sampler continues in every input at
    the same unit; the inputs have disjoint scopes). -/
theorem sample_law_had (x : ℕ → V) (ar k : ℕ) (ch : Fin ar → Node R V) (i : ℕ) :
    (Node.had ar k ch).eval (Ops.ofCommSemiring R) x i
      = ∏ h : Fin ar, (ch h).eval (Ops.ofCommSemiring R) x i :=
  Node.eval_had' x ar k ch i

/-- 6c. Independent-product equation of a Kronecker layer (the sampler continues in input `h` at
    the `h`-th base-`k` digit of the unit index). -/
theorem sample_law_kron (x : ℕ → V) (ar k : ℕ) (ch : Fin ar → Node R V) (i : ℕ) :
    (Node.kron ar k ch).eval (Ops.ofCommSemiring R) x i
      = ∏ h : Fin ar, (ch h).eval (Ops.ofCommSemiring R) x (digit k ar h.val i) :=
  Node.eval_kron' x ar k ch i

/-- 6. The equations that define the law of the top-down sampler, together. -/
theorem sample_law_equations (x : ℕ → V) (ar kin kout k : ℕ) (W : ℕ → ℕ → R)
    (ch : Fin ar → Node R V) (i : ℕ) :
    ((Node.sum ar kin kout W ch).eval (Ops.ofCommSemiring R) x i
        = ∑ h : Fin ar, ∑ j ∈ range kin,
            W i (h.val * kin + j) * (ch h).eval (Ops.ofCommSemiring R) x j)
    ∧ ((Node.had ar k ch).eval (Ops.ofCommSemiring R) x i
        = ∏ h : Fin ar, (ch h).eval (Ops.ofCommSemiring R) x i)
    ∧ ((Node.kron ar k ch).eval (Ops.ofCommSemiring R) x i
        = ∏ h : Fin ar, (ch h).eval (Ops.ofCommSemiring R) x (digit k ar h.val i)) :=
  ⟨Node.eval_sum' x ar kin kout W ch i, Node.eval_had' x ar k ch i, Node.eval_kron' x ar k ch i⟩

end Law

/-- 6d. The denoted function of a non-negative normalised circuit is a probability distribution
    over its scope: non-negative, and summing to one over the whole scope `zs`. -/
theorem eval_is_distribution {R V : Type} [CommSemiring R] [PartialOrder R] [IsOrderedRing R]
    (n : Node R V) (S : ℕ → (V → R) → R) (hS : ∀ v, LinFun (S v)) (zs : List ℕ)
    (hnd : zs.Nodup) (hz : ∀ z ∈ zs, Node.Mem z n) (hall : ∀ v, Node.Mem v n → v ∈ zs)
    (hs : n.Smooth) (hd : n.Decomp) (hwf : n.WF) (hnn : n.NonNeg) (hn : n.Norm S)
    (x : ℕ → V) (i : ℕ) (hi : i < n.units) :
    (∀ y, 0 ≤ n.eval (Ops.ofCommSemiring R) y i)
      ∧ Node.sumOver S zs (fun y' => n.eval (Ops.ofCommSemiring R) y' i) x = 1 :=
  ⟨fun y => Node.eval_nonneg n hnn y i,
    Node.normalised_marginal n S hS zs hnd hz hall hs hd hwf hn x i hi⟩

/-- Non-vacuity: in the mixture `½·(f₀ ⊙ f₁) + ½·(f₀ ⊙ f₁)` with `f = ½` everywhere, every
    assignment is reachable from unit 0. -/
example (x : ℕ → Bool) :
    (Node.sum 1 2 1 (fun _ _ => (1 / 2 : ℚ))
      (fun _ => Node.had 2 2 (fun h => Node.leaf h.val 2 (fun _ (_ : Bool) => (1 / 2 : ℚ))))).Reach
      0 x :=
  Node.Reach.sum 0 0 (by decide) (by norm_num)
    (Node.Reach.had fun _ => Node.Reach.leaf (by norm_num))

end Cirkit.C15
