/-
  C15 — sampling: every assignment the top-down sampler can return has positive probability, and
  the function the circuit denotes is the law the sampler is defined by.

  Theorems are about the model (`CirkitModel.Model.Node`).  The sampler of
  `cirkit/backend/torch/queries.py` (`SamplingQuery`) walks the circuit top-down: at unit `i` of a
  sum layer it draws a column `c` with probability `W i c` (so `W i c > 0`) and continues in input
  `c / kin` at unit `c % kin`; at a product layer it continues in every input (Hadamard: the same
  unit; Kronecker: the digit units); at unit `i` of an input layer it draws a value `a` of its
  variable with `f i a > 0`.  `Node.Reach n i x` (defined in `CirkitModel.Proofs.Norm`) is the
  inductive relation "this walk, started at unit `i` of `n`, can return the assignment `x`".

  * `sample_support`: for non-negative parameters, every assignment the sampler can return from
    unit `i` has strictly positive value `eval x i` (the selected branch contributes a positive
    term, all other terms are non-negative; products of positives are positive).
  * `sample_law_sum`, `sample_law_had`, `sample_law_kron`, `sample_law_equations`: `eval`
    satisfies the mixture equation at sum layers and the independent-product equations at product
    layers — the equations that define the law of the top-down sampler (these are C01
    `eval_sum_layer`, `eval_hadamard_layer`, `eval_kronecker_layer`).
  * `eval_is_distribution`: for a non-negative, normalised, well-formed, smooth and decomposable
    circuit, `y ↦ eval y i` is a probability distribution over its scope: non-negative everywhere
    and summing to one (C12 `normalised_marginal` + `eval_nonneg`).
  * `propagate_eq_follow` (with `propagate_support`): the *implementation's* sampler is not the
    top-down walk but a batched BOTTOM-UP propagation (`Node.propagate` in
    `CirkitModel.Model.Sample`: every unit of every input layer draws a value and pads it to a row
    over all variables, product layers ADD the rows of their inputs, a sum unit copies the row of
    the input unit selected by its drawn column; the row of unit 0 of the output is returned).  For
    a decomposable circuit and arbitrary draws (`Draw`: drawn value per input unit, drawn column
    per sum output unit, per position of the unfolded tree) the row of unit `i` holds in column `v`
    exactly the value that the top-down walk `Node.follow` from unit `i` under the same draws
    assigns to `v`, and zero where the walk assigns nothing.
  * `follow_complete`: for a smooth well-formed circuit and draws that fit (`Node.Fits`: drawn
    columns are columns of the weight matrix) the walk from a unit `i < units` assigns exactly the
    variables of the scope, and every assigned value is the value drawn by a unit of an input layer
    over that very variable (`Node.LeafAt`); `propagate_complete` is the same for the returned row.
  * `follow_reach`, `follow_reach_getD`, `propagate_reach`, `propagate_positive`: if every drawn
    column has positive weight and every drawn value positive density (`Node.DrawPos`), the
    assignment of the walk (completed arbitrarily outside the scope), and so the row the
    implementation returns, satisfies `Node.Reach`; hence (`sample_support`) it has positive
    probability.
  NOT mechanised: anything about the pseudo-random draws themselves (that the frequency of a draw
  is the product of the weights / densities `DrawPos` only asserts to be positive — the law of the
  walk is given by `sample_law_*`), and that the folded / optimised tensor code computes
  `Node.propagate` (checked by the correspondence check through the driver command
  `sample_propagate`).
  Proofs: `CirkitModel.Proofs.Norm`, `CirkitModel.Proofs.Sample`.
-/
import Mathlib.Tactic.NormNum
import CirkitModel.Proofs.Bridge
import CirkitModel.Proofs.Operators
import CirkitModel.Proofs.Norm
import CirkitModel.Proofs.Sample

open Finset

namespace Cirkit.C15

section Order
variable {R V : Type} [CommSemiring R] [PartialOrder R]

/-- 5. Every assignment the sampler can return has positive probability. -/
theorem sample_support [IsStrictOrderedRing R] (n : Node R V) (hnn : n.NonNeg) (i : ℕ)
    (x : ℕ → V) (hr : n.Reach i x) : 0 < n.eval (Ops.ofCommSemiring R) x i :=
  Node.sample_support n hnn i x hr

end Order

section Law
variable {R V : Type} [CommSemiring R]

/-- 6a. Mixture equation: unit `i` of a sum layer is the `W i`-weighted mixture of the units of its
    inputs (the sampler picks column `h * kin + j` with probability `W i (h * kin + j)`). -/
theorem sample_law_sum (x : ℕ → V) (ar kin kout : ℕ) (W : ℕ → ℕ → R) (ch : Fin ar → Node R V)
    (i : ℕ) :
    (Node.sum ar kin kout W ch).eval (Ops.ofCommSemiring R) x i
      = ∑ h : Fin ar, ∑ j ∈ range kin,
          W i (h.val * kin + j) * (ch h).eval (Ops.ofCommSemiring R) x j :=
  Node.eval_sum' x ar kin kout W ch i

/-- 6b. Independent-product equation of a Hadamard layer (the sampler continues in every input at
    the same unit; the inputs have disjoint scopes). -/
theorem sample_law_had (x : ℕ → V) (ar k : ℕ) (ch : Fin ar → Node R V) (i : ℕ) :
    (Node.had ar k ch).eval (Ops.ofCommSemiring R) x i
      = ∏ h : Fin ar, (ch h).eval (Ops.ofCommSemiring R) x i :=
  Node.eval_had' x ar k ch i

/-- 6c. Independent-product equation of a Kronecker layer (the sampler continues in input `h` at
    the `h`-th base-`k` digit of the unit index). -/
theorem sample_law_kron (x : ℕ → V) (ar k : ℕ) (ch : Fin ar → Node R V) (i : ℕ) :
    (Node.kron ar k ch).eval (Ops.ofCommSemiring R) x i
      = ∏ h : Fin ar, (ch h).eval (Ops.ofCommSemiring R) x (digit k ar h.val i) :=
  Node.eval_kron' x ar k ch i

/-- 6. The equations that define the law of the top-down sampler, together. -/
theorem sample_law_equations (x : ℕ → V) (ar kin kout k : ℕ) (W : ℕ → ℕ → R)
    (ch : Fin ar → Node R V) (i : ℕ) :
    ((Node.sum ar kin kout W ch).eval (Ops.ofCommSemiring R) x i
        = ∑ h : Fin ar, ∑ j ∈ range kin,
            W i (h.val * kin + j) * (ch h).eval (Ops.ofCommSemiring R) x j)
    ∧ ((Node.had ar k ch).eval (Ops.ofCommSemiring R) x i
        = ∏ h : Fin ar, (ch h).eval (Ops.ofCommSemiring R) x i)
    ∧ ((Node.kron ar k ch).eval (Ops.ofCommSemiring R) x i
        = ∏ h : Fin ar, (ch h).eval (Ops.ofCommSemiring R) x (digit k ar h.val i)) :=
  ⟨Node.eval_sum' x ar kin kout W ch i, Node.eval_had' x ar k ch i, Node.eval_kron' x ar k ch i⟩

end Law

/-- 6d. The denoted function of a non-negative normalised circuit is a probability distribution
    over its scope: non-negative, and summing to one over the whole scope `zs`. -/
theorem eval_is_distribution {R V : Type} [CommSemiring R] [PartialOrder R] [IsOrderedRing R]
    (n : Node R V) (S : ℕ → (V → R) → R) (hS : ∀ v, LinFun (S v)) (zs : List ℕ)
    (hnd : zs.Nodup) (hz : ∀ z ∈ zs, Node.Mem z n) (hall : ∀ v, Node.Mem v n → v ∈ zs)
    (hs : n.Smooth) (hd : n.Decomp) (hwf : n.WF) (hnn : n.NonNeg) (hn : n.Norm S)
    (x : ℕ → V) (i : ℕ) (hi : i < n.units) :
    (∀ y, 0 ≤ n.eval (Ops.ofCommSemiring R) y i)
      ∧ Node.sumOver S zs (fun y' => n.eval (Ops.ofCommSemiring R) y' i) x = 1 :=
  ⟨fun y => Node.eval_nonneg n hnn y i,
    Node.normalised_marginal n S hS zs hnd hz hall hs hd hwf hn x i hi⟩

/-- Non-vacuity: in the mixture `½·(f₀ ⊙ f₁) + ½·(f₀ ⊙ f₁)` with `f = ½` everywhere, every
    assignment is reachable from unit 0. -/
example (x : ℕ → Bool) :
    (Node.sum 1 2 1 (fun _ _ => (1 / 2 : ℚ))
      (fun _ => Node.had 2 2 (fun h => Node.leaf h.val 2 (fun _ (_ : Bool) => (1 / 2 : ℚ))))).Reach
      0 x :=
  Node.Reach.sum 0 0 (by decide) (by norm_num)
    (Node.Reach.had fun _ => Node.Reach.leaf (by norm_num))

/-! ### propagate = follow: the bottom-up batched sampler of the implementation -/

section Propagate
variable {R V A : Type}

/-- 7a. Support lemma: the propagated row of a unit is zero outside the scope of its layer (so the
    rows a product layer adds have disjoint supports when the circuit is decomposable). -/
theorem propagate_support [AddCommMonoid A] (n : Node R V) (d : Draw A) (i v : ℕ)
    (h : n.propagate 0 (· + ·) d i v ≠ 0) : Node.Mem v n :=
  Node.propagate_support n d i v h

/-- 7. propagate = follow: for a decomposable circuit and any draws, column `v` of the bottom-up row
    of unit `i` is the value the top-down walk from unit `i` assigns to `v` (zero if none). -/
theorem propagate_eq_follow [AddCommMonoid A] (n : Node R V) (hd : n.Decomp) (d : Draw A)
    (i v : ℕ) : n.propagate 0 (· + ·) d i v = (n.follow d i v).getD 0 :=
  Node.propagate_eq_follow n hd d i v

/-- 8. Complete assignments, each column filled from an input layer of that variable: the walk
    from a unit of a smooth well-formed circuit (fitting draws) assigns a value to `v` iff `v` is
    in the scope, and the value is the one drawn by unit `r` of an input layer over `v` sitting at
    some position `p` of the tree. -/
theorem follow_complete (n : Node R V) (hs : n.Smooth) (hwf : n.WF) (d : Draw A)
    (hf : n.Fits d) (i : ℕ) (hi : i < n.units) :
    (∀ v, Node.Mem v n ↔ (n.follow d i v).isSome)
      ∧ ∀ v a, n.follow d i v = some a → ∃ p r, n.LeafAt v p r ∧ a = d.val p r :=
  ⟨fun v => ⟨Node.follow_isSome n hs hwf d hf i hi v, fun h => by
      obtain ⟨a, ha⟩ := Option.isSome_iff_exists.mp h
      exact Node.follow_some_mem n d i v a ha⟩,
    fun v a h => Node.follow_from_leaf n hwf d hf i hi v a h⟩

/-- 8'. The same for the row the implementation returns (smooth, decomposable, well-formed):
    zero outside the scope; inside the scope, column `v` holds the value drawn by a unit of an
    input layer over `v`. -/
theorem propagate_complete [AddCommMonoid A] (n : Node R V) (hs : n.Smooth) (hd : n.Decomp)
    (hwf : n.WF) (d : Draw A) (hf : n.Fits d) (i : ℕ) (hi : i < n.units) (v : ℕ) :
    (¬ Node.Mem v n → n.propagate 0 (· + ·) d i v = 0)
      ∧ (Node.Mem v n → ∃ p r, n.LeafAt v p r ∧ n.propagate 0 (· + ·) d i v = d.val p r) := by
  refine ⟨fun hv => ?_, fun hv => ?_⟩
  · by_contra hne
    exact hv (Node.propagate_support n d i v hne)
  · obtain ⟨a, ha⟩ := Option.isSome_iff_exists.mp (Node.follow_isSome n hs hwf d hf i hi v hv)
    obtain ⟨p, r, hl, e⟩ := Node.follow_from_leaf n hwf d hf i hi v a ha
    refine ⟨p, r, hl, ?_⟩
    rw [Node.propagate_eq_follow n hd d i v, ha, e]
    rfl

end Propagate

section PropagateReach
variable {R V : Type} [CommSemiring R] [PartialOrder R]

/-- 9. The walk is a walk of `Node.Reach`: if all drawn columns have positive weight and all drawn
    values positive density, every total assignment agreeing with the walk is one the top-down
    sampler can return. -/
theorem follow_reach (n : Node R V) (hwf : n.WF) (hd : n.Decomp) (d : Draw V) (hf : n.Fits d)
    (hp : n.DrawPos d) (i : ℕ) (hi : i < n.units) (x : ℕ → V)
    (hx : ∀ v a, n.follow d i v = some a → x v = a) : n.Reach i x :=
  Node.follow_reach n hwf hd d hf hp i hi x hx

/-- 9'. … in particular the assignment of the walk completed by any `y` outside the scope. -/
theorem follow_reach_getD (n : Node R V) (hwf : n.WF) (hd : n.Decomp) (d : Draw V)
    (hf : n.Fits d) (hp : n.DrawPos d) (i : ℕ) (hi : i < n.units) (y : ℕ → V) :
    n.Reach i (fun v => (n.follow d i v).getD (y v)) :=
  Node.follow_reach n hwf hd d hf hp i hi _ fun v a h => by
    show (n.follow d i v).getD (y v) = a
    rw [h]; rfl

/-- 9''. The row the implementation returns is an assignment the top-down sampler can return. -/
theorem propagate_reach [AddCommMonoid V] (n : Node R V) (hwf : n.WF) (hd : n.Decomp)
    (d : Draw V) (hf : n.Fits d) (hp : n.DrawPos d) (i : ℕ) (hi : i < n.units) :
    n.Reach i (fun v => n.propagate 0 (· + ·) d i v) :=
  Node.follow_reach n hwf hd d hf hp i hi _ fun v a h => by
    show n.propagate 0 (· + ·) d i v = a
    rw [Node.propagate_eq_follow n hd d i v, h]; rfl

/-- 10. Every returned sample has positive probability: the row computed by the bottom-up
    propagation, under draws of positive mass, has positive value at the unit it was read from. -/
theorem propagate_positive [IsStrictOrderedRing R] [AddCommMonoid V] (n : Node R V)
    (hnn : n.NonNeg) (hwf : n.WF) (hd : n.Decomp) (d : Draw V) (hf : n.Fits d)
    (hp : n.DrawPos d) (i : ℕ) (hi : i < n.units) :
    0 < n.eval (Ops.ofCommSemiring R) (fun v => n.propagate 0 (· + ·) d i v) i :=
  Node.sample_support n hnn i _ (propagate_reach n hwf hd d hf hp i hi)

end PropagateReach

/-! ### non-vacuity of propagate = follow -/

namespace Example

/-- `Σ` of arity 2 over two Hadamard layers, each over an input layer of variable 0 and one of
    variable 1, two units everywhere; uniform weights and densities. -/
def circ : Node ℚ ℕ :=
  .sum 2 2 1 (fun _ _ => 1 / 4)
    fun _ => .had 2 2 fun g => .leaf g.val 2 (fun _ _ => 1 / 2)

/-- The unit `r` of the input layer at position `[h, g]` drew `100 h + 10 g + r + 1`; the root drew
    column 3 (input 1, unit 1); nothing else is read. -/
def draws : Draw ℕ :=
  { val := fun p r => match p with
      | [h, g] => 100 * h + 10 * g + r + 1
      | _ => 0
    col := fun _ _ => 3 }

/-- The propagated row of unit 0 over variables 0, 1, 2: the values of unit 1 of the two input
    layers below input 1, and zero for the variable outside the scope. -/
example : (List.range 3).map (circ.propagate 0 (· + ·) draws 0) = [102, 112, 0] := by decide

/-- The walk assigns the same. -/
example : (List.range 3).map (circ.follow draws 0) = [some 102, some 112, none] := by decide

/-- Decomposability is needed: over a Hadamard layer of two input layers on the SAME variable the
    propagation adds two values where the walk takes one. -/
example :
    let n : Node ℚ ℕ := .had 2 1 fun _ => .leaf 0 1 (fun _ _ => 1)
    let d : Draw ℕ := { val := fun _ _ => 5, col := fun _ _ => 0 }
    n.propagate 0 (· + ·) d 0 0 = 10 ∧ n.follow d 0 0 = some 5 := by decide

theorem circ_wf : circ.WF := fun _ => ⟨fun _ => ⟨trivial, rfl⟩, rfl⟩

theorem circ_decomp : circ.Decomp :=
  fun _ => ⟨fun _ => trivial, fun _ _ _ hne e e' => hne (Fin.ext (e.symm.trans e'))⟩

theorem circ_smooth : circ.Smooth :=
  ⟨fun _ => fun _ => trivial, fun _ _ _ => Iff.rfl⟩

theorem circ_fits : circ.Fits draws :=
  ⟨fun _ _ => (by decide : (3 : ℕ) < 2 * 2), fun _ => fun _ => trivial⟩

theorem circ_drawPos : circ.DrawPos draws :=
  ⟨fun _ _ => by norm_num, fun _ => fun _ => fun _ _ => by norm_num⟩

theorem circ_nonneg : circ.NonNeg :=
  ⟨fun _ _ => by norm_num, fun _ => fun _ => fun _ _ => by norm_num⟩

/-- The hypotheses of 7–10 are jointly satisfiable, and the conclusion is about the non-trivial row
    `[102, 112]` computed above. -/
example :
    0 < circ.eval (Ops.ofCommSemiring ℚ) (fun v => circ.propagate 0 (· + ·) draws 0 v) 0 :=
  propagate_positive circ circ_nonneg circ_wf circ_decomp draws circ_fits circ_drawPos 0
    (by decide)

example : ∀ v, Node.Mem v circ ↔ (circ.follow draws 0 v).isSome :=
  (follow_complete circ circ_smooth circ_wf draws circ_fits 0 (by decide)).1

end Example

end Cirkit.C15
