/-
  C13 — gradients: what autograd differentiates is the denoted function, independently of the
  compilation flags, and the custom backward passes are the true derivatives.

  Theorems are about the model (`CirkitModel.Model.Node`) and about real analysis (Mathlib).
  Forward-mode differentiation is evaluation over the dual numbers `TrivSqZeroExt R R` (`a + bε`,
  `ε² = 0`), which the driver executes at `Dual Rat`.

  * `dual_value`: evaluating a circuit over dual numbers and projecting to the value part is
    ordinary evaluation of the circuit of value parts (C05 `eval_ringHom` with the projection
    `TrivSqZeroExt.fstHom`): carrying tangents never changes the forward value.
  * `dual_polynomial_derivative`: evaluating a polynomial at `a + bε` gives `p(a) + p'(a)·b·ε`
    (`Polynomial.eval_add_of_sq_eq_zero`): the ε-part of dual evaluation *is* the derivative — the
    oracle the correspondence check compares `torch.autograd` against.
  * `flag_independent_grad`: any operator `D` on functions (in particular "gradient of") takes
    equal functions to equal results; with C02 (folding and the optimisation rewrites preserve
    the outputs, so every flag combination computes the same function of the parameters) every
    flag combination has the same gradient.
  * `safelog_backward`, `safelog_nan_to_num_only_at_zero`: the hand-written backward
    `grad_output / x` of `SafeLog` is the true derivative `x⁻¹` of `log` wherever `x ≠ 0`, and
    `g / x = g * x⁻¹` identifies the two forms (`nan_to_num` can only act at `x = 0`).
  * `lse_shift_grad`, `lse_shift_hasFDerivAt`: the max-shifted and the plain log-sum-exp agree as
    functions of `x` wherever the sum is positive (C01 `lse_shift`), hence — that set being open —
    have the same Fréchet derivative there: shifting by the (detached) maximum does not change
    gradients.
  Partial (runtime, exercised by the correspondence check only): that `torch.autograd` computes
  the derivative of the executed float program; `nan_to_num` at `x = 0` (outside the hypothesis
  `x ≠ 0`); float rounding.
-/
import Mathlib.Algebra.TrivSqZeroExt.Basic
import Mathlib.Algebra.Polynomial.Taylor
import Mathlib.Analysis.SpecialFunctions.Log.Deriv
import CirkitModel.Proofs.Bridge
import CirkitModel.Proofs.Diff
import CirkitModel.Proofs.Transport

open Finset

namespace Cirkit.C13

/-- 7. Evaluation over dual numbers projects to ordinary evaluation. -/
theorem dual_value {R V : Type} [CommSemiring R] (n : Node (TrivSqZeroExt R R) V) (x : ℕ → V)
    (i : ℕ) :
    TrivSqZeroExt.fst (n.eval (Ops.ofCommSemiring (TrivSqZeroExt R R)) x i)
      = (n.mapVals TrivSqZeroExt.fst).eval (Ops.ofCommSemiring R) x i :=
  Node.eval_ringHom
    ((TrivSqZeroExt.fstHom R R R : TrivSqZeroExt R R →ₐ[R] R) : TrivSqZeroExt R R →+* R) n x i

/-- 8. The ε-part of evaluating a polynomial at `a + bε` is the derivative at `a` times `b`. -/
theorem dual_polynomial_derivative {R : Type} [CommRing R] (p : Polynomial R) (a b : R) :
    Polynomial.eval (TrivSqZeroExt.inl a + TrivSqZeroExt.inr b)
        (p.map (TrivSqZeroExt.inlHom R R))
      = TrivSqZeroExt.inl (p.eval a) + TrivSqZeroExt.inr (p.derivative.eval a * b) := by
  have hsq : (TrivSqZeroExt.inr b : TrivSqZeroExt R R) ^ 2 = 0 := by
    rw [pow_two, TrivSqZeroExt.inr_mul_inr]
  have hev : ∀ q : Polynomial R,
      Polynomial.eval (TrivSqZeroExt.inl a) (q.map (TrivSqZeroExt.inlHom R R))
        = TrivSqZeroExt.inl (q.eval a) := fun q => by
    rw [Polynomial.eval_map]
    exact Polynomial.eval₂_at_apply (TrivSqZeroExt.inlHom R R) a
  rw [Polynomial.eval_add_of_sq_eq_zero _ _ _ hsq, Polynomial.derivative_map, hev, hev,
    TrivSqZeroExt.inl_mul_inr, smul_eq_mul]

/-- 9. Equal functions have equal gradients, whatever "gradient" (`D`) is.  With C02, every flag
    combination computes the same function of the parameters, hence has the same gradient. -/
theorem flag_independent_grad {α β : Type} (f g : α → β) (D : (α → β) → α → β) (h : f = g) :
    D f = D g :=
  congrArg D h

/-- 10a. `SafeLog.backward` (`grad_output / x`) is the true derivative of `log` wherever
    `x ≠ 0`. -/
theorem safelog_backward (x : ℝ) (hx : x ≠ 0) : HasDerivAt Real.log x⁻¹ x :=
  Real.hasDerivAt_log hx

set_option linter.unusedVariables false in
/-- 10b. The two forms of the backward value agree (`x ≠ 0`: where `nan_to_num` is inactive). -/
theorem safelog_nan_to_num_only_at_zero : ∀ g x : ℝ, x ≠ 0 → g / x = g * x⁻¹ :=
  fun g x _ => div_eq_mul_inv g x

/-- 11a. The shifted and the plain log-sum-exp are the same function of `x` wherever the sum is
    positive. -/
theorem lse_shift_grad {ι : Type} (s : Finset ι) (w : ι → ℝ) (m : ℝ) :
    ∀ x : ι → ℝ, 0 < ∑ i ∈ s, w i * Real.exp (x i) →
      (fun y : ι → ℝ => Real.log (∑ i ∈ s, w i * Real.exp (y i - m)) + m) x
        = (fun y : ι → ℝ => Real.log (∑ i ∈ s, w i * Real.exp (y i))) x :=
  fun x hpos => lse_shift_real s w x m hpos

/-- 11b. Hence they have the same (Fréchet) derivative at every point where the sum is positive
    (that set is open, so the two functions agree on a neighbourhood). -/
theorem lse_shift_hasFDerivAt {ι : Type} [Fintype ι] (s : Finset ι) (w : ι → ℝ) (m : ℝ)
    (x : ι → ℝ) (hpos : 0 < ∑ i ∈ s, w i * Real.exp (x i)) (L : (ι → ℝ) →L[ℝ] ℝ) :
    HasFDerivAt (fun y : ι → ℝ => Real.log (∑ i ∈ s, w i * Real.exp (y i - m)) + m) L x
      ↔ HasFDerivAt (fun y : ι → ℝ => Real.log (∑ i ∈ s, w i * Real.exp (y i))) L x := by
  apply Filter.EventuallyEq.hasFDerivAt_iff
  have hopen : IsOpen {y : ι → ℝ | 0 < ∑ i ∈ s, w i * Real.exp (y i)} :=
    isOpen_lt continuous_const (by fun_prop)
  filter_upwards [hopen.mem_nhds hpos] with y hy
  exact lse_shift_real s w y m hy

end Cirkit.C13
