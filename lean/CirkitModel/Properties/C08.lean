/-
  C08 — structural predicates of symbolic circuits (`cirkit/symbolic/circuit.py`).

  Theorems are about the model (`CirkitModel.Model.Sym`): `SCirc.isSmooth`, `isDecomposable`,
  `scopeFactorizations`, `isStructuredDecomposable`, `areCompatible`.
  * `smooth_iff`, `decomposable_iff`: the flags say exactly what the definitions of smoothness and
    decomposability say about the layer scopes (with `mem_pairs`, `disjoint_iff`).
  * `factorizations_complete`: every product layer with at least two non-empty input scopes is
    recorded, under its scope, in `scopeFactorizations`;
    `sd_sound`: a circuit is reported structured-decomposable only if all products over the same
    scope split it into the same sub-scopes.
  * `compat_symm`, `compat_sound`, `compat_implies_structured`: `areCompatible` is symmetric, and
    compatible circuits split equal scopes identically and are each structured-decomposable.
  * `sortScopes_perm`, `factors_perm_invariant`: the canonical order of sub-scopes makes the
    recorded factorization independent of the order in which a layer lists its inputs.
  Proofs: `CirkitModel.Proofs.Struct`.
-/
import CirkitModel.Proofs.Struct

namespace Cirkit.C08
variable {R : Type}

/-! ### smoothness and decomposability -/

theorem smooth_iff (c : SCirc R) :
    c.isSmooth = true ↔
      ∀ (p : Nat) (l : SLayer R), c.layers[p]? = some l → l.kind.isSum = true →
      ∀ i ∈ l.ins, c.scopes.getD i [] = c.scopes.getD p [] := by
  unfold SCirc.isSmooth
  simp only [List.all_eq_true, List.mem_range]
  constructor
  · intro h p l hl hsum i hi
    have hp : p < c.layers.size := (Array.getElem?_eq_some_iff.1 hl).1
    have := h p hp
    rw [hl] at this
    simp only [hsum, if_true, List.all_eq_true, beq_iff_eq] at this
    exact this i hi
  · intro h p _
    split
    · rename_i l hl
      split
      · rename_i hsum
        simp only [List.all_eq_true, beq_iff_eq]
        exact h p l hl hsum
      · rfl
    · rfl

theorem mem_pairs {α : Type} (l : List α) (a b : α) :
    (a, b) ∈ SCirc.pairs l ↔ ∃ i j : Nat, i < j ∧ l[i]? = some a ∧ l[j]? = some b :=
  SCirc.mem_pairs l a b

theorem disjoint_iff (a b : Scope) : Scope.disjoint a b = true ↔ ∀ v ∈ a, v ∉ b :=
  Scope.disjoint_iff a b

theorem decomposable_iff (c : SCirc R) :
    c.isDecomposable = true ↔
      ∀ (p : Nat) (l : SLayer R), c.layers[p]? = some l → l.kind.isProduct = true →
      ∀ q ∈ SCirc.pairs l.ins,
        Scope.disjoint (c.scopes.getD q.1 []) (c.scopes.getD q.2 []) = true := by
  unfold SCirc.isDecomposable
  simp only [List.all_eq_true, List.mem_range]
  constructor
  · intro h p l hl hprod q hq
    have hp : p < c.layers.size := (Array.getElem?_eq_some_iff.1 hl).1
    have := h p hp
    rw [hl] at this
    simp only [hprod, if_true, List.all_eq_true] at this
    exact this q hq
  · intro h p _
    split
    · rename_i l hl
      split
      · rename_i hprod
        simp only [List.all_eq_true]
        intro q hq
        exact h p l hl hprod q hq
      · rfl
    · rfl

/-- decomposability spelled out on positions and variables -/
theorem decomposable_iff' (c : SCirc R) :
    c.isDecomposable = true ↔
      ∀ (p : Nat) (l : SLayer R), c.layers[p]? = some l → l.kind.isProduct = true →
      ∀ i j : Nat, i < j → ∀ a b, l.ins[i]? = some a → l.ins[j]? = some b →
        ∀ v ∈ c.scopes.getD a [], v ∉ c.scopes.getD b [] := by
  rw [decomposable_iff]
  constructor
  · intro h p l hl hprod i j hij a b ha hb
    have := h p l hl hprod (a, b) ((mem_pairs _ _ _).2 ⟨i, j, hij, ha, hb⟩)
    exact (disjoint_iff _ _).1 this
  · intro h p l hl hprod q hq
    rcases q with ⟨a, b⟩
    obtain ⟨i, j, hij, ha, hb⟩ := (mem_pairs _ _ _).1 hq
    exact (disjoint_iff _ _).2 (h p l hl hprod i j hij a b ha hb)

/-! ### scope factorizations and structured decomposability -/

theorem factorizations_complete (c : SCirc R) (p : Nat) (l : SLayer R)
    (hl : c.layers[p]? = some l) (hp : l.kind.isProduct = true)
    (h2 : 1 < (c.factors l).length) :
    ∃ set, (c.scopes.getD p [], set) ∈ c.scopeFactorizations ∧ c.factors l ∈ set := by
  rw [SCirc.scopeFactorizations_eq]
  have hlt : p < c.layers.size := (Array.getElem?_eq_some_iff.1 hl).1
  exact SCirc.foldl_factStep_complete c _ [] p l (List.mem_range.2 hlt) hl hp h2

/-- every scope is recorded at most once -/
theorem factorizations_keys_unique (c : SCirc R) (k : Scope) (s1 s2 : List (List Scope))
    (h1 : (k, s1) ∈ c.scopeFactorizations) (h2 : (k, s2) ∈ c.scopeFactorizations) : s1 = s2 :=
  SCirc.scopeFactorizations_unique c k s1 s2 h1 h2

theorem sd_sound (c : SCirc R) (h : c.isStructuredDecomposable = true) (p q : Nat)
    (lp lq : SLayer R) (hp : c.layers[p]? = some lp) (hq : c.layers[q]? = some lq)
    (hpp : lp.kind.isProduct = true) (hqp : lq.kind.isProduct = true)
    (hs : c.scopes.getD p [] = c.scopes.getD q [])
    (h2p : 1 < (c.factors lp).length) (h2q : 1 < (c.factors lq).length) :
    c.factors lp = c.factors lq := by
  obtain ⟨set1, hm1, hf1⟩ := factorizations_complete c p lp hp hpp h2p
  obtain ⟨set2, hm2, hf2⟩ := factorizations_complete c q lq hq hqp h2q
  rw [hs] at hm1
  have heq := SCirc.scopeFactorizations_unique c _ _ _ hm1 hm2
  subst heq
  unfold SCirc.isStructuredDecomposable at h
  simp only [Bool.and_eq_true, List.all_eq_true] at h
  have hlen := h.2 _ hm1
  simp only [beq_iff_eq] at hlen
  match set1, hlen, hf1, hf2 with
  | [x], _, hf1, hf2 =>
    rw [List.mem_singleton] at hf1 hf2
    rw [hf1, hf2]

theorem sd_implies_smooth_decomposable (c : SCirc R) (h : c.isStructuredDecomposable = true) :
    c.isSmooth = true ∧ c.isDecomposable = true := by
  unfold SCirc.isStructuredDecomposable at h
  simp only [Bool.and_eq_true] at h
  exact h.1

/-! ### compatibility -/

theorem compat_symm (c1 c2 : SCirc R) : c1.areCompatible c2 = c2.areCompatible c1 := by
  unfold SCirc.areCompatible
  cases c1.isSmooth <;> cases c1.isDecomposable <;> cases c2.isSmooth <;>
    cases c2.isDecomposable <;>
    simp only [Bool.and_true, Bool.and_false, Bool.false_and, Bool.true_and, Bool.and_comm]

theorem compat_dirs (c1 c2 : SCirc R) (h : c1.areCompatible c2 = true) :
    SCirc.compatDir c1.scopeFactorizations c2.scopeFactorizations = true
      ∧ SCirc.compatDir c2.scopeFactorizations c1.scopeFactorizations = true := by
  unfold SCirc.areCompatible at h
  simp only [Bool.and_eq_true] at h
  exact ⟨h.1.2, h.2⟩

theorem compat_implies_smooth_decomposable (c1 c2 : SCirc R) (h : c1.areCompatible c2 = true) :
    (c1.isSmooth = true ∧ c1.isDecomposable = true)
      ∧ (c2.isSmooth = true ∧ c2.isDecomposable = true) := by
  unfold SCirc.areCompatible at h
  simp only [Bool.and_eq_true] at h
  exact ⟨⟨h.1.1.1.1.1, h.1.1.1.1.2⟩, ⟨h.1.1.1.2, h.1.1.2⟩⟩

theorem compat_sound (c1 c2 : SCirc R) (h : c1.areCompatible c2 = true) (p q : Nat)
    (lp lq : SLayer R) (hp : c1.layers[p]? = some lp) (hq : c2.layers[q]? = some lq)
    (hpp : lp.kind.isProduct = true) (hqp : lq.kind.isProduct = true)
    (hs : c1.scopes.getD p [] = c2.scopes.getD q [])
    (h2p : 1 < (c1.factors lp).length) (h2q : 1 < (c2.factors lq).length) :
    c1.factors lp = c2.factors lq := by
  obtain ⟨set1, hm1, hf1⟩ := factorizations_complete c1 p lp hp hpp h2p
  obtain ⟨set2, hm2, hf2⟩ := factorizations_complete c2 q lq hq hqp h2q
  obtain ⟨a, rfl, hma⟩ := SCirc.compatDir_elim _ _ (compat_dirs c1 c2 h).1 _ _ hm1
  rw [hs] at hma
  have heq := SCirc.scopeFactorizations_unique c2 _ _ _ hma hm2
  subst heq
  rw [List.mem_singleton] at hf1 hf2
  rw [hf1, hf2]

theorem compat_implies_structured (c1 c2 : SCirc R) (h : c1.areCompatible c2 = true) :
    ∀ e ∈ c1.scopeFactorizations, e.2.length = 1 := by
  intro e he
  rcases e with ⟨s, fs⟩
  obtain ⟨a, rfl, _⟩ := SCirc.compatDir_elim _ _ (compat_dirs c1 c2 h).1 s fs he
  rfl

/-- compatible circuits are both reported structured-decomposable -/
theorem compat_implies_sd (c1 c2 : SCirc R) (h : c1.areCompatible c2 = true) :
    c1.isStructuredDecomposable = true ∧ c2.isStructuredDecomposable = true := by
  have key : ∀ d1 d2 : SCirc R, d1.areCompatible d2 = true →
      d1.isStructuredDecomposable = true := by
    intro d1 d2 hd
    have hsd := (compat_implies_smooth_decomposable d1 d2 hd).1
    unfold SCirc.isStructuredDecomposable
    simp only [Bool.and_eq_true, List.all_eq_true, beq_iff_eq]
    exact ⟨hsd, fun e he => compat_implies_structured d1 d2 hd e he⟩
  exact ⟨key c1 c2 h, key c2 c1 (by rw [compat_symm]; exact h)⟩

/-! ### independence of the order of the inputs -/

theorem lexLe_total (a b : Scope) : Scope.lexLe a b = true ∨ Scope.lexLe b a = true :=
  Scope.lexLe_total a b

theorem lexLe_antisymm (a b : Scope) (h1 : Scope.lexLe a b = true) (h2 : Scope.lexLe b a = true) :
    a = b :=
  Scope.lexLe_antisymm a b h1 h2

theorem lexLe_trans (a b c : Scope) (h1 : Scope.lexLe a b = true) (h2 : Scope.lexLe b c = true) :
    Scope.lexLe a c = true :=
  Scope.lexLe_trans a b c h1 h2

/-- the sorted list is a sorted permutation of the input -/
theorem sortScopes_spec (l : List Scope) :
    (Scope.sortScopes l).Perm l
      ∧ (Scope.sortScopes l).Pairwise (fun a b => Scope.lexLe a b = true) := by
  refine ⟨Scope.sortScopes_perm_self l, ?_⟩
  simp only [Scope.lexLe_iff]
  exact Scope.sortScopes_sorted l

set_option linter.unusedVariables false in
/-- Sorting is invariant under permutations of the input.  (`hsorted` is not needed: `lexLe` is a
    linear order on arbitrary lists of naturals.) -/
theorem sortScopes_perm (l l' : List Scope) (h : l.Perm l')
    (hsorted : ∀ s ∈ l, s.Pairwise (· < ·)) : Scope.sortScopes l = Scope.sortScopes l' :=
  Scope.sortScopes_perm' l l' h

theorem factors_perm_invariant (c : SCirc R) (l l' : SLayer R) (h : l.ins.Perm l'.ins) :
    c.factors l = c.factors l' := by
  unfold SCirc.factors
  rw [Scope.sortScopes_perm' _ _ (h.map _)]

/-! ### non-vacuity: a concrete smooth, decomposable, structured-decomposable circuit -/

/-- two embedding leaves over the variables 0 and 1, their Hadamard product, and a sum layer -/
def exampleCirc : SCirc Rat :=
  { layers := #[
      ⟨.embedding 0 2 2 (.const [2, 2] #[1, 2, 3, 4]), []⟩,
      ⟨.embedding 1 2 2 (.const [2, 2] #[1, 2, 3, 4]), []⟩,
      ⟨.hadamard 2 2, [0, 1]⟩,
      ⟨.sum 2 1 1 (.const [1, 2] #[1, 2]), [2]⟩],
    outputs := [3] }

example : exampleCirc.isSmooth = true := by decide
example : exampleCirc.isDecomposable = true := by decide
example : exampleCirc.isStructuredDecomposable = true := by decide
example : exampleCirc.scopeFactorizations = [([0, 1], [[[0], [1]]])] := by decide
example : exampleCirc.areCompatible exampleCirc = true := by decide
example : exampleCirc.factors ⟨.hadamard 2 2, [0, 1]⟩ = [[0], [1]] := by decide

end Cirkit.C08
