import CirkitModel.Proofs.Registry

namespace Cirkit.C18
open Cirkit PState

theorem sequential_reuse (s : PState) (c : ℕ) (hc : c < s.ctxs.length)
    (hfree : (s.ctx c).token = none) :
    ((s.step (.enter c)).1.step (.exit c)).1.active = s.active ∧
      (((s.step (.enter c)).1.step (.exit c)).1.ctx c).token = none := by
  have ht := enter_token s c hc hfree
  rw [step_exit_ok _ c s.active ht]
  refine ⟨rfl, ?_⟩
  show (((s.step (.enter c)).1.setCtx c _).ctx c).token = none
  rw [ctx_setCtx_self]
  rw [step_enter_ok s c hc hfree]
  simpa [setCtx] using hc

theorem exit_restores (s : PState) (c : ℕ) (body : List POp') (hc : c < s.ctxs.length)
    (hfree : (s.ctx c).token = none)
    (hbody : ∀ op ∈ body, op ≠ .enter c ∧ op ≠ .exit c)
    (hbal : ((s.step (.enter c)).1.run body).1.active = c) :
    (((s.step (.enter c)).1.run body).1.step (.exit c)).1.active = s.active := by
  have ht : ((((s.step (.enter c)).1.run body).1).ctx c).token = some s.active := by
    rw [run_token _ body c hbody, enter_token s c hc hfree]
  rw [step_exit_ok _ c s.active ht]

theorem ccop_is_compile_of_symbolic (s : PState) (c : ℕ) (ccs scs : List ℕ)
    (hc : c < s.ctxs.length) (hne : ccs ≠ [])
    (hk : ccs.mapM (s.symbolicOf c) = some scs) :
    s.step (.ccOp (some c) ccs) =
      ({ s with operands := s.operands ++ [scs] }.compile c s.operands.length) := by
  rw [step_ccOp, if_neg]
  · simp only [Option.getD_some, hk]
  · simp only [Option.getD_some, List.isEmpty_iff]
    rintro (h | h)
    · omega
    · exact hne h

theorem ccop_unknown_refused (s : PState) (c : ℕ) (ccs : List ℕ)
    (hc : c < s.ctxs.length) (hne : ccs ≠ [])
    (hk : ccs.mapM (s.symbolicOf c) = none) :
    s.step (.ccOp (some c) ccs) = (s, .error) := by
  rw [step_ccOp, if_neg]
  · simp only [Option.getD_some, hk]
  · simp only [Option.getD_some, List.isEmpty_iff]
    rintro (h | h)
    · omega
    · exact hne h

example :
    (({} : PState).run [.newCircuit, .newCircuit, .symOp [0, 1], .newCtx, .enter 1,
        .compile none 2, .exit 1, .getCompiled (some 1) 2]).2 =
      [.sc 0, .sc 1, .sc 2, .ctx 1, .unit, .cc 2, .unit, .cc 2] := by
  rfl

example :
    (({} : PState).run [.newCircuit, .newCircuit, .symOp [0, 1], .newCtx, .enter 1,
        .compile none 2, .exit 1, .getCompiled (some 1) 2]).1.compileLog =
      [(1, 0), (1, 1), (1, 2)] := by
  decide

end Cirkit.C18
