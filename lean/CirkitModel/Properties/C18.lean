/-
  C18 — the compiler registry and the pipeline context: each symbolic circuit is compiled at most
  once per context, the symbolic ↔ compiled association is a bijection that can be queried both
  ways, operands are compiled before their consumers, and `with ctx:` blocks restore the previously
  active context.

  Theorems are about the state machine `PState.step` / `PState.run` of
  `CirkitModel.Model.Registry`, which mirrors `cirkit/pipeline.py` (`PipelineContext`: one compiler
  per context object, `compile`, operator functions on compiled circuits, `__enter__`/`__exit__`
  with a `ContextVar` token), `cirkit/backend/compiler.py` (`CompiledCircuitsMap`, a `BiMap`;
  `compile` = look up or `compile_pipeline`), `compile_pipeline` of the torch backend, and
  `pipeline_topological_ordering` (`bfs` + Kahn's algorithm of `cirkit/utils/algorithms.py`,
  modelled literally by `bfsOrder`, `kahn`, `pipelineOrder` with the fuel the driver passes).

  The invariant `PState.Inv` (defined in `CirkitModel.Proofs.Registry`) has the fields of the
  specification — `left_nodup`, `right_nodup` (every bimap is functional in both directions),
  `cc_lt` (compiled ids are `< nextCc`), `sc_lt` (registered symbolic ids exist), `dag` (operands
  are earlier circuits), `log_iff`, `log_nodup` (the compile log lists exactly the registered
  pairs, once each) — plus one added field `cc_disjoint` (no compiled id occurs in two contexts,
  the second half of "globally fresh" that `cc_lt` alone does not state).  A second invariant
  `PState.LogTopo` says that in the compile log every circuit is preceded by all of its operands
  (same context).

  * `inv_init`, `inv_step`, `inv_run`: the invariant holds initially, is preserved by every
    operation (also the refused ones) and hence holds after every history.
  * `bimap_bijection`: `compiledOf c sc = some cc ↔ symbolicOf c cc = some sc`.
  * `compiled_ids_fresh`: a compiled id belongs to one context only.
  * `compile_idempotent`: compiling the same circuit again returns the same compiled object and
    changes nothing.
  * `compile_registers` (FULL, no extra hypothesis): compiling an existing circuit in an existing
    context succeeds and registers it.  Rests on `pipelineOrder_complete`: on a DAG,
    `pipeline_topological_ordering([root])` with the model's fuel has no duplicates, lists the root
    and is closed under operands, and lists operands before consumers (completeness of
    `bfsOrder`/`kahn` is proved in general in `CirkitModel.Proofs.Registry`: `bfsOrder_spec`,
    `kahn_spec`, `pipelineOrder_spec`).
  * `operands_compiled_first` (FULL): after any history, every entry `(c, sc)` of the compile log
    is preceded by `(c, o)` for every operand `o` of `sc`; `operands_compiled`: hence every operand
    of a compiled circuit is compiled in that context.
  * `compile_once`: the compile log of any history has no duplicates.
  * `exit_restores`: leaving a block restores the context that was active before entering it,
    whatever happened inside (the hypothesis `hbal` of the specification is not even needed: only
    `enter c`/`exit c` touch the token of `c`, `PState.step_token`); `exit_restores_wb`: the same
    for a body that is syntactically well bracketed (`PState.WB`), where in addition the block is
    left with `c` active (`hbal` is derived); `wb_restores`: a well-bracketed history leaves the
    active context and all tokens unchanged; `sequential_reuse`.
  * `ccop_is_compile_of_symbolic`, `ccop_unknown_refused`: operator functions on compiled circuits
    compile the symbolic operator result / refuse circuits unknown to the context.
  Proofs: `CirkitModel.Proofs.Registry`.
-/
import CirkitModel.Proofs.Registry

namespace Cirkit.C18
open Cirkit PState

/-- 1. The invariant holds in the initial state. -/
theorem inv_init : (({} : PState)).Inv := PState.inv_init

/-- 2. Every operation preserves the invariant. -/
theorem inv_step (s : PState) (op : POp') (h : s.Inv) : (s.step op).1.Inv := h.step op

/-- 3. The invariant holds after every history. -/
theorem inv_run (ops : List POp') : ((({} : PState)).run ops).1.Inv := PState.inv_init.run ops

/-- 4. The association can be queried in both directions and the two directions agree. -/
theorem bimap_bijection (s : PState) (h : s.Inv) (c sc cc : ℕ) :
    s.compiledOf c sc = some cc ↔ s.symbolicOf c cc = some sc :=
  h.bimap_bijection c sc cc

/-- 4'. A compiled circuit is known to one context only. -/
theorem compiled_ids_fresh (s : PState) (h : s.Inv) (c c' sc sc' cc : ℕ)
    (h1 : s.symbolicOf c cc = some sc) (h2 : s.symbolicOf c' cc = some sc') : c = c' := by
  by_contra hne
  unfold symbolicOf at h1 h2
  rw [find_snd_eq_some_iff _ (h.right_nodup c)] at h1
  rw [find_snd_eq_some_iff _ (h.right_nodup c')] at h2
  exact h.cc_disjoint c c' hne _ h1 _ h2 rfl

set_option linter.unusedVariables false in
/-- 5. Compiling the same symbolic circuit again returns the same compiled object and changes
    nothing (holds in every state). -/
theorem compile_idempotent (s : PState) (h : s.Inv) (c sc : ℕ) :
    let r := s.compile c sc
    ∀ cc, r.2 = .cc cc → (r.1.compile c sc) = (r.1, .cc cc) := by
  intro r cc hr
  exact compile_idempotent' s c sc cc hr

/-- `pipeline_topological_ordering([sc])` in a state satisfying the invariant: lists `sc`, has no
    duplicates, only lists existing circuits, is closed under operands, and every circuit comes
    after all of its operands. -/
theorem pipelineOrder_complete (s : PState) (h : s.Inv) (sc : ℕ) (hsc : sc < s.operands.length) :
    sc ∈ pipelineOrder s.operandsOf (s.operands.length + 1) sc ∧
    (pipelineOrder s.operandsOf (s.operands.length + 1) sc).Nodup ∧
    (∀ x ∈ pipelineOrder s.operandsOf (s.operands.length + 1) sc, x < s.operands.length) ∧
    (∀ n ∈ pipelineOrder s.operandsOf (s.operands.length + 1) sc, ∀ o ∈ s.operandsOf n,
      o ∈ pipelineOrder s.operandsOf (s.operands.length + 1) sc) ∧
    (∀ l1 x l2, pipelineOrder s.operandsOf (s.operands.length + 1) sc = l1 ++ x :: l2 →
      ∀ o ∈ s.operandsOf x, o ∈ l1) := by
  obtain ⟨h1, h2, h3, h4, h5⟩ := pipelineOrder_spec s.operandsOf s.operands.length h.dag sc hsc
  exact ⟨h1, h3, h4, h5, h2⟩

/-- 6. Compiling an existing circuit in an existing context returns a compiled circuit, which is
    then registered. -/
theorem compile_registers (s : PState) (h : s.Inv) (c sc : ℕ) (hsc : sc < s.operands.length)
    (hc : c < s.ctxs.length) :
    ∃ cc, (s.compile c sc).2 = .cc cc ∧ (s.compile c sc).1.compiledOf c sc = some cc :=
  h.compile_registers c sc hsc hc

/-- 7. After any history, every entry `(c, sc)` of the compile log comes after the entries `(c, o)`
    of all operands `o` of `sc`. -/
theorem operands_compiled_first (ops : List POp') (l1 : List (ℕ × ℕ)) (c sc : ℕ)
    (l2 : List (ℕ × ℕ))
    (hlog : (({} : PState).run ops).1.compileLog = l1 ++ (c, sc) :: l2) :
    ∀ o ∈ (({} : PState).run ops).1.operandsOf sc, (c, o) ∈ l1 :=
  (PState.logTopo_init.run PState.inv_init ops) l1 c sc l2 hlog

/-- 7'. After any history, every operand of a circuit compiled in a context is compiled in that
    context. -/
theorem operands_compiled (ops : List POp') (c sc : ℕ)
    (hk : ((({} : PState).run ops).1.compiledOf c sc).isSome) :
    ∀ o ∈ (({} : PState).run ops).1.operandsOf sc,
      ((({} : PState).run ops).1.compiledOf c o).isSome :=
  PState.operands_compiled (PState.inv_init.run ops) (PState.logTopo_init.run PState.inv_init ops)
    c sc hk

/-- 8. Each circuit is compiled at most once per context over the whole history. -/
theorem compile_once (ops : List POp') : (({} : PState).run ops).1.compileLog.Nodup :=
  (inv_run ops).log_nodup

set_option linter.unusedVariables false in
/-- 9. Whatever happens inside the block, leaving it restores the context that was active before
    entering it. -/
theorem exit_restores (s : PState) (c : ℕ) (body : List POp') (hc : c < s.ctxs.length)
    (hfree : (s.ctx c).token = none)
    (hbody : ∀ op ∈ body, op ≠ .enter c ∧ op ≠ .exit c)
    (hbal : ((s.step (.enter c)).1.run body).1.active = c) :
    (((s.step (.enter c)).1.run body).1.step (.exit c)).1.active = s.active := by
  have ht : ((((s.step (.enter c)).1.run body).1).ctx c).token = some s.active := by
    rw [run_token _ body c hbody, enter_token s c hc hfree]
  rw [step_exit_ok _ c s.active ht]

/-- 9'. A syntactically well-bracketed history (`PState.WB busy`: blocks nest and never enter a
    context of `busy` or one they are inside of) leaves the active context and every token
    unchanged, if all contexts outside `busy` are free at the start. -/
theorem wb_restores (busy : List ℕ) (ops : List POp') (hwb : WB busy ops) (s : PState)
    (hfree : ∀ c, c ∉ busy → (s.ctx c).token = none) :
    (s.run ops).1.active = s.active ∧ ∀ c, ((s.run ops).1.ctx c).token = (s.ctx c).token :=
  hwb.run_restores s hfree

/-- 9''. `exit_restores` with the balance hypothesis derived from syntactic well-bracketedness of
    the body: at the end of the body `c` is active again, and leaving restores the previously
    active context. -/
theorem exit_restores_wb (s : PState) (c : ℕ) (body : List POp') (busy : List ℕ)
    (hc : c < s.ctxs.length) (hfree : ∀ c', c' ∉ busy → (s.ctx c').token = none) (hcb : c ∉ busy)
    (hwb : WB (c :: busy) body) :
    ((s.step (.enter c)).1.run body).1.active = c ∧
      (((s.step (.enter c)).1.run body).1.step (.exit c)).1.active = s.active :=
  hwb.exit_restores s hc hfree hcb

/-- 9'''. After `enter c; exit c` the context is free again and the active context is unchanged. -/
theorem sequential_reuse (s : PState) (c : ℕ) (hc : c < s.ctxs.length)
    (hfree : (s.ctx c).token = none) :
    ((s.step (.enter c)).1.step (.exit c)).1.active = s.active ∧
      (((s.step (.enter c)).1.step (.exit c)).1.ctx c).token = none := by
  have ht := enter_token s c hc hfree
  obtain ⟨h1, h2⟩ := exit_token _ c s.active ht
  exact ⟨h2, h1⟩

/-- 10. Operator functions applied to compiled circuits return the compilation of the symbolic
    operator result. -/
theorem ccop_is_compile_of_symbolic (s : PState) (c : ℕ) (ccs scs : List ℕ)
    (hc : c < s.ctxs.length) (hne : ccs ≠ [])
    (hk : ccs.mapM (s.symbolicOf c) = some scs) :
    s.step (.ccOp (some c) ccs) =
      ({ s with operands := s.operands ++ [scs] }.compile c s.operands.length) := by
  rw [step_ccOp, if_neg]
  · simp only [Option.getD_some, hk]
  · simp only [Option.getD_some, List.isEmpty_iff]
    rintro (h | h)
    · omega
    · exact hne h

/-- 10'. … and refuse compiled circuits that are not known in the context. -/
theorem ccop_unknown_refused (s : PState) (c : ℕ) (ccs : List ℕ)
    (hc : c < s.ctxs.length) (hne : ccs ≠ [])
    (hk : ccs.mapM (s.symbolicOf c) = none) :
    s.step (.ccOp (some c) ccs) = (s, .error) := by
  rw [step_ccOp, if_neg]
  · simp only [Option.getD_some, hk]
  · simp only [Option.getD_some, List.isEmpty_iff]
    rintro (h | h)
    · omega
    · exact hne h

/-- Non-vacuity: a concrete history (two base circuits, their product, a new context, compile
    inside a `with` block, query after the block). -/
example :
    (({} : PState).run [.newCircuit, .newCircuit, .symOp [0, 1], .newCtx, .enter 1,
        .compile none 2, .exit 1, .getCompiled (some 1) 2]).2 =
      [.sc 0, .sc 1, .sc 2, .ctx 1, .unit, .cc 2, .unit, .cc 2] := by
  rfl

example :
    (({} : PState).run [.newCircuit, .newCircuit, .symOp [0, 1], .newCtx, .enter 1,
        .compile none 2, .exit 1, .getCompiled (some 1) 2]).1.compileLog =
      [(1, 0), (1, 1), (1, 2)] := by
  decide

/-- … and this history is well bracketed. -/
example : WB [] [.newCircuit, .newCircuit, .symOp [0, 1], .newCtx, .enter 1,
    .compile none 2, .exit 1, .getCompiled (some 1) 2] := by
  refine .op _ _ _ (by simp) (by simp) (.op _ _ _ (by simp) (by simp) (.op _ _ _ (by simp) (by simp)
    (.op _ _ _ (by simp) (by simp) ?_)))
  exact .block [] 1 [.compile none 2] [.getCompiled (some 1) 2] (by simp)
    (.op _ _ _ (by simp) (by simp) (.nil _)) (.op _ _ _ (by simp) (by simp) (.nil _))

end Cirkit.C18
