/-
  C03 — `integrate` computes the integral of the denoted function.

  Theorems are about the model (`CirkitModel.Model.Node`): `Node.integ1` / `Node.integ` replace
  every input layer over an integrated variable by the constant layer of its integrals
  (`cirkit.symbolic.functional.integrate`).  For a smooth and decomposable tree and linear
  functionals `S v` (a sum over a discrete domain or any quadrature rule: `quad_linFun`) the
  result denotes the iterated integral of the operand (`integ1_correct`, `integrate_correct`);
  its scope is the operand's scope minus the integrated variables (`mem_integ1`,
  `integrate_scope`); well-formedness, unit counts, smoothness and decomposability are preserved;
  integrating in two steps or in another order gives the same circuit function
  (`integrate_integrate`, `integrate_union_order`).
  Proofs: `CirkitModel.Proofs.Operators`.
-/
import CirkitModel.Proofs.Bridge
import CirkitModel.Proofs.Operators

open Finset

namespace Cirkit.C03
variable {R V : Type} [CommSemiring R]

/-- A layer does not depend on variables outside its scope. -/
theorem eval_upd_of_not_mem (n : Node R V) (v : ℕ) (hv : ¬ Node.Mem v n) (x : ℕ → V) (a : V)
    (i : ℕ) :
    n.eval (Ops.ofCommSemiring R) (Node.upd x v a) i = n.eval (Ops.ofCommSemiring R) x i :=
  Node.eval_upd_of_not_mem n v hv x a i

omit [CommSemiring R] in
/-- Integrating a variable outside the scope changes nothing. -/
theorem integ1_of_not_mem (n : Node R V) (v : ℕ) (S : (V → R) → R) (hv : ¬ Node.Mem v n) :
    n.integ1 v S = n :=
  Node.integ1_of_not_mem n v S hv

/-- Integrating one variable of a smooth and decomposable circuit with a linear functional `S`
    yields `S` applied to the operand as a function of that variable. -/
theorem integ1_correct (n : Node R V) (v : ℕ) (S : (V → R) → R) (hS : LinFun S)
    (hv : Node.Mem v n) (hs : n.Smooth) (hd : n.Decomp) (y : ℕ → V) (i : ℕ) :
    (n.integ1 v S).eval (Ops.ofCommSemiring R) y i
      = S (fun a => n.eval (Ops.ofCommSemiring R) (Node.upd y v a) i) :=
  Node.integ1_correct n v S hS hv hs hd y i

omit [CommSemiring R] in
/-- The scope loses exactly the integrated variable. -/
theorem mem_integ1 (n : Node R V) (v z : ℕ) (S : (V → R) → R) :
    Node.Mem z (n.integ1 v S) ↔ (Node.Mem z n ∧ z ≠ v) :=
  Node.mem_integ1 n v z S

omit [CommSemiring R] in
theorem integ1_smooth (n : Node R V) (v : ℕ) (S : (V → R) → R) (hs : n.Smooth) :
    (n.integ1 v S).Smooth :=
  Node.integ1_smooth n v S hs

omit [CommSemiring R] in
theorem integ1_decomp (n : Node R V) (v : ℕ) (S : (V → R) → R) (hd : n.Decomp) :
    (n.integ1 v S).Decomp :=
  Node.integ1_decomp n v S hd

omit [CommSemiring R] in
theorem integ1_wf (n : Node R V) (v : ℕ) (S : (V → R) → R) (h : n.WF) : (n.integ1 v S).WF :=
  Node.integ1_wf n v S h

omit [CommSemiring R] in
theorem integ1_units (n : Node R V) (v : ℕ) (S : (V → R) → R) :
    (n.integ1 v S).units = n.units :=
  Node.integ1_units n v S

/-- Integrating a duplicate-free list of in-scope variables of a smooth and decomposable circuit
    denotes the iterated integral of the operand. -/
theorem integrate_correct (n : Node R V) (S : ℕ → (V → R) → R) (hS : ∀ v, LinFun (S v))
    (zs : List ℕ) (hnd : zs.Nodup) (hz : ∀ z ∈ zs, Node.Mem z n) (hs : n.Smooth) (hd : n.Decomp)
    (y : ℕ → V) (i : ℕ) :
    (n.integ S zs).eval (Ops.ofCommSemiring R) y i
      = Node.sumOver S zs (fun y' => n.eval (Ops.ofCommSemiring R) y' i) y :=
  Node.integ_correct n S hS zs hnd hz hs hd y i

omit [CommSemiring R] in
/-- The scope of the integral is the scope minus the integrated variables. -/
theorem integrate_scope (n : Node R V) (S : ℕ → (V → R) → R) (zs : List ℕ) (z : ℕ) :
    Node.Mem z (n.integ S zs) ↔ (Node.Mem z n ∧ z ∉ zs) :=
  Node.mem_integ n S zs z

omit [CommSemiring R] in
/-- Integrating in two steps is integrating the concatenated list (syntactically). -/
theorem integrate_integrate (n : Node R V) (S : ℕ → (V → R) → R) (zs1 zs2 : List ℕ) :
    n.integ S (zs1 ++ zs2) = (n.integ S zs1).integ S zs2 :=
  Node.integ_append n S zs1 zs2

set_option linter.unusedVariables false in
/-- The order in which the variables are listed does not matter.  (The integrated circuits are
    even syntactically equal — `Node.integ_perm` — so the side conditions, kept to match
    `integrate_correct`, are not used by the proof.) -/
theorem integrate_union_order (n : Node R V) (S : ℕ → (V → R) → R) (hS : ∀ v, LinFun (S v))
    (zs zs' : List ℕ) (hperm : zs.Perm zs') (hnd : zs.Nodup) (hz : ∀ z ∈ zs, Node.Mem z n)
    (hs : n.Smooth) (hd : n.Decomp) (y : ℕ → V) (i : ℕ) :
    (n.integ S zs).eval (Ops.ofCommSemiring R) y i
      = (n.integ S zs').eval (Ops.ofCommSemiring R) y i := by
  rw [Node.integ_perm n S zs zs' hperm]

/-- non-vacuity: the hypotheses of `integ1_correct` hold for a concrete tree — a sum over the
    Hadamard product of two leaves over the variables 0 and 1, integrated over `{0, 1}` with unit
    weights. -/
example :
    let n : Node ℚ ℕ := Node.sum 1 2 1 (fun _ c => (c : ℚ) + 1)
      (fun _ => Node.had 2 2 (fun h => Node.leaf h.val 2 (fun i (a : ℕ) => (i + a : ℚ))))
    LinFun (Node.quad (Ops.ofCommSemiring ℚ) [0, 1] (fun _ : ℕ => (1 : ℚ)))
      ∧ Node.Mem 0 n ∧ n.Smooth ∧ n.Decomp := by
  refine ⟨quad_linFun _ _, ⟨0, 0, rfl⟩, ⟨fun _ => fun _ => trivial, fun h h' v => ?_⟩,
    fun _ => ⟨fun _ => trivial, fun h h' v hne hm hm' => ?_⟩⟩
  · rw [Subsingleton.elim h h']
  · simp only [Node.Mem] at hm hm'
    exact hne (Fin.ext (hm.symm.trans hm'))

end Cirkit.C03
