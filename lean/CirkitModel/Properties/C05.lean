/-
  C05 — `differentiate` returns the partial derivatives of the denoted function, one per variable
  of the scope, in increasing variable id order, followed by the circuit itself.

  Theorems are about the model (`CirkitModel.Model.Diff`): `Node.diff1 v D` replaces every input
  layer by its derivative (`D` = what `differentiate_polynomial_layer` does to a unit function),
  copies sum layers over the differentiated inputs, and in a product layer differentiates only the
  one input whose scope contains `v` (`cirkit.symbolic.functional.differentiate`);
  `Node.diffOutputs` lists the derivatives in the order of the canonical scope `Node.scopeL`, then
  the layer itself; `polyDiffCoeff` is the falling factorial of `PolynomialDifferential`.

  Semantic domain: a polynomial-input circuit is a `Node (MvPolynomial ℕ S) Unit` over a commutative
  semiring `S` satisfying `Node.PolyCircuit` (defined in `CirkitModel.Proofs.Diff`): the units of an
  input layer over `v'` are polynomials `p` with `p.vars ⊆ {v'}`, constant layers and sum weights
  `w` are constants, stated as `w.vars = ∅` (the `vars = ∅` form of the definition was chosen,
  not `∃ r, w = C r`).  Its units denote elements of `MvPolynomial ℕ S` and "derivative" is
  `MvPolynomial.pderiv`.

  * `hasVar_iff`, `scopeL_mem`: executable scope membership and the canonical scope agree with
    `Node.Mem`.
  * `eval_vars_subset`: the denoted polynomial only mentions variables of the scope.
  * `diff1_correct`: for a smooth and decomposable polynomial circuit and `v` in its scope,
    `diff1 v` with the k-th derivative on the input layers denotes the k-th partial derivative.
  * `diffOutputs_length`, `diffOutputs_order`, `diffOutputs_get`, `diffOutputs_last`: the outputs
    are the derivatives in strictly increasing variable id order, then the layer itself.
  * `differentiate_correct`: output `j` of `differentiate` denotes the k-th partial derivative in
    the `j`-th variable of the scope.
  * `polyDiff_rule`: coefficient `n` of the k-th derivative of `Σ_{m<d} a_m x^m` is
    `polyDiffCoeff k n · a_{n+k}` if `n + k < d`, else `0` (in particular everything is `0` when
    `d ≤ k`).
  * `eval_ringHom`: evaluation commutes with ring homomorphisms (`φ = MvPolynomial.eval pt`
    transfers `diff1_correct` to numeric evaluation at any point).
  Proofs: `CirkitModel.Proofs.Diff`.
-/
import CirkitModel.Proofs.Bridge
import CirkitModel.Proofs.Operators
import CirkitModel.Proofs.Diff

open Finset

namespace Cirkit.C05

section Structural
variable {R V : Type}

/-- 1. Executable scope membership is scope membership. -/
theorem hasVar_iff (n : Node R V) (v : ℕ) : n.hasVar v = true ↔ Node.Mem v n :=
  Node.hasVar_iff n v

/-- 4a. One output per variable of the scope, plus the layer itself. -/
theorem diffOutputs_length (D : ℕ → (V → R) → (V → R)) (n : Node R V) :
    (n.diffOutputs D).length = n.scopeL.length + 1 :=
  Node.diffOutputs_length D n

set_option linter.unusedVariables false in
/-- 4b. The derivative blocks come in strictly increasing variable id order. -/
theorem diffOutputs_order (D : ℕ → (V → R) → (V → R)) (n : Node R V) :
    n.scopeL.Pairwise (· < ·) :=
  Node.scopeL_pairwise n

/-- 4c. The canonical scope lists exactly the variables of the scope. -/
theorem scopeL_mem (n : Node R V) (v : ℕ) : v ∈ n.scopeL ↔ Node.Mem v n :=
  Node.scopeL_mem n v

/-- 4d. Output `j` is the derivative in the `j`-th variable of the scope. -/
theorem diffOutputs_get (D : ℕ → (V → R) → (V → R)) (n : Node R V) (j : ℕ)
    (hj : j < n.scopeL.length) :
    (n.diffOutputs D)[j]? = some (n.diff1 (n.scopeL[j]) (D (n.scopeL[j]))) :=
  Node.diffOutputs_get D n j hj

/-- 4e. The last output is the layer itself. -/
theorem diffOutputs_last (D : ℕ → (V → R) → (V → R)) (n : Node R V) :
    (n.diffOutputs D)[n.scopeL.length]? = some n :=
  Node.diffOutputs_last D n

end Structural

section Poly
variable {S : Type} [CommSemiring S]

/-- 2. The denoted polynomial only mentions variables of the scope. -/
theorem eval_vars_subset (n : Node (MvPolynomial ℕ S) Unit) (hp : n.PolyCircuit)
    (x : ℕ → Unit) (i : ℕ) (v : ℕ) :
    v ∈ (n.eval (Ops.ofCommSemiring (MvPolynomial ℕ S)) x i).vars → Node.Mem v n :=
  Node.eval_vars_subset n hp x i v

/-- 3. Differentiating a smooth and decomposable polynomial circuit in a variable of its scope
    denotes the (k-th) partial derivative of the denoted polynomial. -/
theorem diff1_correct (n : Node (MvPolynomial ℕ S) Unit) (v k : ℕ) (hp : n.PolyCircuit)
    (hmem : Node.Mem v n) (hs : n.Smooth) (hd : n.Decomp) (x : ℕ → Unit) (i : ℕ) :
    (n.diff1 v (fun g a => (MvPolynomial.pderiv v)^[k] (g a))).eval
        (Ops.ofCommSemiring (MvPolynomial ℕ S)) x i
      = (MvPolynomial.pderiv v)^[k] (n.eval (Ops.ofCommSemiring (MvPolynomial ℕ S)) x i) :=
  Node.diff1_correct n v k hp hmem hs hd x i

/-- 5. Output `j` of `differentiate` exists and denotes the k-th partial derivative of the operand
    in the `j`-th variable (in increasing id order) of its scope. -/
theorem differentiate_correct (n : Node (MvPolynomial ℕ S) Unit) (hp : n.PolyCircuit)
    (hs : n.Smooth) (hd : n.Decomp) (k : ℕ) (x : ℕ → Unit) (i : ℕ) (j : ℕ)
    (hj : j < n.scopeL.length) :
    ∃ q, (n.diffOutputs (fun v g a => (MvPolynomial.pderiv v)^[k] (g a)))[j]? = some q ∧
      q.eval (Ops.ofCommSemiring (MvPolynomial ℕ S)) x i
        = (MvPolynomial.pderiv (n.scopeL[j]))^[k]
            (n.eval (Ops.ofCommSemiring (MvPolynomial ℕ S)) x i) :=
  ⟨_, Node.diffOutputs_get _ n j hj,
    Node.diff1_correct n (n.scopeL[j]) k hp
      ((Node.scopeL_mem n _).mp (List.getElem_mem hj)) hs hd x i⟩

end Poly

/-- 6. `PolynomialDifferential`: the coefficients of the k-th derivative of `Σ_{m<d} a_m x^m`. -/
theorem polyDiff_rule {S : Type} [CommSemiring S] (a : ℕ → S) (d k n : ℕ) :
    ((Polynomial.derivative)^[k]
        (∑ m ∈ Finset.range d, Polynomial.C (a m) * Polynomial.X ^ m)).coeff n
      = if n + k < d then (polyDiffCoeff k n : S) * a (n + k) else 0 :=
  Cirkit.polyDiff_rule a d k n

/-- 7. Evaluation commutes with ring homomorphisms. -/
theorem eval_ringHom {R R' V : Type} [CommSemiring R] [CommSemiring R'] (φ : R →+* R')
    (n : Node R V) (x : ℕ → V) (i : ℕ) :
    φ (n.eval (Ops.ofCommSemiring R) x i) = (n.mapVals φ).eval (Ops.ofCommSemiring R') x i :=
  Node.eval_ringHom φ n x i

/-- Non-vacuity: `exampleNode` (`X₁² ⊙ 3·X₈`, a `had 2 1` over input layers on variables 1 and 8)
    satisfies all hypotheses of `diff1_correct` for `v = 8`. -/
theorem example_nonvacuous :
    exampleNode.PolyCircuit ∧ exampleNode.Smooth ∧ exampleNode.Decomp ∧ Node.Mem 8 exampleNode :=
  ⟨exampleNode_polyCircuit, exampleNode_smooth, exampleNode_decomp, exampleNode_mem⟩

/-- Non-vacuity of the conclusion: the scope of `exampleNode` is `[1, 8]`, and its first derivative
    in variable 8 denotes `∂/∂X₈ (X₁² · 3·X₈) = 3·X₁²`. -/
theorem example_scope : exampleNode.scopeL = [1, 8] := by
  decide

open MvPolynomial in
theorem example_derivative (x : ℕ → Unit) :
    (exampleNode.diff1 8 (fun g a => (pderiv 8)^[1] (g a))).eval
      (Ops.ofCommSemiring (MvPolynomial ℕ ℚ)) x 0 = 3 * X 1 ^ 2 := by
  rw [diff1_correct _ _ _ exampleNode_polyCircuit exampleNode_mem exampleNode_smooth
    exampleNode_decomp]
  simp only [exampleNode, Node.eval_had', Fin.prod_univ_two, Function.iterate_one]
  show pderiv 8 (X 1 ^ 2 * (3 * X 8)) = _
  rw [← map_ofNat (C : ℚ →+* MvPolynomial ℕ ℚ) 3]
  simp only [Derivation.leibniz, pderiv_X, Pi.single_eq_same, smul_eq_mul, mul_one, derivation_C,
    mul_zero, add_zero, Derivation.leibniz_pow, Nat.add_one_sub_one, pow_one, ne_eq,
    OfNat.one_ne_ofNat, not_false_eq_true, Pi.single_eq_of_ne, nsmul_zero]
  ring

end Cirkit.C05
