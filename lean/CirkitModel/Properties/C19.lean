/-
  C19 — saved parameters reproduce the circuit after reload.

  Theorems are about the model `CirkitModel.Model.Params` (`StateLayout`: the registered tensors of
  a compiled circuit in module-tree order, each with its key and the storage it aliases;
  `save` = `state_dict()`, `load` = `load_state_dict(sd)`).

  * `load_save`
      — loading a saved dictionary into any same-layout instance, whatever its fresh values
        `vals'`, makes every registered storage equal to the saved one.  Hypothesis `hkeys`: a key
        determines its storage.  Duplicate keys for one storage, as produced by pointer parameters
        (the target is registered again under the pointer's key), are harmless: they carry equal
        values.
  * `load_untouched`
      — storages that are not registered keep their value.
  * `keys_deterministic`
      — the key set is a function of the compiled structure only, not of the values.
  * `exactly_once_iff`
      — "every learnable tensor appears exactly once" = no storage under two keys.  This is the
        hypothesis that fails for derived circuits (known finding D12).
  * the two `example`s: a layout with a pointer duplicate violates `Nodup` but still satisfies the
    hypotheses of `load_save`.

  Proofs: `CirkitModel.Proofs.ParamsLemmas`.
-/
import CirkitModel.Proofs.ParamsLemmas

namespace Cirkit.C19
open Cirkit

/-! ### 4. round trip -/

theorem load_save {α : Type} (l : StateLayout) (vals vals' : ℕ → α) (sid : ℕ)
    (h : ∃ e ∈ l.entries, e.2 = sid)
    (hkeys : ∀ e₁ ∈ l.entries, ∀ e₂ ∈ l.entries, e₁.1 = e₂.1 → e₁.2 = e₂.2) :
    l.load (l.save vals) vals' sid = vals sid :=
  load_save_aux l vals vals' sid h hkeys

theorem load_untouched {α : Type} (l : StateLayout) (sd : List (String × α)) (vals' : ℕ → α)
    (sid : ℕ) (h : ∀ e ∈ l.entries, e.2 ≠ sid) : l.load sd vals' sid = vals' sid :=
  load_untouched_aux l sd vals' sid h

/-! ### 5. keys -/

theorem keys_deterministic {α : Type} (l : StateLayout) (v1 v2 : ℕ → α) :
    (l.save v1).map (·.1) = (l.save v2).map (·.1) := by
  rw [save_keys, save_keys]

theorem exactly_once_iff (l : StateLayout) :
    (l.entries.map (·.2)).Nodup ↔ ∀ sid, (l.entries.filter (·.2 = sid)).length ≤ 1 :=
  nodup_storage_iff l.entries

/-- A pointer duplicate: the storage `0` is registered under two keys … -/
example : ¬ ((⟨[("w", 0), ("p._parameter", 0)]⟩ : StateLayout).entries.map (·.2)).Nodup := by
  decide

/-- … but the hypotheses of `load_save` hold (every key determines its storage), so the round trip
    is still exact. -/
example {α : Type} (vals vals' : ℕ → α) :
    (⟨[("w", 0), ("p._parameter", 0)]⟩ : StateLayout).load
      ((⟨[("w", 0), ("p._parameter", 0)]⟩ : StateLayout).save vals) vals' 0 = vals 0 := by
  apply load_save
  · exact ⟨("w", 0), List.mem_cons_self, rfl⟩
  · intro e₁ h₁ e₂ h₂ _
    simp only [List.mem_cons, List.not_mem_nil, or_false] at h₁ h₂
    rcases h₁ with rfl | rfl <;> rcases h₂ with rfl | rfl <;> rfl

end Cirkit.C19
