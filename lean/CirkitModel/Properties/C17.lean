/-
  C17 — initialisation follows the symbolic initialiser regardless of folding.

  Theorems are about the model `CirkitModel.Model.Params`
  (`cirkit/backend/torch/initializers.py`: `foldwise_initializer_`, `dirichlet_`;
  `cirkit/backend/torch/rules/initializers.py`: `compile_dirichlet_initializer`).

  * `foldwise_slice`, `foldwise_length`, `foldwise_independent`
      — slice `i` of a folded parameter is initialised by initialiser `i` applied to slice `i`,
        and by nothing else: it depends on `inits[i]` and `slices[i]` only.
  * `dirichlet_axis`
      — the compiled initialiser, applied to a slice that carries its fold dimension (rank `r+1`),
        normalises along the declared axis (shifted by the fold dimension), for positive and
        negative axis arguments.
  * `dirichlet_axis_without_fold_dim_wrong`
      — refutation witness of the pre-fix behaviour, where the slice was passed *without* its fold
        dimension (rank `r`): `axis = 0`, `r = 2` gives `1 ≠ 0`.
  * `dirichlet_shape`
      — `movedim(samples, -1, dim)` puts the categories back on the requested axis, for every shape
        and every dim.
  * `dirichlet_transpose_wrong`
      — the historical defect: `transpose(samples, dim, -1)` does not restore the shape.

  Proofs: `CirkitModel.Proofs.ParamsLemmas`.
-/
import CirkitModel.Proofs.ParamsLemmas

namespace Cirkit.C17
open Cirkit

/-! ### 1. fold-wise initialisation -/

theorem foldwise_slice {T : Type} (inits : List (T → T)) (slices : List T) (i : ℕ)
    (hi : i < inits.length) (hs : i < slices.length) :
    (foldwiseInit inits slices)[i]? = some ((inits[i]) (slices[i])) :=
  foldwiseInit_getElem? inits slices i hi hs

theorem foldwise_length {T : Type} (inits : List (T → T)) (slices : List T) :
    (foldwiseInit inits slices).length = min inits.length slices.length :=
  foldwiseInit_length inits slices

/-- Slice `i` of the result depends only on `inits[i]` and `slices[i]`. -/
theorem foldwise_independent {T : Type} (inits inits' : List (T → T)) (slices slices' : List T)
    (i : ℕ) (hi : i < inits.length) (hi' : i < inits'.length)
    (hs : i < slices.length) (hs' : i < slices'.length)
    (hinit : inits[i] = inits'[i]) (hslice : slices[i] = slices'[i]) :
    (foldwiseInit inits slices)[i]? = (foldwiseInit inits' slices')[i]? := by
  rw [foldwise_slice inits slices i hi hs, foldwise_slice inits' slices' i hi' hs', hinit, hslice]

/-! ### 2. the Dirichlet axis -/

theorem dirichlet_axis (axis : ℤ) (r : ℕ) (h : -(r : ℤ) ≤ axis ∧ axis < r) :
    compiledDirichletDim axis r = declaredAxis axis r + 1 :=
  have _ := h
  compiledDirichletDim_eq axis r

theorem dirichlet_axis_without_fold_dim_wrong :
    ∃ (axis : ℤ) (r : ℕ), (-(r : ℤ) ≤ axis ∧ axis < r) ∧
      (let d := if axis < 0 then axis else axis + 1
       (if d ≥ 0 then d else d + r)) ≠ declaredAxis axis r :=
  ⟨0, 2, by decide⟩

/-! ### 3. the Dirichlet sample shape -/

theorem dirichlet_shape (shape : List ℕ) (dim : ℕ) (h : dim < shape.length) :
    moveLastTo (dirichletSampleShape shape dim) dim = shape :=
  moveLastTo_dirichletSampleShape shape dim h

theorem dirichlet_transpose_wrong :
    swapWithLast (dirichletSampleShape [1, 2, 3, 4] 1) 1 ≠ [1, 2, 3, 4] := by
  decide

end Cirkit.C17
