/-
  C02 — folding a computational graph preserves its outputs; address-book gathers return the
  slices they name; the layer/parameter optimisation rewrites are identities.

  Theorems are about the model `CirkitModel.Model.Fold` (`UGraph`, `FoldCert`, `FoldCert.valid`,
  `evalUnfolded`, `evalFolded`, `gatherOutputs`, `stackedEntry`, `operandEntry`), which mirrors
  `cirkit/backend/torch/graph/folding.py` and the evaluation loop of
  `cirkit/backend/torch/graph/modules.py`.

  * `fold_sound`, `fold_sound_slices`: for a topologically ordered graph (`UGraph.Topo`: every
    input id is smaller than the module id), ANY module semantics `sem` and any certificate
    accepted by `FoldCert.valid`, evaluating the folded graph and gathering `out_fold_idx` gives
    exactly the unfolded outputs; slice `f` of folded module `gi` is the value of its `f`-th
    member.  (Slice-wise independence of a folded torch module is what `evalFolded` encodes.)
  * `stackedEntry_gather`, `operandEntry_gather`: concatenating the outputs of the de-duplicated
    module ids and indexing at `cumOffset + slice` returns the slice named by (module, slice).
  * `unsqueeze0_shortcut`, `unsqueeze1_shortcut`: the two short-cuts of
    `build_address_book_stacked_entry` (index matrix = `arange(F)`: no gather, just `unsqueeze`).
  * `sum_collapse_eq` (SumCollapse: W1·(W2·x) = (W1·W2)·x), `tucker_eq` / `tucker_eq_partial`
    (arity-2 Tucker einsum = sum layer on the Kronecker product; arity > 2 follows by iterating
    the same re-indexing), `logsoftmax_eq` (log ∘ softmax = log_softmax).
  * `buildFolded_valid`, `buildFolded_sound`: the model of `build_folded_graph` /
    `group_foldable_modules` (`buildFolded`, `groupFrontier`), run on ANY layer-wise topological
    ordering (`Layered`: the frontiers permute the modules, every input lies in an earlier
    frontier, the fold key determines the arity, outputs are modules), emits a certificate that
    `FoldCert.valid` accepts — so folding with the modelled algorithm is sound unconditionally,
    and `valid` on the REAL certificate (checked on every run) is the only per-run obligation.
  Proofs: `CirkitModel.Proofs.Fold`, `CirkitModel.Proofs.FoldBuild`.
-/
import Mathlib.Analysis.SpecialFunctions.Log.Basic
import CirkitModel.Proofs.Index
import CirkitModel.Proofs.Fold
import CirkitModel.Proofs.FoldBuild
import Mathlib.Tactic.IntervalCases
import CirkitModel.Proofs.TemplatesFull

open Finset

namespace Cirkit.C02

/-- Folding is sound: for every module semantics, evaluating the folded graph and gathering
    `out_fold_idx` gives exactly the unfolded outputs. -/
theorem fold_sound {α : Type} (g : UGraph) (c : FoldCert) (sem : ℕ → List α → α) (dflt : α)
    (htopo : g.Topo) (hv : c.valid g = true) :
    gatherOutputs c (evalFolded c sem dflt) dflt
      = g.outputs.map (fun o => (evalUnfolded g sem dflt).getD o dflt) :=
  fold_outputs g c sem dflt htopo hv

/-- Non-vacuity: modules 0 and 1 are inputs with the same key (folded into one group), module 2
    reads both, module 3 reads module 2 and is the output. -/
example :
    let g : UGraph :=
      { n := 4
        ins := fun m => if m = 2 then [0, 1] else if m = 3 then [2] else []
        key := fun m => if m ≤ 1 then 0 else m
        outputs := [3] }
    let c : FoldCert :=
      { groups := [[0, 1], [2], [3]]
        inIdx := [[[], []], [[(0, 0), (0, 1)]], [[(1, 0)]]]
        outIdx := [(2, 0)] }
    g.Topo ∧ c.valid g = true := by
  refine ⟨?_, by decide⟩
  intro m hm i hi
  dsimp only at hi
  split_ifs at hi with h2 h3 <;> simp at hi <;> omega

/-- The slice invariant behind `fold_sound`: slice `f` of folded module `gi` is the value of
    the `f`-th member of group `gi`. -/
theorem fold_sound_slices {α : Type} (g : UGraph) (c : FoldCert) (sem : ℕ → List α → α)
    (dflt : α) (htopo : g.Topo) (hv : c.valid g = true)
    (gi : ℕ) (hgi : gi < c.groups.length) (f : ℕ) (hf : f < (c.groups.getD gi []).length) :
    ((evalFolded c sem dflt).getD gi []).getD f dflt
      = (evalUnfolded g sem dflt).getD ((c.groups.getD gi []).getD f 0) dflt :=
  fold_slices g c sem dflt htopo hv gi hgi f hf

/-- The model of `build_folded_graph` always emits a valid certificate: for every graph and every
    layer-wise topological ordering of it (no bound on the number of modules, frontiers, keys or
    arities), `FoldCert.valid` accepts `buildFolded g frontiers`. -/
theorem buildFolded_valid (g : UGraph) (frontiers : List (List ℕ)) (h : Layered g frontiers) :
    (buildFolded g frontiers).valid g = true :=
  buildFolded_valid' g frontiers h

/-- The same with the executable hypothesis: whenever the check `layeredB` that the driver runs on
    the ordering handed to the real `build_folded_graph` answers `true`, the model's certificate
    for that ordering is valid. -/
theorem buildFolded_valid_of_check (g : UGraph) (frontiers : List (List ℕ))
    (h : layeredB g frontiers = true) : (buildFolded g frontiers).valid g = true :=
  buildFolded_valid_of_layeredB g frontiers h

/-- `layeredB` decides exactly the hypothesis of `buildFolded_valid`. -/
theorem layeredB_layered (g : UGraph) (frontiers : List (List ℕ))
    (h : layeredB g frontiers = true) : Layered g frontiers :=
  layeredB_sound h

/-- Hence folding with the modelled algorithm preserves the outputs, for every module semantics. -/
theorem buildFolded_sound {α : Type} (g : UGraph) (frontiers : List (List ℕ))
    (sem : ℕ → List α → α) (dflt : α) (htopo : g.Topo) (h : Layered g frontiers) :
    gatherOutputs (buildFolded g frontiers) (evalFolded (buildFolded g frontiers) sem dflt) dflt
      = g.outputs.map (fun o => (evalUnfolded g sem dflt).getD o dflt) :=
  fold_sound g _ sem dflt htopo (buildFolded_valid g frontiers h)

/-- Non-vacuity: the graph of the example above with its layer-wise ordering is `Layered`, and the
    model builds exactly the certificate used there. -/
example :
    let g : UGraph :=
      { n := 4
        ins := fun m => if m = 2 then [0, 1] else if m = 3 then [2] else []
        key := fun m => if m ≤ 1 then 0 else m
        outputs := [3] }
    Layered g [[0, 1], [2], [3]] ∧
      (buildFolded g [[0, 1], [2], [3]]).groups = [[0, 1], [2], [3]] ∧
      (buildFolded g [[0, 1], [2], [3]]).inIdx = [[[], []], [[(0, 0), (0, 1)]], [[(1, 0)]]] ∧
      layeredB g [[0, 1], [2], [3]] = true ∧
      (buildFolded g [[0, 1], [2], [3]]).outIdx = [(2, 0)] := by
  refine ⟨⟨by decide, ?_, ?_, by simp⟩, by decide, by decide, by decide, by decide⟩
  · intro k hk m hm i hi
    simp only [List.length_cons, List.length_nil] at hk
    interval_cases k
    · simp only [List.getD_cons_zero, List.mem_cons, List.not_mem_nil, or_false] at hm
      rcases hm with rfl | rfl <;> simp at hi
    · simp only [List.getD_cons_succ, List.getD_cons_zero, List.mem_singleton] at hm
      subst hm
      simpa using hi
    · simp only [List.getD_cons_succ, List.getD_cons_zero, List.mem_singleton] at hm
      subst hm
      simp at hi
      simp [hi]
  · intro m _ m' _ hkey
    dsimp only at hkey ⊢
    split_ifs at hkey ⊢ <;> first | rfl | (exfalso; omega)

/-- `build_address_book_stacked_entry` + `LayerAddressBook.lookup`: the gather returns, for each
    fold `f` and input `h`, the slice named by `inIdx[f][h] = (module, slice)`. -/
theorem stackedEntry_gather {α : Type} (inIdx : List (List (ℕ × ℕ))) (numFolds : ℕ → ℕ)
    (outs : ℕ → List α) (dflt : α)
    (hlen : ∀ m, (outs m).length = numFolds m) (hrng : ∀ p ∈ inIdx.flatten, p.2 < numFolds p.1) :
    lookupStacked outs (stackedEntry inIdx numFolds) dflt
      = inIdx.map (fun row => row.map fun p => (outs p.1).getD p.2 dflt) := by
  simp only [lookupStacked, stackedEntry, List.map_map]
  refine List.map_congr_left (fun row hrow => ?_)
  simp only [Function.comp_apply, List.map_map]
  refine List.map_congr_left (fun p hp => ?_)
  simp only [Function.comp_apply]
  have hpf : p ∈ inIdx.flatten := List.mem_flatten.mpr ⟨row, hrow, hp⟩
  exact getD_flatMap_cumOffset numFolds outs dflt hlen
    (mem_dedup.mpr (List.mem_map.mpr ⟨p, hpf, rfl⟩)) (hrng p hpf)

/-- `build_address_book_entry` (parameter graphs): the gather for operand `h` returns, for each
    fold, the slice named by column `h` of `inIdx`. -/
theorem operandEntry_gather {α : Type} (inIdx : List (List (ℕ × ℕ))) (numFolds : ℕ → ℕ)
    (outs : ℕ → List α) (dflt : α) (h : ℕ)
    (hlen : ∀ m, (outs m).length = numFolds m)
    (hrng : ∀ row ∈ inIdx, h < row.length ∧
      (row.getD h (0, 0)).2 < numFolds (row.getD h (0, 0)).1) :
    lookupOperand outs (operandEntry inIdx numFolds h) dflt
      = inIdx.map (fun row => (outs (row.getD h (0, 0)).1).getD (row.getD h (0, 0)).2 dflt) := by
  simp only [lookupOperand, operandEntry, List.map_map]
  refine List.map_congr_left (fun row hrow => ?_)
  simp only [Function.comp_apply]
  exact getD_flatMap_cumOffset numFolds outs dflt hlen
    (mem_dedup.mpr (List.mem_map.mpr ⟨row, hrow, rfl⟩))
    (hrng row hrow).2

/-- Short-cut (a) of `build_address_book_stacked_entry`: a `1 × F` index matrix equal to
    `arange(F)` over a concatenation of length `F` is `cat.unsqueeze(0)`. -/
theorem unsqueeze0_shortcut {α : Type} (cat : List α) (dflt : α) (F : ℕ) (hF : F = cat.length) :
    [(List.range F).map (cat.getD · dflt)] = [cat] := by
  subst hF
  congr 1
  refine List.ext_getElem (by simp) (fun i h1 h2 => ?_)
  simp only [List.getElem_map, List.getElem_range]
  exact List.getD_eq_getElem _ _ h2

/-- Short-cut (b): an `F × 1` index matrix equal to `arange(F)` is `cat.unsqueeze(1)`. -/
theorem unsqueeze1_shortcut {α : Type} (cat : List α) (dflt : α) (F : ℕ) (hF : F = cat.length) :
    (List.range F).map (fun i => [cat.getD i dflt]) = cat.map (fun a => [a]) := by
  subst hF
  refine List.ext_getElem (by simp) (fun i h1 h2 => ?_)
  simp only [List.length_map] at h2
  simp only [List.getElem_map, List.getElem_range]
  rw [List.getD_eq_getElem _ _ h2]

/-- SumCollapse: `(W1·W2)·x = W1·(W2·x)`. -/
theorem sum_collapse_eq {R : Type} [CommSemiring R] (ko k1 n : ℕ) (W1 W2 : ℕ → ℕ → R)
    (x : ℕ → R) (o : ℕ) :
    ∑ c ∈ Finset.range n, (∑ m ∈ Finset.range k1, W1 o m * W2 m c) * x c
      = ∑ m ∈ Finset.range k1, W1 o m * (∑ c ∈ Finset.range n, W2 m c * x c) := by
  have _ := ko
  simp only [Finset.sum_mul, Finset.mul_sum]
  rw [Finset.sum_comm]
  refine Finset.sum_congr rfl (fun m _ => Finset.sum_congr rfl (fun c _ => ?_))
  rw [mul_assoc]

/-- Tucker (arity 2): the einsum `W.view(k,k)[i,j] · a_i · b_j` is the dense sum over the
    Kronecker vector `(a ⊗ b)[c] = a[c / k] · b[c % k]`. -/
theorem tucker_eq {R : Type} [CommSemiring R] (k : ℕ) (W : ℕ → R) (a b : ℕ → R) :
    ∑ c ∈ Finset.range (k * k), W c * (a (c / k) * b (c % k))
      = ∑ i ∈ Finset.range k, ∑ j ∈ Finset.range k, W (i * k + j) * (a i * b j) := by
  rw [sum_range_mul]
  refine Finset.sum_congr rfl (fun i _ => Finset.sum_congr rfl (fun j hj => ?_))
  have hj' : j < k := Finset.mem_range.mp hj
  rw [div_of_lt_add hj', mod_of_lt_add hj']

/-- Tucker fusion for every arity `n`: the dense sum over the Kronecker vector (unit `c` of the
    Kronecker layer is the product of the mixed-radix digit units of its inputs, first input most
    significant) is the einsum over all index tuples, the core being read at the row-major flat
    index. -/
theorem tucker_eq_general {R : Type} [CommSemiring R] (k n : ℕ) (W : ℕ → R) (a : Fin n → ℕ → R) :
    ∑ c ∈ Finset.range (k ^ n), W c * ∏ j : Fin n, a j (digit k n j.val c)
      = ∑ f : Fin n → Fin k, W (Tpl.flatIdx k n f) * ∏ j : Fin n, a j (f j).val := by
  rw [Tpl.sum_range_pow_eq_sum_fun]
  refine Finset.sum_congr rfl (fun f _ => ?_)
  congr 1
  refine Finset.prod_congr rfl (fun j _ => ?_)
  rw [Tpl.digit_flatIdx]

/-- Kept from the first round, when only arity 2 was proved (`tucker_eq`); the statement for every
    arity is `tucker_eq_general` above.  Historical note:
    The general-arity Tucker statement is only proved for arity 2 (this is `tucker_eq`);
    arity > 2 follows by iterating the same row-major re-indexing (`sum_range_mul`) once per
    extra operand. -/
theorem tucker_eq_partial {R : Type} [CommSemiring R] (k : ℕ) (W : ℕ → R) (a b : ℕ → R) :
    ∑ c ∈ Finset.range (k * k), W c * (a (c / k) * b (c % k))
      = ∑ i ∈ Finset.range k, ∑ j ∈ Finset.range k, W (i * k + j) * (a i * b j) :=
  tucker_eq k W a b

/-- LogSoftmax: `log ∘ softmax = log_softmax`. -/
theorem logsoftmax_eq {ι : Type} (s : Finset ι) (x : ι → ℝ) (i : ι) (hi : i ∈ s) :
    Real.log (Real.exp (x i) / ∑ j ∈ s, Real.exp (x j))
      = x i - Real.log (∑ j ∈ s, Real.exp (x j)) := by
  have hpos : 0 < ∑ j ∈ s, Real.exp (x j) :=
    Finset.sum_pos (fun j _ => Real.exp_pos _) ⟨i, hi⟩
  rw [Real.log_div (Real.exp_pos _).ne' hpos.ne', Real.log_exp]

end Cirkit.C02
