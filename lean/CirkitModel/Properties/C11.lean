/-
  C11 — masked evaluation (`IntegrateQuery`) equals evaluating the integrated circuit.

  Theorems are about the model (`CirkitModel.Model.Node`): `Node.maskedEval` evaluates with the
  input layers of the masked variables replaced by their integrals, the mask being an argument of
  evaluation (`cirkit/backend/torch/queries.py`).  It agrees with evaluating the circuit returned
  by `integrate` over the masked variables (`maskedEval_eq_integ`, no structural hypotheses), hence
  for smooth and decomposable circuits it is the iterated integral of the denoted function
  (`maskedEval_correct`); the empty mask is plain evaluation (`maskedEval_empty`); only the mask
  restricted to the scope matters (`maskedEval_mask_congr`).
  Proofs: `CirkitModel.Proofs.Operators`.
-/
import CirkitModel.Proofs.Bridge
import CirkitModel.Proofs.Operators

open Finset

namespace Cirkit.C11
variable {R V : Type} [CommSemiring R]

/-- Masked evaluation is evaluation of the circuit integrated over the masked variables. -/
theorem maskedEval_eq_integ (n : Node R V) (S : ℕ → (V → R) → R) (zs : List ℕ) (x : ℕ → V)
    (i : ℕ) :
    n.maskedEval (Ops.ofCommSemiring R) S (fun v => decide (v ∈ zs)) x i
      = (n.integ S zs).eval (Ops.ofCommSemiring R) x i :=
  Node.maskedEval_eq_integ n S zs x i

/-- With nothing masked, masked evaluation is evaluation. -/
theorem maskedEval_empty (n : Node R V) (S : ℕ → (V → R) → R) (x : ℕ → V) (i : ℕ) :
    n.maskedEval (Ops.ofCommSemiring R) S (fun _ => false) x i
      = n.eval (Ops.ofCommSemiring R) x i :=
  Node.maskedEval_empty n S x i

/-- Masked evaluation of a smooth and decomposable circuit is the iterated integral of the denoted
    function over the masked variables. -/
theorem maskedEval_correct (n : Node R V) (S : ℕ → (V → R) → R) (hS : ∀ v, LinFun (S v))
    (zs : List ℕ) (hnd : zs.Nodup) (hz : ∀ z ∈ zs, Node.Mem z n) (hs : n.Smooth) (hd : n.Decomp)
    (x : ℕ → V) (i : ℕ) :
    n.maskedEval (Ops.ofCommSemiring R) S (fun v => decide (v ∈ zs)) x i
      = Node.sumOver S zs (fun y' => n.eval (Ops.ofCommSemiring R) y' i) x := by
  rw [Node.maskedEval_eq_integ, Node.integ_correct n S hS zs hnd hz hs hd x i]

/-- Only the mask restricted to the scope matters. -/
theorem maskedEval_mask_congr (n : Node R V) (S : ℕ → (V → R) → R) (m1 m2 : ℕ → Bool)
    (h : ∀ v, Node.Mem v n → m1 v = m2 v) (x : ℕ → V) (i : ℕ) :
    n.maskedEval (Ops.ofCommSemiring R) S m1 x i = n.maskedEval (Ops.ofCommSemiring R) S m2 x i :=
  Node.maskedEval_mask_congr n S m1 m2 h x i

end Cirkit.C11
