/-
  C14 — parameter operators compute their documented tensor function.

  Theorems are about the model (`CirkitModel.Model.PExpr`, `CirkitModel.Model.Tensor`):
  `PExpr.applyOp A op args` is the value of one parameter node (`cirkit/symbolic/parameters.py`,
  `cirkit/backend/torch/parameters/nodes.py`) on evaluated arguments, over an arbitrary operation
  record `A : AOps R` (no algebraic laws are used: the statements are about *which entries are
  combined*, i.e. the index arithmetic of the row-major layout).

  "In range" always refers to the 3-d view `(outer, len, inner) = Tensor.split3 shape ax` of the
  *output* shape around the axis: `o < outer`, `a < len`, `i < inner`.

  * `index_get`                      — `r[o, j, i] = t[o, idx[j], i]`
  * `outerProduct_get`, `outerSum_get` (+ `_pair` row-major corollaries)
                                     — `r[o, a1*n2 + a2, i] = a[o, a1, i] ⊙ b[o, a2, i]`
  * `reduceSum_get`, `reduceProd_get`— `r[n] = Σ/Π_a t[n / inner, a, n % inner]`
  * `kron_get` (rank 2)              — `r[i*m2 + k, j*n2 + l] = a[i, j] * b[k, l]`
  * `mixing_get`                     — `r[k, h*K + k'] = if k' = k then t[k, h] else 0`
  * `polyProduct_get`                — coefficient `n` of row `r1*k2 + r2` is the convolution
  * `polyDiff_get`, `polyDiff_get_le`— falling-factorial coefficients / the zero polynomial
  * `square_get`, `conj_get`, `sum_get`, `hadamard_get` — entrywise operators
  * `shape_sound`                    — evaluation returns a tensor of the symbolic shape
  * `eval_app`                       — a composite graph evaluates to the composition of its nodes
  * `softmax_rowsum`                 — algebraic core of softmax: rows sum to one (over a field)

  Note on `PExpr.eval`: its optional argument `pre` comes *before* the expression, so the theorems
  quantify over an arbitrary `pre` (the default is `id`).
  Proofs: `CirkitModel.Proofs.TensorLemmas`.
-/
import Mathlib.Algebra.BigOperators.Field
import CirkitModel.Proofs.TensorLemmas
import CirkitModel.Model.Num

open Finset

namespace Cirkit.C14
open Tensor PExpr
variable {R : Type}

/-! ### 1. index -/

theorem index_get (A : AOps R) (idx : List Nat) (ax : Nat) (t r : Tensor R)
    (h : applyOp A (.index idx ax) [t] = some r) (hax : ax < t.shape.length) :
    r.shape = t.shape.set ax idx.length ∧
    ∀ o j i, o < (split3 r.shape ax).1 → j < idx.length → i < (split3 r.shape ax).2.2 →
      r.get3 ax o j i A.zero = t.get3 ax o (idx.getD j 0) i A.zero := by
  rw [applyOp_index, if_pos hax] at h
  cases h
  refine ⟨rfl, fun o j i ho hj hi => ?_⟩
  rw [ofFn3_shape] at ho hi
  exact get3_ofFn3 _ _ _ (by simpa using hax) o j i ho (by rw [split3_set _ _ _ hax]; exact hj) hi _

/-! ### 2. outer product / outer sum -/

theorem outerProduct_get (A : AOps R) (ax : Nat) (a b r : Tensor R)
    (h : applyOp A (.outerProduct ax) [a, b] = some r)
    (hl : a.shape.length = b.shape.length) (hax : ax < a.shape.length) :
    r.shape = a.shape.set ax (a.shape[ax] * b.shape[ax]'(hl ▸ hax)) ∧
    ∀ o c i, o < (split3 r.shape ax).1 → c < a.shape[ax] * b.shape[ax]'(hl ▸ hax) →
      i < (split3 r.shape ax).2.2 →
      r.get3 ax o c i A.zero
        = A.mul (a.get3 ax o (c / b.shape.getD ax 1) i A.zero)
            (b.get3 ax o (c % b.shape.getD ax 1) i A.zero) := by
  rw [applyOp_outerProduct, if_pos ⟨hl, hax⟩] at h
  cases h
  have hbx : ax < b.shape.length := hl ▸ hax
  rw [getD_of_lt _ _ _ hax, getD_of_lt _ _ _ hbx]
  refine ⟨rfl, fun o c i ho hc hi => ?_⟩
  rw [ofFn3_shape] at ho hi
  exact get3_ofFn3 _ _ _ (by simpa using hax) o c i ho (by rw [split3_set _ _ _ hax]; exact hc) hi _

/-- row-major pair form: entry `a1 * n2 + a2` combines entries `a1` of `a` and `a2` of `b` -/
theorem outerProduct_get_pair (A : AOps R) (ax : Nat) (a b r : Tensor R)
    (h : applyOp A (.outerProduct ax) [a, b] = some r)
    (hl : a.shape.length = b.shape.length) (hax : ax < a.shape.length)
    (o a1 a2 i : Nat) (ho : o < (split3 r.shape ax).1) (h1 : a1 < a.shape[ax])
    (h2 : a2 < b.shape[ax]'(hl ▸ hax)) (hi : i < (split3 r.shape ax).2.2) :
    r.get3 ax o (a1 * b.shape[ax]'(hl ▸ hax) + a2) i A.zero
      = A.mul (a.get3 ax o a1 i A.zero) (b.get3 ax o a2 i A.zero) := by
  have hbx : ax < b.shape.length := hl ▸ hax
  rw [(outerProduct_get A ax a b r h hl hax).2 o _ i ho (pair_lt h1 h2) hi,
    getD_of_lt _ _ _ hbx, div_add_lt h2, mod_add_lt h2]

theorem outerSum_get (A : AOps R) (ax : Nat) (a b r : Tensor R)
    (h : applyOp A (.outerSum ax) [a, b] = some r)
    (hl : a.shape.length = b.shape.length) (hax : ax < a.shape.length) :
    r.shape = a.shape.set ax (a.shape[ax] * b.shape[ax]'(hl ▸ hax)) ∧
    ∀ o c i, o < (split3 r.shape ax).1 → c < a.shape[ax] * b.shape[ax]'(hl ▸ hax) →
      i < (split3 r.shape ax).2.2 →
      r.get3 ax o c i A.zero
        = A.add (a.get3 ax o (c / b.shape.getD ax 1) i A.zero)
            (b.get3 ax o (c % b.shape.getD ax 1) i A.zero) := by
  rw [applyOp_outerSum, if_pos ⟨hl, hax⟩] at h
  cases h
  have hbx : ax < b.shape.length := hl ▸ hax
  rw [getD_of_lt _ _ _ hax, getD_of_lt _ _ _ hbx]
  refine ⟨rfl, fun o c i ho hc hi => ?_⟩
  rw [ofFn3_shape] at ho hi
  exact get3_ofFn3 _ _ _ (by simpa using hax) o c i ho (by rw [split3_set _ _ _ hax]; exact hc) hi _

theorem outerSum_get_pair (A : AOps R) (ax : Nat) (a b r : Tensor R)
    (h : applyOp A (.outerSum ax) [a, b] = some r)
    (hl : a.shape.length = b.shape.length) (hax : ax < a.shape.length)
    (o a1 a2 i : Nat) (ho : o < (split3 r.shape ax).1) (h1 : a1 < a.shape[ax])
    (h2 : a2 < b.shape[ax]'(hl ▸ hax)) (hi : i < (split3 r.shape ax).2.2) :
    r.get3 ax o (a1 * b.shape[ax]'(hl ▸ hax) + a2) i A.zero
      = A.add (a.get3 ax o a1 i A.zero) (b.get3 ax o a2 i A.zero) := by
  have hbx : ax < b.shape.length := hl ▸ hax
  rw [(outerSum_get A ax a b r h hl hax).2 o _ i ho (pair_lt h1 h2) hi,
    getD_of_lt _ _ _ hbx, div_add_lt h2, mod_add_lt h2]

/-! ### 3. reductions along an axis -/

theorem reduceSum_get (A : AOps R) (ax : Nat) (t r : Tensor R)
    (h : applyOp A (.reduceSum ax) [t] = some r) :
    r.shape = t.shape.eraseIdx ax ∧
    ∀ n < shapeSize r.shape, r.data.getD n A.zero
      = A.toOps.sumN (split3 t.shape ax).2.1 (fun a =>
          t.get3 ax (n / (split3 t.shape ax).2.2) a (n % (split3 t.shape ax).2.2) A.zero) := by
  rw [applyOp_reduceSum] at h
  split at h
  · cases h
    refine ⟨rfl, fun n hn => ?_⟩
    simp only at hn
    simp [Array.getD, hn]
  · cases h

theorem reduceProd_get (A : AOps R) (ax : Nat) (t r : Tensor R)
    (h : applyOp A (.reduceProd ax) [t] = some r) :
    r.shape = t.shape.eraseIdx ax ∧
    ∀ n < shapeSize r.shape, r.data.getD n A.zero
      = A.toOps.prodN (split3 t.shape ax).2.1 (fun a =>
          t.get3 ax (n / (split3 t.shape ax).2.2) a (n % (split3 t.shape ax).2.2) A.zero) := by
  rw [applyOp_reduceProd] at h
  split at h
  · cases h
    refine ⟨rfl, fun n hn => ?_⟩
    simp only at hn
    simp [Array.getD, hn]
  · cases h

/-! ### 4. Kronecker product (rank 2) -/

theorem kron_get (A : AOps R) (a b r : Tensor R) (m1 n1 m2 n2 : Nat)
    (h : applyOp A .kronecker [a, b] = some r) (ha : a.shape = [m1, n1]) (hb : b.shape = [m2, n2]) :
    r.shape = [m1 * m2, n1 * n2] ∧
    ∀ i k j l, i < m1 → k < m2 → j < n1 → l < n2 →
      r.get2 (i * m2 + k) (j * n2 + l) A.zero
        = A.mul (a.get2 i j A.zero) (b.get2 k l A.zero) := by
  rw [applyOp_kronecker, if_pos (by rw [ha, hb]; rfl)] at h
  cases h
  simp only [ha, hb, List.zipWith_cons_cons, List.zipWith_nil_right]
  refine ⟨rfl, fun i k j l hi hk hj hl => ?_⟩
  rw [get2_ofFn _ _ _ _ _ _ (pair_lt hi hk) (pair_lt hj hl)]
  simp only [List.zipWith_cons_cons, List.zipWith_nil_right]
  rw [div_add_lt hk, div_add_lt hl, mod_add_lt hk, mod_add_lt hl,
    getD_pair a m1 n1 _ _ _ ha, getD_pair b m2 n2 _ _ _ hb]

/-! ### 5. mixing weights -/

theorem mixing_get (A : AOps R) (t r : Tensor R) (K H : Nat)
    (h : applyOp A .mixing [t] = some r) (ht : t.shape = [K, H]) :
    r.shape = [K, K * H] ∧
    ∀ k h k', k < K → h < H → k' < K →
      r.get2 k (h * K + k') A.zero = if k' = k then t.get2 k h A.zero else A.zero := by
  rw [applyOp_mixing A t K H ht] at h
  cases h
  refine ⟨rfl, fun k h k' hk hh hk' => ?_⟩
  rw [get2_ofFn _ _ _ _ _ _ hk (by rw [Nat.mul_comm K H]; exact pair_lt hh hk')]
  simp only [div_add_lt hk', mod_add_lt hk']

/-! ### 6. polynomial product -/

theorem polyProduct_get (A : AOps R) (a b r : Tensor R) (k1 d1 k2 d2 : Nat)
    (h : applyOp A .polyProduct [a, b] = some r)
    (ha : a.shape = [k1, d1]) (hb : b.shape = [k2, d2]) :
    r.shape = [k1 * k2, d1 + d2 - 1] ∧
    ∀ r1 r2 n, r1 < k1 → r2 < k2 → n < d1 + d2 - 1 →
      r.get2 (r1 * k2 + r2) n A.zero
        = A.toOps.sumN d1 (fun p =>
            if p ≤ n ∧ n - p < d2 then A.mul (a.get2 r1 p A.zero) (b.get2 r2 (n - p) A.zero)
            else A.zero) := by
  rw [applyOp_polyProduct A a b k1 d1 k2 d2 ha hb] at h
  cases h
  refine ⟨rfl, fun r1 r2 n h1 h2 hn => ?_⟩
  rw [get2_ofFn _ _ _ _ _ _ (pair_lt h1 h2) hn]
  simp only [div_add_lt h2, mod_add_lt h2]

/-! ### 7. polynomial differentiation -/

theorem polyDiff_get (A : AOps R) (t r : Tensor R) (ord k d : Nat)
    (h : applyOp A (.polyDiff ord) [t] = some r) (ht : t.shape = [k, d]) (hd : d > ord) :
    r.shape = [k, d - ord] ∧
    ∀ r0 n, r0 < k → n < d - ord →
      r.get2 r0 n A.zero
        = A.mul (PExpr.fallR A (n + ord) ord) (t.get2 r0 (n + ord) A.zero) := by
  rw [applyOp_polyDiff_gt A t ord k d ht hd] at h
  cases h
  refine ⟨rfl, fun r0 n h0 hn => ?_⟩
  rw [get2_ofFn _ _ _ _ _ _ h0 hn]

/-- differentiating more often than the degree gives the zero polynomial (one coefficient) -/
theorem polyDiff_get_le (A : AOps R) (t r : Tensor R) (ord k d : Nat)
    (h : applyOp A (.polyDiff ord) [t] = some r) (ht : t.shape = [k, d]) (hd : d ≤ ord) :
    r.shape = [k, 1] ∧ (∀ n, r.data.getD n A.zero = A.zero) ∧
      ∀ r0 n, r.get2 r0 n A.zero = A.zero := by
  rw [applyOp_polyDiff_le A t ord k d ht hd] at h
  cases h
  have hall : ∀ n, (ofFn [k, 1] fun _ => A.zero).data.getD n A.zero = A.zero := by
    intro n
    by_cases hn : n < shapeSize [k, 1]
    · rw [ofFn_data_getD _ _ _ _ hn]
    · simp [Array.getD, hn]
  exact ⟨rfl, hall, fun r0 n => hall _⟩

/-! ### 8. entrywise operators -/

theorem square_get (A : AOps R) (t r : Tensor R) (h : applyOp A .square [t] = some r) :
    r.shape = t.shape ∧ ∀ n < t.data.size,
      r.data.getD n A.zero = A.mul (t.data.getD n A.zero) (t.data.getD n A.zero) := by
  rw [applyOp_square] at h
  cases h
  exact ⟨rfl, fun n hn => map_getD _ _ _ _ hn⟩

theorem conj_get (A : AOps R) (t r : Tensor R) (h : applyOp A .conj [t] = some r) :
    r.shape = t.shape ∧ ∀ n < t.data.size,
      r.data.getD n A.zero = A.conj (t.data.getD n A.zero) := by
  rw [applyOp_conj] at h
  cases h
  exact ⟨rfl, fun n hn => map_getD _ _ _ _ hn⟩

theorem sum_get (A : AOps R) (a b r : Tensor R) (h : applyOp A .sum [a, b] = some r) :
    a.shape = b.shape ∧ r.shape = a.shape ∧ ∀ n, n < a.data.size → n < b.data.size →
      r.data.getD n A.zero = A.add (a.data.getD n A.zero) (b.data.getD n A.zero) := by
  rw [applyOp_sum] at h
  split at h
  · cases h
    exact ⟨‹_›, rfl, fun n ha hb => zipWith_getD _ _ _ _ _ ha hb⟩
  · cases h

theorem hadamard_get (A : AOps R) (a b r : Tensor R) (h : applyOp A .hadamard [a, b] = some r) :
    a.shape = b.shape ∧ r.shape = a.shape ∧ ∀ n, n < a.data.size → n < b.data.size →
      r.data.getD n A.zero = A.mul (a.data.getD n A.zero) (b.data.getD n A.zero) := by
  rw [applyOp_hadamard] at h
  split at h
  · cases h
    exact ⟨‹_›, rfl, fun n ha hb => zipWith_getD _ _ _ _ _ ha hb⟩
  · cases h

/-- for well-formed arguments (`Tensor.ok`) every entry of the output is the sum of the entries -/
theorem sum_get_ok (A : AOps R) (a b r : Tensor R) (h : applyOp A .sum [a, b] = some r)
    (ha : a.ok = true) (hb : b.ok = true) :
    r.shape = a.shape ∧ ∀ n < shapeSize r.shape,
      r.data.getD n A.zero = A.add (a.data.getD n A.zero) (b.data.getD n A.zero) := by
  obtain ⟨hs, hr, hget⟩ := sum_get A a b r h
  refine ⟨hr, fun n hn => hget n ?_ ?_⟩
  · rw [size_of_ok a ha, ← hr]; exact hn
  · rw [size_of_ok b hb, ← hs, ← hr]; exact hn

theorem hadamard_get_ok (A : AOps R) (a b r : Tensor R) (h : applyOp A .hadamard [a, b] = some r)
    (ha : a.ok = true) (hb : b.ok = true) :
    r.shape = a.shape ∧ ∀ n < shapeSize r.shape,
      r.data.getD n A.zero = A.mul (a.data.getD n A.zero) (b.data.getD n A.zero) := by
  obtain ⟨hs, hr, hget⟩ := hadamard_get A a b r h
  refine ⟨hr, fun n hn => hget n ?_ ?_⟩
  · rw [size_of_ok a ha, ← hr]; exact hn
  · rw [size_of_ok b hb, ← hs, ← hr]; exact hn

/-! ### 9. evaluation returns tensors of the symbolic shape -/

/-- One node: the result shape is the shape rule applied to the argument shapes. -/
theorem applyOp_shape (A : AOps R) (op : POp) (args : List (Tensor R)) (r : Tensor R)
    (h : applyOp A op args = some r) : op.shape (args.map (·.shape)) = some r.shape :=
  Cirkit.applyOp_shape A op args r h

/-- Whole graphs: if evaluation succeeds, the symbolic shape is defined and is the shape of the
    value (for every `pre`, in particular the default `id`). -/
theorem shape_sound (A : AOps R) (θ : Nat → Option (Array R)) (pre : R → R) (e : PExpr R)
    (t : Tensor R) (h : PExpr.eval A θ pre e = .ok t) : e.shape = some t.shape :=
  shape_sound_aux A θ pre e t h

theorem shape_sound_id (A : AOps R) (θ : Nat → Option (Array R)) (e : PExpr R)
    (t : Tensor R) (h : PExpr.eval A θ id e = .ok t) : e.shape = some t.shape :=
  shape_sound A θ id e t h

/-! ### 10. composite graphs evaluate to the composition of their nodes -/

theorem eval_app (A : AOps R) (θ : Nat → Option (Array R)) (pre : R → R) (op : POp)
    (args : List (PExpr R)) :
    PExpr.eval A θ pre (.app op args)
      = (do let vs ← PExpr.eval.evalList A θ pre args
            match applyOp A op vs with
            | some t => .ok t
            | none => .error s!"unsupported {repr op}") := by
  rw [PExpr.eval]
  rfl

theorem evalList_nil (A : AOps R) (θ : Nat → Option (Array R)) (pre : R → R) :
    PExpr.eval.evalList A θ pre [] = .ok [] := by
  rw [PExpr.eval.evalList]

theorem evalList_cons (A : AOps R) (θ : Nat → Option (Array R)) (pre : R → R) (e : PExpr R)
    (es : List (PExpr R)) :
    PExpr.eval.evalList A θ pre (e :: es)
      = (do let v ← PExpr.eval A θ pre e
            let vs ← PExpr.eval.evalList A θ pre es
            .ok (v :: vs)) := by
  rw [PExpr.eval.evalList]

/-! ### 11. softmax rows sum to one -/

theorem softmax_rowsum {F : Type} [Field F] (len : ℕ) (e : ℕ → F)
    (h : ∑ a ∈ range len, e a ≠ 0) :
    ∑ a ∈ range len, e a / (∑ b ∈ range len, e b) = 1 := by
  rw [← Finset.sum_div, div_self h]

/-! ### non-vacuity: the operators do return values, with the entries the theorems describe -/

example :
    (applyOp ratA (.index [2, 0] 1) [⟨[2, 3], #[1, 2, 3, 4, 5, 6]⟩]).map
        (fun t => (t.shape, t.data.toList))
      = some ([2, 2], [3, 1, 6, 4]) := by decide

example :
    (applyOp ratA .kronecker [⟨[1, 2], #[1, 2]⟩, ⟨[2, 1], #[3, 4]⟩]).map
        (fun t => (t.shape, t.data.toList))
      = some ([2, 2], [3, 6, 4, 8]) := by decide +kernel

example :
    (applyOp ratA .mixing [⟨[2, 2], #[1, 2, 3, 4]⟩]).map (fun t => (t.shape, t.data.toList))
      = some ([2, 4], [1, 0, 2, 0, 0, 3, 0, 4]) := by decide

example :
    (applyOp ratA .polyProduct [⟨[1, 2], #[1, 1]⟩, ⟨[1, 2], #[1, 2]⟩]).map
        (fun t => (t.shape, t.data.toList))
      = some ([1, 3], [1, 3, 2]) := by decide +kernel

end Cirkit.C14
