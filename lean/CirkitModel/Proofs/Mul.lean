/-
  CirkitModel.Proofs.Mul — lemmas behind C04 (`multiply` is the pointwise product).

  `Node.MulRel` is the relation computed by `Node.mul` with the bookkeeping removed (`allOk`,
  `atRank`, the scope tests); `mul_rel` shows that every successful run of `Node.mul` is a
  derivation of `MulRel`, and the three properties (units, well-formedness, pointwise product) are
  inductions on that derivation.
-/
import Mathlib.Algebra.BigOperators.Ring.Finset
import Mathlib.Algebra.BigOperators.Fin
import Mathlib.Data.List.Lex
import Mathlib.Data.Prod.Lex
import Mathlib.Data.Fintype.Card
import Mathlib.Data.Fintype.EquivFin
import Mathlib.Tactic.Ring
import CirkitModel.Model.Mul
import CirkitModel.Proofs.Bridge
import CirkitModel.Proofs.Index
import CirkitModel.Proofs.Operators
import CirkitModel.Proofs.EvalV

open Finset

namespace Cirkit
namespace Node
variable {R V : Type}

/-! ### `allOk` -/

theorem mapM_id_ok {E α : Type} (l : List (Except E α)) (cs : List α)
    (h : l.mapM id = .ok cs) : l = cs.map .ok := by
  induction l generalizing cs with
  | nil =>
    simp only [List.mapM_nil] at h
    cases h; rfl
  | cons a l ih =>
    rw [List.mapM_cons] at h
    cases a with
    | error e => cases h
    | ok b =>
      cases hl : l.mapM id with
      | error e => rw [hl] at h; cases h
      | ok bs =>
        rw [hl] at h
        cases h
        rw [ih bs hl]; rfl

theorem allOk_ok {E α : Type} {n : ℕ} (f : Fin n → Except E α) (cs : List α) (dflt : α)
    (h : allOk f = .ok cs) : ∀ g : Fin n, f g = .ok (cs.getD g.val dflt) := by
  have e := mapM_id_ok _ _ h
  have hlen : cs.length = n := by
    have := congrArg List.length e
    simpa using this.symm
  intro g
  have := congrArg (fun l => l[g.val]?) e
  simp only [List.getElem?_ofFn, List.getElem?_map] at this
  rw [dif_pos g.isLt] at this
  rw [List.getD_eq_getElem?_getD, List.getElem?_eq_getElem (by omega)]
  rw [List.getElem?_eq_getElem (by omega)] at this
  simpa using this

theorem ok_allOk {E α : Type} {n : ℕ} (f : Fin n → Except E α) (c : Fin n → α)
    (h : ∀ g, f g = .ok (c g)) : allOk f = .ok (List.ofFn c) := by
  have : f = fun g => .ok (c g) := funext h
  subst this
  unfold allOk
  have : ∀ l : List α, (l.map (Except.ok (ε := E))).mapM id = .ok l := by
    intro l
    induction l with
    | nil => rfl
    | cons a l ih => rw [List.map_cons, List.mapM_cons, ih]; rfl
  rw [← this (List.ofFn c), List.map_ofFn]; rfl

/-! ### `rankOf` / `atRank` : sorting by the canonical scope order is a permutation -/

theorem scope_lexLt_iff (a b : Scope) : Scope.lexLt a b = true ↔ (a : List ℕ) < b := by
  induction a generalizing b with
  | nil =>
    cases b with
    | nil => simp [Scope.lexLt]
    | cons b bs => simp [Scope.lexLt]
  | cons a as ih =>
    cases b with
    | nil => simp [Scope.lexLt]
    | cons b bs =>
      have e : Scope.lexLt (a :: as) (b :: bs)
          = if a < b then true else if b < a then false else Scope.lexLt as bs := by
        rw [Scope.lexLt]
      rw [List.cons_lt_cons_iff, ← ih, e]
      by_cases h1 : a < b
      · simp [h1]
      · by_cases h2 : b < a
        · have : a ≠ b := by omega
          simp [h1, h2, this]
        · have : a = b := by omega
          subst this
          simp

/-- the sort key as an element of a linear order -/
def rkey {ar : ℕ} (key : Fin ar → Scope) (h : Fin ar) : List ℕ ×ₗ ℕ := toLex (key h, h.val)

theorem rkey_inj {ar : ℕ} (key : Fin ar → Scope) : Function.Injective (rkey key) := by
  intro g h e
  have := congrArg (fun z => (ofLex z).2) e
  exact Fin.ext this

theorem rank_pred_iff {ar : ℕ} (key : Fin ar → Scope) (g h : Fin ar) :
    (Scope.lexLt (key g) (key h) || (!Scope.lexLt (key h) (key g) && decide (g.val < h.val))) = true
      ↔ rkey key g < rkey key h := by
  unfold rkey
  rw [Prod.Lex.toLex_lt_toLex]
  simp only [Bool.or_eq_true, Bool.and_eq_true, Bool.not_eq_true', decide_eq_true_eq]
  rw [← Bool.not_eq_true, scope_lexLt_iff, scope_lexLt_iff, not_lt]
  constructor
  · rintro (h1 | ⟨h1, h2⟩)
    · exact Or.inl h1
    · rcases lt_or_eq_of_le h1 with h3 | h3
      · exact Or.inl h3
      · exact Or.inr ⟨h3, h2⟩
  · rintro (h1 | ⟨h1, h2⟩)
    · exact Or.inl h1
    · exact Or.inr ⟨le_of_eq h1, h2⟩

theorem rankOf_eq_card {ar : ℕ} (key : Fin ar → Scope) (h : Fin ar) :
    rankOf key h = (univ.filter fun g => rkey key g < rkey key h).card := by
  unfold rankOf
  have : (fun g : Fin ar => (Scope.lexLt (key g) (key h)
      || (!Scope.lexLt (key h) (key g) && decide (g.val < h.val))))
      = fun g => decide (rkey key g < rkey key h) := by
    funext g
    rw [Bool.eq_iff_iff, rank_pred_iff]; simp
  rw [this]
  rfl

theorem rankOf_lt {ar : ℕ} (key : Fin ar → Scope) (h : Fin ar) : rankOf key h < ar := by
  rw [rankOf_eq_card]
  have hs : (univ.filter fun g => rkey key g < rkey key h) ⊆ univ.erase h := by
    intro g hg
    rw [mem_filter] at hg
    rw [mem_erase]
    refine ⟨fun e => ?_, mem_univ _⟩
    rw [e] at hg
    exact lt_irrefl _ hg.2
  have := card_le_card hs
  rw [card_erase_of_mem (mem_univ h), card_univ, Fintype.card_fin] at this
  have : 0 < ar := Fin.pos h
  omega

theorem rankOf_lt_of_lt {ar : ℕ} (key : Fin ar → Scope) (g h : Fin ar)
    (hlt : rkey key g < rkey key h) : rankOf key g < rankOf key h := by
  rw [rankOf_eq_card, rankOf_eq_card]
  apply card_lt_card
  rw [ssubset_iff_of_subset]
  · refine ⟨g, ?_, ?_⟩
    · rw [mem_filter]; exact ⟨mem_univ _, hlt⟩
    · rw [mem_filter]; exact fun hh => lt_irrefl _ hh.2
  · intro x hx
    rw [mem_filter] at hx ⊢
    exact ⟨mem_univ _, lt_trans hx.2 hlt⟩

theorem rankOf_inj {ar : ℕ} (key : Fin ar → Scope) : Function.Injective (rankOf key) := by
  intro g h e
  by_contra hne
  rcases lt_or_gt_of_ne ((rkey_inj key).ne hne) with hlt | hlt
  · have := rankOf_lt_of_lt key g h hlt; omega
  · have := rankOf_lt_of_lt key h g hlt; omega

/-- the permutation `atRank` is a bijection -/
theorem atRank_bij {ar : ℕ} (key : Fin ar → Scope) :
    ∃ τ : Fin ar → Fin ar, Function.Bijective τ ∧ ∀ p : Fin ar, atRank key p.val = some (τ p) := by
  let ρ : Fin ar → Fin ar := fun h => ⟨rankOf key h, rankOf_lt key h⟩
  have hρ : Function.Injective ρ := fun g h e => rankOf_inj key (congrArg Fin.val e)
  have hsurj : Function.Surjective ρ := Finite.surjective_of_injective hρ
  have hex : ∀ p : Fin ar, ∃ h, atRank key p.val = some h ∧ rankOf key h = p.val := by
    intro p
    obtain ⟨h0, hh0⟩ := hsurj p
    have h0' : rankOf key h0 = p.val := congrArg Fin.val hh0
    cases hf : atRank key p.val with
    | none =>
      unfold atRank at hf
      rw [List.find?_eq_none] at hf
      exact absurd (by simpa using h0') (hf h0 (List.mem_finRange h0))
    | some h =>
      refine ⟨h, rfl, ?_⟩
      unfold atRank at hf
      have := List.find?_some hf
      simpa using this
  choose τ hτ1 hτ2 using hex
  refine ⟨τ, ?_, hτ1⟩
  have hinj : Function.Injective τ := by
    intro p q e
    apply Fin.ext
    rw [← hτ2 p, ← hτ2 q, e]
  exact ⟨hinj, Finite.surjective_of_injective hinj⟩

/-! ### mixed-radix digits: `kronPermIdx` -/

/-- mixed-radix number with digits `d 0 … d (n-1)` (most significant first) in base `K` -/
def mixFold (K : ℕ) (d : ℕ → ℕ) (n : ℕ) : ℕ :=
  (List.range n).foldl (fun acc h => acc * K + d h) 0

theorem mixFold_succ (K : ℕ) (d : ℕ → ℕ) (n : ℕ) :
    mixFold K d (n + 1) = mixFold K d n * K + d n := by
  unfold mixFold
  rw [List.range_succ, List.foldl_append]
  rfl

theorem mixFold_lt (K : ℕ) (d : ℕ → ℕ) (n : ℕ) (hd : ∀ h, h < n → d h < K) :
    mixFold K d n < K ^ n := by
  induction n with
  | zero => simp [mixFold]
  | succ n ih =>
    rw [mixFold_succ, pow_succ]
    have h1 := ih (fun h hh => hd h (by omega))
    have h2 := hd n (by omega)
    calc mixFold K d n * K + d n < mixFold K d n * K + K := by omega
      _ = (mixFold K d n + 1) * K := by ring
      _ ≤ K ^ n * K := Nat.mul_le_mul_right K h1

theorem mixFold_digit (K : ℕ) (d : ℕ → ℕ) (n : ℕ) (hd : ∀ h, h < n → d h < K) (g : ℕ)
    (hg : g < n) : digit K n g (mixFold K d n) = d g := by
  unfold digit
  induction n with
  | zero => omega
  | succ n ih =>
    have h2 := hd n (by omega)
    rw [mixFold_succ]
    rcases Nat.lt_succ_iff_lt_or_eq.mp hg with hlt | heq
    · have e : n + 1 - 1 - g = (n - 1 - g) + 1 := by omega
      rw [e, pow_succ, Nat.mul_comm (K ^ (n - 1 - g)) K, ← Nat.div_div_eq_div_mul,
        div_of_lt_add h2]
      exact ih (fun h hh => hd h (by omega)) hlt
    · subst heq
      have e : g + 1 - 1 - g = 0 := by omega
      rw [e, pow_zero, Nat.div_one, mod_of_lt_add h2]

theorem kronPermIdx_eq (k1 k2 ar I : ℕ) :
    kronPermIdx k1 k2 ar I
      = mixFold (k1 * k2)
          (fun h => digit k1 ar h (I / k2 ^ ar) * k2 + digit k2 ar h (I % k2 ^ ar)) ar := rfl

theorem pair_lt {a b k1 k2 : ℕ} (ha : a < k1) (hb : b < k2) : a * k2 + b < k1 * k2 :=
  calc a * k2 + b < a * k2 + k2 := by omega
    _ = (a + 1) * k2 := by ring
    _ ≤ k1 * k2 := Nat.mul_le_mul_right k2 ha

theorem pos_of_lt_pow {i k ar g : ℕ} (hi : i < k ^ ar) (hg : g < ar) : 0 < k := by
  rcases Nat.eq_zero_or_pos k with hk | hk
  · subst hk
    rw [zero_pow (by omega)] at hi
    omega
  · exact hk

theorem kronPermIdx_lt (k1 k2 ar i j : ℕ) (hi : i < k1 ^ ar) (hj : j < k2 ^ ar) :
    kronPermIdx k1 k2 ar (i * k2 ^ ar + j) < (k1 * k2) ^ ar := by
  rw [kronPermIdx_eq]
  apply mixFold_lt
  intro h hh
  exact pair_lt (digit_lt _ _ _ _ (pos_of_lt_pow hi hh)) (digit_lt _ _ _ _ (pos_of_lt_pow hj hh))

theorem kronPermIdx_digit (k1 k2 ar i j : ℕ) (hi : i < k1 ^ ar) (hj : j < k2 ^ ar) (g : ℕ)
    (hg : g < ar) :
    digit (k1 * k2) ar g (kronPermIdx k1 k2 ar (i * k2 ^ ar + j))
      = digit k1 ar g i * k2 + digit k2 ar g j := by
  rw [kronPermIdx_eq, mixFold_digit _ _ _ _ g hg, div_of_lt_add hj, mod_of_lt_add hj]
  intro h hh
  exact pair_lt (digit_lt _ _ _ _ (pos_of_lt_pow hi hh)) (digit_lt _ _ _ _ (pos_of_lt_pow hj hh))

theorem digit_two_zero {k i j : ℕ} (hi : i < k) (hj : j < k) : digit k 2 0 (i * k + j) = i := by
  unfold digit
  rw [show 2 - 1 - 0 = 1 from rfl, pow_one, div_of_lt_add hj, Nat.mod_eq_of_lt hi]

theorem digit_two_one {k i j : ℕ} (hj : j < k) : digit k 2 1 (i * k + j) = j := by
  unfold digit
  rw [show 2 - 1 - 1 = 0 from rfl, pow_zero, Nat.div_one, mod_of_lt_add hj]

/-! ### the relation computed by `Node.mul` -/

/-- The relation computed by `Node.mul`, with the bookkeeping (`allOk`, `atRank`, scope tests) removed. -/
inductive MulRel (o : Ops R) : Node R V → Node R V → Node R V → Prop
  | disj (n1 n2 : Node R V) (hu : n1.units = n2.units) :
      MulRel o n1 n2 (.kron 2 n1.units (fun h => if h.val = 0 then n1 else n2))
  | leaf (v k1 k2 : ℕ) (f1 f2 : ℕ → V → R) :
      MulRel o (.leaf v k1 f1) (.leaf v k2 f2)
        (.leaf v (k1 * k2) (fun i a => o.mul (f1 (i / k2) a) (f2 (i % k2) a)))
  | sum (ar1 kin1 ko1 : ℕ) (W1 : ℕ → ℕ → R) (ch1 : Fin ar1 → Node R V)
      (ar2 kin2 ko2 : ℕ) (W2 : ℕ → ℕ → R) (ch2 : Fin ar2 → Node R V)
      (cs : Fin (ar1 * ar2) → Node R V)
      (hcs : ∀ h : Fin (ar1 * ar2),
        MulRel o (ch1 ⟨h.val / ar2, div_lt_of_lt_mul' h.isLt⟩)
          (ch2 ⟨h.val % ar2, mod_lt_of_lt_mul' h.isLt⟩) (cs h)) :
      MulRel o (.sum ar1 kin1 ko1 W1 ch1) (.sum ar2 kin2 ko2 W2 ch2)
        (.sum (ar1 * ar2) (kin1 * kin2) (ko1 * ko2)
          (fun i c =>
            o.mul (W1 (i / ko2) ((c / (kin1 * kin2) / ar2) * kin1 + c % (kin1 * kin2) / kin2))
              (W2 (i % ko2) ((c / (kin1 * kin2) % ar2) * kin2 + c % (kin1 * kin2) % kin2)))
          cs)
  | had (ar k1 k2 : ℕ) (ch1 ch2 : Fin ar → Node R V) (τ1 τ2 : Fin ar → Fin ar)
      (hτ1 : Function.Bijective τ1) (hτ2 : Function.Bijective τ2)
      (cs : Fin ar → Node R V) (hcs : ∀ p, MulRel o (ch1 (τ1 p)) (ch2 (τ2 p)) (cs p)) :
      MulRel o (.had ar k1 ch1) (.had ar k2 ch2) (.had ar (k1 * k2) cs)
  | kron (ar k1 k2 : ℕ) (ch1 ch2 : Fin ar → Node R V)
      (cs : Fin ar → Node R V) (hcs : ∀ g, MulRel o (ch1 g) (ch2 g) (cs g)) :
      MulRel o (.kron ar k1 ch1) (.kron ar k2 ch2)
        (.sum 1 ((k1 * k2) ^ ar) ((k1 * k2) ^ ar)
          (fun i c => if c = kronPermIdx k1 k2 ar i then o.one else o.zero)
          (fun _ => .kron ar (k1 * k2) cs))

theorem bind_ok_inv {E α β : Type} (x : Except E α) (f : α → Except E β) (b : β)
    (h : x >>= f = .ok b) : ∃ a, x = .ok a ∧ f a = .ok b := by
  cases x with
  | error e => cases h
  | ok a => exact ⟨a, rfl, h⟩

theorem mulDisjoint_rel (o : Ops R) (n1 n2 p : Node R V) (r : Except MulErr (Node R V))
    (hmd : mulDisjoint n1 n2 = some r) (h : r = .ok p) : MulRel o n1 n2 p := by
  unfold mulDisjoint at hmd
  split at hmd
  · cases hmd
    split at h
    · rename_i hu
      cases h
      exact .disj n1 n2 hu
    · cases h
  · cases hmd

theorem mul_rel (o : Ops R) (n1 n2 p : Node R V) (h : Node.mul o n1 n2 = .ok p) :
    MulRel o n1 n2 p := by
  induction n1 generalizing n2 p with
  | leaf v1 k1 f1 =>
    cases hmd : mulDisjoint (.leaf v1 k1 f1) n2 with
    | some r =>
      cases n2 <;> simp only [Node.mul, hmd] at h <;> exact mulDisjoint_rel o _ _ _ _ hmd h
    | none =>
      cases n2 <;> simp only [Node.mul, hmd] at h <;> try cases h
      split at h
      · rename_i hv
        subst hv; cases h
        exact .leaf ..
      · cases h
  | const k c =>
    cases hmd : mulDisjoint (.const k c) n2 with
    | some r =>
      simp only [Node.mul, hmd] at h; exact mulDisjoint_rel o _ _ _ _ hmd h
    | none =>
      simp only [Node.mul, hmd] at h; cases h
  | sum ar1 kin1 ko1 W1 ch1 ih =>
    cases hmd : mulDisjoint (.sum ar1 kin1 ko1 W1 ch1) n2 with
    | some r =>
      cases n2 <;> simp only [Node.mul, hmd] at h <;> exact mulDisjoint_rel o _ _ _ _ hmd h
    | none =>
      cases n2 <;> simp only [Node.mul, hmd] at h <;> try cases h
      rename_i ar2 kin2 ko2 W2 ch2
      obtain ⟨cs, hcs, hp⟩ := bind_ok_inv _ _ _ h
      cases hp
      have hc := allOk_ok _ cs (const 0 fun _ => o.zero) hcs
      exact .sum _ _ _ _ _ _ _ _ _ _ _ (fun g => ih _ _ _ (hc g))
  | had ar1 k1 ch1 ih =>
    cases hmd : mulDisjoint (.had ar1 k1 ch1) n2 with
    | some r =>
      cases n2 <;> simp only [Node.mul, hmd] at h <;> exact mulDisjoint_rel o _ _ _ _ hmd h
    | none =>
      cases n2 <;> simp only [Node.mul, hmd] at h <;> try cases h
      rename_i ar2 k2 ch2
      split at h
      · rename_i har
        subst har
        obtain ⟨cs, hcs, hp⟩ := bind_ok_inv _ _ _ h
        cases hp
        have hc := allOk_ok _ cs (const 0 fun _ => o.zero) hcs
        obtain ⟨τ1, hb1, ht1⟩ := atRank_bij (fun h => (ch1 h).scopeL)
        obtain ⟨τ2, hb2, ht2⟩ := atRank_bij (fun h => (ch2 h).scopeL)
        refine .had _ _ _ _ _ τ1 τ2 hb1 hb2 _ (fun g => ih _ _ _ ?_)
        have := hc g
        simp only [ht1 g, ht2 g] at this
        exact this
      · cases h
  | kron ar1 k1 ch1 ih =>
    cases hmd : mulDisjoint (.kron ar1 k1 ch1) n2 with
    | some r =>
      cases n2 <;> simp only [Node.mul, hmd] at h <;> exact mulDisjoint_rel o _ _ _ _ hmd h
    | none =>
      cases n2 <;> simp only [Node.mul, hmd] at h <;> try cases h
      rename_i ar2 k2 ch2
      split at h
      · rename_i har
        subst har
        split at h
        · obtain ⟨cs, hcs, hp⟩ := bind_ok_inv _ _ _ h
          cases hp
          have hc := allOk_ok _ cs (const 0 fun _ => o.zero) hcs
          exact .kron _ _ _ _ _ _ (fun g => ih _ _ _ (hc g))
        · cases h
      · cases h


/-! ### properties -/

theorem MulRel.units_eq {o : Ops R} {n1 n2 p : Node R V} (h : MulRel o n1 n2 p) :
    p.units = n1.units * n2.units := by
  cases h with
  | disj n1 n2 hu => show n1.units ^ 2 = n1.units * n2.units; rw [← hu, pow_two]
  | leaf => rfl
  | sum => rfl
  | had => rfl
  | kron ar k1 k2 => simp only [units]; exact Nat.mul_pow k1 k2 ar

theorem MulRel.wf {o : Ops R} {n1 n2 p : Node R V} (h : MulRel o n1 n2 p)
    (h1 : n1.WF) (h2 : n2.WF) : p.WF := by
  induction h with
  | disj n1 n2 hu =>
    intro g
    by_cases hg : g.val = 0
    · simp only [hg, if_true]; exact ⟨h1, trivial⟩
    · simp only [hg, if_false]; exact ⟨h2, hu.symm⟩
  | leaf => trivial
  | sum ar1 kin1 ko1 W1 ch1 ar2 kin2 ko2 W2 ch2 cs hcs ih =>
    intro g
    refine ⟨ih g (h1 _).1 (h2 _).1, ?_⟩
    rw [(hcs g).units_eq, (h1 _).2, (h2 _).2]
  | had ar k1 k2 ch1 ch2 τ1 τ2 hτ1 hτ2 cs hcs ih =>
    intro g
    refine ⟨ih g (h1 _).1 (h2 _).1, ?_⟩
    rw [(hcs g).units_eq, (h1 _).2, (h2 _).2]
  | kron ar k1 k2 ch1 ch2 cs hcs ih =>
    intro _
    refine ⟨fun g => ⟨ih g (h1 _).1 (h2 _).1, ?_⟩, rfl⟩
    rw [(hcs g).units_eq, (h1 _).2, (h2 _).2]

section Correct
variable [CommSemiring R]

theorem MulRel.correct {n1 n2 p : Node R V} (h : MulRel (Ops.ofCommSemiring R) n1 n2 p)
    (h1 : n1.WF) (h2 : n2.WF) (x : ℕ → V) (i j : ℕ) (hi : i < n1.units) (hj : j < n2.units) :
    p.eval (Ops.ofCommSemiring R) x (i * n2.units + j)
      = n1.eval (Ops.ofCommSemiring R) x i * n2.eval (Ops.ofCommSemiring R) x j := by
  induction h generalizing i j with
  | disj n1 n2 hu =>
    rw [eval_kron', Fin.prod_univ_two]
    rw [← hu] at hj ⊢
    simp only [Fin.val_zero, Fin.val_one, if_true, one_ne_zero, if_false]
    rw [digit_two_zero hi hj, digit_two_one hj]
  | leaf v k1 k2 f1 f2 =>
    simp only [units] at hi hj ⊢
    simp only [eval, ofCS_mul]
    rw [div_of_lt_add hj, mod_of_lt_add hj]
  | sum ar1 kin1 ko1 W1 ch1 ar2 kin2 ko2 W2 ch2 cs hcs ih =>
    simp only [units] at hi hj ⊢
    -- the operands' inputs as functions of natural-number indices
    let e1 : ℕ → ℕ → R := fun h c =>
      if hh : h < ar1 then (ch1 ⟨h, hh⟩).eval (Ops.ofCommSemiring R) x c else 0
    let e2 : ℕ → ℕ → R := fun h c =>
      if hh : h < ar2 then (ch2 ⟨h, hh⟩).eval (Ops.ofCommSemiring R) x c else 0
    have hL : (Node.sum (ar1 * ar2) (kin1 * kin2) (ko1 * ko2)
          (fun i c =>
            (Ops.ofCommSemiring R).mul
              (W1 (i / ko2) ((c / (kin1 * kin2) / ar2) * kin1 + c % (kin1 * kin2) / kin2))
              (W2 (i % ko2) ((c / (kin1 * kin2) % ar2) * kin2 + c % (kin1 * kin2) % kin2)))
          cs).eval (Ops.ofCommSemiring R) x (i * ko2 + j)
        = ∑ h ∈ range (ar1 * ar2), ∑ c ∈ range (kin1 * kin2),
            (W1 i ((h / ar2) * kin1 + c / kin2) * W2 j ((h % ar2) * kin2 + c % kin2))
              * (e1 (h / ar2) (c / kin2) * e2 (h % ar2) (c % kin2)) := by
      rw [eval_sum', Finset.sum_fin_eq_sum_range]
      refine Finset.sum_congr rfl fun h hh => ?_
      have hh' : h < ar1 * ar2 := mem_range.mp hh
      rw [dif_pos hh']
      refine Finset.sum_congr rfl fun c hc => ?_
      have hc' : c < kin1 * kin2 := mem_range.mp hc
      have hd1 : h / ar2 < ar1 := div_lt_of_lt_mul' hh'
      have hd2 : h % ar2 < ar2 := mod_lt_of_lt_mul' hh'
      have hc1 : c / kin2 < kin1 := div_lt_of_lt_mul' hc'
      have hc2 : c % kin2 < kin2 := mod_lt_of_lt_mul' hc'
      have hchild := ih ⟨h, hh'⟩ (h1 _).1 (h2 _).1 (c / kin2) (c % kin2)
        (by rw [(h1 _).2]; exact hc1) (by rw [(h2 _).2]; exact hc2)
      rw [(h2 _).2, Nat.div_add_mod' c kin2] at hchild
      simp only [ofCS_mul, div_of_lt_add hj, mod_of_lt_add hj, div_of_lt_add hc',
        mod_of_lt_add hc', hchild, e1, e2, dif_pos hd1, dif_pos hd2]
    rw [hL, sum_sum_rule, eval_sum', eval_sum', Finset.sum_fin_eq_sum_range,
      Finset.sum_fin_eq_sum_range]
    congr 1
    · refine Finset.sum_congr rfl fun h hh => ?_
      have hh' : h < ar1 := mem_range.mp hh
      simp only [e1, dif_pos hh']
    · refine Finset.sum_congr rfl fun h hh => ?_
      have hh' : h < ar2 := mem_range.mp hh
      simp only [e2, dif_pos hh']
  | had ar k1 k2 ch1 ch2 τ1 τ2 hτ1 hτ2 cs hcs ih =>
    simp only [units] at hi hj ⊢
    rw [eval_had', eval_had', eval_had']
    have e : ∀ p : Fin ar, (cs p).eval (Ops.ofCommSemiring R) x (i * k2 + j)
        = (ch1 (τ1 p)).eval (Ops.ofCommSemiring R) x i
          * (ch2 (τ2 p)).eval (Ops.ofCommSemiring R) x j := by
      intro p
      have := ih p (h1 _).1 (h2 _).1 i j (by rw [(h1 _).2]; exact hi) (by rw [(h2 _).2]; exact hj)
      rw [(h2 _).2] at this
      exact this
    simp only [e]
    rw [Finset.prod_mul_distrib,
      hτ1.prod_comp (fun h => (ch1 h).eval (Ops.ofCommSemiring R) x i),
      hτ2.prod_comp (fun h => (ch2 h).eval (Ops.ofCommSemiring R) x j)]
  | kron ar k1 k2 ch1 ch2 cs hcs ih =>
    simp only [units] at hi hj ⊢
    have hP := kronPermIdx_lt k1 k2 ar i j hi hj
    rw [eval_sum', Fin.sum_univ_one]
    simp only [Fin.val_zero, zero_mul, zero_add, ofCS_one, ofCS_zero, ite_mul, one_mul,
      Finset.sum_ite_eq', mem_range, if_pos hP]
    rw [eval_kron', eval_kron', eval_kron', ← Finset.prod_mul_distrib]
    refine Finset.prod_congr rfl fun g _ => ?_
    rw [kronPermIdx_digit k1 k2 ar i j hi hj g.val g.isLt]
    have hk1 := pos_of_lt_pow hi g.isLt
    have hk2 := pos_of_lt_pow hj g.isLt
    have := ih g (h1 _).1 (h2 _).1 (digit k1 ar g.val i) (digit k2 ar g.val j)
      (by rw [(h1 _).2]; exact digit_lt _ _ _ _ hk1) (by rw [(h2 _).2]; exact digit_lt _ _ _ _ hk2)
    rw [(h2 _).2] at this
    exact this

end Correct

/-! ### main statements about `Node.mul` -/

theorem mul_units' (o : Ops R) (n1 n2 p : Node R V) (h : Node.mul o n1 n2 = .ok p) :
    p.units = n1.units * n2.units :=
  (mul_rel o n1 n2 p h).units_eq

theorem mul_wf' (o : Ops R) (n1 n2 p : Node R V) (h : Node.mul o n1 n2 = .ok p)
    (h1 : n1.WF) (h2 : n2.WF) : p.WF :=
  (mul_rel o n1 n2 p h).wf h1 h2

theorem mulDisjoint_mismatch (n1 n2 : Node R V)
    (hd : Scope.disjoint n1.scopeL n2.scopeL = true) (hu : n1.units ≠ n2.units) :
    mulDisjoint n1 n2 = some (.error .unitMismatch) := by
  unfold mulDisjoint
  rw [if_pos hd, if_neg hu]

theorem mul_unit_mismatch (o : Ops R) (n1 n2 : Node R V)
    (hd : Scope.disjoint n1.scopeL n2.scopeL = true) (hu : n1.units ≠ n2.units) :
    Node.mul o n1 n2 = .error .unitMismatch := by
  have hmd := mulDisjoint_mismatch n1 n2 hd hu
  cases n1 <;> cases n2 <;> simp only [Node.mul, hmd]

/-! ### circuits -/

theorem length_flatMap_map {α β γ : Type} (l1 : List α) (l2 : List β) (f : α → β → γ) :
    (l1.flatMap fun a => l2.map (f a)).length = l1.length * l2.length := by
  induction l1 with
  | nil => simp
  | cons a l ih =>
    rw [List.flatMap_cons, List.length_append, ih, List.length_map, List.length_cons,
      Nat.succ_mul, Nat.add_comm]

theorem getElem?_flatMap_map {α β γ : Type} (l1 : List α) (l2 : List β) (f : α → β → γ)
    (a b : ℕ) (ha : a < l1.length) (hb : b < l2.length) :
    (l1.flatMap fun a => l2.map (f a))[a * l2.length + b]? = some (f l1[a] l2[b]) := by
  induction l1 generalizing a with
  | nil => simp at ha
  | cons a0 l ih =>
    rw [List.flatMap_cons]
    cases a with
    | zero =>
      rw [Nat.zero_mul, Nat.zero_add, List.getElem?_append_left (by rw [List.length_map]; exact hb)]
      simp [hb]
    | succ a =>
      have ha' : a < l.length := by simpa using ha
      rw [List.getElem?_append_right (by rw [List.length_map, Nat.succ_mul]; omega),
        List.length_map]
      have e : (a + 1) * l2.length + b - l2.length = a * l2.length + b := by
        rw [Nat.succ_mul]; omega
      rw [e, ih a ha']
      simp

theorem mulC_inv (o : Ops R) (c1 c2 p : Circ R V) (h : Circ.mul o c1 c2 = .ok p) :
    (c1.outputs.flatMap fun n1 => c2.outputs.map fun n2 => Node.mul o n1 n2)
      = p.outputs.map .ok := by
  unfold Circ.mul at h
  obtain ⟨outs, ho, hp⟩ := bind_ok_inv _ _ _ h
  cases hp
  exact mapM_id_ok _ _ ho

theorem mulC_outputs' (o : Ops R) (c1 c2 p : Circ R V) (h : Circ.mul o c1 c2 = .ok p) :
    p.outputs.length = c1.outputs.length * c2.outputs.length := by
  have := congrArg List.length (mulC_inv o c1 c2 p h)
  rw [length_flatMap_map, List.length_map] at this
  exact this.symm

theorem mulC_correct' (o : Ops R) (c1 c2 p : Circ R V) (h : Circ.mul o c1 c2 = .ok p)
    (a b : ℕ) (ha : a < c1.outputs.length) (hb : b < c2.outputs.length) :
    ∃ q, p.outputs[a * c2.outputs.length + b]? = some q
      ∧ Node.mul o c1.outputs[a] c2.outputs[b] = .ok q := by
  have e := congrArg (fun l => l[a * c2.outputs.length + b]?) (mulC_inv o c1 c2 p h)
  simp only [getElem?_flatMap_map _ _ _ a b ha hb, List.getElem?_map] at e
  cases hq : p.outputs[a * c2.outputs.length + b]? with
  | none => rw [hq] at e; cases e
  | some q =>
    rw [hq] at e
    exact ⟨q, rfl, Option.some.inj e⟩


end Node
end Cirkit
