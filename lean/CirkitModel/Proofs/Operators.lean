/-
  CirkitModel.Proofs.Operators — lemmas behind the operator properties C03 (integrate),
  C11 (masked evaluation / IntegrateQuery), C06 (evidence, concatenate) and C07 (conjugate) on the
  `Node` model.
-/
import Mathlib.Algebra.BigOperators.Ring.Finset
import Mathlib.Algebra.BigOperators.Fin
import Mathlib.Algebra.BigOperators.Group.List.Basic
import Mathlib.Tactic.Ring
import CirkitModel.Model.Node
import CirkitModel.Proofs.Bridge

open Finset

namespace Cirkit

/-- `S` is a linear functional on functions `V → R` -/
structure LinFun {R V : Type} [CommSemiring R] (S : (V → R) → R) : Prop where
  add : ∀ f g : V → R, S (fun a => f a + g a) = S f + S g
  smul : ∀ (c : R) (f : V → R), S (fun a => c * f a) = c * S f

/-- Concatenation of circuits: the outputs in order — `concatenate`. -/
def Circ.concat {R V : Type} (cs : List (Circ R V)) : Circ R V := ⟨(cs.map (·.outputs)).flatten⟩

section Structural
variable {R V : Type}

namespace Node

/-! ### structural facts about `integ1` / `integ` (no algebra needed) -/

theorem integ1_of_not_mem (n : Node R V) (v : ℕ) (S : (V → R) → R) (hv : ¬ Node.Mem v n) :
    n.integ1 v S = n := by
  induction n with
  | leaf v' k f =>
    simp only [Mem] at hv
    have hne : ¬ v' = v := fun h => hv h.symm
    simp only [integ1, if_neg hne]
  | const k c => rfl
  | sum ar kin kout W ch ih =>
    simp only [Mem, not_exists] at hv
    simp only [integ1]; congr; funext h; exact ih h (hv h)
  | had ar k ch ih =>
    simp only [Mem, not_exists] at hv
    simp only [integ1]; congr; funext h; exact ih h (hv h)
  | kron ar k ch ih =>
    simp only [Mem, not_exists] at hv
    simp only [integ1]; congr; funext h; exact ih h (hv h)

theorem mem_integ1 (n : Node R V) (v z : ℕ) (S : (V → R) → R) :
    Node.Mem z (n.integ1 v S) ↔ (Node.Mem z n ∧ z ≠ v) := by
  induction n with
  | leaf v' k f =>
    by_cases hvv : v' = v
    · simp only [integ1, if_pos hvv, Mem, false_iff, not_and, not_not]
      intro h; rw [h, hvv]
    · simp only [integ1, if_neg hvv, Mem, iff_self_and]
      intro h; rw [h]; exact hvv
  | const k c => simp only [integ1, Mem, false_and]
  | sum ar kin kout W ch ih =>
    simp only [integ1, Mem, ih, exists_and_right]
  | had ar k ch ih =>
    simp only [integ1, Mem, ih, exists_and_right]
  | kron ar k ch ih =>
    simp only [integ1, Mem, ih, exists_and_right]

theorem integ1_units (n : Node R V) (v : ℕ) (S : (V → R) → R) :
    (n.integ1 v S).units = n.units := by
  cases n with
  | leaf v' k f => by_cases hvv : v' = v <;> simp only [integ1, hvv, if_true, if_false, units]
  | const k c => rfl
  | sum ar kin kout W ch => rfl
  | had ar k ch => rfl
  | kron ar k ch => rfl

theorem integ1_smooth (n : Node R V) (v : ℕ) (S : (V → R) → R) (hs : n.Smooth) :
    (n.integ1 v S).Smooth := by
  induction n with
  | leaf v' k f => by_cases hvv : v' = v <;> simp only [integ1, hvv, if_true, if_false, Smooth]
  | const k c => trivial
  | sum ar kin kout W ch ih =>
    refine ⟨fun h => ih h (hs.1 h), fun h h' z => ?_⟩
    rw [mem_integ1, mem_integ1, hs.2 h h' z]
  | had ar k ch ih => exact fun h => ih h (hs h)
  | kron ar k ch ih => exact fun h => ih h (hs h)

theorem integ1_decomp (n : Node R V) (v : ℕ) (S : (V → R) → R) (hd : n.Decomp) :
    (n.integ1 v S).Decomp := by
  induction n with
  | leaf v' k f => by_cases hvv : v' = v <;> simp only [integ1, hvv, if_true, if_false, Decomp]
  | const k c => trivial
  | sum ar kin kout W ch ih => exact fun h => ih h (hd h)
  | had ar k ch ih =>
    refine ⟨fun h => ih h (hd.1 h), fun h h' z hne hm hm' => ?_⟩
    rw [mem_integ1] at hm hm'
    exact hd.2 h h' z hne hm.1 hm'.1
  | kron ar k ch ih =>
    refine ⟨fun h => ih h (hd.1 h), fun h h' z hne hm hm' => ?_⟩
    rw [mem_integ1] at hm hm'
    exact hd.2 h h' z hne hm.1 hm'.1

theorem integ1_wf (n : Node R V) (v : ℕ) (S : (V → R) → R) (h : n.WF) : (n.integ1 v S).WF := by
  induction n with
  | leaf v' k f => by_cases hvv : v' = v <;> simp only [integ1, hvv, if_true, if_false, WF]
  | const k c => trivial
  | sum ar kin kout W ch ih =>
    exact fun h' => ⟨ih h' (h h').1, by rw [integ1_units]; exact (h h').2⟩
  | had ar k ch ih =>
    exact fun h' => ⟨ih h' (h h').1, by rw [integ1_units]; exact (h h').2⟩
  | kron ar k ch ih =>
    exact fun h' => ⟨ih h' (h h').1, by rw [integ1_units]; exact (h h').2⟩

/-- integrating two variables commutes syntactically -/
theorem integ1_comm (n : Node R V) (S : ℕ → (V → R) → R) (v w : ℕ) :
    (n.integ1 v (S v)).integ1 w (S w) = (n.integ1 w (S w)).integ1 v (S v) := by
  induction n with
  | leaf v' k f =>
    by_cases h1 : v' = v <;> by_cases h2 : v' = w
    · subst h1; subst h2; rfl
    · subst h1; simp only [integ1, eq_self, h2, if_true, if_false]
    · subst h2; simp only [integ1, eq_self, h1, if_true, if_false]
    · simp only [integ1, h1, h2, if_false]
  | const k c => rfl
  | sum ar kin kout W ch ih => simp only [integ1, ih]
  | had ar k ch ih => simp only [integ1, ih]
  | kron ar k ch ih => simp only [integ1, ih]

theorem integ_append (n : Node R V) (S : ℕ → (V → R) → R) (zs1 zs2 : List ℕ) :
    n.integ S (zs1 ++ zs2) = (n.integ S zs1).integ S zs2 := by
  induction zs1 generalizing n with
  | nil => rfl
  | cons v vs ih => simp only [List.cons_append, integ, ih]

theorem integ_perm (n : Node R V) (S : ℕ → (V → R) → R) (zs zs' : List ℕ) (hperm : zs.Perm zs') :
    n.integ S zs = n.integ S zs' := by
  induction hperm generalizing n with
  | nil => rfl
  | cons x _ ih => simp only [integ, ih]
  | swap x y l => simp only [integ, integ1_comm n S y x]
  | trans _ _ ih1 ih2 => rw [ih1, ih2]

theorem mem_integ (n : Node R V) (S : ℕ → (V → R) → R) (zs : List ℕ) (z : ℕ) :
    Node.Mem z (n.integ S zs) ↔ (Node.Mem z n ∧ z ∉ zs) := by
  induction zs generalizing n with
  | nil => simp only [integ, List.not_mem_nil, not_false_eq_true, and_true]
  | cons v vs ih =>
    simp only [integ, ih, mem_integ1, List.mem_cons, not_or, and_assoc]

theorem integ_smooth (n : Node R V) (S : ℕ → (V → R) → R) (zs : List ℕ) (hs : n.Smooth) :
    (n.integ S zs).Smooth := by
  induction zs generalizing n with
  | nil => exact hs
  | cons v vs ih => exact ih _ (integ1_smooth n v _ hs)

theorem integ_decomp (n : Node R V) (S : ℕ → (V → R) → R) (zs : List ℕ) (hd : n.Decomp) :
    (n.integ S zs).Decomp := by
  induction zs generalizing n with
  | nil => exact hd
  | cons v vs ih => exact ih _ (integ1_decomp n v _ hd)

theorem integ_const (S : ℕ → (V → R) → R) (zs : List ℕ) (k : ℕ) (c : ℕ → R) :
    (Node.const k c : Node R V).integ S zs = Node.const k c := by
  induction zs with
  | nil => rfl
  | cons v vs ih => simp only [integ, integ1, ih]

theorem integ_leaf (S : ℕ → (V → R) → R) (zs : List ℕ) (v k : ℕ) (f : ℕ → V → R) :
    (Node.leaf v k f : Node R V).integ S zs
      = if v ∈ zs then Node.const k (fun i => S v (f i)) else Node.leaf v k f := by
  induction zs with
  | nil => simp only [integ, List.not_mem_nil, if_false]
  | cons z zs ih =>
    by_cases hvz : v = z
    · subst hvz
      simp only [integ, integ1, if_true, integ_const, List.mem_cons, true_or]
    · simp only [integ, integ1, hvz, if_false, ih, List.mem_cons, false_or]

theorem integ_sum (S : ℕ → (V → R) → R) (zs : List ℕ) (ar kin kout : ℕ) (W : ℕ → ℕ → R)
    (ch : Fin ar → Node R V) :
    (Node.sum ar kin kout W ch).integ S zs = Node.sum ar kin kout W (fun h => (ch h).integ S zs) := by
  induction zs generalizing ch with
  | nil => rfl
  | cons z zs ih => simp only [integ, integ1, ih]

theorem integ_had (S : ℕ → (V → R) → R) (zs : List ℕ) (ar k : ℕ) (ch : Fin ar → Node R V) :
    (Node.had ar k ch).integ S zs = Node.had ar k (fun h => (ch h).integ S zs) := by
  induction zs generalizing ch with
  | nil => rfl
  | cons z zs ih => simp only [integ, integ1, ih]

theorem integ_kron (S : ℕ → (V → R) → R) (zs : List ℕ) (ar k : ℕ) (ch : Fin ar → Node R V) :
    (Node.kron ar k ch).integ S zs = Node.kron ar k (fun h => (ch h).integ S zs) := by
  induction zs generalizing ch with
  | nil => rfl
  | cons z zs ih => simp only [integ, integ1, ih]

end Node
end Structural

section
variable {R V : Type} [CommSemiring R]

theorem foldl_add_eq_sum (l : List R) (a : R) :
    l.foldl (Ops.ofCommSemiring R).add a = a + l.sum := by
  induction l generalizing a with
  | nil => simp
  | cons b l ih => simp only [List.foldl_cons, ih, ofCS_add, List.sum_cons, add_assoc]

theorem sumL_eq (l : List R) : (Ops.ofCommSemiring R).sumL l = l.sum := by
  unfold Ops.sumL
  rw [foldl_add_eq_sum, ofCS_zero, zero_add]

theorem quad_eq_sum (dom : List V) (w g : V → R) :
    Node.quad (Ops.ofCommSemiring R) dom w g = (dom.map fun a => w a * g a).sum := by
  unfold Node.quad
  rw [sumL_eq]
  rfl

theorem quad_linFun (dom : List V) (w : V → R) :
    LinFun (Node.quad (Ops.ofCommSemiring R) dom w) := by
  constructor
  · intro f g
    simp only [quad_eq_sum]
    induction dom with
    | nil => simp
    | cons a l ih => simp only [List.map_cons, List.sum_cons, ih]; ring
  · intro c f
    simp only [quad_eq_sum]
    induction dom with
    | nil => simp
    | cons a l ih => simp only [List.map_cons, List.sum_cons, ih]; ring

namespace LinFun
variable {S : (V → R) → R}

theorem zero (hS : LinFun S) : S (fun _ => 0) = 0 := by
  have h := hS.smul 0 (fun _ => 0)
  simpa using h

theorem mul_right (hS : LinFun S) (f : V → R) (c : R) : S (fun a => f a * c) = S f * c := by
  have h := hS.smul c f
  rw [mul_comm (S f) c, ← h]
  congr 1
  funext a
  exact mul_comm _ _

theorem sum (hS : LinFun S) {ι : Type} (s : Finset ι) (f : ι → V → R) :
    S (fun a => ∑ i ∈ s, f i a) = ∑ i ∈ s, S (f i) := by
  classical
  induction s using Finset.induction_on with
  | empty => simpa using hS.zero
  | insert i s hi ih =>
    have e : (fun a => ∑ j ∈ insert i s, f j a) = fun a => f i a + ∑ j ∈ s, f j a := by
      funext a
      rw [Finset.sum_insert hi]
    rw [e, hS.add, ih, Finset.sum_insert hi]

end LinFun

namespace Node

/-! ### evaluation in Mathlib form -/

theorem eval_sum' (x : ℕ → V) (ar kin kout : ℕ) (W : ℕ → ℕ → R) (ch : Fin ar → Node R V) (i : ℕ) :
    (Node.sum ar kin kout W ch).eval (Ops.ofCommSemiring R) x i
      = ∑ h : Fin ar, ∑ j ∈ range kin,
          W i (h.val * kin + j) * (ch h).eval (Ops.ofCommSemiring R) x j := by
  simp only [Node.eval, sumFin_eq, sumN_eq, ofCS_mul]

theorem eval_had' (x : ℕ → V) (ar k : ℕ) (ch : Fin ar → Node R V) (i : ℕ) :
    (Node.had ar k ch).eval (Ops.ofCommSemiring R) x i
      = ∏ h : Fin ar, (ch h).eval (Ops.ofCommSemiring R) x i := by
  simp only [Node.eval, prodFin_eq]

theorem eval_kron' (x : ℕ → V) (ar k : ℕ) (ch : Fin ar → Node R V) (i : ℕ) :
    (Node.kron ar k ch).eval (Ops.ofCommSemiring R) x i
      = ∏ h : Fin ar, (ch h).eval (Ops.ofCommSemiring R) x (digit k ar h.val i) := by
  simp only [Node.eval, prodFin_eq]

theorem maskedEval_sum' (S : ℕ → (V → R) → R) (m : ℕ → Bool) (x : ℕ → V) (ar kin kout : ℕ)
    (W : ℕ → ℕ → R) (ch : Fin ar → Node R V) (i : ℕ) :
    (Node.sum ar kin kout W ch).maskedEval (Ops.ofCommSemiring R) S m x i
      = ∑ h : Fin ar, ∑ j ∈ range kin,
          W i (h.val * kin + j) * (ch h).maskedEval (Ops.ofCommSemiring R) S m x j := by
  simp only [Node.maskedEval, sumFin_eq, sumN_eq, ofCS_mul]

theorem maskedEval_had' (S : ℕ → (V → R) → R) (m : ℕ → Bool) (x : ℕ → V) (ar k : ℕ)
    (ch : Fin ar → Node R V) (i : ℕ) :
    (Node.had ar k ch).maskedEval (Ops.ofCommSemiring R) S m x i
      = ∏ h : Fin ar, (ch h).maskedEval (Ops.ofCommSemiring R) S m x i := by
  simp only [Node.maskedEval, prodFin_eq]

theorem maskedEval_kron' (S : ℕ → (V → R) → R) (m : ℕ → Bool) (x : ℕ → V) (ar k : ℕ)
    (ch : Fin ar → Node R V) (i : ℕ) :
    (Node.kron ar k ch).maskedEval (Ops.ofCommSemiring R) S m x i
      = ∏ h : Fin ar, (ch h).maskedEval (Ops.ofCommSemiring R) S m x (digit k ar h.val i) := by
  simp only [Node.maskedEval, prodFin_eq]

/-! ### integrate one variable -/

theorem eval_upd_of_not_mem (n : Node R V) (v : ℕ) (hv : ¬ Node.Mem v n) (x : ℕ → V) (a : V)
    (i : ℕ) :
    n.eval (Ops.ofCommSemiring R) (Node.upd x v a) i = n.eval (Ops.ofCommSemiring R) x i := by
  induction n generalizing i with
  | leaf v' k f =>
    simp only [Mem] at hv
    have hne : ¬ v' = v := fun h => hv h.symm
    simp only [eval, upd, if_neg hne]
  | const k c => rfl
  | sum ar kin kout W ch ih =>
    simp only [Mem, not_exists] at hv
    simp only [eval_sum']
    exact Finset.sum_congr rfl fun h _ => Finset.sum_congr rfl fun j _ => by rw [ih h (hv h)]
  | had ar k ch ih =>
    simp only [Mem, not_exists] at hv
    simp only [eval_had']
    exact Finset.prod_congr rfl fun h _ => ih h (hv h) _
  | kron ar k ch ih =>
    simp only [Mem, not_exists] at hv
    simp only [eval_kron']
    exact Finset.prod_congr rfl fun h _ => ih h (hv h) _

/-- core step for product layers: exactly one input sees `v` -/
theorem integ1_prod_step {ar : ℕ} (ch : Fin ar → Node R V) (v : ℕ) (S : (V → R) → R)
    (hS : LinFun S) (idx : Fin ar → ℕ) (y : ℕ → V)
    (hdis : ∀ h h' v, h ≠ h' → Mem v (ch h) → ¬ Mem v (ch h'))
    (h0 : Fin ar) (hv : Mem v (ch h0))
    (ih : ∀ i, ((ch h0).integ1 v S).eval (Ops.ofCommSemiring R) y i
      = S (fun a => (ch h0).eval (Ops.ofCommSemiring R) (upd y v a) i)) :
    ∏ h, ((ch h).integ1 v S).eval (Ops.ofCommSemiring R) y (idx h)
      = S (fun a => ∏ h, (ch h).eval (Ops.ofCommSemiring R) (upd y v a) (idx h)) := by
  have hnot : ∀ h, h ≠ h0 → ¬ Mem v (ch h) := fun h hne hmem => hdis h h0 v hne hmem hv
  have e : (fun a => ∏ h, (ch h).eval (Ops.ofCommSemiring R) (upd y v a) (idx h))
      = fun a => (ch h0).eval (Ops.ofCommSemiring R) (upd y v a) (idx h0)
          * ∏ h ∈ univ.erase h0, (ch h).eval (Ops.ofCommSemiring R) y (idx h) := by
    funext a
    rw [← Finset.mul_prod_erase univ
      (fun h => (ch h).eval (Ops.ofCommSemiring R) (upd y v a) (idx h)) (mem_univ h0)]
    congr 1
    refine Finset.prod_congr rfl fun h hh => ?_
    exact eval_upd_of_not_mem _ _ (hnot h (Finset.mem_erase.mp hh).1) _ _ _
  rw [e, hS.mul_right, ← ih, ← Finset.mul_prod_erase univ _ (mem_univ h0)]
  congr 1
  refine Finset.prod_congr rfl fun h hh => ?_
  rw [integ1_of_not_mem _ _ _ (hnot h (Finset.mem_erase.mp hh).1)]

theorem integ1_correct (n : Node R V) (v : ℕ) (S : (V → R) → R) (hS : LinFun S)
    (hv : Node.Mem v n) (hs : n.Smooth) (hd : n.Decomp) (y : ℕ → V) (i : ℕ) :
    (n.integ1 v S).eval (Ops.ofCommSemiring R) y i
      = S (fun a => n.eval (Ops.ofCommSemiring R) (Node.upd y v a) i) := by
  induction n generalizing i with
  | leaf v' k f =>
    simp only [Mem] at hv
    subst hv
    simp only [integ1, if_true, eval, upd]
  | const k c => exact absurd hv (by simp only [Mem, not_false_eq_true])
  | sum ar kin kout W ch ih =>
    obtain ⟨h0, hv0⟩ := hv
    obtain ⟨hsm, hsc⟩ := hs
    have hall : ∀ h, Mem v (ch h) := fun h => (hsc h h0 v).mpr hv0
    simp only [integ1, eval_sum']
    rw [hS.sum]
    refine Finset.sum_congr rfl fun h _ => ?_
    rw [hS.sum]
    refine Finset.sum_congr rfl fun j _ => ?_
    rw [hS.smul, ih h (hall h) (hsm h) (hd h) j]
  | had ar k ch ih =>
    obtain ⟨h0, hv0⟩ := hv
    simp only [integ1, eval_had']
    exact integ1_prod_step ch v S hS (fun _ => i) y hd.2 h0 hv0
      (fun j => ih h0 hv0 (hs h0) (hd.1 h0) j)
  | kron ar k ch ih =>
    obtain ⟨h0, hv0⟩ := hv
    simp only [integ1, eval_kron']
    exact integ1_prod_step ch v S hS (fun h => digit k ar h.val i) y hd.2 h0 hv0
      (fun j => ih h0 hv0 (hs h0) (hd.1 h0) j)

/-! ### integrate a list of variables -/

theorem integ_correct (n : Node R V) (S : ℕ → (V → R) → R) (hS : ∀ v, LinFun (S v))
    (zs : List ℕ) (hnd : zs.Nodup) (hz : ∀ z ∈ zs, Node.Mem z n) (hs : n.Smooth) (hd : n.Decomp)
    (y : ℕ → V) (i : ℕ) :
    (n.integ S zs).eval (Ops.ofCommSemiring R) y i
      = Node.sumOver S zs (fun y' => n.eval (Ops.ofCommSemiring R) y' i) y := by
  induction zs generalizing n y with
  | nil => rfl
  | cons v vs ih =>
    rw [List.nodup_cons] at hnd
    have hv : Mem v n := hz v (List.mem_cons_self ..)
    simp only [integ, sumOver]
    rw [ih (n.integ1 v (S v)) hnd.2 ?_ (integ1_smooth n v _ hs) (integ1_decomp n v _ hd)]
    · congr 1
      funext y'
      exact integ1_correct n v (S v) (hS v) hv hs hd y' i
    · intro z hzm
      rw [mem_integ1]
      refine ⟨hz z (List.mem_cons_of_mem _ hzm), ?_⟩
      rintro rfl
      exact hnd.1 hzm

/-! ### masked evaluation -/

theorem maskedEval_eq_integ (n : Node R V) (S : ℕ → (V → R) → R) (zs : List ℕ) (x : ℕ → V)
    (i : ℕ) :
    n.maskedEval (Ops.ofCommSemiring R) S (fun v => decide (v ∈ zs)) x i
      = (n.integ S zs).eval (Ops.ofCommSemiring R) x i := by
  induction n generalizing i with
  | leaf v k f =>
    rw [integ_leaf]
    by_cases hv : v ∈ zs
    · simp only [maskedEval, hv, decide_true, if_true, eval]
    · simp only [maskedEval, hv, decide_false, if_false, eval, Bool.false_eq_true]
  | const k c => rw [integ_const]; rfl
  | sum ar kin kout W ch ih =>
    rw [integ_sum, maskedEval_sum', eval_sum']
    exact Finset.sum_congr rfl fun h _ => Finset.sum_congr rfl fun j _ => by rw [ih h j]
  | had ar k ch ih =>
    rw [integ_had, maskedEval_had', eval_had']
    exact Finset.prod_congr rfl fun h _ => ih h _
  | kron ar k ch ih =>
    rw [integ_kron, maskedEval_kron', eval_kron']
    exact Finset.prod_congr rfl fun h _ => ih h _

theorem maskedEval_mask_congr (n : Node R V) (S : ℕ → (V → R) → R) (m1 m2 : ℕ → Bool)
    (h : ∀ v, Node.Mem v n → m1 v = m2 v) (x : ℕ → V) (i : ℕ) :
    n.maskedEval (Ops.ofCommSemiring R) S m1 x i = n.maskedEval (Ops.ofCommSemiring R) S m2 x i := by
  induction n generalizing i with
  | leaf v k f => simp only [maskedEval, h v rfl]
  | const k c => rfl
  | sum ar kin kout W ch ih =>
    rw [maskedEval_sum', maskedEval_sum']
    exact Finset.sum_congr rfl fun h' _ => Finset.sum_congr rfl fun j _ => by
      rw [ih h' (fun v hm => h v ⟨h', hm⟩) j]
  | had ar k ch ih =>
    rw [maskedEval_had', maskedEval_had']
    exact Finset.prod_congr rfl fun h' _ => ih h' (fun v hm => h v ⟨h', hm⟩) _
  | kron ar k ch ih =>
    rw [maskedEval_kron', maskedEval_kron']
    exact Finset.prod_congr rfl fun h' _ => ih h' (fun v hm => h v ⟨h', hm⟩) _

theorem maskedEval_empty (n : Node R V) (S : ℕ → (V → R) → R) (x : ℕ → V) (i : ℕ) :
    n.maskedEval (Ops.ofCommSemiring R) S (fun _ => false) x i
      = n.eval (Ops.ofCommSemiring R) x i := by
  have h := maskedEval_eq_integ n S [] x i
  simpa only [List.not_mem_nil, decide_false, integ] using h

end Node
end
end Cirkit
