/-
  CirkitModel.Proofs.Templates — lemmas behind C16 (region graphs) and C20 (template formulas).
-/
import Mathlib.Algebra.BigOperators.Ring.Finset
import Mathlib.Algebra.BigOperators.Fin
import Mathlib.Tactic.Ring
import Mathlib.Data.List.GetD
import CirkitModel.Model.RegionGraph
import CirkitModel.Model.Node
import CirkitModel.Proofs.Bridge
import CirkitModel.Proofs.Index
import CirkitModel.Proofs.Struct

open Finset

namespace Cirkit

/-! ### C20: template contractions -/

section Formulas
variable {R V : Type} [CommSemiring R]

theorem cp_formula_aux (ar rank : ℕ) (w : ℕ → R) (A : Fin ar → ℕ → V → R) (vars : Fin ar → ℕ)
    (x : ℕ → V) :
    (Node.sum 1 rank 1 (fun _ c => w c)
        (fun _ => Node.had ar rank (fun j => Node.leaf (vars j) rank (A j)))).eval
        (Ops.ofCommSemiring R) x 0
      = ∑ r ∈ Finset.range rank, w r * ∏ j : Fin ar, A j r (x (vars j)) := by
  simp only [Node.eval, sumFin_eq, sumN_eq, prodFin_eq, ofCS_mul, Fin.sum_univ_one, Fin.val_zero,
    Nat.zero_mul, Nat.zero_add]

theorem digit2_zero {rank r1 r2 : ℕ} (h1 : r1 < rank) (h2 : r2 < rank) :
    digit rank 2 0 (r1 * rank + r2) = r1 := by
  unfold digit
  simp only [Nat.sub_zero, Nat.reduceSub, Nat.pow_one]
  rw [div_of_lt_add h2, Nat.mod_eq_of_lt h1]

theorem digit2_one {rank r1 r2 : ℕ} (h2 : r2 < rank) :
    digit rank 2 1 (r1 * rank + r2) = r2 := by
  unfold digit
  simp only [Nat.sub_self, Nat.reduceSub, Nat.pow_zero, Nat.div_one]
  exact mod_of_lt_add h2

theorem tucker_formula_aux (rank : ℕ) (W : ℕ → R) (A B : ℕ → V → R) (va vb : ℕ) (x : ℕ → V) :
    (Node.sum 1 (rank ^ 2) 1 (fun _ c => W c)
        (fun _ => Node.kron 2 rank
          (fun j => if j.val = 0 then Node.leaf va rank A else Node.leaf vb rank B))).eval
        (Ops.ofCommSemiring R) x 0
      = ∑ r1 ∈ Finset.range rank, ∑ r2 ∈ Finset.range rank,
          W (r1 * rank + r2) * (A r1 (x va) * B r2 (x vb)) := by
  simp only [Node.eval, sumFin_eq, sumN_eq, prodFin_eq, ofCS_mul, Fin.sum_univ_one, Fin.val_zero,
    Nat.zero_mul, Nat.zero_add, Fin.prod_univ_two, Fin.val_one, if_true, Nat.one_ne_zero, if_false]
  rw [Nat.pow_two, sum_range_mul]
  refine Finset.sum_congr rfl (fun r1 h1 => Finset.sum_congr rfl (fun r2 h2 => ?_))
  rw [digit2_zero (Finset.mem_range.mp h1) (Finset.mem_range.mp h2),
    digit2_one (Finset.mem_range.mp h2)]

theorem tt_step_aux (rank : ℕ) (e : ℕ → ℕ → R) (i : ℕ) (hi : i < rank) :
    ∑ h ∈ Finset.range rank, ∑ j ∈ Finset.range rank, (if h = i then (1 : R) else 0) * e h j
      = ∑ j ∈ Finset.range rank, e i j := by
  rw [Finset.sum_eq_single i]
  · simp only [if_true, one_mul]
  · intro h _ hne
    simp only [hne, if_false, zero_mul, Finset.sum_const_zero]
  · intro hni
    exact absurd (Finset.mem_range.mpr hi) hni

end Formulas

/-! ### C16: scopes as strictly increasing lists -/

namespace Scope

theorem mem_insert_iff (u v : ℕ) (l : Scope) : u ∈ insert v l ↔ u = v ∨ u ∈ l := by
  induction l with
  | nil => simp [insert]
  | cons a as ih =>
    unfold insert
    split
    · simp
    · split
      · rename_i h; subst h; simp
      · simp only [List.mem_cons, ih]
        constructor
        · rintro (h | h | h)
          · exact Or.inr (Or.inl h)
          · exact Or.inl h
          · exact Or.inr (Or.inr h)
        · rintro (h | h | h)
          · exact Or.inr (Or.inl h)
          · exact Or.inl h
          · exact Or.inr (Or.inr h)

theorem insert_sorted (v : ℕ) (l : Scope) (hl : l.Pairwise (· < ·)) :
    (insert v l).Pairwise (· < ·) := by
  induction l with
  | nil => simp [insert]
  | cons a as ih =>
    rw [List.pairwise_cons] at hl
    unfold insert
    split
    · rename_i hva
      refine List.pairwise_cons.2 ⟨?_, List.pairwise_cons.2 hl⟩
      intro b hb
      rcases List.mem_cons.1 hb with rfl | hb
      · exact hva
      · exact Nat.lt_trans hva (hl.1 b hb)
    · split
      · exact List.pairwise_cons.2 hl
      · rename_i h1 h2
        refine List.pairwise_cons.2 ⟨?_, ih hl.2⟩
        intro b hb
        rcases (mem_insert_iff b v as).1 hb with rfl | hb
        · omega
        · exact hl.1 b hb

theorem length_insert_le (v : ℕ) (l : Scope) : (insert v l).length ≤ l.length + 1 := by
  induction l with
  | nil => simp [insert]
  | cons a as ih =>
    unfold insert
    split
    · simp
    · split
      · simp
      · simp only [List.length_cons]; omega

/-- inserting into a strictly increasing list makes it longer only if the element is new -/
theorem not_mem_of_length_insert (v : ℕ) (l : Scope) (hl : l.Pairwise (· < ·))
    (h : (insert v l).length = l.length + 1) : v ∉ l := by
  induction l with
  | nil => simp
  | cons a as ih =>
    rw [List.pairwise_cons] at hl
    unfold insert at h
    split at h
    · rename_i hva
      intro hm
      rcases List.mem_cons.1 hm with rfl | hm
      · omega
      · have := hl.1 v hm; omega
    · split at h
      · simp at h
      · rename_i h1 h2
        simp only [List.length_cons, Nat.add_right_cancel_iff] at h
        intro hm
        rcases List.mem_cons.1 hm with rfl | hm
        · exact h2 rfl
        · exact ih hl.2 h hm

theorem mem_union (u : ℕ) (a b : Scope) : u ∈ union a b ↔ u ∈ a ∨ u ∈ b := by
  induction a with
  | nil => simp [union]
  | cons v a ih =>
    have : union (v :: a) b = insert v (union a b) := rfl
    rw [this, mem_insert_iff, ih, List.mem_cons, or_assoc]

theorem union_sorted (a b : Scope) (hb : b.Pairwise (· < ·)) : (union a b).Pairwise (· < ·) := by
  induction a with
  | nil => exact hb
  | cons v a ih => exact insert_sorted v _ ih

theorem length_union_le (a b : Scope) : (union a b).length ≤ a.length + b.length := by
  induction a with
  | nil => simp [union]
  | cons v a ih =>
    have : union (v :: a) b = insert v (union a b) := rfl
    rw [this]
    have := length_insert_le v (union a b)
    simp only [List.length_cons]; omega

/-- if no element is lost in the union with a strictly increasing list, the two are disjoint -/
theorem disjoint_of_length_union (a b : Scope) (hb : b.Pairwise (· < ·))
    (h : (union a b).length = a.length + b.length) : ∀ v ∈ a, v ∉ b := by
  induction a with
  | nil => simp
  | cons v a ih =>
    have hu : union (v :: a) b = insert v (union a b) := rfl
    rw [hu] at h
    have h1 := length_insert_le v (union a b)
    have h2 := length_union_le a b
    simp only [List.length_cons] at h
    have h3 : (union a b).length = a.length + b.length := by omega
    have h4 : (insert v (union a b)).length = (union a b).length + 1 := by omega
    have hv := not_mem_of_length_insert v _ (union_sorted a b hb) h4
    intro w hw
    rcases List.mem_cons.1 hw with rfl | hw
    · exact fun hwb => hv ((mem_union _ _ _).2 (Or.inr hwb))
    · exact ih h3 w hw

theorem unionAll_cons (s : Scope) (ss : List Scope) :
    unionAll (s :: ss) = union s (unionAll ss) := rfl

theorem unionAll_sorted (ss : List Scope) : (unionAll ss).Pairwise (· < ·) := by
  induction ss with
  | nil => exact List.Pairwise.nil
  | cons s ss ih => exact union_sorted s _ ih

theorem mem_unionAll (u : ℕ) (ss : List Scope) : u ∈ unionAll ss ↔ ∃ s ∈ ss, u ∈ s := by
  induction ss with
  | nil => simp [unionAll]
  | cons s ss ih => rw [unionAll_cons, mem_union, ih]; simp

theorem length_unionAll_le (ss : List Scope) :
    (unionAll ss).length ≤ (ss.map List.length).sum := by
  induction ss with
  | nil => simp [unionAll]
  | cons s ss ih =>
    rw [unionAll_cons, List.map_cons, List.sum_cons]
    have := length_union_le s (unionAll ss)
    omega

/-- if the sizes of the parts add up to the size of their union, the parts are pairwise disjoint
    (no hypothesis on the parts: `unionAll` always produces a strictly increasing list) -/
theorem pairwise_disjoint_of_length_unionAll (ss : List Scope)
    (h : (unionAll ss).length = (ss.map List.length).sum) :
    ss.Pairwise (fun a b => Scope.disjoint a b = true) := by
  induction ss with
  | nil => exact List.Pairwise.nil
  | cons s ss ih =>
    rw [unionAll_cons, List.map_cons, List.sum_cons] at h
    have h1 := length_union_le s (unionAll ss)
    have h2 := length_unionAll_le ss
    have h3 : (unionAll ss).length = (ss.map List.length).sum := by omega
    have h4 : (union s (unionAll ss)).length = s.length + (unionAll ss).length := by omega
    have hd := disjoint_of_length_union s _ (unionAll_sorted ss) h4
    refine List.pairwise_cons.2 ⟨?_, ih h3⟩
    intro t ht
    rw [disjoint_iff]
    intro v hv hvt
    exact hd v hv ((mem_unionAll v ss).2 ⟨t, ht, hvt⟩)

end Scope

/-! ### C16: region graphs -/

namespace RG

theorem map_getD_range {α : Type} (l : List α) (d : α) :
    (List.range l.length).map (fun i => l.getD i d) = l := by
  refine List.ext_getElem (by simp) (fun i h1 h2 => ?_)
  simp only [List.getElem_map, List.getElem_range]
  exact List.getD_eq_getElem _ _ h2

theorem load_dump (g : RG) : load (dump g) = g := by
  cases g with
  | mk regions partitions roots =>
    simp only [load, dump, regionScope, List.map_map]
    congr 1
    exact map_getD_range regions []

theorem isSD_iff_aux (g : RG) :
    g.isSD = true ↔ ∀ p ∈ g.partitions, ∀ q ∈ g.partitions,
      g.regionScope p.1 = g.regionScope q.1 → g.decomposition p = g.decomposition q := by
  unfold isSD
  simp only [List.all_eq_true, Bool.or_eq_true, bne_iff_ne, beq_iff_eq, ne_eq]
  constructor
  · intro h p hp q hq heq
    rcases h p hp q hq with h' | h'
    · exact absurd heq h'
    · exact h'
  · intro h p hp q hq
    by_cases heq : g.regionScope p.1 = g.regionScope q.1
    · exact Or.inr (h p hp q hq heq)
    · exact Or.inl heq

theorem partSize_eq (g : RG) (ins : List ℕ) :
    g.partSize ins = ((ins.map g.regionScope).map List.length).sum := by
  simp only [partSize, List.map_map]; rfl

theorem regionScope_ne_nil (g : RG) (h : g.regions.all (fun s => !s.isEmpty) = true) (i : ℕ)
    (hi : i < g.regions.length) : g.regionScope i ≠ [] := by
  unfold regionScope
  rw [List.getD_eq_getElem _ _ hi]
  rw [List.all_eq_true] at h
  have := h _ (List.getElem_mem hi)
  intro hnil
  rw [hnil] at this
  simp at this

theorem valid_partition_aux (g : RG) (h : g.valid = true) (p : ℕ × List ℕ)
    (hp : p ∈ g.partitions) :
    p.2 ≠ [] ∧ (∀ i ∈ p.2, g.regionScope i ≠ []) ∧
      Scope.unionAll (p.2.map g.regionScope) = g.regionScope p.1 ∧
      g.partSize p.2 = (g.regionScope p.1).length := by
  unfold valid at h
  simp only [Bool.and_eq_true] at h
  obtain ⟨⟨⟨hreg, _⟩, _⟩, hparts⟩ := h
  have hq := (List.all_eq_true.1 hparts) p hp
  simp only [Bool.and_eq_true, beq_iff_eq, decide_eq_true_eq] at hq
  obtain ⟨⟨⟨⟨_, hins⟩, hne⟩, hu⟩, hs⟩ := hq
  refine ⟨?_, ?_, hu, hs⟩
  · intro hnil
    rw [hnil] at hne
    simp at hne
  · intro i hi
    have := (List.all_eq_true.1 hins) i hi
    exact regionScope_ne_nil g hreg i (by simpa using this)

theorem valid_partition_disjoint_aux (g : RG) (h : g.valid = true) (p : ℕ × List ℕ)
    (hp : p ∈ g.partitions) :
    (p.2.map g.regionScope).Pairwise (fun a b => Scope.disjoint a b = true) := by
  obtain ⟨_, _, hu, hs⟩ := valid_partition_aux g h p hp
  apply Scope.pairwise_disjoint_of_length_unionAll
  rw [hu, ← hs, partSize_eq]

theorem two_parts_disjoint (g : RG) (o a b : ℕ)
    (hu : Scope.unionAll ([a, b].map g.regionScope) = g.regionScope o)
    (hs : g.partSize [a, b] = (g.regionScope o).length) :
    Scope.disjoint (g.regionScope a) (g.regionScope b) = true := by
  have := Scope.pairwise_disjoint_of_length_unionAll ([a, b].map g.regionScope)
    (by rw [hu, ← hs, partSize_eq])
  simp only [List.map_cons, List.map_nil, List.pairwise_cons, List.mem_singleton, forall_eq,
    List.mem_nil_iff, false_imp_iff, implies_true, List.Pairwise.nil, and_true] at this
  exact this

theorem roots_cover_aux (g : RG) (h : g.rootsCover = true) (r : ℕ) (hr : r ∈ g.roots) :
    g.regionScope r = g.scope := by
  unfold rootsCover at h
  have := (List.all_eq_true.1 h) r hr
  simpa using this

end RG

end Cirkit
