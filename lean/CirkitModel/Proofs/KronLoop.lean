/-
  CirkitModel.Proofs.KronLoop — the literal `TorchKroneckerLayer.forward` loop (`kronLoop`)
  computes the product of the inputs read at the digits of the unit index (most significant
  digit first), i.e. what `Node.eval` of a `kron` layer denotes.
-/
import CirkitModel.Proofs.Bridge
import CirkitModel.Model.Torch
import Mathlib.Data.List.GetD

open Finset

namespace Cirkit
variable {R : Type}

theorem kronLoop_snoc (o : Ops R) (k : ℕ) (v : ℕ → R) (L : List (ℕ → R)) (w : ℕ → R) (i : ℕ) :
    kronLoop o k ((v :: L) ++ [w]) i = o.mul (kronLoop o k (v :: L) (i / k)) (w (i % k)) := by
  simp only [List.cons_append, kronLoop, List.foldl_append, List.foldl_cons, List.foldl_nil, kronStep]

theorem digit_succ_of_lt (k n h i : ℕ) (hh : h < n) :
    digit k (n + 1) h i = digit k n h (i / k) := by
  unfold digit
  have : n + 1 - 1 - h = (n - 1 - h) + 1 := by omega
  rw [this, pow_succ, Nat.div_div_eq_div_mul, Nat.mul_comm]

theorem digit_succ_last (k n i : ℕ) : digit k (n + 1) n i = i % k := by
  unfold digit
  have : n + 1 - 1 - n = 0 := by omega
  rw [this, pow_zero, Nat.div_one]

theorem kronLoop_aux [CommSemiring R] (k : ℕ) (hk : 0 < k) (d : ℕ → R) (n : ℕ) :
    ∀ (vs : List (ℕ → R)), vs.length = n → ∀ i, i < k ^ n →
      kronLoop (Ops.ofCommSemiring R) k vs i
        = ∏ h : Fin n, (vs.getD h.val d) (digit k n h.val i) := by
  induction n with
  | zero =>
    intro vs hl i _
    have : vs = [] := List.eq_nil_of_length_eq_zero hl
    subst this
    simp [kronLoop]
  | succ n ih =>
    intro vs hl i hi
    rcases List.eq_nil_or_concat vs with h | ⟨L, w, hvs⟩
    · subst h; simp at hl
    rw [List.concat_eq_append] at hvs
    subst hvs
    have hL : L.length = n := by simpa using hl
    rw [Fin.prod_univ_castSucc]
    have hlast : ((L ++ [w]).getD (Fin.last n).val d) = w := by
      simp [← hL]
    rw [hlast, Fin.val_last, digit_succ_last]
    have hinit : ∀ h : Fin n, (L ++ [w]).getD (Fin.castSucc h).val d = L.getD h.val d := by
      intro h
      simp only [Fin.val_castSucc]
      rw [List.getD_append _ _ _ _ (by rw [hL]; exact h.isLt)]
    cases L with
    | nil =>
      have hn : n = 0 := by simpa using hL.symm
      subst hn
      rw [pow_one] at hi
      rw [Finset.univ_eq_empty, Finset.prod_empty, one_mul, Nat.mod_eq_of_lt hi]
      rfl
    | cons v L =>
      rw [kronLoop_snoc, ofCS_mul]
      have hi' : i / k < k ^ n := by
        rw [Nat.div_lt_iff_lt_mul hk, ← pow_succ]; exact hi
      rw [ih (v :: L) hL (i / k) hi']
      congr 1
      apply Finset.prod_congr rfl
      intro h _
      rw [hinit h, Fin.val_castSucc, digit_succ_of_lt k n h.val i h.isLt]

theorem kronLoop_eq {R : Type} [CommSemiring R] (k : ℕ) (hk : 0 < k) (vs : List (ℕ → R)) (i : ℕ)
    (hi : i < k ^ vs.length) :
    kronLoop (Ops.ofCommSemiring R) k vs i
      = ∏ h : Fin vs.length, (vs.get h) (digit k vs.length h.val i) := by
  rw [kronLoop_aux k hk (fun _ => 1) vs.length vs rfl i hi]
  apply Finset.prod_congr rfl
  intro h _
  rw [List.getD_eq_getElem _ _ h.isLt]
  rfl

end Cirkit
