/-
  CirkitModel.Proofs.Norm — lemmas behind C12 (normalised circuits: partition function one,
  non-negativity, positivity, row sums of the softmax / mixing-weight reparameterisations) and
  C15 (support of the top-down sampler) on the `Node` model.
-/
import Mathlib.Algebra.BigOperators.Ring.Finset
import Mathlib.Algebra.BigOperators.Fin
import Mathlib.Algebra.Order.BigOperators.Group.Finset
import Mathlib.Algebra.Order.BigOperators.GroupWithZero.Finset
import Mathlib.Algebra.Order.Ring.Defs
import Mathlib.Algebra.Order.Field.Basic
import Mathlib.Tactic.Ring
import CirkitModel.Model.Node
import CirkitModel.Proofs.Bridge
import CirkitModel.Proofs.Index
import CirkitModel.Proofs.Operators

open Finset

namespace Cirkit

/-! ### definitions -/

/-- The normalised class: every input unit integrates to one (under its variable's functional
    `S v`), every constant unit is one, and the rows of every sum-layer weight matrix (over the
    `ar * kin` columns that are read) sum to one. -/
def Node.Norm {R V : Type} [CommSemiring R] (S : ℕ → (V → R) → R) : Node R V → Prop
  | .leaf v k f => ∀ i < k, S v (f i) = 1
  | .const k c => ∀ i < k, c i = 1
  | .sum ar kin kout W ch =>
      (∀ i < kout, ∑ h : Fin ar, ∑ j ∈ Finset.range kin, W i (h.val * kin + j) = 1)
        ∧ ∀ h, (ch h).Norm S
  | .had _ _ ch => ∀ h, (ch h).Norm S
  | .kron _ _ ch => ∀ h, (ch h).Norm S

/-- Non-negative parameters: every input unit is non-negative at every value, every constant and
    every sum weight is non-negative. -/
def Node.NonNeg {R V : Type} [CommSemiring R] [PartialOrder R] : Node R V → Prop
  | .leaf _ _ f => ∀ i a, 0 ≤ f i a
  | .const _ c => ∀ i, 0 ≤ c i
  | .sum _ _ _ W ch => (∀ i c, 0 ≤ W i c) ∧ ∀ h, (ch h).NonNeg
  | .had _ _ ch => ∀ h, (ch h).NonNeg
  | .kron _ _ ch => ∀ h, (ch h).NonNeg

/-- Strictly positive parameters, and every sum layer actually sums over something. -/
def Node.StrictPos {R V : Type} [CommSemiring R] [PartialOrder R] : Node R V → Prop
  | .leaf _ _ f => ∀ i a, 0 < f i a
  | .const _ c => ∀ i, 0 < c i
  | .sum ar kin _ W ch => (0 < ar ∧ 0 < kin) ∧ (∀ i c, 0 < W i c) ∧ ∀ h, (ch h).StrictPos
  | .had _ _ ch => ∀ h, (ch h).StrictPos
  | .kron _ _ ch => ∀ h, (ch h).StrictPos

/-- "The top-down sampler can return assignment `x` from unit `i`": at a sum unit it follows a
    column of positive weight, at a product it continues in every input, at an input layer it
    draws a value of positive mass. -/
inductive Node.Reach {R V : Type} [CommSemiring R] [PartialOrder R] :
    Node R V → ℕ → (ℕ → V) → Prop
  | leaf {v k : ℕ} {f : ℕ → V → R} {i : ℕ} {x : ℕ → V} :
      0 < f i (x v) → Reach (.leaf v k f) i x
  | const {k : ℕ} {c : ℕ → R} {i : ℕ} {x : ℕ → V} :
      0 < c i → Reach (.const k c) i x
  | sum {ar kin kout : ℕ} {W : ℕ → ℕ → R} {ch : Fin ar → Node R V} {i : ℕ} {x : ℕ → V}
      (h : Fin ar) (j : ℕ) (hj : j < kin) :
      0 < W i (h.val * kin + j) → Reach (ch h) j x → Reach (.sum ar kin kout W ch) i x
  | had {ar k : ℕ} {ch : Fin ar → Node R V} {i : ℕ} {x : ℕ → V} :
      (∀ h, Reach (ch h) i x) → Reach (.had ar k ch) i x
  | kron {ar k : ℕ} {ch : Fin ar → Node R V} {i : ℕ} {x : ℕ → V} :
      (∀ h, Reach (ch h) (digit k ar h.val i) x) → Reach (.kron ar k ch) i x

/-! ### the partition function of a normalised circuit is one -/

section Norm
variable {R V : Type} [CommSemiring R]

theorem digit_lt {k ar : ℕ} (h : Fin ar) {i : ℕ} (hi : i < k ^ ar) : digit k ar h.val i < k := by
  have hk : 0 < k := by
    rcases Nat.eq_zero_or_pos k with hk | hk
    · subst hk
      have har : ar ≠ 0 := fun h0 => by subst h0; exact h.elim0
      rw [Nat.zero_pow (Nat.pos_of_ne_zero har)] at hi
      exact absurd hi (Nat.not_lt_zero _)
    · exact hk
  exact Nat.mod_lt _ hk

theorem Node.normalised_partition (n : Node R V) (S : ℕ → (V → R) → R) (hwf : n.WF)
    (hn : n.Norm S) (x : ℕ → V) (i : ℕ) (hi : i < n.units) :
    n.maskedEval (Ops.ofCommSemiring R) S (fun _ => true) x i = 1 := by
  induction n generalizing i with
  | leaf v k f =>
    simp only [Node.maskedEval, if_true]
    exact hn i hi
  | const k c => exact hn i hi
  | sum ar kin kout W ch ih =>
    rw [Node.maskedEval_sum', ← hn.1 i hi]
    refine Finset.sum_congr rfl fun h _ => Finset.sum_congr rfl fun j hj => ?_
    rw [ih h (hwf h).1 (hn.2 h) j (by rw [(hwf h).2]; exact Finset.mem_range.mp hj), mul_one]
  | had ar k ch ih =>
    rw [Node.maskedEval_had']
    refine Finset.prod_eq_one fun h _ => ?_
    exact ih h (hwf h).1 (hn h) i (by rw [(hwf h).2]; exact hi)
  | kron ar k ch ih =>
    rw [Node.maskedEval_kron']
    refine Finset.prod_eq_one fun h _ => ?_
    exact ih h (hwf h).1 (hn h) _ (by rw [(hwf h).2]; exact digit_lt h hi)

theorem Node.normalised_marginal (n : Node R V) (S : ℕ → (V → R) → R) (hS : ∀ v, LinFun (S v))
    (zs : List ℕ) (hnd : zs.Nodup) (hz : ∀ z ∈ zs, Node.Mem z n)
    (hall : ∀ v, Node.Mem v n → v ∈ zs) (hs : n.Smooth) (hd : n.Decomp) (hwf : n.WF)
    (hn : n.Norm S) (x : ℕ → V) (i : ℕ) (hi : i < n.units) :
    Node.sumOver S zs (fun y' => n.eval (Ops.ofCommSemiring R) y' i) x = 1 := by
  rw [← Node.integ_correct n S hS zs hnd hz hs hd x i, ← Node.maskedEval_eq_integ,
    Node.maskedEval_mask_congr n S (fun v => decide (v ∈ zs)) (fun _ => true)
      (fun v hv => by simp only [hall v hv, decide_true])]
  exact Node.normalised_partition n S hwf hn x i hi

end Norm

/-! ### non-negativity, positivity, sampler support -/

section Order
variable {R V : Type} [CommSemiring R] [PartialOrder R]

theorem Node.eval_nonneg [IsOrderedRing R] (n : Node R V) (h : n.NonNeg) (x : ℕ → V) (i : ℕ) :
    0 ≤ n.eval (Ops.ofCommSemiring R) x i := by
  induction n generalizing i with
  | leaf v k f => exact h i (x v)
  | const k c => exact h i
  | sum ar kin kout W ch ih =>
    rw [Node.eval_sum']
    exact Finset.sum_nonneg fun h' _ => Finset.sum_nonneg fun j _ =>
      mul_nonneg (h.1 i _) (ih h' (h.2 h') j)
  | had ar k ch ih =>
    rw [Node.eval_had']
    exact Finset.prod_nonneg fun h' _ => ih h' (h h') i
  | kron ar k ch ih =>
    rw [Node.eval_kron']
    exact Finset.prod_nonneg fun h' _ => ih h' (h h') _

theorem Node.eval_pos [IsStrictOrderedRing R] (n : Node R V) (h : n.StrictPos) (x : ℕ → V)
    (i : ℕ) : 0 < n.eval (Ops.ofCommSemiring R) x i := by
  induction n generalizing i with
  | leaf v k f => exact h i (x v)
  | const k c => exact h i
  | sum ar kin kout W ch ih =>
    rw [Node.eval_sum']
    obtain ⟨⟨har, hkin⟩, hW, hch⟩ := h
    refine Finset.sum_pos (fun h' _ => Finset.sum_pos (fun j _ => mul_pos (hW i _) (ih h' (hch h') j))
      ⟨0, Finset.mem_range.mpr hkin⟩) ⟨⟨0, har⟩, Finset.mem_univ _⟩
  | had ar k ch ih =>
    rw [Node.eval_had']
    exact Finset.prod_pos fun h' _ => ih h' (h h') i
  | kron ar k ch ih =>
    rw [Node.eval_kron']
    exact Finset.prod_pos fun h' _ => ih h' (h h') _

theorem Node.sample_support [IsStrictOrderedRing R] (n : Node R V) (hnn : n.NonNeg) (i : ℕ)
    (x : ℕ → V) (hr : n.Reach i x) : 0 < n.eval (Ops.ofCommSemiring R) x i := by
  induction hr with
  | leaf hpos => exact hpos
  | const hpos => exact hpos
  | @sum ar kin kout W ch i x h j hj hW _ ih =>
    rw [Node.eval_sum']
    have hnnc : ∀ h' j', 0 ≤ W i (h'.val * kin + j') * (ch h').eval (Ops.ofCommSemiring R) x j' :=
      fun h' j' => mul_nonneg (hnn.1 i _) (Node.eval_nonneg (ch h') (hnn.2 h') x j')
    refine Finset.sum_pos' (fun h' _ => Finset.sum_nonneg fun j' _ => hnnc h' j')
      ⟨h, Finset.mem_univ _, ?_⟩
    exact Finset.sum_pos' (fun j' _ => hnnc h j')
      ⟨j, Finset.mem_range.mpr hj, mul_pos hW (ih (hnn.2 h))⟩
  | had _ ih =>
    rw [Node.eval_had']
    exact Finset.prod_pos fun h' _ => ih h' (hnn h')
  | kron _ ih =>
    rw [Node.eval_kron']
    exact Finset.prod_pos fun h' _ => ih h' (hnn h')

end Order

/-! ### reparameterisations producing normalised weights -/

theorem softmax_rowsum {F : Type} [Field F] (len : ℕ) (e : ℕ → F)
    (h : ∑ a ∈ range len, e a ≠ 0) :
    ∑ a ∈ range len, e a / (∑ b ∈ range len, e b) = 1 := by
  simp only [div_eq_mul_inv]
  rw [← Finset.sum_mul, mul_inv_cancel₀ h]

theorem softmax_pos {F : Type} [Field F] [LinearOrder F] [IsStrictOrderedRing F] (len : ℕ)
    (e : ℕ → F) (h : ∀ a < len, 0 < e a) (a : ℕ) (ha : a < len) :
    0 < e a / (∑ b ∈ range len, e b) :=
  div_pos (h a ha)
    (Finset.sum_pos (fun b hb => h b (Finset.mem_range.mp hb)) ⟨a, Finset.mem_range.mpr ha⟩)

theorem mixing_rowsum {R : Type} [CommSemiring R] (K H : ℕ) (v : ℕ → ℕ → R) (k : ℕ)
    (hk : k < K) :
    ∑ c ∈ range (K * H), (if c % K = k then v k (c / K) else 0) = ∑ h ∈ range H, v k h := by
  rw [Nat.mul_comm K H, sum_range_mul]
  refine Finset.sum_congr rfl fun h _ => ?_
  have e : ∀ j ∈ range K, (if (h * K + j) % K = k then v k ((h * K + j) / K) else 0)
      = if j = k then v k h else 0 := by
    intro j hj
    have hj' : j < K := Finset.mem_range.mp hj
    rw [div_of_lt_add hj', mod_of_lt_add hj']
  rw [Finset.sum_congr rfl e, Finset.sum_ite_eq' (range K) k, if_pos (Finset.mem_range.mpr hk)]

end Cirkit
