/-
  CirkitModel.Proofs.ParamsLemmas — helper lemmas for C10 / C17 / C19:
  fold-wise initialisation, Dirichlet axis / shape bookkeeping, state-dictionary round trip,
  and congruence of parameter-graph evaluation / circuit denotation in the valuation.
-/
import Mathlib.Data.List.Basic
import Mathlib.Data.List.Nodup
import Mathlib.Data.List.Count
import Mathlib.Tactic.SplitIfs
import Mathlib.Data.Int.Notation
import Mathlib.Data.List.InsertIdx
import CirkitModel.Model.Params
import CirkitModel.Model.PExpr
import CirkitModel.Model.Sym

namespace Cirkit

/-! ### C17: fold-wise initialisation -/

section Foldwise
variable {T : Type}

theorem foldwiseInit_getElem? (inits : List (T → T)) (slices : List T) (i : ℕ)
    (hi : i < inits.length) (hs : i < slices.length) :
    (foldwiseInit inits slices)[i]? = some ((inits[i]) (slices[i])) := by
  unfold foldwiseInit
  rw [List.getElem?_zipWith, List.getElem?_eq_getElem hi, List.getElem?_eq_getElem hs]

theorem foldwiseInit_length (inits : List (T → T)) (slices : List T) :
    (foldwiseInit inits slices).length = min inits.length slices.length := by
  unfold foldwiseInit
  exact List.length_zipWith

end Foldwise

/-! ### C17: Dirichlet axis and sample shape -/

/-- (holds for every `axis`; the range hypothesis of C17 is not needed) -/
theorem compiledDirichletDim_eq (axis : ℤ) (r : ℕ) :
    compiledDirichletDim axis r = declaredAxis axis r + 1 := by
  unfold compiledDirichletDim declaredAxis
  simp only
  split_ifs <;> omega

theorem moveLastTo_dirichletSampleShape (shape : List ℕ) (dim : ℕ) (h : dim < shape.length) :
    moveLastTo (dirichletSampleShape shape dim) dim = shape := by
  unfold moveLastTo dirichletSampleShape
  rw [List.getLast?_concat]
  simp only [List.dropLast_concat]
  rw [List.getD_eq_getElem?_getD, List.getElem?_eq_getElem h, Option.getD_some]
  exact List.insertIdx_eraseIdx_getElem h

/-! ### C19: state dictionary -/

section State
variable {α : Type}

/-- one step of `load_state_dict` -/
def loadStep (sd : List (String × α)) (v : ℕ → α) (e : String × ℕ) : ℕ → α :=
  match sd.find? (·.1 == e.1) with
  | some kv => fun sid => if sid = e.2 then kv.2 else v sid
  | none => v

theorem load_eq_foldl (l : StateLayout) (sd : List (String × α)) (vals : ℕ → α) :
    l.load sd vals = l.entries.foldl (loadStep sd) vals := rfl

theorem foldl_loadStep_untouched (sd : List (String × α)) (es : List (String × ℕ)) (sid : ℕ)
    (h : ∀ e ∈ es, e.2 ≠ sid) (v : ℕ → α) :
    (es.foldl (loadStep sd) v) sid = v sid := by
  induction es generalizing v with
  | nil => rfl
  | cons e es ih =>
    rw [List.foldl_cons, ih (fun e' he' => h e' (List.mem_cons_of_mem _ he'))]
    have hne : sid ≠ e.2 := fun heq => h e List.mem_cons_self heq.symm
    unfold loadStep
    cases List.find? (fun x => x.1 == e.1) sd with
    | none => rfl
    | some kv => exact if_neg hne

/-- looking up the key of a registered entry in the saved dictionary finds the value of a storage
    registered under the same key -/
theorem find_save (es : List (String × ℕ)) (vals : ℕ → α) (e : String × ℕ) (he : e ∈ es) :
    ∃ e' ∈ es, e'.1 = e.1 ∧
      (es.map fun e => (e.1, vals e.2)).find? (·.1 == e.1) = some (e'.1, vals e'.2) := by
  induction es with
  | nil => cases he
  | cons a es ih =>
    rw [List.map_cons, List.find?_cons]
    by_cases hk : a.1 = e.1
    · refine ⟨a, List.mem_cons_self, hk, ?_⟩
      simp only [hk, beq_self_eq_true]
    · have hk' : ((a.1, vals a.2).1 == e.1) = false := by
        simpa using hk
      rw [hk']
      have he' : e ∈ es := by
        rcases List.mem_cons.mp he with h | h
        · exact absurd (by rw [h]) hk
        · exact h
      obtain ⟨e', hm, hk1, hf⟩ := ih he'
      exact ⟨e', List.mem_cons_of_mem _ hm, hk1, hf⟩

theorem foldl_loadStep_saved (sd : List (String × α)) (vals : ℕ → α) (es : List (String × ℕ))
    (sid : ℕ)
    (hgood : ∀ e ∈ es, ∃ kv, sd.find? (·.1 == e.1) = some kv ∧ kv.2 = vals e.2)
    (v : ℕ → α) (h : v sid = vals sid ∨ ∃ e ∈ es, e.2 = sid) :
    (es.foldl (loadStep sd) v) sid = vals sid := by
  induction es generalizing v with
  | nil =>
    rcases h with h | ⟨e, he, _⟩
    · exact h
    · cases he
  | cons e es ih =>
    rw [List.foldl_cons]
    obtain ⟨kv, hf, hkv⟩ := hgood e List.mem_cons_self
    have hstep : loadStep sd v e = fun s => if s = e.2 then vals e.2 else v s := by
      unfold loadStep
      simp only [hf]
      rw [hkv]
    apply ih (fun e' he' => hgood e' (List.mem_cons_of_mem _ he'))
    rw [hstep]
    by_cases hs : sid = e.2
    · left
      simp only [hs, if_true]
    · rcases h with h | ⟨e', he', hse⟩
      · left
        simp only [if_neg hs, h]
      · rcases List.mem_cons.mp he' with heq | hm
        · exact absurd (by rw [← hse, heq]) hs
        · exact Or.inr ⟨e', hm, hse⟩

theorem load_save_aux (l : StateLayout) (vals vals' : ℕ → α) (sid : ℕ)
    (h : ∃ e ∈ l.entries, e.2 = sid)
    (hkeys : ∀ e₁ ∈ l.entries, ∀ e₂ ∈ l.entries, e₁.1 = e₂.1 → e₁.2 = e₂.2) :
    l.load (l.save vals) vals' sid = vals sid := by
  rw [load_eq_foldl]
  apply foldl_loadStep_saved _ vals _ sid _ _ (Or.inr h)
  intro e he
  obtain ⟨e', hm, hk, hf⟩ := find_save l.entries vals e he
  refine ⟨_, hf, ?_⟩
  show vals e'.2 = vals e.2
  rw [hkeys e' hm e he hk]

theorem load_untouched_aux (l : StateLayout) (sd : List (String × α)) (vals' : ℕ → α) (sid : ℕ)
    (h : ∀ e ∈ l.entries, e.2 ≠ sid) : l.load sd vals' sid = vals' sid := by
  rw [load_eq_foldl]
  exact foldl_loadStep_untouched sd l.entries sid h vals'

theorem save_keys (l : StateLayout) (v : ℕ → α) : (l.save v).map (·.1) = l.entries.map (·.1) := by
  unfold StateLayout.save
  rw [List.map_map]
  rfl

end State

theorem nodup_storage_iff (es : List (String × ℕ)) :
    (es.map (·.2)).Nodup ↔ ∀ sid, (es.filter (·.2 = sid)).length ≤ 1 := by
  rw [List.nodup_iff_count_le_one]
  refine forall_congr' fun sid => ?_
  have : List.count sid (es.map (·.2)) = (es.filter (·.2 = sid)).length := by
    rw [List.count, List.countP_map, List.countP_eq_length_filter]
    congr 1
  rw [this]

/-! ### C10: evaluation depends on the valuation of the leaves only -/

section Congr
variable {R : Type}

namespace PExpr
mutual
theorem eval_congr_aux (A : AOps R) (θ θ' : ℕ → Option (Array R)) (pre : R → R) :
    ∀ (e : PExpr R), (∀ p ∈ e.leaves, θ p.1 = θ' p.1) → eval A θ pre e = eval A θ' pre e
  | .tensor uid sh, h => by
    have h1 : θ uid = θ' uid := h (uid, false) (by rw [leaves]; exact List.mem_singleton_self _)
    rw [eval, eval, h1]
  | .ref uid sh, h => by
    have h1 : θ uid = θ' uid := h (uid, true) (by rw [leaves]; exact List.mem_singleton_self _)
    rw [eval, eval, h1]
  | .const sh vals, _ => by
    rw [eval, eval]
  | .app op args, h => by
    rw [leaves] at h
    rw [eval, eval, evalList_congr_aux A θ θ' pre args h]
theorem evalList_congr_aux (A : AOps R) (θ θ' : ℕ → Option (Array R)) (pre : R → R) :
    ∀ (es : List (PExpr R)), (∀ p ∈ leaves.leavesList es, θ p.1 = θ' p.1) →
      eval.evalList A θ pre es = eval.evalList A θ' pre es
  | [], _ => by
    rw [eval.evalList, eval.evalList]
  | e :: es, h => by
    rw [leaves.leavesList] at h
    rw [eval.evalList, eval.evalList,
      eval_congr_aux A θ θ' pre e (fun p hp => h p (List.mem_append_left _ hp)),
      evalList_congr_aux A θ θ' pre es (fun p hp => h p (List.mem_append_right _ hp))]
end
end PExpr

/-! `leafFun`, `denoteLayers`, `denote` -/

theorem leafFun_congr (A : AOps R) (θ θ' : ℕ → Option (Array R)) (pre : R → R) (K : LKind R)
    (h : ∀ p ∈ K.params.flatMap PExpr.leaves, θ p.1 = θ' p.1) :
    leafFun A θ pre K = leafFun A θ' pre K := by
  have hm : ∀ {K : LKind R}, (∀ p ∈ K.params.flatMap PExpr.leaves, θ p.1 = θ' p.1) →
      ∀ e ∈ K.params, PExpr.eval A θ pre e = PExpr.eval A θ' pre e := by
    intro K h e he
    exact PExpr.eval_congr_aux A θ θ' pre e
      (fun p hp => h p (List.mem_flatMap.mpr ⟨e, he, hp⟩))
  induction K with
  | embedding v k n w =>
    have := hm h w (by simp [LKind.params])
    simp only [leafFun, this]
  | categorical v k n p l =>
    cases p <;> cases l <;> simp only [leafFun]
    · rw [hm h _ (by simp [LKind.params])]
    · rw [hm h _ (by simp [LKind.params])]
  | binomial v k t p l =>
    cases p <;> cases l <;> simp only [leafFun]
    · rw [hm h _ (by simp [LKind.params])]
    · rw [hm h _ (by simp [LKind.params])]
  | gaussian v k m s lp =>
    have h1 := hm h m (by simp [LKind.params])
    have h2 := hm h s (by simp [LKind.params])
    cases lp with
    | none => simp only [leafFun, h1, h2]
    | some e =>
      have h3 := hm h e (by simp [LKind.params])
      simp only [leafFun, h1, h2, h3]
  | polynomial v k d c =>
    have := hm h c (by simp [LKind.params])
    simp only [leafFun, this]
  | constantValue k ls v =>
    have := hm h v (by simp [LKind.params])
    simp only [leafFun, this]
  | evidence inner obs ih =>
    have h1 := hm h obs (by simp [LKind.params])
    have h2 := ih (fun p hp => h p (by
      rw [LKind.params, List.flatMap_append]
      exact List.mem_append_left _ hp))
    simp only [leafFun, h1, h2]
  | sum kin kout ar w => simp only [leafFun]
  | hadamard k ar => simp only [leafFun]
  | kronecker k ar => simp only [leafFun]
theorem foldlM_congr_mem {m : Type → Type} [Monad m] {β γ : Type} (f g : β → γ → m β) (ls : List γ)
    (h : ∀ l ∈ ls, ∀ acc, f acc l = g acc l) (init : β) :
    ls.foldlM f init = ls.foldlM g init := by
  induction ls generalizing init with
  | nil => rfl
  | cons a as ih =>
    rw [List.foldlM_cons, List.foldlM_cons, h a List.mem_cons_self init]
    congr 1
    funext b
    exact ih (fun l hl => h l (List.mem_cons_of_mem _ hl)) b

theorem denoteLayers_congr (A : AOps R) (θ θ' : ℕ → Option (Array R)) (pre : R → R) (c : SCirc R)
    (h : ∀ l ∈ c.layers.toList, ∀ p ∈ l.kind.params.flatMap PExpr.leaves, θ p.1 = θ' p.1) :
    c.denoteLayers A θ pre = c.denoteLayers A θ' pre := by
  unfold SCirc.denoteLayers
  rw [← Array.foldlM_toList, ← Array.foldlM_toList]
  apply foldlM_congr_mem
  intro l hl acc
  have hl' := h l hl
  have hlf := leafFun_congr A θ θ' pre l.kind hl'
  cases hk : l.kind with
  | sum kin kout ar w =>
    have hw : PExpr.eval A θ pre w = PExpr.eval A θ' pre w :=
      PExpr.eval_congr_aux A θ θ' pre w (fun p hp => hl' p (by
        rw [hk, LKind.params]; simpa using hp))
    simp only [hw]
  | hadamard k ar => rfl
  | kronecker k ar => rfl
  | _ =>
    rw [hk] at hlf
    simp only [hlf]

theorem denote_congr_aux (A : AOps R) (θ θ' : ℕ → Option (Array R)) (pre : R → R) (c : SCirc R)
    (h : ∀ p ∈ c.leaves, θ p.1 = θ' p.1) : c.denote A θ pre = c.denote A θ' pre := by
  unfold SCirc.denote
  rw [denoteLayers_congr A θ θ' pre c
    (fun l hl p hp => h p (List.mem_flatMap.mpr ⟨l, hl, hp⟩))]

/-! ### C10: graphs made of references and constants have no tensor leaf -/

/-- true iff every leaf of the graph is a reference (`.ref`) or a constant (`.const`) -/
def PExpr.onlyRefs : PExpr R → Bool
  | .tensor _ _ => false
  | .ref _ _ => true
  | .const _ _ => true
  | .app _ args => onlyRefsList args
where
  onlyRefsList : List (PExpr R) → Bool
  | [] => true
  | e :: es => onlyRefs e && onlyRefsList es

namespace PExpr
mutual
theorem onlyRefs_leaves : ∀ (e : PExpr R), e.onlyRefs = true → ∀ p ∈ e.leaves, p.2 = true
  | .tensor _ _, h, _, _ => by
    rw [onlyRefs] at h
    cases h
  | .ref uid _, _, p, hp => by
    rw [leaves, List.mem_singleton] at hp
    rw [hp]
  | .const _ _, _, p, hp => by
    rw [leaves] at hp
    cases hp
  | .app _ args, h, p, hp => by
    rw [onlyRefs] at h
    rw [leaves] at hp
    exact onlyRefsList_leaves args h p hp
theorem onlyRefsList_leaves : ∀ (es : List (PExpr R)), onlyRefs.onlyRefsList es = true →
    ∀ p ∈ leaves.leavesList es, p.2 = true
  | [], _, p, hp => by
    rw [leaves.leavesList] at hp
    cases hp
  | e :: es, h, p, hp => by
    rw [onlyRefs.onlyRefsList, Bool.and_eq_true] at h
    rw [leaves.leavesList, List.mem_append] at hp
    rcases hp with hp | hp
    · exact onlyRefs_leaves e h.1 p hp
    · exact onlyRefsList_leaves es h.2 p hp
end
end PExpr

end Congr

end Cirkit
