/-
  CirkitModel.Proofs.ParamsLemmas — helper lemmas for C10 / C17 / C19:
  fold-wise initialisation, Dirichlet axis / shape bookkeeping, state-dictionary round trip,
  and congruence of parameter-graph evaluation / circuit denotation in the valuation.
-/
import Mathlib.Data.List.Basic
import Mathlib.Data.List.Nodup
import Mathlib.Data.List.Count
import Mathlib.Tactic
import CirkitModel.Model.Params
import CirkitModel.Model.PExpr
import CirkitModel.Model.Sym

namespace Cirkit

/-! ### C17: fold-wise initialisation -/

section Foldwise
variable {T : Type}

theorem foldwiseInit_getElem? (inits : List (T → T)) (slices : List T) (i : ℕ)
    (hi : i < inits.length) (hs : i < slices.length) :
    (foldwiseInit inits slices)[i]? = some ((inits[i]) (slices[i])) := by
  unfold foldwiseInit
  rw [List.getElem?_zipWith, List.getElem?_eq_getElem hi, List.getElem?_eq_getElem hs]

theorem foldwiseInit_length (inits : List (T → T)) (slices : List T) :
    (foldwiseInit inits slices).length = min inits.length slices.length := by
  unfold foldwiseInit
  exact List.length_zipWith

end Foldwise

/-! ### C17: Dirichlet axis and sample shape -/

theorem compiledDirichletDim_eq (axis : ℤ) (r : ℕ) (h : -(r : ℤ) ≤ axis ∧ axis < r) :
    compiledDirichletDim axis r = declaredAxis axis r + 1 := by
  unfold compiledDirichletDim declaredAxis
  simp only
  split_ifs <;> omega

theorem moveLastTo_dirichletSampleShape (shape : List ℕ) (dim : ℕ) (h : dim < shape.length) :
    moveLastTo (dirichletSampleShape shape dim) dim = shape := by
  unfold moveLastTo dirichletSampleShape
  rw [List.getLast?_concat]
  simp only [List.dropLast_concat]
  rw [List.getD_eq_getElem _ _ h]
  exact List.insertIdx_eraseIdx_getElem h

/-! ### C19: state dictionary -/

section State
variable {α : Type}

/-- one step of `load_state_dict` -/
def loadStep (sd : List (String × α)) (v : ℕ → α) (e : String × ℕ) : ℕ → α :=
  match sd.find? (·.1 == e.1) with
  | some kv => fun sid => if sid = e.2 then kv.2 else v sid
  | none => v

theorem load_eq_foldl (l : StateLayout) (sd : List (String × α)) (vals : ℕ → α) :
    l.load sd vals = l.entries.foldl (loadStep sd) vals := rfl

theorem foldl_loadStep_untouched (sd : List (String × α)) (es : List (String × ℕ)) (sid : ℕ)
    (h : ∀ e ∈ es, e.2 ≠ sid) (v : ℕ → α) :
    (es.foldl (loadStep sd) v) sid = v sid := by
  induction es generalizing v with
  | nil => rfl
  | cons e es ih =>
    rw [List.foldl_cons, ih (fun e' he' => h e' (List.mem_cons_of_mem _ he'))]
    have hne : sid ≠ e.2 := fun heq => h e List.mem_cons_self heq.symm
    unfold loadStep
    split
    · simp only [if_neg hne]
    · rfl

/-- looking up the key of a registered entry in the saved dictionary finds the value of a storage
    registered under the same key -/
theorem find_save (es : List (String × ℕ)) (vals : ℕ → α) (e : String × ℕ) (he : e ∈ es) :
    ∃ e' ∈ es, e'.1 = e.1 ∧
      (es.map fun e => (e.1, vals e.2)).find? (·.1 == e.1) = some (e'.1, vals e'.2) := by
  induction es with
  | nil => cases he
  | cons a es ih =>
    rw [List.map_cons, List.find?_cons]
    by_cases hk : a.1 = e.1
    · refine ⟨a, List.mem_cons_self, hk, ?_⟩
      simp only [hk, beq_self_eq_true]
    · have hk' : ((a.1, vals a.2).1 == e.1) = false := by
        simpa using hk
      rw [hk']
      have he' : e ∈ es := by
        rcases List.mem_cons.mp he with h | h
        · exact absurd (by rw [h]) hk
        · exact h
      obtain ⟨e', hm, hk1, hf⟩ := ih he'
      exact ⟨e', List.mem_cons_of_mem _ hm, hk1, hf⟩

theorem foldl_loadStep_saved (sd : List (String × α)) (vals : ℕ → α) (es : List (String × ℕ))
    (sid : ℕ)
    (hgood : ∀ e ∈ es, ∃ kv, sd.find? (·.1 == e.1) = some kv ∧ kv.2 = vals e.2)
    (v : ℕ → α) (h : v sid = vals sid ∨ ∃ e ∈ es, e.2 = sid) :
    (es.foldl (loadStep sd) v) sid = vals sid := by
  induction es generalizing v with
  | nil =>
    rcases h with h | ⟨e, he, _⟩
    · exact h
    · cases he
  | cons e es ih =>
    rw [List.foldl_cons]
    obtain ⟨kv, hf, hkv⟩ := hgood e List.mem_cons_self
    have hstep : loadStep sd v e = fun s => if s = e.2 then vals e.2 else v s := by
      unfold loadStep
      rw [hf, hkv]
    apply ih (fun e' he' => hgood e' (List.mem_cons_of_mem _ he'))
    rw [hstep]
    by_cases hs : sid = e.2
    · left
      simp only [if_pos hs, hs]
    · rcases h with h | ⟨e', he', hse⟩
      · left
        simp only [if_neg hs, h]
      · rcases List.mem_cons.mp he' with heq | hm
        · exact absurd (by rw [← hse, heq]) hs
        · exact Or.inr ⟨e', hm, hse⟩

theorem load_save_aux (l : StateLayout) (vals vals' : ℕ → α) (sid : ℕ)
    (h : ∃ e ∈ l.entries, e.2 = sid)
    (hkeys : ∀ e₁ ∈ l.entries, ∀ e₂ ∈ l.entries, e₁.1 = e₂.1 → e₁.2 = e₂.2) :
    l.load (l.save vals) vals' sid = vals sid := by
  rw [load_eq_foldl]
  apply foldl_loadStep_saved _ vals _ sid _ _ (Or.inr h)
  intro e he
  obtain ⟨e', hm, hk, hf⟩ := find_save l.entries vals e he
  refine ⟨_, hf, ?_⟩
  show vals e'.2 = vals e.2
  rw [hkeys e' hm e he hk]

theorem load_untouched_aux (l : StateLayout) (sd : List (String × α)) (vals' : ℕ → α) (sid : ℕ)
    (h : ∀ e ∈ l.entries, e.2 ≠ sid) : l.load sd vals' sid = vals' sid := by
  rw [load_eq_foldl]
  exact foldl_loadStep_untouched sd l.entries sid h vals'

theorem save_keys (l : StateLayout) (v : ℕ → α) : (l.save v).map (·.1) = l.entries.map (·.1) := by
  unfold StateLayout.save
  rw [List.map_map]
  rfl

end State

theorem nodup_storage_iff (es : List (String × ℕ)) :
    (es.map (·.2)).Nodup ↔ ∀ sid, (es.filter (·.2 = sid)).length ≤ 1 := by
  rw [List.nodup_iff_count_le_one]
  refine forall_congr' fun sid => ?_
  have : List.count sid (es.map (·.2)) = (es.filter (·.2 = sid)).length := by
    rw [List.count, List.countP_map, List.countP_eq_length_filter]
    congr 1
    apply List.filter_congr
    intro e _
    simp only [Function.comp, beq_iff_eq, decide_eq_true_eq]
    by_cases h : e.2 = sid <;> simp [h]
  rw [this]

end Cirkit
