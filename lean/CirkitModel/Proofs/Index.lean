/-
  CirkitModel.Proofs.Index — re-indexing of sums over products of ranges (row-major flattening).
-/
import Mathlib.Algebra.BigOperators.Ring.Finset
import Mathlib.Algebra.BigOperators.Fin
import Mathlib.Logic.Equiv.Fin.Basic
import Mathlib.Tactic.Ring

open Finset

namespace Cirkit
variable {R : Type} [CommSemiring R]

theorem sum_fin_mul (a b : ℕ) (f : ℕ → R) :
    ∑ c : Fin (a * b), f c.val = ∑ i : Fin a, ∑ j : Fin b, f (i.val * b + j.val) := by
  rw [← Fintype.sum_prod_type']
  refine (Fintype.sum_equiv finProdFinEquiv _ _ (fun p => ?_)).symm
  rcases p with ⟨i, j⟩
  simp [finProdFinEquiv, Nat.mul_comm, Nat.add_comm]

/-- `Σ_{c < a·b} f c = Σ_{i<a} Σ_{j<b} f (i·b + j)` -/
theorem sum_range_mul (a b : ℕ) (f : ℕ → R) :
    ∑ c ∈ range (a * b), f c = ∑ i ∈ range a, ∑ j ∈ range b, f (i * b + j) := by
  rw [Finset.sum_range, sum_fin_mul, Finset.sum_range]
  refine Finset.sum_congr rfl (fun i _ => ?_)
  rw [Finset.sum_range]

theorem div_of_lt_add {i b j : ℕ} (hj : j < b) : (i * b + j) / b = i := by
  rw [Nat.mul_comm, Nat.mul_add_div (by omega), Nat.div_eq_of_lt hj, Nat.add_zero]

theorem mod_of_lt_add {i b j : ℕ} (hj : j < b) : (i * b + j) % b = j := by
  rw [Nat.mul_comm, Nat.mul_add_mod, Nat.mod_eq_of_lt hj]

/-- the sum×sum product rule with the column layout `(h1,h2,i1,i2)` the product sum layer reads -/
theorem sum_sum_rule (ar1 ar2 k1 k2 : ℕ) (W1 W2 : ℕ → R) (e1 : ℕ → ℕ → R) (e2 : ℕ → ℕ → R) :
    (∑ h ∈ range (ar1 * ar2), ∑ j ∈ range (k1 * k2),
        (W1 ((h / ar2) * k1 + j / k2) * W2 ((h % ar2) * k2 + j % k2))
          * (e1 (h / ar2) (j / k2) * e2 (h % ar2) (j % k2)))
      = (∑ h1 ∈ range ar1, ∑ j1 ∈ range k1, W1 (h1 * k1 + j1) * e1 h1 j1)
        * (∑ h2 ∈ range ar2, ∑ j2 ∈ range k2, W2 (h2 * k2 + j2) * e2 h2 j2) := by
  rw [sum_range_mul]
  simp_rw [sum_range_mul k1 k2]
  rw [Finset.sum_mul_sum]
  refine Finset.sum_congr rfl (fun h1 _ => Finset.sum_congr rfl (fun h2 hh2 => ?_))
  have hh2' : h2 < ar2 := Finset.mem_range.mp hh2
  rw [div_of_lt_add hh2', mod_of_lt_add hh2', Finset.sum_mul_sum]
  refine Finset.sum_congr rfl (fun j1 _ => Finset.sum_congr rfl (fun j2 hj2 => ?_))
  have hj2' : j2 < k2 := Finset.mem_range.mp hj2
  rw [div_of_lt_add hj2', mod_of_lt_add hj2']
  ring

end Cirkit
