/-
  CirkitModel.Proofs.Diff — lemmas behind C05 (`differentiate`): scopes as strictly increasing
  lists, executable scope membership, polynomial-input circuits (`Node.PolyCircuit`), iterated
  partial derivatives of the denoted polynomial, the coefficient rule of
  `PolynomialDifferential`, and evaluation commuting with ring homomorphisms.
-/
import Mathlib.Algebra.MvPolynomial.PDeriv
import Mathlib.Algebra.MvPolynomial.Variables
import Mathlib.Algebra.Polynomial.Derivative
import Mathlib.Algebra.Polynomial.Coeff
import Mathlib.Algebra.BigOperators.Ring.Finset
import Mathlib.Algebra.BigOperators.Fin
import Mathlib.Data.Nat.Factorial.Basic
import Mathlib.Tactic.Ring
import CirkitModel.Model.Diff
import CirkitModel.Model.Torch
import CirkitModel.Proofs.Bridge
import CirkitModel.Proofs.Operators

open Finset

namespace Cirkit

/-! ### scopes: `Scope.insert` / `Scope.ofList` -/

namespace Scope

theorem mem_insert (v x : ℕ) (l : Scope) : x ∈ Scope.insert v l ↔ (x = v ∨ x ∈ l) := by
  induction l with
  | nil => simp only [Scope.insert, List.mem_singleton, List.not_mem_nil, or_false]
  | cons a as ih =>
    unfold Scope.insert
    by_cases h1 : v < a
    · simp only [if_pos h1, List.mem_cons]
    · by_cases h2 : v = a
      · subst h2
        simp only [if_neg h1, if_true, List.mem_cons]
        constructor
        · exact Or.inr
        · rintro (h | h)
          · exact Or.inl h
          · exact h
      · simp only [if_neg h1, if_neg h2, List.mem_cons, ih]
        constructor
        · rintro (h | h | h)
          · exact Or.inr (Or.inl h)
          · exact Or.inl h
          · exact Or.inr (Or.inr h)
        · rintro (h | h | h)
          · exact Or.inr (Or.inl h)
          · exact Or.inl h
          · exact Or.inr (Or.inr h)

theorem insert_pairwise (v : ℕ) (l : Scope) (hl : l.Pairwise (· < ·)) :
    (Scope.insert v l).Pairwise (· < ·) := by
  induction l with
  | nil => simp only [Scope.insert, List.pairwise_cons, List.not_mem_nil, false_imp_iff,
      implies_true, List.Pairwise.nil, and_self]
  | cons a as ih =>
    rw [List.pairwise_cons] at hl
    unfold Scope.insert
    by_cases h1 : v < a
    · rw [if_pos h1]
      refine List.pairwise_cons.mpr ⟨fun x hx => ?_, List.pairwise_cons.mpr hl⟩
      rcases List.mem_cons.mp hx with rfl | hx
      · exact h1
      · exact Nat.lt_trans h1 (hl.1 x hx)
    · rw [if_neg h1]
      by_cases h2 : v = a
      · rw [if_pos h2]; exact List.pairwise_cons.mpr hl
      · rw [if_neg h2]
        refine List.pairwise_cons.mpr ⟨fun x hx => ?_, ih hl.2⟩
        rcases (mem_insert v x as).mp hx with rfl | hx
        · omega
        · exact hl.1 x hx

theorem ofList_pairwise (l : List ℕ) : (Scope.ofList l).Pairwise (· < ·) := by
  induction l with
  | nil => exact List.Pairwise.nil
  | cons a as ih => exact insert_pairwise a _ ih

theorem mem_ofList (l : List ℕ) (x : ℕ) : x ∈ Scope.ofList l ↔ x ∈ l := by
  induction l with
  | nil => exact Iff.rfl
  | cons a as ih =>
    show x ∈ Scope.insert a (Scope.ofList as) ↔ _
    rw [mem_insert, ih, List.mem_cons]

end Scope

/-! ### executable scope membership -/

section Structural
variable {R V : Type}

namespace Node

theorem mem_vars (n : Node R V) (v : ℕ) : v ∈ n.vars ↔ Node.Mem v n := by
  induction n with
  | leaf v' k f => simp only [vars, List.mem_singleton, Mem]
  | const k c => simp only [vars, List.not_mem_nil, Mem]
  | sum ar kin kout W ch ih =>
    simp only [vars, Mem, List.mem_flatten, List.mem_ofFn]
    constructor
    · rintro ⟨l, ⟨h, rfl⟩, hv⟩; exact ⟨h, (ih h).mp hv⟩
    · rintro ⟨h, hv⟩; exact ⟨_, ⟨h, rfl⟩, (ih h).mpr hv⟩
  | had ar k ch ih =>
    simp only [vars, Mem, List.mem_flatten, List.mem_ofFn]
    constructor
    · rintro ⟨l, ⟨h, rfl⟩, hv⟩; exact ⟨h, (ih h).mp hv⟩
    · rintro ⟨h, hv⟩; exact ⟨_, ⟨h, rfl⟩, (ih h).mpr hv⟩
  | kron ar k ch ih =>
    simp only [vars, Mem, List.mem_flatten, List.mem_ofFn]
    constructor
    · rintro ⟨l, ⟨h, rfl⟩, hv⟩; exact ⟨h, (ih h).mp hv⟩
    · rintro ⟨h, hv⟩; exact ⟨_, ⟨h, rfl⟩, (ih h).mpr hv⟩

theorem hasVar_iff (n : Node R V) (v : ℕ) : n.hasVar v = true ↔ Node.Mem v n := by
  unfold hasVar
  rw [List.contains_iff_mem, mem_vars]

theorem hasVar_eq_false (n : Node R V) (v : ℕ) (h : ¬ Node.Mem v n) : n.hasVar v = false := by
  cases hh : n.hasVar v
  · rfl
  · exact absurd ((hasVar_iff n v).mp hh) h

theorem scopeL_mem (n : Node R V) (v : ℕ) : v ∈ n.scopeL ↔ Node.Mem v n := by
  unfold scopeL
  rw [Scope.mem_ofList, mem_vars]

theorem scopeL_pairwise (n : Node R V) : n.scopeL.Pairwise (· < ·) :=
  Scope.ofList_pairwise _

theorem diffOutputs_length (D : ℕ → (V → R) → (V → R)) (n : Node R V) :
    (n.diffOutputs D).length = n.scopeL.length + 1 := by
  simp only [diffOutputs, List.length_append, List.length_map, List.length_singleton]

theorem diffOutputs_get (D : ℕ → (V → R) → (V → R)) (n : Node R V) (j : ℕ)
    (hj : j < n.scopeL.length) :
    (n.diffOutputs D)[j]? = some (n.diff1 (n.scopeL[j]) (D (n.scopeL[j]))) := by
  unfold diffOutputs
  rw [List.getElem?_append_left (by rw [List.length_map]; exact hj), List.getElem?_map,
    List.getElem?_eq_getElem hj]
  rfl

theorem diffOutputs_last (D : ℕ → (V → R) → (V → R)) (n : Node R V) :
    (n.diffOutputs D)[n.scopeL.length]? = some n := by
  unfold diffOutputs
  rw [List.getElem?_append_right (by rw [List.length_map]), List.length_map,
    Nat.sub_self]
  rfl

end Node
end Structural

/-! ### evaluation commutes with ring homomorphisms -/

section RingHom
variable {R R' V : Type} [CommSemiring R] [CommSemiring R']

theorem Node.eval_ringHom (φ : R →+* R') (n : Node R V) (x : ℕ → V) (i : ℕ) :
    φ (n.eval (Ops.ofCommSemiring R) x i)
      = (n.mapVals φ).eval (Ops.ofCommSemiring R') x i := by
  induction n generalizing i with
  | leaf v k f => rfl
  | const k c => rfl
  | sum ar kin kout W ch ih =>
    simp only [Node.mapVals, Node.eval_sum', map_sum, map_mul, ih]
  | had ar k ch ih =>
    simp only [Node.mapVals, Node.eval_had', map_prod, ih]
  | kron ar k ch ih =>
    simp only [Node.mapVals, Node.eval_kron', map_prod, ih]

end RingHom

/-! ### the coefficient rule of `PolynomialDifferential` -/

theorem foldl_descFactorial (m k : ℕ) :
    (List.range k).foldl (fun acc i => acc * (m - i)) 1 = m.descFactorial k := by
  induction k with
  | zero => rfl
  | succ k ih =>
    rw [List.range_succ, List.foldl_append, ih, Nat.descFactorial_succ, Nat.mul_comm]
    rfl

theorem polyDiffCoeff_eq (k n : ℕ) : polyDiffCoeff k n = (n + k).descFactorial k :=
  foldl_descFactorial (n + k) k

theorem polyDiff_rule {S : Type} [CommSemiring S] (a : ℕ → S) (d k n : ℕ) :
    ((Polynomial.derivative)^[k]
        (∑ m ∈ Finset.range d, Polynomial.C (a m) * Polynomial.X ^ m)).coeff n
      = if n + k < d then (polyDiffCoeff k n : S) * a (n + k) else 0 := by
  rw [Polynomial.coeff_iterate_derivative, Polynomial.finsetSum_coeff, polyDiffCoeff_eq,
    nsmul_eq_mul]
  simp only [Polynomial.coeff_C_mul_X_pow, Finset.sum_ite_eq, Finset.mem_range]
  split_ifs
  · rfl
  · exact mul_zero _

/-! ### polynomial-input circuits -/

section Poly
variable {S : Type} [CommSemiring S]

open MvPolynomial

/-- every input layer over v' denotes polynomials in the single variable v'; sum weights are
    constants -/
def Node.PolyCircuit : Node (MvPolynomial ℕ S) Unit → Prop
  | .leaf v' _ f => ∀ i a, (f i a).vars ⊆ {v'}
  | .const _ c => ∀ i, (c i).vars = ∅
  | .sum _ _ _ W ch => (∀ i c, (W i c).vars = ∅) ∧ ∀ h, (ch h).PolyCircuit
  | .had _ _ ch => ∀ h, (ch h).PolyCircuit
  | .kron _ _ ch => ∀ h, (ch h).PolyCircuit

theorem iter_pderiv_mul_of_notMem (v : ℕ) (f g : MvPolynomial ℕ S) (hv : v ∉ g.vars) (k : ℕ) :
    (pderiv v)^[k] (f * g) = (pderiv v)^[k] f * g := by
  induction k generalizing f with
  | zero => rfl
  | succ k ih =>
    rw [Function.iterate_succ_apply, Function.iterate_succ_apply, pderiv_mul,
      pderiv_eq_zero_of_notMem_vars hv, mul_zero, add_zero, ih]

theorem iter_pderiv_const_mul (v : ℕ) (g f : MvPolynomial ℕ S) (hv : v ∉ g.vars) (k : ℕ) :
    (pderiv v)^[k] (g * f) = g * (pderiv v)^[k] f := by
  rw [mul_comm, iter_pderiv_mul_of_notMem v f g hv, mul_comm]

theorem iter_pderiv_sum {ι : Type} (v : ℕ) (s : Finset ι) (f : ι → MvPolynomial ℕ S) (k : ℕ) :
    (pderiv v)^[k] (∑ i ∈ s, f i) = ∑ i ∈ s, (pderiv v)^[k] (f i) := by
  induction k generalizing f with
  | zero => rfl
  | succ k ih =>
    simp only [Function.iterate_succ_apply, map_sum, ih]

namespace Node

/-- the denoted polynomial only mentions variables of the scope -/
theorem eval_vars_subset (n : Node (MvPolynomial ℕ S) Unit) (hp : n.PolyCircuit)
    (x : ℕ → Unit) (i : ℕ) (v : ℕ) :
    v ∈ (n.eval (Ops.ofCommSemiring (MvPolynomial ℕ S)) x i).vars → Node.Mem v n := by
  induction n generalizing i with
  | leaf v' k f =>
    intro hv
    exact Finset.mem_singleton.mp (hp i (x v') hv)
  | const k c =>
    intro hv
    simp only [Node.eval, hp i, Finset.notMem_empty] at hv
  | sum ar kin kout W ch ih =>
    intro hv
    rw [eval_sum'] at hv
    have h1 := vars_sum_subset _ _ hv
    obtain ⟨h, -, h1⟩ := Finset.mem_biUnion.mp h1
    have h2 := vars_sum_subset _ _ h1
    obtain ⟨j, -, h2⟩ := Finset.mem_biUnion.mp h2
    have h3 := vars_mul _ _ h2
    rw [hp.1, Finset.empty_union] at h3
    exact ⟨h, ih h (hp.2 h) j h3⟩
  | had ar k ch ih =>
    intro hv
    rw [eval_had'] at hv
    obtain ⟨h, -, h1⟩ := Finset.mem_biUnion.mp (vars_prod _ hv)
    exact ⟨h, ih h (hp h) _ h1⟩
  | kron ar k ch ih =>
    intro hv
    rw [eval_kron'] at hv
    obtain ⟨h, -, h1⟩ := Finset.mem_biUnion.mp (vars_prod _ hv)
    exact ⟨h, ih h (hp h) _ h1⟩

/-- core step for product layers: exactly one input mentions `v` -/
theorem diff1_prod_step {ar : ℕ} (ch : Fin ar → Node (MvPolynomial ℕ S) Unit) (v k : ℕ)
    (idx : Fin ar → ℕ) (x : ℕ → Unit)
    (hp : ∀ h, (ch h).PolyCircuit)
    (hdis : ∀ h h' v, h ≠ h' → Mem v (ch h) → ¬ Mem v (ch h'))
    (h0 : Fin ar) (hv : Mem v (ch h0))
    (ih : ∀ i, ((ch h0).diff1 v (fun g a => (pderiv v)^[k] (g a))).eval
        (Ops.ofCommSemiring (MvPolynomial ℕ S)) x i
      = (pderiv v)^[k] ((ch h0).eval (Ops.ofCommSemiring (MvPolynomial ℕ S)) x i)) :
    ∏ h, (if (ch h).hasVar v then (ch h).diff1 v (fun g a => (pderiv v)^[k] (g a))
        else ch h).eval (Ops.ofCommSemiring (MvPolynomial ℕ S)) x (idx h)
      = (pderiv v)^[k] (∏ h, (ch h).eval (Ops.ofCommSemiring (MvPolynomial ℕ S)) x (idx h)) := by
  have hnot : ∀ h, h ≠ h0 → ¬ Mem v (ch h) := fun h hne hmem => hdis h h0 v hne hmem hv
  have hvars : v ∉ (∏ h ∈ univ.erase h0,
      (ch h).eval (Ops.ofCommSemiring (MvPolynomial ℕ S)) x (idx h)).vars := by
    intro hm
    obtain ⟨h, hh, h1⟩ := Finset.mem_biUnion.mp (vars_prod _ hm)
    exact hnot h (Finset.mem_erase.mp hh).1 (eval_vars_subset _ (hp h) x _ v h1)
  rw [← Finset.mul_prod_erase univ
      (fun h => (ch h).eval (Ops.ofCommSemiring (MvPolynomial ℕ S)) x (idx h)) (mem_univ h0),
    iter_pderiv_mul_of_notMem v _ _ hvars, ← ih,
    ← Finset.mul_prod_erase univ _ (mem_univ h0)]
  congr 1
  · rw [if_pos ((hasVar_iff _ _).mpr hv)]
  · refine Finset.prod_congr rfl fun h hh => ?_
    rw [hasVar_eq_false _ _ (hnot h (Finset.mem_erase.mp hh).1)]
    rfl

theorem diff1_correct (n : Node (MvPolynomial ℕ S) Unit) (v k : ℕ) (hp : n.PolyCircuit)
    (hmem : Node.Mem v n) (hs : n.Smooth) (hd : n.Decomp) (x : ℕ → Unit) (i : ℕ) :
    (n.diff1 v (fun g a => (pderiv v)^[k] (g a))).eval
        (Ops.ofCommSemiring (MvPolynomial ℕ S)) x i
      = (pderiv v)^[k] (n.eval (Ops.ofCommSemiring (MvPolynomial ℕ S)) x i) := by
  induction n generalizing i with
  | leaf v' kk f => rfl
  | const kk c => exact absurd hmem (by simp only [Mem, not_false_eq_true])
  | sum ar kin kout W ch ih =>
    obtain ⟨h0, hv0⟩ := hmem
    obtain ⟨hsm, hsc⟩ := hs
    have hall : ∀ h, Mem v (ch h) := fun h => (hsc h h0 v).mpr hv0
    simp only [diff1, eval_sum']
    rw [iter_pderiv_sum]
    refine Finset.sum_congr rfl fun h _ => ?_
    rw [iter_pderiv_sum]
    refine Finset.sum_congr rfl fun j _ => ?_
    rw [iter_pderiv_const_mul v _ _ (by rw [hp.1]; exact Finset.notMem_empty v),
      ih h (hp.2 h) (hall h) (hsm h) (hd h) j]
  | had ar kk ch ih =>
    obtain ⟨h0, hv0⟩ := hmem
    simp only [diff1, eval_had']
    exact diff1_prod_step ch v k (fun _ => i) x hp hd.2 h0 hv0
      (fun j => ih h0 (hp h0) hv0 (hs h0) (hd.1 h0) j)
  | kron ar kk ch ih =>
    obtain ⟨h0, hv0⟩ := hmem
    simp only [diff1, eval_kron']
    exact diff1_prod_step ch v k (fun h => digit kk ar h.val i) x hp hd.2 h0 hv0
      (fun j => ih h0 (hp h0) hv0 (hs h0) (hd.1 h0) j)

end Node
end Poly

/-! ### non-vacuity: a concrete polynomial circuit -/

section Example
open MvPolynomial

/-- `X₁² ⊙ 3·X₈`: a Hadamard layer over two input layers (variables 1 and 8), one unit each -/
noncomputable def exampleNode : Node (MvPolynomial ℕ ℚ) Unit :=
  .had 2 1 fun h =>
    if h.val = 0 then .leaf 1 1 (fun _ _ => X 1 ^ 2) else .leaf 8 1 (fun _ _ => 3 * X 8)

theorem exampleNode_polyCircuit : exampleNode.PolyCircuit := by
  intro h
  by_cases h0 : h.val = 0
  · simp only [h0, if_true, Node.PolyCircuit]
    intro _ _
    exact (vars_pow _ _).trans (by rw [vars_X])
  · simp only [h0, if_false, Node.PolyCircuit]
    intro _ _
    refine (vars_mul _ _).trans ?_
    rw [← map_ofNat (C : ℚ →+* MvPolynomial ℕ ℚ) 3, vars_C, Finset.empty_union]
    rw [vars_X]

theorem exampleNode_smooth : exampleNode.Smooth := by
  intro h
  by_cases h0 : h.val = 0 <;> simp only [h0, if_true, if_false, Node.Smooth]

theorem exampleNode_decomp : exampleNode.Decomp := by
  refine ⟨fun h => ?_, fun h h' v hne => ?_⟩
  · by_cases h0 : h.val = 0 <;> simp only [h0, if_true, if_false, Node.Decomp]
  · by_cases h0 : h.val = 0 <;> by_cases h0' : h'.val = 0 <;>
      simp only [h0, h0', if_true, if_false, Node.Mem]
    · exact absurd (Fin.ext (h0.trans h0'.symm)) hne
    · omega
    · omega
    · exact absurd (Fin.ext (by omega)) hne

theorem exampleNode_mem : Node.Mem 8 exampleNode :=
  ⟨1, rfl⟩

end Example

end Cirkit
