/-
  CirkitModel.Proofs.Struct — lemmas behind the structural predicates (C08): pairs of a list,
  scope disjointness, the canonical order on scopes (`Scope.lexLe` is the lexicographic order on
  `List ℕ`, so `Scope.sortScopes` is an insertion sort by a linear order), and the invariants of the
  fold that computes `SCirc.scopeFactorizations` (keys stay unique, recorded factorizations are
  never dropped).
-/
import Mathlib.Data.List.Basic
import Mathlib.Data.List.Sort
import Mathlib.Data.List.Lex
import Mathlib.Data.List.Perm.Basic
import CirkitModel.Model.Sym

namespace Cirkit

/-! ### pairs -/

theorem SCirc.mem_pairs {α : Type} (l : List α) (a b : α) :
    (a, b) ∈ SCirc.pairs l ↔ ∃ i j : Nat, i < j ∧ l[i]? = some a ∧ l[j]? = some b := by
  induction l with
  | nil => simp [SCirc.pairs]
  | cons x xs ih =>
    simp only [SCirc.pairs, List.mem_append, List.mem_map, Prod.mk.injEq, ih]
    constructor
    · rintro (⟨b', hb', rfl, rfl⟩ | ⟨i, j, hij, hi, hj⟩)
      · obtain ⟨j, hj⟩ := List.getElem?_of_mem hb'
        exact ⟨0, j + 1, Nat.succ_pos j, rfl, by simpa using hj⟩
      · exact ⟨i + 1, j + 1, Nat.succ_lt_succ hij, by simpa using hi, by simpa using hj⟩
    · rintro ⟨i, j, hij, hi, hj⟩
      obtain ⟨j, rfl⟩ : ∃ j', j = j' + 1 := ⟨j - 1, by omega⟩
      simp only [List.getElem?_cons_succ] at hj
      cases i with
      | zero =>
        simp only [List.getElem?_cons_zero, Option.some.injEq] at hi
        exact Or.inl ⟨b, List.mem_of_getElem? hj, hi, rfl⟩
      | succ i =>
        simp only [List.getElem?_cons_succ] at hi
        exact Or.inr ⟨i, j, Nat.lt_of_succ_lt_succ hij, hi, hj⟩

/-! ### scopes -/

namespace Scope

theorem disjoint_iff (a b : Scope) : Scope.disjoint a b = true ↔ ∀ v ∈ a, v ∉ b := by
  simp [Scope.disjoint]

theorem subset_iff (a b : Scope) : Scope.subset a b = true ↔ ∀ v ∈ a, v ∈ b := by
  simp [Scope.subset]

/-- `lexLt` is the lexicographic order of `List ℕ` -/
theorem lexLt_iff (a b : Scope) : lexLt a b = true ↔ a < b := by
  induction a generalizing b with
  | nil => cases b <;> simp [lexLt]
  | cons x xs ih =>
    cases b with
    | nil => simp [lexLt]
    | cons y ys =>
      simp only [lexLt, List.cons_lt_cons_iff]
      by_cases h1 : x < y
      · simp [h1]
      · by_cases h2 : y < x
        · have h3 : ¬ x = y := by omega
          simp [h1, h2, h3]
        · have : x = y := by omega
          subst this
          simp [ih]

theorem lexLe_iff (a b : Scope) : lexLe a b = true ↔ a ≤ b := by
  unfold lexLe
  rw [Bool.not_eq_true', ← Bool.not_eq_true, lexLt_iff, not_lt]

theorem lexLe_total (a b : Scope) : lexLe a b = true ∨ lexLe b a = true := by
  simp only [lexLe_iff]; exact le_total a b

theorem lexLe_antisymm (a b : Scope) (h1 : lexLe a b = true) (h2 : lexLe b a = true) : a = b := by
  rw [lexLe_iff] at h1 h2; exact le_antisymm h1 h2

theorem lexLe_trans (a b c : Scope) (h1 : lexLe a b = true) (h2 : lexLe b c = true) :
    lexLe a c = true := by
  rw [lexLe_iff] at *; exact le_trans h1 h2

theorem ins_eq (s : Scope) (l : List Scope) :
    sortScopes.ins s l = List.orderedInsert (· ≤ ·) s l := by
  induction l with
  | nil => rfl
  | cons t ts ih =>
    simp only [sortScopes.ins, List.orderedInsert_cons, ih, lexLe_iff]

/-- `sortScopes` is insertion sort by the lexicographic order -/
theorem sortScopes_eq (l : List Scope) : sortScopes l = List.insertionSort (· ≤ ·) l := by
  induction l with
  | nil => rfl
  | cons s l ih =>
    rw [List.insertionSort_cons, ← ih, ← ins_eq]
    rfl

theorem sortScopes_perm_self (l : List Scope) : (sortScopes l).Perm l := by
  rw [sortScopes_eq]; exact List.perm_insertionSort _ l

theorem sortScopes_sorted (l : List Scope) : (sortScopes l).Pairwise (· ≤ ·) := by
  rw [sortScopes_eq]; exact List.pairwise_insertionSort _ l

theorem mem_sortScopes (l : List Scope) (s : Scope) : s ∈ sortScopes l ↔ s ∈ l :=
  (sortScopes_perm_self l).mem_iff

/-- the result of `sortScopes` depends only on the multiset of its input -/
theorem sortScopes_perm' (l l' : List Scope) (h : l.Perm l') : sortScopes l = sortScopes l' :=
  List.Perm.eq_of_pairwise (fun _ _ _ _ => le_antisymm) (sortScopes_sorted l) (sortScopes_sorted l')
    (((sortScopes_perm_self l).trans h).trans (sortScopes_perm_self l').symm)

end Scope

/-! ### the fold of `scopeFactorizations` -/

namespace SCirc
variable {R : Type}

/-- the sorted non-empty sub-scopes of a product layer -/
def factors (c : SCirc R) (l : SLayer R) : List Scope :=
  (Scope.sortScopes (l.ins.map fun i => c.scopes.getD i [])).filter (fun s => !s.isEmpty)

/-- record factorization `fs` under scope `s` -/
def addFact (acc : List (Scope × List (List Scope))) (s : Scope) (fs : List Scope) :
    List (Scope × List (List Scope)) :=
  match acc.find? (·.1 == s) with
  | some (_, set) =>
      if set.contains fs then acc
      else acc.map fun (s', set') => if s' == s then (s', set' ++ [fs]) else (s', set')
  | none => acc ++ [(s, [fs])]

/-- one step of the fold -/
def factStep (c : SCirc R) (acc : List (Scope × List (List Scope))) (p : Nat) :
    List (Scope × List (List Scope)) :=
  match c.layers[p]? with
  | some l =>
      if l.kind.isProduct then
        if (c.factors l).length > 1 then addFact acc (c.scopes.getD p []) (c.factors l) else acc
      else acc
  | none => acc

theorem scopeFactorizations_eq (c : SCirc R) :
    c.scopeFactorizations = (List.range c.layers.size).foldl c.factStep [] := rfl

private theorem addFact_map_keys (acc : List (Scope × List (List Scope))) (s : Scope)
    (fs : List Scope) :
    (acc.map fun (x : Scope × List (List Scope)) =>
        match x with
        | (s', set') => if s' == s then (s', set' ++ [fs]) else (s', set')).map (·.1)
      = acc.map (·.1) := by
  rw [List.map_map]
  refine List.map_congr_left (fun x _ => ?_)
  rcases x with ⟨s', set'⟩
  simp only [Function.comp]
  split <;> rfl

theorem addFact_keys_nodup (acc : List (Scope × List (List Scope))) (s : Scope) (fs : List Scope)
    (h : (acc.map (·.1)).Nodup) : ((addFact acc s fs).map (·.1)).Nodup := by
  unfold addFact
  split
  · split
    · exact h
    · rw [addFact_map_keys]; exact h
  · rename_i hnone
    rw [List.map_append, List.nodup_append]
    refine ⟨h, List.nodup_singleton _, ?_⟩
    intro a ha b hb
    simp only [List.map_cons, List.map_nil, List.mem_singleton] at hb
    subst hb
    obtain ⟨x, hx, rfl⟩ := List.mem_map.1 ha
    have := List.find?_eq_none.1 hnone x hx
    intro heq
    exact this (by simp [heq])

theorem addFact_mono (acc : List (Scope × List (List Scope))) (s : Scope) (fs : List Scope)
    (k : Scope) (set : List (List Scope)) (f : List Scope) (hk : (k, set) ∈ acc) (hf : f ∈ set) :
    ∃ set', (k, set') ∈ addFact acc s fs ∧ f ∈ set' := by
  unfold addFact
  split
  · split
    · exact ⟨set, hk, hf⟩
    · by_cases hks : (k == s) = true
      · refine ⟨set ++ [fs], List.mem_map.2 ⟨(k, set), hk, ?_⟩, List.mem_append_left _ hf⟩
        simp only [hks, if_true]
      · refine ⟨set, List.mem_map.2 ⟨(k, set), hk, ?_⟩, hf⟩
        simp only [hks, if_false, Bool.false_eq_true]
  · exact ⟨set, List.mem_append_left _ hk, hf⟩

theorem addFact_adds (acc : List (Scope × List (List Scope))) (s : Scope) (fs : List Scope) :
    ∃ set, (s, set) ∈ addFact acc s fs ∧ fs ∈ set := by
  unfold addFact
  split
  · rename_i k set hfind
    have hmem := List.mem_of_find?_eq_some hfind
    have hks : (k == s) = true := by simpa using List.find?_some hfind
    have hk : k = s := by simpa using hks
    subst hk
    split
    · rename_i hc
      exact ⟨set, hmem, by simpa using hc⟩
    · refine ⟨set ++ [fs], List.mem_map.2 ⟨(k, set), hmem, ?_⟩, by simp⟩
      simp only [hks, if_true]
  · exact ⟨[fs], by simp, by simp⟩

theorem factStep_keys_nodup (c : SCirc R) (acc : List (Scope × List (List Scope))) (p : Nat)
    (h : (acc.map (·.1)).Nodup) : ((c.factStep acc p).map (·.1)).Nodup := by
  unfold factStep
  split
  · split
    · split
      · exact addFact_keys_nodup _ _ _ h
      · exact h
    · exact h
  · exact h

theorem factStep_mono (c : SCirc R) (acc : List (Scope × List (List Scope))) (p : Nat)
    (k : Scope) (set : List (List Scope)) (f : List Scope) (hk : (k, set) ∈ acc) (hf : f ∈ set) :
    ∃ set', (k, set') ∈ c.factStep acc p ∧ f ∈ set' := by
  unfold factStep
  split
  · split
    · split
      · exact addFact_mono _ _ _ k set f hk hf
      · exact ⟨set, hk, hf⟩
    · exact ⟨set, hk, hf⟩
  · exact ⟨set, hk, hf⟩

theorem foldl_factStep_keys_nodup (c : SCirc R) (ps : List Nat)
    (acc : List (Scope × List (List Scope))) (h : (acc.map (·.1)).Nodup) :
    ((ps.foldl c.factStep acc).map (·.1)).Nodup := by
  induction ps generalizing acc with
  | nil => exact h
  | cons p ps ih => exact ih _ (factStep_keys_nodup c acc p h)

theorem foldl_factStep_mono (c : SCirc R) (ps : List Nat)
    (acc : List (Scope × List (List Scope)))
    (k : Scope) (set : List (List Scope)) (f : List Scope) (hk : (k, set) ∈ acc) (hf : f ∈ set) :
    ∃ set', (k, set') ∈ ps.foldl c.factStep acc ∧ f ∈ set' := by
  induction ps generalizing acc set with
  | nil => exact ⟨set, hk, hf⟩
  | cons p ps ih =>
    obtain ⟨set', hk', hf'⟩ := factStep_mono c acc p k set f hk hf
    exact ih _ set' hk' hf'

theorem foldl_factStep_complete (c : SCirc R) (ps : List Nat)
    (acc : List (Scope × List (List Scope))) (p : Nat) (l : SLayer R) (hp : p ∈ ps)
    (hl : c.layers[p]? = some l) (hprod : l.kind.isProduct = true)
    (h2 : 1 < (c.factors l).length) :
    ∃ set, (c.scopes.getD p [], set) ∈ ps.foldl c.factStep acc ∧ c.factors l ∈ set := by
  induction ps generalizing acc with
  | nil => exact absurd hp (List.not_mem_nil)
  | cons q ps ih =>
    rcases List.mem_cons.1 hp with rfl | hp'
    · have hstep : c.factStep acc p = addFact acc (c.scopes.getD p []) (c.factors l) := by
        unfold factStep
        rw [hl]
        simp only [hprod, if_true, gt_iff_lt, h2]
      obtain ⟨set, hk, hf⟩ := addFact_adds acc (c.scopes.getD p []) (c.factors l)
      rw [List.foldl_cons, hstep]
      exact foldl_factStep_mono c ps _ _ set _ hk hf
    · exact ih _ hp'

/-- keys of `scopeFactorizations` are unique -/
theorem scopeFactorizations_keys_nodup (c : SCirc R) :
    (c.scopeFactorizations.map (·.1)).Nodup := by
  rw [scopeFactorizations_eq]
  exact foldl_factStep_keys_nodup c _ [] List.nodup_nil

theorem scopeFactorizations_unique (c : SCirc R) (k : Scope) (s1 s2 : List (List Scope))
    (h1 : (k, s1) ∈ c.scopeFactorizations) (h2 : (k, s2) ∈ c.scopeFactorizations) : s1 = s2 := by
  have hnd := scopeFactorizations_keys_nodup c
  have := List.inj_on_of_nodup_map hnd h1 h2 rfl
  exact (Prod.mk.inj this).2

/-- a successful lookup in `compatDir` -/
theorem compatDir_elim (f1 f2 : List (Scope × List (List Scope))) (h : compatDir f1 f2 = true)
    (s : Scope) (fs1 : List (List Scope)) (hm : (s, fs1) ∈ f1) :
    ∃ a, fs1 = [a] ∧ (s, [a]) ∈ f2 := by
  unfold compatDir at h
  rw [List.all_eq_true] at h
  have := h (s, fs1) hm
  simp only at this
  split at this
  · exact absurd this (by simp)
  · rename_i k fs2 hfind
    have hmem := List.mem_of_find?_eq_some hfind
    have hks : k = s := by simpa using List.find?_some hfind
    subst hks
    split at this
    · rename_i a b
      have hab : a = b := by simpa using this
      subst hab
      exact ⟨a, rfl, hmem⟩
    · exact absurd this (by simp)

end SCirc
end Cirkit
