/-
  CirkitModel.Proofs.Registry — lemmas about the compiler registry / pipeline-context state
  machine (`CirkitModel.Model.Registry`), used by `CirkitModel.Properties.C18`.
-/
import CirkitModel.Model.Registry
import Mathlib.Data.List.Basic
import Mathlib.Data.List.GetD
import Mathlib.Data.List.Nodup
import Mathlib.Data.List.Count
import Mathlib.Data.List.Perm.Subperm

namespace Cirkit

/-! ## association lists -/

theorem alookup_nil {β : Type} (k : ℕ) : alookup ([] : List (ℕ × β)) k = none := rfl

theorem alookup_cons {β : Type} (p : ℕ × β) (l : List (ℕ × β)) (k : ℕ) :
    alookup (p :: l) k = if p.1 = k then some p.2 else alookup l k := by
  unfold alookup
  by_cases h : p.1 = k
  · simp [h]
  · simp [h]

theorem alookup_isSome_iff {β : Type} (l : List (ℕ × β)) (k : ℕ) :
    (alookup l k).isSome ↔ k ∈ l.map (·.1) := by
  induction l with
  | nil => simp [alookup_nil]
  | cons p l ih =>
    rw [alookup_cons]
    by_cases h : p.1 = k
    · simp [h]
    · simp only [h, if_false, ih, List.map_cons, List.mem_cons]
      constructor
      · intro h'; exact Or.inr h'
      · rintro (h' | h')
        · exact absurd h'.symm h
        · exact h'

theorem alookup_eq_none_iff {β : Type} (l : List (ℕ × β)) (k : ℕ) :
    alookup l k = none ↔ k ∉ l.map (·.1) := by
  rw [← alookup_isSome_iff]
  cases alookup l k <;> simp

theorem alookup_eq_some_iff {β : Type} (l : List (ℕ × β)) (hnd : (l.map (·.1)).Nodup) (k : ℕ)
    (v : β) : alookup l k = some v ↔ (k, v) ∈ l := by
  induction l with
  | nil => simp [alookup_nil]
  | cons p l ih =>
    rw [List.map_cons, List.nodup_cons] at hnd
    rw [alookup_cons]
    by_cases h : p.1 = k
    · simp only [h, if_true, List.mem_cons]
      constructor
      · intro h'
        left
        rw [← h, ← Option.some.inj h']
      · rintro (h' | h')
        · rw [← h']
        · exfalso
          apply hnd.1
          rw [h]
          exact List.mem_map.mpr ⟨(k, v), h', rfl⟩
    · simp only [h, if_false, List.mem_cons, ih hnd.2]
      constructor
      · exact Or.inr
      · rintro (h' | h')
        · exfalso; apply h; rw [← h']
        · exact h'

theorem alookup_append {β : Type} (l₁ l₂ : List (ℕ × β)) (k : ℕ) :
    alookup (l₁ ++ l₂) k = (alookup l₁ k).or (alookup l₂ k) := by
  induction l₁ with
  | nil => simp [alookup_nil]
  | cons p l ih =>
    rw [List.cons_append, alookup_cons, alookup_cons]
    by_cases h : p.1 = k
    · simp [h]
    · simp [h, ih]

/-- lookup by the second component (as `PState.symbolicOf`) -/
theorem find_snd_eq_some_iff (l : List (ℕ × ℕ)) (hnd : (l.map (·.2)).Nodup) (k v : ℕ) :
    (l.find? (·.2 == k)).map (·.1) = some v ↔ (v, k) ∈ l := by
  induction l with
  | nil => simp
  | cons p l ih =>
    rw [List.map_cons, List.nodup_cons] at hnd
    rw [List.find?_cons]
    by_cases h : p.2 = k
    · simp only [h, beq_self_eq_true, Option.map_some, List.mem_cons]
      constructor
      · intro h'
        left
        rw [← h, ← Option.some.inj h']
      · rintro (h' | h')
        · rw [← h']
        · exfalso
          apply hnd.1
          rw [h]
          exact List.mem_map.mpr ⟨(v, k), h', rfl⟩
    · have hb : (p.2 == k) = false := by simpa using h
      simp only [hb, List.mem_cons, ih hnd.2]
      constructor
      · exact Or.inr
      · rintro (h' | h')
        · exfalso; apply h; rw [← h']
        · exact h'

namespace PState

/-! ## contexts -/

theorem ctx_setCtx (s : PState) (c c' : ℕ) (cs : CtxState) :
    (s.setCtx c' cs).ctx c = if c = c' ∧ c' < s.ctxs.length then cs else s.ctx c := by
  unfold ctx setCtx
  simp only [List.getD_eq_getElem?_getD, List.getElem?_set]
  by_cases h : c' = c
  · subst h
    by_cases h2 : c' < s.ctxs.length
    · simp [h2]
    · simp [h2]
  · have h' : ¬ c = c' := fun e => h e.symm
    simp [h, h']

theorem ctx_setCtx_self (s : PState) (c : ℕ) (cs : CtxState) (hc : c < s.ctxs.length) :
    (s.setCtx c cs).ctx c = cs := by
  rw [ctx_setCtx]; simp [hc]

theorem ctx_setCtx_ne (s : PState) (c c' : ℕ) (cs : CtxState) (h : c ≠ c') :
    (s.setCtx c' cs).ctx c = s.ctx c := by
  rw [ctx_setCtx]; simp [h]

theorem ctx_of_ge (s : PState) (c : ℕ) (hc : s.ctxs.length ≤ c) : s.ctx c = {} := by
  unfold ctx; exact List.getD_eq_default _ _ hc

/-- Adding a context object changes no existing (or future) context. -/
theorem ctx_newCtx (s : PState) (c : ℕ) :
    ({ s with ctxs := s.ctxs ++ [{}] } : PState).ctx c = s.ctx c := by
  unfold ctx
  simp only
  by_cases h : c < s.ctxs.length
  · rw [List.getD_append _ _ _ _ h]
  · have h' : s.ctxs.length ≤ c := Nat.le_of_not_lt h
    rw [List.getD_append_right _ _ _ _ h', List.getD_eq_default _ _ h']
    cases hk : c - s.ctxs.length <;> simp

/-! ## one registration, and `compilePipeline` as an iteration of registrations -/

/-- `_compile_circuit` + `register_compiled_circuit` for one circuit of the pipeline (skipped if
    the circuit is already compiled in this context). -/
def reg (s : PState) (c sci : ℕ) : PState :=
  if (s.compiledOf c sci).isSome then s
  else
    { s.setCtx c { s.ctx c with bimap := (s.ctx c).bimap ++ [(sci, s.nextCc)] } with
      nextCc := s.nextCc + 1, compileLog := s.compileLog ++ [(c, sci)] }

theorem compilePipeline_eq (s : PState) (c sc : ℕ) :
    s.compilePipeline c sc =
      (pipelineOrder s.operandsOf (s.operands.length + 1) sc).foldl (fun s sci => s.reg c sci) s :=
  rfl

/-- induction principle: what every registration preserves, `compilePipeline` preserves -/
theorem foldl_reg_ind (P : PState → Prop) (c : ℕ) (hP : ∀ s sci, P s → P (s.reg c sci))
    (l : List ℕ) (s : PState) (h : P s) : P (l.foldl (fun s sci => s.reg c sci) s) := by
  induction l generalizing s with
  | nil => exact h
  | cons a l ih => exact ih _ (hP _ _ h)

theorem compilePipeline_ind (P : PState → Prop) (c : ℕ) (hP : ∀ s sci, P s → P (s.reg c sci))
    (s : PState) (sc : ℕ) (h : P s) : P (s.compilePipeline c sc) := by
  rw [compilePipeline_eq]; exact foldl_reg_ind P c hP _ s h

theorem reg_operands (s : PState) (c sci : ℕ) : (s.reg c sci).operands = s.operands := by
  unfold reg; split <;> rfl

theorem reg_active (s : PState) (c sci : ℕ) : (s.reg c sci).active = s.active := by
  unfold reg; split <;> rfl

theorem reg_ctxs_length (s : PState) (c sci : ℕ) : (s.reg c sci).ctxs.length = s.ctxs.length := by
  unfold reg; split
  · rfl
  · simp [setCtx]

theorem reg_ctx (s : PState) (c sci c' : ℕ) :
    (s.reg c sci).ctx c' =
      if (s.compiledOf c sci).isSome then s.ctx c'
      else (s.setCtx c { s.ctx c with bimap := (s.ctx c).bimap ++ [(sci, s.nextCc)] }).ctx c' := by
  unfold reg; split <;> rfl

theorem reg_token (s : PState) (c sci c' : ℕ) :
    ((s.reg c sci).ctx c').token = (s.ctx c').token := by
  rw [reg_ctx]
  split
  · rfl
  · rw [ctx_setCtx]
    split
    · next h => rw [h.1]
    · rfl

theorem compilePipeline_operands (s : PState) (c sc : ℕ) :
    (s.compilePipeline c sc).operands = s.operands :=
  compilePipeline_ind (fun t => t.operands = s.operands) c
    (fun t sci h => by rw [reg_operands]; exact h) s sc rfl

theorem compilePipeline_active (s : PState) (c sc : ℕ) :
    (s.compilePipeline c sc).active = s.active :=
  compilePipeline_ind (fun t => t.active = s.active) c
    (fun t sci h => by rw [reg_active]; exact h) s sc rfl

theorem compilePipeline_ctxs_length (s : PState) (c sc : ℕ) :
    (s.compilePipeline c sc).ctxs.length = s.ctxs.length :=
  compilePipeline_ind (fun t => t.ctxs.length = s.ctxs.length) c
    (fun t sci h => by rw [reg_ctxs_length]; exact h) s sc rfl

theorem compilePipeline_token (s : PState) (c sc c' : ℕ) :
    ((s.compilePipeline c sc).ctx c').token = (s.ctx c').token :=
  compilePipeline_ind (fun t => (t.ctx c').token = (s.ctx c').token) c
    (fun t sci h => by rw [reg_token]; exact h) s sc rfl

theorem compile_of_bad (s : PState) (c sc : ℕ) (h : sc ≥ s.operands.length ∨ c ≥ s.ctxs.length) :
    s.compile c sc = (s, .error) := by
  unfold compile; rw [if_pos h]

theorem compile_of_some (s : PState) (c sc cc : ℕ) (h : ¬ (sc ≥ s.operands.length ∨ c ≥ s.ctxs.length))
    (hk : s.compiledOf c sc = some cc) : s.compile c sc = (s, .cc cc) := by
  unfold compile; rw [if_neg h]; simp only [hk]

theorem compile_of_none (s : PState) (c sc : ℕ) (h : ¬ (sc ≥ s.operands.length ∨ c ≥ s.ctxs.length))
    (hk : s.compiledOf c sc = none) :
    s.compile c sc = (s.compilePipeline c sc,
      match (s.compilePipeline c sc).compiledOf c sc with
      | some cc => .cc cc
      | none => .error) := by
  unfold compile; rw [if_neg h]; simp only [hk]
  cases (s.compilePipeline c sc).compiledOf c sc <;> rfl

/-- The state after `compile` is the old one or the one after `compilePipeline`. -/
theorem compile_fst (s : PState) (c sc : ℕ) :
    (s.compile c sc).1 = s ∨
      ((s.compile c sc).1 = s.compilePipeline c sc ∧ sc < s.operands.length ∧ c < s.ctxs.length ∧
        s.compiledOf c sc = none) := by
  by_cases h : sc ≥ s.operands.length ∨ c ≥ s.ctxs.length
  · rw [compile_of_bad s c sc h]; exact Or.inl rfl
  · cases hk : s.compiledOf c sc with
    | some cc => rw [compile_of_some s c sc cc h hk]; exact Or.inl rfl
    | none =>
      rw [compile_of_none s c sc h hk]
      refine Or.inr ⟨rfl, ?_, ?_, rfl⟩ <;> omega

theorem compile_token (s : PState) (c sc c' : ℕ) :
    ((s.compile c sc).1.ctx c').token = (s.ctx c').token := by
  rcases compile_fst s c sc with h | ⟨h, -⟩ <;> rw [h]
  exact compilePipeline_token s c sc c'

theorem compile_active (s : PState) (c sc : ℕ) : (s.compile c sc).1.active = s.active := by
  rcases compile_fst s c sc with h | ⟨h, -⟩ <;> rw [h]
  exact compilePipeline_active s c sc

/-! ## the invariant -/

/-- Invariant of the registry state machine.  Fields as in the task statement, plus
    `cc_disjoint` (the "no compiled id occurs in two contexts" half of global freshness, which
    `cc_lt` alone does not say). -/
structure Inv (s : PState) : Prop where
  /-- every bimap is functional in both directions: no symbolic id occurs twice … -/
  left_nodup : ∀ c, ((s.ctx c).bimap.map (·.1)).Nodup
  /-- … and no compiled id occurs twice -/
  right_nodup : ∀ c, ((s.ctx c).bimap.map (·.2)).Nodup
  /-- compiled ids are globally fresh: every compiled id in any context is `< nextCc` … -/
  cc_lt : ∀ c, ∀ p ∈ (s.ctx c).bimap, p.2 < s.nextCc
  /-- … and no compiled id occurs in two contexts -/
  cc_disjoint : ∀ c c', c ≠ c' → ∀ p ∈ (s.ctx c).bimap, ∀ p' ∈ (s.ctx c').bimap, p.2 ≠ p'.2
  /-- registered symbolic ids exist -/
  sc_lt : ∀ c, ∀ p ∈ (s.ctx c).bimap, p.1 < s.operands.length
  /-- operands refer to earlier circuits (the pipeline is a DAG) -/
  dag : ∀ sc < s.operands.length, ∀ o ∈ s.operandsOf sc, o < sc
  /-- the compile log lists exactly the registered pairs -/
  log_iff : ∀ c sc, (c, sc) ∈ s.compileLog ↔ (s.compiledOf c sc).isSome
  /-- … each once -/
  log_nodup : s.compileLog.Nodup

theorem inv_init : (({} : PState)).Inv where
  left_nodup c := by
    have : (({} : PState).ctx c).bimap = [] := by
      cases c with
      | zero => rfl
      | succ c => rfl
    rw [this]; exact List.nodup_nil
  right_nodup c := by
    have : (({} : PState).ctx c).bimap = [] := by
      cases c with
      | zero => rfl
      | succ c => rfl
    rw [this]; exact List.nodup_nil
  cc_lt c p hp := by
    have : (({} : PState).ctx c).bimap = [] := by
      cases c with
      | zero => rfl
      | succ c => rfl
    rw [this] at hp; cases hp
  cc_disjoint c c' _ p hp := by
    have : (({} : PState).ctx c).bimap = [] := by
      cases c with
      | zero => rfl
      | succ c => rfl
    rw [this] at hp; cases hp
  sc_lt c p hp := by
    have : (({} : PState).ctx c).bimap = [] := by
      cases c with
      | zero => rfl
      | succ c => rfl
    rw [this] at hp; cases hp
  dag sc h := by cases h
  log_iff c sc := by
    have : (({} : PState).ctx c).bimap = [] := by
      cases c with
      | zero => rfl
      | succ c => rfl
    unfold compiledOf
    rw [this]
    simp [alookup_nil]
  log_nodup := List.nodup_nil

/-- A step that leaves bimaps, the id counter and the log alone and only adds operand lists
    preserves the invariant as soon as the DAG property still holds. -/
theorem Inv.of_same {s s' : PState} (h : s.Inv)
    (hctx : ∀ c, (s'.ctx c).bimap = (s.ctx c).bimap) (hn : s'.nextCc = s.nextCc)
    (hlog : s'.compileLog = s.compileLog) (hop : s.operands.length ≤ s'.operands.length)
    (hdag : ∀ sc < s'.operands.length, ∀ o ∈ s'.operandsOf sc, o < sc) : s'.Inv where
  left_nodup c := by rw [hctx]; exact h.left_nodup c
  right_nodup c := by rw [hctx]; exact h.right_nodup c
  cc_lt c p hp := by rw [hctx] at hp; rw [hn]; exact h.cc_lt c p hp
  cc_disjoint c c' hne p hp p' hp' := by
    rw [hctx] at hp hp'; exact h.cc_disjoint c c' hne p hp p' hp'
  sc_lt c p hp := by rw [hctx] at hp; exact Nat.lt_of_lt_of_le (h.sc_lt c p hp) hop
  dag := hdag
  log_iff c sc := by
    unfold compiledOf; rw [hlog, hctx]; exact h.log_iff c sc
  log_nodup := by rw [hlog]; exact h.log_nodup

theorem operandsOf_append_lt (s : PState) (ops : List ℕ) (sc : ℕ) (h : sc < s.operands.length) :
    ({ s with operands := s.operands ++ [ops] } : PState).operandsOf sc = s.operandsOf sc := by
  unfold operandsOf
  exact List.getD_append _ _ _ _ h

theorem operandsOf_append_self (s : PState) (ops : List ℕ) :
    ({ s with operands := s.operands ++ [ops] } : PState).operandsOf s.operands.length = ops := by
  unfold operandsOf
  simp only
  rw [List.getD_append_right _ _ _ _ (Nat.le_refl _)]
  simp

/-- Creating a symbolic circuit whose operands exist preserves the invariant. -/
theorem Inv.append_operands {s : PState} (h : s.Inv) (ops : List ℕ)
    (hops : ∀ o ∈ ops, o < s.operands.length) :
    ({ s with operands := s.operands ++ [ops] } : PState).Inv := by
  refine h.of_same (fun _ => rfl) rfl rfl (by simp) ?_
  intro sc hsc o ho
  simp only [List.length_append, List.length_singleton] at hsc
  by_cases hlt : sc < s.operands.length
  · rw [operandsOf_append_lt s ops sc hlt] at ho
    exact h.dag sc hlt o ho
  · have : sc = s.operands.length := by omega
    subst this
    rw [operandsOf_append_self] at ho
    exact hops o ho

theorem reg_of_some (s : PState) (c sci : ℕ) (h : (s.compiledOf c sci).isSome) :
    s.reg c sci = s := by
  unfold reg; rw [if_pos h]

theorem reg_of_none (s : PState) (c sci : ℕ) (h : s.compiledOf c sci = none) :
    s.reg c sci =
      { s.setCtx c { s.ctx c with bimap := (s.ctx c).bimap ++ [(sci, s.nextCc)] } with
        nextCc := s.nextCc + 1, compileLog := s.compileLog ++ [(c, sci)] } := by
  unfold reg; rw [if_neg]; simp [h]

theorem reg_bimap (s : PState) (c sci : ℕ) (hc : c < s.ctxs.length)
    (hk : s.compiledOf c sci = none) (c' : ℕ) :
    ((s.reg c sci).ctx c').bimap =
      if c' = c then (s.ctx c).bimap ++ [(sci, s.nextCc)] else (s.ctx c').bimap := by
  rw [reg_ctx, if_neg (by simp [hk]), ctx_setCtx]
  by_cases h : c' = c
  · subst h; simp [hc]
  · simp [h]

theorem reg_nextCc (s : PState) (c sci : ℕ) (hk : s.compiledOf c sci = none) :
    (s.reg c sci).nextCc = s.nextCc + 1 := by
  rw [reg_of_none s c sci hk]

theorem reg_log (s : PState) (c sci : ℕ) (hk : s.compiledOf c sci = none) :
    (s.reg c sci).compileLog = s.compileLog ++ [(c, sci)] := by
  rw [reg_of_none s c sci hk]

theorem reg_operandsOf (s : PState) (c sci sc : ℕ) : (s.reg c sci).operandsOf sc = s.operandsOf sc := by
  unfold operandsOf; rw [reg_operands]

theorem reg_compiledOf (s : PState) (c sci : ℕ) (hc : c < s.ctxs.length)
    (hk : s.compiledOf c sci = none) (c' sc' : ℕ) :
    (s.reg c sci).compiledOf c' sc' =
      if c' = c ∧ sc' = sci then some s.nextCc else s.compiledOf c' sc' := by
  unfold compiledOf at hk ⊢
  rw [reg_bimap s c sci hc hk]
  by_cases h : c' = c
  · subst h
    rw [if_pos rfl, alookup_append, alookup_cons, alookup_nil]
    by_cases h2 : sc' = sci
    · subst h2; simp [hk]
    · have h3 : ¬ sci = sc' := fun e => h2 e.symm
      simp [h2, h3]
  · simp [h]

/-- One registration preserves the invariant (the circuit must exist and the context too). -/
theorem Inv.reg {s : PState} (h : s.Inv) (c sci : ℕ) (hc : c < s.ctxs.length)
    (hsci : sci < s.operands.length) : (s.reg c sci).Inv := by
  cases hk : s.compiledOf c sci with
  | some cc => rw [reg_of_some s c sci (by simp [hk])]; exact h
  | none =>
    have hfresh : sci ∉ (s.ctx c).bimap.map (·.1) := (alookup_eq_none_iff _ _).mp hk
    have hccfresh : s.nextCc ∉ (s.ctx c).bimap.map (·.2) := by
      intro hm
      obtain ⟨p, hp, he⟩ := List.mem_map.mp hm
      have := h.cc_lt c p hp
      omega
    have hb := reg_bimap s c sci hc hk
    constructor
    · intro c'
      rw [hb]
      split
      · rw [List.map_append, List.map_singleton]
        exact List.Nodup.append (h.left_nodup c) (List.nodup_singleton _)
          (by simpa [List.Disjoint] using hfresh)
      · exact h.left_nodup c'
    · intro c'
      rw [hb]
      split
      · rw [List.map_append, List.map_singleton]
        exact List.Nodup.append (h.right_nodup c) (List.nodup_singleton _)
          (by simpa [List.Disjoint] using hccfresh)
      · exact h.right_nodup c'
    · intro c' p hp
      rw [hb] at hp
      rw [reg_nextCc s c sci hk]
      split at hp
      · rcases List.mem_append.mp hp with hp | hp
        · exact Nat.lt_succ_of_lt (h.cc_lt c p hp)
        · rw [List.mem_singleton.mp hp]; exact Nat.lt_succ_self _
      · exact Nat.lt_succ_of_lt (h.cc_lt c' p hp)
    · intro c₁ c₂ hne p hp p' hp'
      rw [hb] at hp hp'
      by_cases h1 : c₁ = c
      · have h2 : ¬ c₂ = c := fun e => hne (h1.trans e.symm)
        rw [if_pos h1] at hp
        rw [if_neg h2] at hp'
        rcases List.mem_append.mp hp with hp | hp
        · exact h.cc_disjoint c c₂ (fun e => h2 e.symm) p hp p' hp'
        · rw [List.mem_singleton.mp hp]
          have := h.cc_lt c₂ p' hp'
          simp only; omega
      · rw [if_neg h1] at hp
        by_cases h2 : c₂ = c
        · rw [if_pos h2] at hp'
          rcases List.mem_append.mp hp' with hp' | hp'
          · exact h.cc_disjoint c₁ c h1 p hp p' hp'
          · rw [List.mem_singleton.mp hp']
            have := h.cc_lt c₁ p hp
            simp only; omega
        · rw [if_neg h2] at hp'
          exact h.cc_disjoint c₁ c₂ hne p hp p' hp'
    · intro c' p hp
      rw [hb] at hp
      rw [reg_operands]
      split at hp
      · rcases List.mem_append.mp hp with hp | hp
        · exact h.sc_lt c p hp
        · rw [List.mem_singleton.mp hp]; exact hsci
      · exact h.sc_lt c' p hp
    · intro sc hsc o ho
      rw [reg_operands] at hsc
      rw [reg_operandsOf] at ho
      exact h.dag sc hsc o ho
    · intro c' sc'
      rw [reg_log s c sci hk, reg_compiledOf s c sci hc hk, List.mem_append, List.mem_singleton,
        h.log_iff c' sc']
      by_cases he : c' = c ∧ sc' = sci
      · rw [if_pos he]; simp [he.1, he.2]
      · rw [if_neg he]
        constructor
        · rintro (h' | h')
          · exact h'
          · exact absurd (by rw [Prod.mk.injEq] at h'; exact h') he
        · exact Or.inl
    · rw [reg_log s c sci hk]
      refine List.Nodup.append h.log_nodup (List.nodup_singleton _) ?_
      intro x hx hx'
      rw [List.mem_singleton.mp hx'] at hx
      have := (h.log_iff c sci).mp hx
      rw [hk] at this
      cases this

/-! ## `run` -/

theorem run_nil (s : PState) : s.run [] = (s, []) := rfl

private theorem run_aux (ops : List POp') (a b : PState × List POut) (h : a.1 = b.1) :
    (ops.foldl (fun (acc : PState × List POut) op =>
      let (s', o) := acc.1.step op
      (s', acc.2 ++ [o])) a).1 =
    (ops.foldl (fun (acc : PState × List POut) op =>
      let (s', o) := acc.1.step op
      (s', acc.2 ++ [o])) b).1 := by
  induction ops generalizing a b with
  | nil => exact h
  | cons op ops ih =>
    simp only [List.foldl_cons]
    apply ih
    simp only [h]

theorem run_cons_fst (s : PState) (op : POp') (ops : List POp') :
    (s.run (op :: ops)).1 = ((s.step op).1.run ops).1 := by
  unfold run
  simp only [List.foldl_cons]
  apply run_aux
  rfl

theorem run_append_fst (s : PState) (ops₁ ops₂ : List POp') :
    (s.run (ops₁ ++ ops₂)).1 = ((s.run ops₁).1.run ops₂).1 := by
  induction ops₁ generalizing s with
  | nil => rfl
  | cons op ops ih => rw [List.cons_append, run_cons_fst, run_cons_fst, ih]

theorem run_snoc_fst (s : PState) (ops : List POp') (op : POp') :
    (s.run (ops ++ [op])).1 = ((s.run ops).1.step op).1 := by
  rw [run_append_fst, run_cons_fst, run_nil]

/-! ## equations of `step` -/

theorem step_newCircuit (s : PState) :
    s.step .newCircuit = ({ s with operands := s.operands ++ [[]] }, .sc s.operands.length) := rfl

theorem step_symOp (s : PState) (ops : List ℕ) :
    s.step (.symOp ops) =
      if ops.all (· < s.operands.length) && !ops.isEmpty then
        ({ s with operands := s.operands ++ [ops] }, .sc s.operands.length)
      else (s, .error) := rfl

theorem step_newCtx (s : PState) :
    s.step .newCtx = ({ s with ctxs := s.ctxs ++ [{}] }, .ctx s.ctxs.length) := rfl

theorem step_compile (s : PState) (c : Option ℕ) (sc : ℕ) :
    s.step (.compile c sc) = s.compile (c.getD s.active) sc := rfl

theorem step_ccOp (s : PState) (c : Option ℕ) (ccs : List ℕ) :
    s.step (.ccOp c ccs) =
      if c.getD s.active ≥ s.ctxs.length ∨ ccs.isEmpty then (s, .error)
      else
        match ccs.mapM (s.symbolicOf (c.getD s.active)) with
        | none => (s, .error)
        | some scs =>
            ({ s with operands := s.operands ++ [scs] } : PState).compile (c.getD s.active)
              s.operands.length := rfl

theorem step_enter (s : PState) (c : ℕ) :
    s.step (.enter c) =
      if c ≥ s.ctxs.length ∨ (s.ctx c).token.isSome then (s, .error)
      else ({ s.setCtx c { s.ctx c with token := some s.active } with active := c }, .unit) := rfl

theorem step_exit (s : PState) (c : ℕ) :
    s.step (.exit c) =
      match (s.ctx c).token with
      | some prev => ({ s.setCtx c { s.ctx c with token := none } with active := prev }, .unit)
      | none => (s, .error) := rfl

/-! ## context tokens -/

/-- Key lemma for `exit_restores`: only `enter c` / `exit c` change the token of context `c`. -/
theorem step_token (s : PState) (op : POp') (c : ℕ) (h1 : op ≠ .enter c) (h2 : op ≠ .exit c) :
    ((s.step op).1.ctx c).token = (s.ctx c).token := by
  cases op with
  | newCircuit => rfl
  | symOp ops => rw [step_symOp]; split <;> rfl
  | newCtx => rw [step_newCtx]; simp only; rw [ctx_newCtx]
  | compile c' sc => exact compile_token s _ sc c
  | ccOp c' ccs =>
    rw [step_ccOp]
    split
    · rfl
    · split
      · rfl
      · rw [compile_token]; rfl
  | enter c' =>
    have hne : c ≠ c' := fun e => h1 (by rw [e])
    rw [step_enter]
    split
    · rfl
    · show ((s.setCtx c' _).ctx c).token = _
      rw [ctx_setCtx_ne _ _ _ _ hne]
  | exit c' =>
    have hne : c ≠ c' := fun e => h2 (by rw [e])
    rw [step_exit]
    split
    · show ((s.setCtx c' _).ctx c).token = _
      rw [ctx_setCtx_ne _ _ _ _ hne]
    · rfl
  | isCompiled _ _ => rfl
  | hasSymbolic _ _ => rfl
  | getCompiled _ _ => rfl
  | getSymbolic _ _ => rfl

theorem run_token (s : PState) (ops : List POp') (c : ℕ)
    (h : ∀ op ∈ ops, op ≠ .enter c ∧ op ≠ .exit c) :
    ((s.run ops).1.ctx c).token = (s.ctx c).token := by
  induction ops generalizing s with
  | nil => rfl
  | cons op ops ih =>
    rw [run_cons_fst, ih _ (fun o ho => h o (List.mem_cons_of_mem _ ho)),
      step_token s op c (h op List.mem_cons_self).1 (h op List.mem_cons_self).2]

theorem step_enter_ok (s : PState) (c : ℕ) (hc : c < s.ctxs.length) (hfree : (s.ctx c).token = none) :
    s.step (.enter c) =
      ({ s.setCtx c { s.ctx c with token := some s.active } with active := c }, .unit) := by
  rw [step_enter, if_neg]
  rw [hfree]
  simp [hc]

theorem step_exit_ok (s : PState) (c prev : ℕ) (h : (s.ctx c).token = some prev) :
    s.step (.exit c) =
      ({ s.setCtx c { s.ctx c with token := none } with active := prev }, .unit) := by
  rw [step_exit]
  simp only [h]

theorem step_exit_none (s : PState) (c : ℕ) (h : (s.ctx c).token = none) :
    s.step (.exit c) = (s, .error) := by
  rw [step_exit]
  simp only [h]

theorem enter_token (s : PState) (c : ℕ) (hc : c < s.ctxs.length) (hfree : (s.ctx c).token = none) :
    ((s.step (.enter c)).1.ctx c).token = some s.active := by
  rw [step_enter_ok s c hc hfree]
  show ((s.setCtx c _).ctx c).token = _
  rw [ctx_setCtx_self _ _ _ hc]

end PState

end Cirkit
