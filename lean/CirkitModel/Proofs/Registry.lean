/-
  CirkitModel.Proofs.Registry — lemmas about the compiler registry / pipeline-context state
  machine (`CirkitModel.Model.Registry`), used by `CirkitModel.Properties.C18`.
-/
import CirkitModel.Model.Registry
import Mathlib.Data.List.Basic
import Mathlib.Data.List.GetD
import Mathlib.Data.List.Nodup
import Mathlib.Data.List.Count
import Mathlib.Data.List.Perm.Subperm

namespace Cirkit

/-! ## lists -/

theorem nodup_snoc {α : Type} {l : List α} {a : α} (h : l.Nodup) (ha : a ∉ l) : (l ++ [a]).Nodup := by
  refine List.Nodup.append h (List.nodup_singleton _) ?_
  intro x hx hx'
  rw [List.mem_singleton.mp hx'] at hx
  exact ha hx

/-! ## association lists -/

theorem alookup_nil {β : Type} (k : ℕ) : alookup ([] : List (ℕ × β)) k = none := rfl

theorem alookup_cons {β : Type} (p : ℕ × β) (l : List (ℕ × β)) (k : ℕ) :
    alookup (p :: l) k = if p.1 = k then some p.2 else alookup l k := by
  unfold alookup
  by_cases h : p.1 = k
  · simp [h]
  · simp [h]

theorem alookup_isSome_iff {β : Type} (l : List (ℕ × β)) (k : ℕ) :
    (alookup l k).isSome ↔ k ∈ l.map (·.1) := by
  induction l with
  | nil => simp [alookup_nil]
  | cons p l ih =>
    rw [alookup_cons]
    by_cases h : p.1 = k
    · simp [h]
    · simp only [h, if_false, ih, List.map_cons, List.mem_cons]
      constructor
      · intro h'; exact Or.inr h'
      · rintro (h' | h')
        · exact absurd h'.symm h
        · exact h'

theorem alookup_eq_none_iff {β : Type} (l : List (ℕ × β)) (k : ℕ) :
    alookup l k = none ↔ k ∉ l.map (·.1) := by
  rw [← alookup_isSome_iff]
  cases alookup l k <;> simp

theorem alookup_eq_some_iff {β : Type} (l : List (ℕ × β)) (hnd : (l.map (·.1)).Nodup) (k : ℕ)
    (v : β) : alookup l k = some v ↔ (k, v) ∈ l := by
  induction l with
  | nil => simp [alookup_nil]
  | cons p l ih =>
    rw [List.map_cons, List.nodup_cons] at hnd
    rw [alookup_cons]
    by_cases h : p.1 = k
    · simp only [h, if_true, List.mem_cons]
      constructor
      · intro h'
        left
        rw [← h, ← Option.some.inj h']
      · rintro (h' | h')
        · rw [← h']
        · exfalso
          apply hnd.1
          rw [h]
          exact List.mem_map.mpr ⟨(k, v), h', rfl⟩
    · simp only [h, if_false, List.mem_cons, ih hnd.2]
      constructor
      · exact Or.inr
      · rintro (h' | h')
        · exfalso; apply h; rw [← h']
        · exact h'

theorem alookup_append {β : Type} (l₁ l₂ : List (ℕ × β)) (k : ℕ) :
    alookup (l₁ ++ l₂) k = (alookup l₁ k).or (alookup l₂ k) := by
  induction l₁ with
  | nil => simp [alookup_nil]
  | cons p l ih =>
    rw [List.cons_append, alookup_cons, alookup_cons]
    by_cases h : p.1 = k
    · simp [h]
    · simp [h, ih]

/-- lookup by the second component (as `PState.symbolicOf`) -/
theorem find_snd_eq_some_iff (l : List (ℕ × ℕ)) (hnd : (l.map (·.2)).Nodup) (k v : ℕ) :
    (l.find? (·.2 == k)).map (·.1) = some v ↔ (v, k) ∈ l := by
  induction l with
  | nil => simp
  | cons p l ih =>
    rw [List.map_cons, List.nodup_cons] at hnd
    rw [List.find?_cons]
    by_cases h : p.2 = k
    · simp only [h, beq_self_eq_true, Option.map_some, List.mem_cons]
      constructor
      · intro h'
        left
        rw [← h, ← Option.some.inj h']
      · rintro (h' | h')
        · rw [← h']
        · exfalso
          apply hnd.1
          rw [h]
          exact List.mem_map.mpr ⟨(v, k), h', rfl⟩
    · have hb : (p.2 == k) = false := by simpa using h
      simp only [hb, List.mem_cons, ih hnd.2]
      constructor
      · exact Or.inr
      · rintro (h' | h')
        · exfalso; apply h; rw [← h']
        · exact h'

/-! ## `bfs` -/

theorem length_le_of_nodup_lt {l : List ℕ} (hnd : l.Nodup) {L : ℕ} (h : ∀ x ∈ l, x < L) :
    l.length ≤ L := by
  have hsub : l ⊆ List.range L := fun x hx => List.mem_range.mpr (h x hx)
  have := hnd.length_le_of_subset hsub
  simpa using this

/-- the step of the fold collecting the not yet seen operands of a dequeued node -/
def newsStep (seen acc : List ℕ) (ch : ℕ) : List ℕ :=
  if seen.contains ch || acc.contains ch then acc else acc ++ [ch]

theorem newsStep_spec (seen acc : List ℕ) (ch : ℕ) (hacc : acc.Nodup) :
    (newsStep seen acc ch).Nodup ∧
      ∀ x, x ∈ newsStep seen acc ch ↔ x ∈ acc ∨ (x = ch ∧ x ∉ seen) := by
  unfold newsStep
  by_cases h1 : ch ∈ seen
  · have : (seen.contains ch || acc.contains ch) = true := by simp [h1]
    rw [if_pos this]
    refine ⟨hacc, fun x => ⟨Or.inl, ?_⟩⟩
    rintro (h | ⟨rfl, h⟩)
    · exact h
    · exact absurd h1 h
  · by_cases h2 : ch ∈ acc
    · have : (seen.contains ch || acc.contains ch) = true := by simp [h2]
      rw [if_pos this]
      refine ⟨hacc, fun x => ⟨Or.inl, ?_⟩⟩
      rintro (h | ⟨rfl, _⟩)
      · exact h
      · exact h2
    · have : ¬ (seen.contains ch || acc.contains ch) = true := by simp [h1, h2]
      rw [if_neg this]
      refine ⟨nodup_snoc hacc h2, fun x => ?_⟩
      rw [List.mem_append, List.mem_singleton]
      constructor
      · rintro (h | rfl)
        · exact Or.inl h
        · exact Or.inr ⟨rfl, h1⟩
      · rintro (h | ⟨rfl, _⟩)
        · exact Or.inl h
        · exact Or.inr rfl

theorem news_spec (seen : List ℕ) (l acc : List ℕ) (hacc : acc.Nodup) :
    (l.foldl (newsStep seen) acc).Nodup ∧
      ∀ x, x ∈ l.foldl (newsStep seen) acc ↔ x ∈ acc ∨ (x ∈ l ∧ x ∉ seen) := by
  induction l generalizing acc with
  | nil => exact ⟨hacc, fun x => by simp⟩
  | cons ch l ih =>
    obtain ⟨h1, h2⟩ := newsStep_spec seen acc ch hacc
    obtain ⟨h3, h4⟩ := ih (newsStep seen acc ch) h1
    refine ⟨h3, fun x => ?_⟩
    rw [List.foldl_cons, h4, h2, List.mem_cons]
    constructor
    · rintro ((h | ⟨h, h'⟩) | ⟨h, h'⟩)
      · exact Or.inl h
      · exact Or.inr ⟨Or.inl h, h'⟩
      · exact Or.inr ⟨Or.inr h, h'⟩
    · rintro (h | ⟨h | h, h'⟩)
      · exact Or.inl (Or.inl h)
      · exact Or.inl (Or.inr ⟨h, h'⟩)
      · exact Or.inr ⟨h, h'⟩

theorem bfsOrder_zero (operands : ℕ → List ℕ) (queue seen out : List ℕ) :
    bfsOrder operands 0 queue seen out = out := by
  cases queue <;> rfl

theorem bfsOrder_succ_nil (operands : ℕ → List ℕ) (fuel : ℕ) (seen out : List ℕ) :
    bfsOrder operands (fuel + 1) [] seen out = out := rfl

theorem bfsOrder_succ_cons (operands : ℕ → List ℕ) (fuel n : ℕ) (queue seen out : List ℕ) :
    bfsOrder operands (fuel + 1) (n :: queue) seen out =
      bfsOrder operands fuel (queue ++ (operands n).foldl (newsStep seen) [])
        (seen ++ (operands n).foldl (newsStep seen) []) (out ++ [n]) := rfl

/-- `bfs` with enough fuel: the result has no duplicates, contains everything that was seen, stays
    inside `{0, …, L-1}` and is closed under `operands`. -/
theorem bfsOrder_spec (operands : ℕ → List ℕ) (L : ℕ) (hL : ∀ n < L, ∀ o ∈ operands n, o < L) :
    ∀ (fuel : ℕ) (queue seen out : List ℕ), seen = out ++ queue → seen.Nodup → (∀ x ∈ seen, x < L) →
      (∀ n ∈ out, ∀ o ∈ operands n, o ∈ seen) → L + 1 ≤ fuel + out.length →
      (bfsOrder operands fuel queue seen out).Nodup ∧
      (∀ x ∈ bfsOrder operands fuel queue seen out, x < L) ∧
      (∀ n ∈ bfsOrder operands fuel queue seen out, ∀ o ∈ operands n,
        o ∈ bfsOrder operands fuel queue seen out) ∧
      (∀ x ∈ seen, x ∈ bfsOrder operands fuel queue seen out) := by
  intro fuel
  induction fuel with
  | zero =>
    intro queue seen out hs hnd hlt _ hfuel
    exfalso
    have hout : out.Nodup := by rw [hs] at hnd; exact hnd.of_append_left
    have := length_le_of_nodup_lt hout (fun x hx => hlt x (by rw [hs]; exact List.mem_append_left _ hx))
    omega
  | succ fuel ih =>
    intro queue seen out hs hnd hlt hcl hfuel
    cases queue with
    | nil =>
      rw [bfsOrder_succ_nil]
      rw [List.append_nil] at hs
      subst hs
      exact ⟨hnd, hlt, hcl, fun x hx => hx⟩
    | cons n queue =>
      rw [bfsOrder_succ_cons]
      obtain ⟨hn1, hn2⟩ := news_spec seen (operands n) [] List.nodup_nil
      have hnseen : n ∈ seen := by rw [hs]; simp
      have hres := ih (queue ++ (operands n).foldl (newsStep seen) [])
        (seen ++ (operands n).foldl (newsStep seen) []) (out ++ [n])
        (by rw [hs]; simp)
        (by
          refine List.Nodup.append hnd hn1 ?_
          intro x hx hx'
          rcases (hn2 x).mp hx' with h | h
          · cases h
          · exact h.2 hx)
        (by
          intro x hx
          rcases List.mem_append.mp hx with h | h
          · exact hlt x h
          · rcases (hn2 x).mp h with h | h
            · cases h
            · exact hL n (hlt n hnseen) x h.1)
        (by
          intro m hm o ho
          rcases List.mem_append.mp hm with h | h
          · exact List.mem_append_left _ (hcl m h o ho)
          · rw [List.mem_singleton.mp h] at ho
            by_cases hos : o ∈ seen
            · exact List.mem_append_left _ hos
            · exact List.mem_append_right _ ((hn2 o).mpr (Or.inr ⟨ho, hos⟩)))
        (by simp only [List.length_append, List.length_singleton]; omega)
      exact ⟨hres.1, hres.2.1, hres.2.2.1, fun x hx => hres.2.2.2 x (List.mem_append_left _ hx)⟩

/-! ## Kahn's algorithm -/

/-- `l` lists every node after all of its operands -/
def Topo (operands : ℕ → List ℕ) (l : List ℕ) : Prop :=
  ∀ l1 x l2, l = l1 ++ x :: l2 → ∀ o ∈ operands x, o ∈ l1

theorem Topo.nil (operands : ℕ → List ℕ) : Topo operands [] := by
  intro l1 x l2 h
  cases l1 <;> cases h

theorem Topo.snoc {operands : ℕ → List ℕ} {l : List ℕ} {a : ℕ} (h : Topo operands l)
    (ha : ∀ o ∈ operands a, o ∈ l) : Topo operands (l ++ [a]) := by
  intro l1 x l2 he o ho
  rcases List.eq_nil_or_concat l2 with rfl | ⟨l2', b, rfl⟩
  · have := List.append_inj' (t₁ := [a]) (t₂ := [x]) he rfl
    obtain ⟨h1, h2⟩ := this
    cases h2
    rw [← h1]
    exact ha o ho
  · have he' : l ++ [a] = (l1 ++ x :: l2') ++ [b] := by rw [he]; simp
    obtain ⟨h1, _⟩ := List.append_inj' he' rfl
    exact h l1 x l2' h1 o ho

/-- pending-input counter of `n` -/
def cnt (counts : List (ℕ × ℕ)) (n : ℕ) : ℕ := (alookup counts n).getD 0

theorem alookup_map_upd (counts : List (ℕ × ℕ)) (n v m : ℕ) :
    alookup (counts.map fun p => if p.1 == n then (n, v) else p) m =
      if m = n then (alookup counts n).map (fun _ => v) else alookup counts m := by
  induction counts with
  | nil => simp [alookup_nil]
  | cons p l ih =>
    rw [List.map_cons, alookup_cons, alookup_cons, alookup_cons, ih]
    by_cases h1 : p.1 = n
    · by_cases h2 : m = n
      · subst h2; simp [h1]
      · have : ¬ n = m := fun e => h2 e.symm
        simp [h1, h2, this]
    · have hb : (p.1 == n) = false := by simpa using h1
      by_cases h2 : m = n
      · subst h2; simp [hb, h1]
      · simp [hb, h2]

theorem cnt_dec (counts : List (ℕ × ℕ)) (n m : ℕ) :
    cnt (counts.map fun p => if p.1 == n then (n, cnt counts n - 1) else p) m =
      if m = n then cnt counts n - 1 else cnt counts m := by
  unfold cnt
  rw [alookup_map_upd]
  by_cases h : m = n
  · simp only [h, if_true]
    cases alookup counts n <;> simp
  · simp only [h, if_false]

theorem alookup_map_mk (l : List ℕ) (f : ℕ → ℕ) (k : ℕ) :
    alookup (l.map fun n => (n, f n)) k = if k ∈ l then some (f k) else none := by
  induction l with
  | nil => simp [alookup_nil]
  | cons a l ih =>
    rw [List.map_cons, alookup_cons, ih]
    by_cases h : a = k
    · subst h; simp
    · have : ¬ k = a := fun e => h e.symm
      simp [h, this]

/-- the inner loop body of `topological_ordering`: decrement the counter of a consumer, enqueue it
    when the counter reaches 0 -/
def kstep (acc : List (ℕ × ℕ) × List ℕ) (n : ℕ) : List (ℕ × ℕ) × List ℕ :=
  let c := (alookup acc.1 n).getD 0
  let acc1 := acc.1.map fun p => if p.1 == n then (n, c - 1) else p
  if c - 1 == 0 && c != 0 then (acc1, acc.2 ++ [n]) else (acc1, acc.2)

theorem kstep_fst (acc : List (ℕ × ℕ) × List ℕ) (n : ℕ) :
    (kstep acc n).1 = acc.1.map fun p => if p.1 == n then (n, cnt acc.1 n - 1) else p := by
  unfold kstep cnt
  simp only
  split <;> rfl

theorem kstep_snd (acc : List (ℕ × ℕ) × List ℕ) (n : ℕ) :
    (kstep acc n).2 = if cnt acc.1 n = 1 then acc.2 ++ [n] else acc.2 := by
  unfold kstep cnt
  simp only
  by_cases h : (alookup acc.1 n).getD 0 = 1
  · simp [h]
  · rw [if_neg h, if_neg]
    simp only [Bool.and_eq_true, beq_iff_eq, bne_iff_ne, ne_eq]
    omega

theorem kahn_zero (operands : ℕ → List ℕ) (nodes queue : List ℕ) (counts : List (ℕ × ℕ))
    (out : List ℕ) : kahn operands nodes 0 queue counts out = out := by
  cases queue <;> rfl

theorem kahn_succ_nil (operands : ℕ → List ℕ) (nodes : List ℕ) (fuel : ℕ) (counts : List (ℕ × ℕ))
    (out : List ℕ) : kahn operands nodes (fuel + 1) [] counts out = out := rfl

theorem kahn_succ_cons (operands : ℕ → List ℕ) (nodes : List ℕ) (fuel child : ℕ) (queue : List ℕ)
    (counts : List (ℕ × ℕ)) (out : List ℕ) :
    kahn operands nodes (fuel + 1) (child :: queue) counts out =
      kahn operands nodes fuel
        (queue ++ ((outgoings operands nodes child).foldl kstep (counts, [])).2)
        ((outgoings operands nodes child).foldl kstep (counts, [])).1 (out ++ [child]) := rfl

/-- effect of the inner loop over a list `l` of consumers -/
theorem kfold_spec (l : List ℕ) : ∀ (counts : List (ℕ × ℕ)) (ready0 : List ℕ),
    (∀ m, cnt (l.foldl kstep (counts, ready0)).1 m = cnt counts m - l.count m) ∧
    ∃ r, (l.foldl kstep (counts, ready0)).2 = ready0 ++ r ∧ r.Nodup ∧
      ∀ m, m ∈ r ↔ 1 ≤ cnt counts m ∧ cnt counts m ≤ l.count m := by
  induction l with
  | nil =>
    intro counts ready0
    refine ⟨fun m => by simp, [], by simp, List.nodup_nil, fun m => ?_⟩
    simp only [List.not_mem_nil, List.count_nil, false_iff]
    omega
  | cons n l ih =>
    intro counts ready0
    obtain ⟨h1, r', h2, h3, h4⟩ := ih (kstep (counts, ready0) n).1 (kstep (counts, ready0) n).2
    have hc : ∀ m, cnt (kstep (counts, ready0) n).1 m =
        if m = n then cnt counts n - 1 else cnt counts m := by
      intro m; rw [kstep_fst]; exact cnt_dec counts n m
    have hcount : ∀ m, (n :: l).count m = l.count m + if m = n then 1 else 0 := by
      intro m
      rw [List.count_cons]
      by_cases h : m = n
      · subst h; simp
      · have : ¬ n = m := fun e => h e.symm
        simp [h, this]
    rw [List.foldl_cons]
    refine ⟨fun m => ?_, ?_⟩
    · rw [h1 m, hc m, hcount m]
      by_cases h : m = n
      · subst h; simp only [if_true]; omega
      · simp only [h, if_false]; omega
    · rw [h2, kstep_snd]
      by_cases h : cnt counts n = 1
      · refine ⟨n :: r', by simp [h], ?_, fun m => ?_⟩
        · refine List.nodup_cons.mpr ⟨?_, h3⟩
          intro hn
          have := (h4 n).mp hn
          rw [hc n] at this
          simp only [if_true] at this
          omega
        · rw [List.mem_cons, h4 m, hc m, hcount m]
          by_cases hm : m = n
          · subst hm; simp only [if_true, true_or, true_iff]; omega
          · simp only [hm, if_false, false_or]; omega
      · refine ⟨r', by simp [h], h3, fun m => ?_⟩
        rw [h4 m, hc m, hcount m]
        by_cases hm : m = n
        · subst hm; simp only [if_true]; omega
        · simp only [hm, if_false]; omega

theorem count_filterMap_self (l : List ℕ) (child m x : ℕ) :
    (l.filterMap fun ch => if ch == child then some m else none).count x =
      if x = m then l.count child else 0 := by
  induction l with
  | nil => simp
  | cons a l ih =>
    by_cases h : a = child
    · have : (a == child) = true := by simpa using h
      rw [List.filterMap_cons_some (by rw [this]; rfl), List.count_cons, ih, List.count_cons]
      by_cases hx : x = m
      · subst hx; simp [this]
      · have : ¬ m = x := fun e => hx e.symm
        simp [hx, this]
    · have hb : (a == child) = false := by simpa using h
      rw [List.filterMap_cons_none (by rw [hb]; rfl), ih, List.count_cons]
      simp [hb]

theorem outgoings_count (operands : ℕ → List ℕ) (nodes : List ℕ) (hN : nodes.Nodup)
    (child x : ℕ) :
    (outgoings operands nodes child).count x = if x ∈ nodes then (operands x).count child else 0 := by
  unfold outgoings
  induction nodes with
  | nil => simp
  | cons m nodes ih =>
    rw [List.nodup_cons] at hN
    rw [List.flatMap_cons, List.count_append, ih hN.2, count_filterMap_self]
    by_cases hx : x = m
    · subst hx
      simp [hN.1]
    · simp [hx]

theorem countP_snoc_out (out l : List ℕ) (child : ℕ) (hc : child ∉ out) :
    l.countP (fun o => !(out ++ [child]).contains o) + l.count child =
      l.countP (fun o => !out.contains o) := by
  induction l with
  | nil => simp
  | cons a l ih =>
    rw [List.countP_cons, List.countP_cons, List.count_cons, ← ih]
    by_cases h : a = child
    · subst h
      simp [hc]
      omega
    · have hb : (a == child) = false := by simpa using h
      by_cases ha : a ∈ out
      · simp [ha, hb]
      · simp [ha, hb, h]
        omega

theorem countP_out_eq_zero (out l : List ℕ) :
    l.countP (fun o => !out.contains o) = 0 ↔ ∀ o ∈ l, o ∈ out := by
  rw [List.countP_eq_zero]
  simp

/-- invariant of the main loop of `topological_ordering` -/
structure KInv (operands : ℕ → List ℕ) (nodes queue : List ℕ) (counts : List (ℕ × ℕ))
    (out : List ℕ) : Prop where
  nodup : (out ++ queue).Nodup
  sub : ∀ x ∈ out ++ queue, x ∈ nodes
  cnt_eq : ∀ n ∈ nodes, cnt counts n = (operands n).countP (fun o => !out.contains o)
  mem_iff : ∀ n ∈ nodes, (n ∈ out ++ queue ↔ ∀ o ∈ operands n, o ∈ out)
  topo : Topo operands out

theorem KInv.step {operands : ℕ → List ℕ} {nodes : List ℕ} (hN : nodes.Nodup) {child : ℕ}
    {queue : List ℕ} {counts : List (ℕ × ℕ)} {out : List ℕ}
    (h : KInv operands nodes (child :: queue) counts out) :
    KInv operands nodes (queue ++ ((outgoings operands nodes child).foldl kstep (counts, [])).2)
      ((outgoings operands nodes child).foldl kstep (counts, [])).1 (out ++ [child]) := by
  obtain ⟨hcnt, r, hr, hrnd, hrmem⟩ := kfold_spec (outgoings operands nodes child) counts []
  rw [List.nil_append] at hr
  rw [hr]
  have hog := outgoings_count operands nodes hN child
  have hchild_nodes : child ∈ nodes := h.sub child (by simp)
  have hchild_out : child ∉ out := by
    have := h.nodup
    rw [List.nodup_append] at this
    intro hc
    exact this.2.2 child hc child (by simp) rfl
  have hr_nodes : ∀ m ∈ r, m ∈ nodes := by
    intro m hm
    have := (hrmem m).mp hm
    rw [hog m] at this
    by_contra hmn
    rw [if_neg hmn] at this
    omega
  have hr_fresh : ∀ m ∈ r, m ∉ out ++ child :: queue := by
    intro m hm hmem
    have h1 := (hrmem m).mp hm
    have hmn := hr_nodes m hm
    rw [h.cnt_eq m hmn] at h1
    have := (countP_out_eq_zero out (operands m)).mpr ((h.mem_iff m hmn).mp hmem)
    omega
  have hcnt' : ∀ n ∈ nodes, cnt ((outgoings operands nodes child).foldl kstep (counts, [])).1 n =
      (operands n).countP (fun o => !(out ++ [child]).contains o) := by
    intro n hn
    rw [hcnt n, hog n, if_pos hn, h.cnt_eq n hn]
    have := countP_snoc_out out (operands n) child hchild_out
    omega
  have hassoc : out ++ [child] ++ (queue ++ r) = (out ++ child :: queue) ++ r := by simp
  constructor
  · rw [hassoc]
    refine List.Nodup.append h.nodup hrnd ?_
    intro x hx hx'
    exact hr_fresh x hx' hx
  · rw [hassoc]
    intro x hx
    rcases List.mem_append.mp hx with hx | hx
    · exact h.sub x hx
    · exact hr_nodes x hx
  · exact hcnt'
  · intro n hn
    rw [hassoc]
    have hz := countP_out_eq_zero (out ++ [child]) (operands n)
    constructor
    · intro hmem
      rcases List.mem_append.mp hmem with hmem | hmem
      · intro o ho
        exact List.mem_append_left _ ((h.mem_iff n hn).mp hmem o ho)
      · apply hz.mp
        have h1 := (hrmem n).mp hmem
        rw [hog n, if_pos hn, h.cnt_eq n hn] at h1
        have := countP_snoc_out out (operands n) child hchild_out
        omega
    · intro hall
      have h0 := hz.mpr hall
      have h2 := countP_snoc_out out (operands n) child hchild_out
      by_cases hzero : (operands n).countP (fun o => !out.contains o) = 0
      · exact List.mem_append_left _
          ((h.mem_iff n hn).mpr ((countP_out_eq_zero out (operands n)).mp hzero))
      · apply List.mem_append_right
        rw [hrmem n, hog n, if_pos hn, h.cnt_eq n hn]
        omega
  · exact h.topo.snoc ((h.mem_iff child hchild_nodes).mp (by simp))

/-- Kahn's algorithm with enough fuel outputs every node, operands first. -/
theorem kahn_spec (operands : ℕ → List ℕ) (nodes : List ℕ) (hN : nodes.Nodup)
    (hcl : ∀ n ∈ nodes, ∀ o ∈ operands n, o ∈ nodes)
    (hac : ∀ n ∈ nodes, ∀ o ∈ operands n, o < n) :
    ∀ (fuel : ℕ) (queue : List ℕ) (counts : List (ℕ × ℕ)) (out : List ℕ),
      KInv operands nodes queue counts out → nodes.length + 1 ≤ fuel + out.length →
      (∀ n ∈ nodes, n ∈ kahn operands nodes fuel queue counts out) ∧
      Topo operands (kahn operands nodes fuel queue counts out) ∧
      (kahn operands nodes fuel queue counts out).Nodup ∧
      (∀ x ∈ kahn operands nodes fuel queue counts out, x ∈ nodes) := by
  intro fuel
  induction fuel with
  | zero =>
    intro queue counts out h hfuel
    exfalso
    have hout : out.Nodup := h.nodup.of_append_left
    have := hout.length_le_of_subset (fun x hx => h.sub x (List.mem_append_left _ hx))
    omega
  | succ fuel ih =>
    intro queue counts out h hfuel
    cases queue with
    | nil =>
      rw [kahn_succ_nil]
      have hall : ∀ n, n ∈ nodes → n ∈ out := by
        intro n
        induction n using Nat.strongRecOn with
        | _ n ihn =>
          intro hn
          have := (h.mem_iff n hn).mpr (fun o ho => ihn o (hac n hn o ho) (hcl n hn o ho))
          simpa using this
      refine ⟨hall, h.topo, ?_, ?_⟩
      · simpa using h.nodup
      · intro x hx; exact h.sub x (List.mem_append_left _ hx)
    | cons child queue =>
      rw [kahn_succ_cons]
      apply ih _ _ _ (h.step hN)
      simp only [List.length_append, List.length_singleton]
      omega

/-- `pipeline_topological_ordering([root])` on a DAG whose nodes are `< L`, with the fuel the
    model passes: the root is listed, operands come before consumers, no duplicates, every listed
    circuit exists and the list is closed under operands. -/
theorem pipelineOrder_spec (operands : ℕ → List ℕ) (L : ℕ)
    (hL : ∀ n < L, ∀ o ∈ operands n, o < n) (root : ℕ) (hroot : root < L) :
    root ∈ pipelineOrder operands (L + 1) root ∧
    Topo operands (pipelineOrder operands (L + 1) root) ∧
    (pipelineOrder operands (L + 1) root).Nodup ∧
    (∀ x ∈ pipelineOrder operands (L + 1) root, x < L) ∧
    (∀ n ∈ pipelineOrder operands (L + 1) root, ∀ o ∈ operands n,
      o ∈ pipelineOrder operands (L + 1) root) := by
  obtain ⟨hnd, hlt, hcl, hroot'⟩ := bfsOrder_spec operands L
    (fun n hn o ho => Nat.lt_trans (hL n hn o ho) hn) (L + 1) [root] [root] [] rfl
    (List.nodup_singleton _) (by simpa using hroot) (by simp) (by simp)
  unfold pipelineOrder
  simp only
  generalize bfsOrder operands (L + 1) [root] [root] [] = nodes at hnd hlt hcl hroot'
  have hlen : nodes.length ≤ L := length_le_of_nodup_lt hnd hlt
  have hmem_inputs : ∀ n, n ∈ (((nodes.map fun n => (n, (operands n).length)).filter
      (·.2 == 0)).map (·.1)) ↔ n ∈ nodes ∧ (operands n).length = 0 := by
    intro n
    simp only [List.mem_map, List.mem_filter, beq_iff_eq]
    constructor
    · rintro ⟨p, ⟨⟨m, hm, rfl⟩, h0⟩, rfl⟩
      exact ⟨hm, h0⟩
    · rintro ⟨hm, h0⟩
      exact ⟨(n, (operands n).length), ⟨⟨n, hm, rfl⟩, h0⟩, rfl⟩
  have hK : KInv operands nodes
      (((nodes.map fun n => (n, (operands n).length)).filter (·.2 == 0)).map (·.1))
      (nodes.map fun n => (n, (operands n).length)) [] := by
    constructor
    · rw [List.nil_append]
      have hsub : (((nodes.map fun n => (n, (operands n).length)).filter (·.2 == 0)).map
          (·.1)).Sublist ((nodes.map fun n => (n, (operands n).length)).map (·.1)) :=
        List.Sublist.map _ List.filter_sublist
      have hmap : (nodes.map fun n => (n, (operands n).length)).map (·.1) = nodes := by
        simp [List.map_map, Function.comp_def]
      rw [hmap] at hsub
      exact hnd.sublist hsub
    · intro x hx
      rw [List.nil_append] at hx
      exact ((hmem_inputs x).mp hx).1
    · intro n hn
      unfold cnt
      rw [alookup_map_mk, if_pos hn]
      simp
    · intro n hn
      rw [List.nil_append, hmem_inputs]
      constructor
      · rintro ⟨_, h0⟩ o ho
        rw [List.length_eq_zero_iff.mp h0] at ho
        cases ho
      · intro hall
        refine ⟨hn, ?_⟩
        cases hop : operands n with
        | nil => rfl
        | cons a l =>
          have := hall a (by rw [hop]; simp)
          cases this
    · exact Topo.nil operands
  obtain ⟨h1, h2, h3, h4⟩ := kahn_spec operands nodes hnd hcl
    (fun n hn o ho => hL n (hlt n hn) o ho) ((L + 1) * (L + 1) + (L + 1) + 1) _ _ [] hK
    (by simp only [List.length_nil]; have := Nat.zero_le ((L + 1) * (L + 1)); omega)
  exact ⟨h1 root (hroot' root (by simp)), h2, h3, fun x hx => hlt x (h4 x hx),
    fun n hn o ho => h1 o (hcl n (h4 n hn) o ho)⟩

namespace PState

/-! ## contexts -/

theorem ctx_setCtx (s : PState) (c c' : ℕ) (cs : CtxState) :
    (s.setCtx c' cs).ctx c = if c = c' ∧ c' < s.ctxs.length then cs else s.ctx c := by
  unfold ctx setCtx
  simp only [List.getD_eq_getElem?_getD, List.getElem?_set]
  by_cases h : c' = c
  · subst h
    by_cases h2 : c' < s.ctxs.length
    · simp [h2]
    · simp [h2]
  · have h' : ¬ c = c' := fun e => h e.symm
    simp [h, h']

theorem ctx_setCtx_self (s : PState) (c : ℕ) (cs : CtxState) (hc : c < s.ctxs.length) :
    (s.setCtx c cs).ctx c = cs := by
  rw [ctx_setCtx]; simp [hc]

theorem ctx_setCtx_ne (s : PState) (c c' : ℕ) (cs : CtxState) (h : c ≠ c') :
    (s.setCtx c' cs).ctx c = s.ctx c := by
  rw [ctx_setCtx]; simp [h]

theorem ctx_of_ge (s : PState) (c : ℕ) (hc : s.ctxs.length ≤ c) : s.ctx c = {} := by
  unfold ctx; exact List.getD_eq_default _ _ hc

/-- Adding a context object changes no existing (or future) context. -/
theorem ctx_newCtx (s : PState) (c : ℕ) :
    ({ s with ctxs := s.ctxs ++ [{}] } : PState).ctx c = s.ctx c := by
  unfold ctx
  simp only
  by_cases h : c < s.ctxs.length
  · rw [List.getD_append _ _ _ _ h]
  · have h' : s.ctxs.length ≤ c := Nat.le_of_not_lt h
    rw [List.getD_append_right _ _ _ _ h', List.getD_eq_default _ _ h']
    cases hk : c - s.ctxs.length <;> simp

/-! ## one registration, and `compilePipeline` as an iteration of registrations -/

/-- `_compile_circuit` + `register_compiled_circuit` for one circuit of the pipeline (skipped if
    the circuit is already compiled in this context). -/
def reg (s : PState) (c sci : ℕ) : PState :=
  if (s.compiledOf c sci).isSome then s
  else
    { s.setCtx c { s.ctx c with bimap := (s.ctx c).bimap ++ [(sci, s.nextCc)] } with
      nextCc := s.nextCc + 1, compileLog := s.compileLog ++ [(c, sci)] }

theorem compilePipeline_eq (s : PState) (c sc : ℕ) :
    s.compilePipeline c sc =
      (pipelineOrder s.operandsOf (s.operands.length + 1) sc).foldl (fun s sci => s.reg c sci) s :=
  rfl

/-- induction principle: what every registration preserves, `compilePipeline` preserves -/
theorem foldl_reg_ind (P : PState → Prop) (c : ℕ) (hP : ∀ s sci, P s → P (s.reg c sci))
    (l : List ℕ) (s : PState) (h : P s) : P (l.foldl (fun s sci => s.reg c sci) s) := by
  induction l generalizing s with
  | nil => exact h
  | cons a l ih => exact ih _ (hP _ _ h)

theorem compilePipeline_ind (P : PState → Prop) (c : ℕ) (hP : ∀ s sci, P s → P (s.reg c sci))
    (s : PState) (sc : ℕ) (h : P s) : P (s.compilePipeline c sc) := by
  rw [compilePipeline_eq]; exact foldl_reg_ind P c hP _ s h

theorem reg_operands (s : PState) (c sci : ℕ) : (s.reg c sci).operands = s.operands := by
  unfold reg; split <;> rfl

theorem reg_active (s : PState) (c sci : ℕ) : (s.reg c sci).active = s.active := by
  unfold reg; split <;> rfl

theorem reg_ctxs_length (s : PState) (c sci : ℕ) : (s.reg c sci).ctxs.length = s.ctxs.length := by
  unfold reg; split
  · rfl
  · simp [setCtx]

theorem reg_ctx (s : PState) (c sci c' : ℕ) :
    (s.reg c sci).ctx c' =
      if (s.compiledOf c sci).isSome then s.ctx c'
      else (s.setCtx c { s.ctx c with bimap := (s.ctx c).bimap ++ [(sci, s.nextCc)] }).ctx c' := by
  unfold reg; split <;> rfl

theorem reg_token (s : PState) (c sci c' : ℕ) :
    ((s.reg c sci).ctx c').token = (s.ctx c').token := by
  rw [reg_ctx]
  split
  · rfl
  · rw [ctx_setCtx]
    split
    · next h => rw [h.1]
    · rfl

theorem compilePipeline_operands (s : PState) (c sc : ℕ) :
    (s.compilePipeline c sc).operands = s.operands :=
  compilePipeline_ind (fun t => t.operands = s.operands) c
    (fun t sci h => by rw [reg_operands]; exact h) s sc rfl

theorem compilePipeline_active (s : PState) (c sc : ℕ) :
    (s.compilePipeline c sc).active = s.active :=
  compilePipeline_ind (fun t => t.active = s.active) c
    (fun t sci h => by rw [reg_active]; exact h) s sc rfl

theorem compilePipeline_ctxs_length (s : PState) (c sc : ℕ) :
    (s.compilePipeline c sc).ctxs.length = s.ctxs.length :=
  compilePipeline_ind (fun t => t.ctxs.length = s.ctxs.length) c
    (fun t sci h => by rw [reg_ctxs_length]; exact h) s sc rfl

theorem compilePipeline_token (s : PState) (c sc c' : ℕ) :
    ((s.compilePipeline c sc).ctx c').token = (s.ctx c').token :=
  compilePipeline_ind (fun t => (t.ctx c').token = (s.ctx c').token) c
    (fun t sci h => by rw [reg_token]; exact h) s sc rfl

theorem compile_of_bad (s : PState) (c sc : ℕ) (h : sc ≥ s.operands.length ∨ c ≥ s.ctxs.length) :
    s.compile c sc = (s, .error) := by
  unfold compile; rw [if_pos h]

theorem compile_of_some (s : PState) (c sc cc : ℕ) (h : ¬ (sc ≥ s.operands.length ∨ c ≥ s.ctxs.length))
    (hk : s.compiledOf c sc = some cc) : s.compile c sc = (s, .cc cc) := by
  unfold compile; rw [if_neg h]; simp only [hk]

theorem compile_of_none (s : PState) (c sc : ℕ) (h : ¬ (sc ≥ s.operands.length ∨ c ≥ s.ctxs.length))
    (hk : s.compiledOf c sc = none) :
    s.compile c sc = (s.compilePipeline c sc,
      match (s.compilePipeline c sc).compiledOf c sc with
      | some cc => .cc cc
      | none => .error) := by
  unfold compile; rw [if_neg h]; simp only [hk]
  cases (s.compilePipeline c sc).compiledOf c sc <;> rfl

/-- The state after `compile` is the old one or the one after `compilePipeline`. -/
theorem compile_fst (s : PState) (c sc : ℕ) :
    (s.compile c sc).1 = s ∨
      ((s.compile c sc).1 = s.compilePipeline c sc ∧ sc < s.operands.length ∧ c < s.ctxs.length ∧
        s.compiledOf c sc = none) := by
  by_cases h : sc ≥ s.operands.length ∨ c ≥ s.ctxs.length
  · rw [compile_of_bad s c sc h]; exact Or.inl rfl
  · cases hk : s.compiledOf c sc with
    | some cc => rw [compile_of_some s c sc cc h hk]; exact Or.inl rfl
    | none =>
      rw [compile_of_none s c sc h hk]
      refine Or.inr ⟨rfl, ?_, ?_, rfl⟩ <;> omega

theorem compile_token (s : PState) (c sc c' : ℕ) :
    ((s.compile c sc).1.ctx c').token = (s.ctx c').token := by
  rcases compile_fst s c sc with h | ⟨h, -⟩ <;> rw [h]
  exact compilePipeline_token s c sc c'

theorem compile_active (s : PState) (c sc : ℕ) : (s.compile c sc).1.active = s.active := by
  rcases compile_fst s c sc with h | ⟨h, -⟩ <;> rw [h]
  exact compilePipeline_active s c sc

/-! ## equations of `step` -/

theorem step_newCircuit (s : PState) :
    s.step .newCircuit = ({ s with operands := s.operands ++ [[]] }, .sc s.operands.length) := rfl

theorem step_symOp (s : PState) (ops : List ℕ) :
    s.step (.symOp ops) =
      if ops.all (· < s.operands.length) && !ops.isEmpty then
        ({ s with operands := s.operands ++ [ops] }, .sc s.operands.length)
      else (s, .error) := rfl

theorem step_newCtx (s : PState) :
    s.step .newCtx = ({ s with ctxs := s.ctxs ++ [{}] }, .ctx s.ctxs.length) := rfl

theorem step_compile (s : PState) (c : Option ℕ) (sc : ℕ) :
    s.step (.compile c sc) = s.compile (c.getD s.active) sc := rfl

theorem step_ccOp (s : PState) (c : Option ℕ) (ccs : List ℕ) :
    s.step (.ccOp c ccs) =
      if c.getD s.active ≥ s.ctxs.length ∨ ccs.isEmpty then (s, .error)
      else
        match ccs.mapM (s.symbolicOf (c.getD s.active)) with
        | none => (s, .error)
        | some scs =>
            ({ s with operands := s.operands ++ [scs] } : PState).compile (c.getD s.active)
              s.operands.length := rfl

theorem step_enter (s : PState) (c : ℕ) :
    s.step (.enter c) =
      if c ≥ s.ctxs.length ∨ (s.ctx c).token.isSome then (s, .error)
      else ({ s.setCtx c { s.ctx c with token := some s.active } with active := c }, .unit) := rfl

theorem step_exit (s : PState) (c : ℕ) :
    s.step (.exit c) =
      match (s.ctx c).token with
      | some prev => ({ s.setCtx c { s.ctx c with token := none } with active := prev }, .unit)
      | none => (s, .error) := rfl

/-! ## the invariant -/

/-- Invariant of the registry state machine.  Fields as in the task statement, plus
    `cc_disjoint` (the "no compiled id occurs in two contexts" half of global freshness, which
    `cc_lt` alone does not say). -/
structure Inv (s : PState) : Prop where
  /-- every bimap is functional in both directions: no symbolic id occurs twice … -/
  left_nodup : ∀ c, ((s.ctx c).bimap.map (·.1)).Nodup
  /-- … and no compiled id occurs twice -/
  right_nodup : ∀ c, ((s.ctx c).bimap.map (·.2)).Nodup
  /-- compiled ids are globally fresh: every compiled id in any context is `< nextCc` … -/
  cc_lt : ∀ c, ∀ p ∈ (s.ctx c).bimap, p.2 < s.nextCc
  /-- … and no compiled id occurs in two contexts -/
  cc_disjoint : ∀ c c', c ≠ c' → ∀ p ∈ (s.ctx c).bimap, ∀ p' ∈ (s.ctx c').bimap, p.2 ≠ p'.2
  /-- registered symbolic ids exist -/
  sc_lt : ∀ c, ∀ p ∈ (s.ctx c).bimap, p.1 < s.operands.length
  /-- operands refer to earlier circuits (the pipeline is a DAG) -/
  dag : ∀ sc < s.operands.length, ∀ o ∈ s.operandsOf sc, o < sc
  /-- the compile log lists exactly the registered pairs -/
  log_iff : ∀ c sc, (c, sc) ∈ s.compileLog ↔ (s.compiledOf c sc).isSome
  /-- … each once -/
  log_nodup : s.compileLog.Nodup

theorem inv_init : (({} : PState)).Inv where
  left_nodup c := by
    have : (({} : PState).ctx c).bimap = [] := by
      cases c with
      | zero => rfl
      | succ c => rfl
    rw [this]; exact List.nodup_nil
  right_nodup c := by
    have : (({} : PState).ctx c).bimap = [] := by
      cases c with
      | zero => rfl
      | succ c => rfl
    rw [this]; exact List.nodup_nil
  cc_lt c p hp := by
    have : (({} : PState).ctx c).bimap = [] := by
      cases c with
      | zero => rfl
      | succ c => rfl
    rw [this] at hp; cases hp
  cc_disjoint c c' _ p hp := by
    have : (({} : PState).ctx c).bimap = [] := by
      cases c with
      | zero => rfl
      | succ c => rfl
    rw [this] at hp; cases hp
  sc_lt c p hp := by
    have : (({} : PState).ctx c).bimap = [] := by
      cases c with
      | zero => rfl
      | succ c => rfl
    rw [this] at hp; cases hp
  dag sc h := by cases h
  log_iff c sc := by
    have : (({} : PState).ctx c).bimap = [] := by
      cases c with
      | zero => rfl
      | succ c => rfl
    unfold compiledOf
    rw [this]
    simp [alookup_nil]
  log_nodup := List.nodup_nil

/-- A step that leaves bimaps, the id counter and the log alone and only adds operand lists
    preserves the invariant as soon as the DAG property still holds. -/
theorem Inv.of_same {s s' : PState} (h : s.Inv)
    (hctx : ∀ c, (s'.ctx c).bimap = (s.ctx c).bimap) (hn : s'.nextCc = s.nextCc)
    (hlog : s'.compileLog = s.compileLog) (hop : s.operands.length ≤ s'.operands.length)
    (hdag : ∀ sc < s'.operands.length, ∀ o ∈ s'.operandsOf sc, o < sc) : s'.Inv where
  left_nodup c := by rw [hctx]; exact h.left_nodup c
  right_nodup c := by rw [hctx]; exact h.right_nodup c
  cc_lt c p hp := by rw [hctx] at hp; rw [hn]; exact h.cc_lt c p hp
  cc_disjoint c c' hne p hp p' hp' := by
    rw [hctx] at hp hp'; exact h.cc_disjoint c c' hne p hp p' hp'
  sc_lt c p hp := by rw [hctx] at hp; exact Nat.lt_of_lt_of_le (h.sc_lt c p hp) hop
  dag := hdag
  log_iff c sc := by
    unfold compiledOf; rw [hlog, hctx]; exact h.log_iff c sc
  log_nodup := by rw [hlog]; exact h.log_nodup

theorem operandsOf_append_lt (s : PState) (ops : List ℕ) (sc : ℕ) (h : sc < s.operands.length) :
    ({ s with operands := s.operands ++ [ops] } : PState).operandsOf sc = s.operandsOf sc := by
  unfold operandsOf
  exact List.getD_append _ _ _ _ h

theorem operandsOf_append_self (s : PState) (ops : List ℕ) :
    ({ s with operands := s.operands ++ [ops] } : PState).operandsOf s.operands.length = ops := by
  unfold operandsOf
  simp only
  rw [List.getD_append_right _ _ _ _ (Nat.le_refl _)]
  simp

/-- Creating a symbolic circuit whose operands exist preserves the invariant. -/
theorem Inv.append_operands {s : PState} (h : s.Inv) (ops : List ℕ)
    (hops : ∀ o ∈ ops, o < s.operands.length) :
    ({ s with operands := s.operands ++ [ops] } : PState).Inv := by
  refine h.of_same (fun _ => rfl) rfl rfl (by simp) ?_
  intro sc hsc o ho
  simp only [List.length_append, List.length_singleton] at hsc
  by_cases hlt : sc < s.operands.length
  · rw [operandsOf_append_lt s ops sc hlt] at ho
    exact h.dag sc hlt o ho
  · have : sc = s.operands.length := by omega
    subst this
    rw [operandsOf_append_self] at ho
    exact hops o ho

theorem reg_of_some (s : PState) (c sci : ℕ) (h : (s.compiledOf c sci).isSome) :
    s.reg c sci = s := by
  unfold reg; rw [if_pos h]

theorem reg_of_none (s : PState) (c sci : ℕ) (h : s.compiledOf c sci = none) :
    s.reg c sci =
      { s.setCtx c { s.ctx c with bimap := (s.ctx c).bimap ++ [(sci, s.nextCc)] } with
        nextCc := s.nextCc + 1, compileLog := s.compileLog ++ [(c, sci)] } := by
  unfold reg; rw [if_neg]; simp [h]

theorem reg_bimap (s : PState) (c sci : ℕ) (hc : c < s.ctxs.length)
    (hk : s.compiledOf c sci = none) (c' : ℕ) :
    ((s.reg c sci).ctx c').bimap =
      if c' = c then (s.ctx c).bimap ++ [(sci, s.nextCc)] else (s.ctx c').bimap := by
  rw [reg_ctx, if_neg (by simp [hk]), ctx_setCtx]
  by_cases h : c' = c
  · subst h; simp [hc]
  · simp [h]

theorem reg_nextCc (s : PState) (c sci : ℕ) (hk : s.compiledOf c sci = none) :
    (s.reg c sci).nextCc = s.nextCc + 1 := by
  rw [reg_of_none s c sci hk]

theorem reg_log (s : PState) (c sci : ℕ) (hk : s.compiledOf c sci = none) :
    (s.reg c sci).compileLog = s.compileLog ++ [(c, sci)] := by
  rw [reg_of_none s c sci hk]

theorem reg_operandsOf (s : PState) (c sci sc : ℕ) : (s.reg c sci).operandsOf sc = s.operandsOf sc := by
  unfold operandsOf; rw [reg_operands]

theorem reg_compiledOf (s : PState) (c sci : ℕ) (hc : c < s.ctxs.length)
    (hk : s.compiledOf c sci = none) (c' sc' : ℕ) :
    (s.reg c sci).compiledOf c' sc' =
      if c' = c ∧ sc' = sci then some s.nextCc else s.compiledOf c' sc' := by
  unfold compiledOf at hk ⊢
  rw [reg_bimap s c sci hc hk]
  by_cases h : c' = c
  · subst h
    rw [if_pos rfl, alookup_append, alookup_cons, alookup_nil]
    by_cases h2 : sc' = sci
    · subst h2; simp [hk]
    · have h3 : ¬ sci = sc' := fun e => h2 e.symm
      simp [h2, h3]
  · simp [h]

/-- One registration preserves the invariant (the circuit must exist and the context too). -/
theorem Inv.reg {s : PState} (h : s.Inv) (c sci : ℕ) (hc : c < s.ctxs.length)
    (hsci : sci < s.operands.length) : (s.reg c sci).Inv := by
  cases hk : s.compiledOf c sci with
  | some cc => rw [reg_of_some s c sci (by simp [hk])]; exact h
  | none =>
    have hfresh : sci ∉ (s.ctx c).bimap.map (·.1) := (alookup_eq_none_iff _ _).mp hk
    have hccfresh : s.nextCc ∉ (s.ctx c).bimap.map (·.2) := by
      intro hm
      obtain ⟨p, hp, he⟩ := List.mem_map.mp hm
      have := h.cc_lt c p hp
      omega
    have hb := reg_bimap s c sci hc hk
    constructor
    · intro c'
      rw [hb]
      split
      · rw [List.map_append, List.map_singleton]
        exact nodup_snoc (h.left_nodup c) hfresh
      · exact h.left_nodup c'
    · intro c'
      rw [hb]
      split
      · rw [List.map_append, List.map_singleton]
        exact nodup_snoc (h.right_nodup c) hccfresh
      · exact h.right_nodup c'
    · intro c' p hp
      rw [hb] at hp
      rw [reg_nextCc s c sci hk]
      split at hp
      · rcases List.mem_append.mp hp with hp | hp
        · exact Nat.lt_succ_of_lt (h.cc_lt c p hp)
        · rw [List.mem_singleton.mp hp]; exact Nat.lt_succ_self _
      · exact Nat.lt_succ_of_lt (h.cc_lt c' p hp)
    · intro c₁ c₂ hne p hp p' hp'
      rw [hb] at hp hp'
      by_cases h1 : c₁ = c
      · have h2 : ¬ c₂ = c := fun e => hne (h1.trans e.symm)
        rw [if_pos h1] at hp
        rw [if_neg h2] at hp'
        rcases List.mem_append.mp hp with hp | hp
        · exact h.cc_disjoint c c₂ (fun e => h2 e.symm) p hp p' hp'
        · rw [List.mem_singleton.mp hp]
          have := h.cc_lt c₂ p' hp'
          simp only; omega
      · rw [if_neg h1] at hp
        by_cases h2 : c₂ = c
        · rw [if_pos h2] at hp'
          rcases List.mem_append.mp hp' with hp' | hp'
          · exact h.cc_disjoint c₁ c h1 p hp p' hp'
          · rw [List.mem_singleton.mp hp']
            have := h.cc_lt c₁ p hp
            simp only; omega
        · rw [if_neg h2] at hp'
          exact h.cc_disjoint c₁ c₂ hne p hp p' hp'
    · intro c' p hp
      rw [hb] at hp
      rw [reg_operands]
      split at hp
      · rcases List.mem_append.mp hp with hp | hp
        · exact h.sc_lt c p hp
        · rw [List.mem_singleton.mp hp]; exact hsci
      · exact h.sc_lt c' p hp
    · intro sc hsc o ho
      rw [reg_operands] at hsc
      rw [reg_operandsOf] at ho
      exact h.dag sc hsc o ho
    · intro c' sc'
      rw [reg_log s c sci hk, reg_compiledOf s c sci hc hk, List.mem_append, List.mem_singleton,
        h.log_iff c' sc']
      by_cases he : c' = c ∧ sc' = sci
      · rw [if_pos he]; simp [he.1, he.2]
      · rw [if_neg he]
        constructor
        · rintro (h' | h')
          · exact h'
          · exact absurd (by rw [Prod.mk.injEq] at h'; exact h') he
        · exact Or.inl
    · rw [reg_log s c sci hk]
      refine nodup_snoc h.log_nodup ?_
      intro hx
      have := (h.log_iff c sci).mp hx
      rw [hk] at this
      cases this

/-! ## `compilePipeline` and `compile` preserve the invariant -/

theorem Inv.log_lt {s : PState} (h : s.Inv) {c sc : ℕ} (hm : (c, sc) ∈ s.compileLog) :
    sc < s.operands.length := by
  have := (h.log_iff c sc).mp hm
  unfold compiledOf at this
  rw [alookup_isSome_iff] at this
  obtain ⟨p, hp, rfl⟩ := List.mem_map.mp this
  exact h.sc_lt c p hp

theorem reg_log_ext (s : PState) (c sci : ℕ) :
    ∃ ext, (s.reg c sci).compileLog = s.compileLog ++ ext := by
  cases hk : s.compiledOf c sci with
  | some cc => exact ⟨[], by rw [reg_of_some s c sci (by simp [hk])]; simp⟩
  | none => exact ⟨[(c, sci)], reg_log s c sci hk⟩

theorem Inv.reg_log_mem {s : PState} (h : s.Inv) (c sci : ℕ) :
    (c, sci) ∈ (s.reg c sci).compileLog := by
  cases hk : s.compiledOf c sci with
  | some cc =>
    rw [reg_of_some s c sci (by simp [hk])]
    exact (h.log_iff c sci).mpr (by simp [hk])
  | none => rw [reg_log s c sci hk]; simp

theorem foldl_reg_spec (c : ℕ) : ∀ (l : List ℕ) (s : PState), s.Inv → c < s.ctxs.length →
    (∀ x ∈ l, x < s.operands.length) →
    (l.foldl (fun s sci => s.reg c sci) s).Inv ∧
    (∃ ext, (l.foldl (fun s sci => s.reg c sci) s).compileLog = s.compileLog ++ ext) ∧
    (∀ x ∈ l, (c, x) ∈ (l.foldl (fun s sci => s.reg c sci) s).compileLog) := by
  intro l
  induction l with
  | nil => intro s h _ _; exact ⟨h, ⟨[], by simp⟩, fun x hx => by cases hx⟩
  | cons a l ih =>
    intro s h hc hl
    have h1 : (s.reg c a).Inv := h.reg c a hc (hl a List.mem_cons_self)
    obtain ⟨i1, ⟨ext, i2⟩, i3⟩ := ih (s.reg c a) h1 (by rw [reg_ctxs_length]; exact hc)
      (by intro x hx; rw [reg_operands]; exact hl x (List.mem_cons_of_mem _ hx))
    obtain ⟨ext0, he0⟩ := reg_log_ext s c a
    rw [List.foldl_cons]
    refine ⟨i1, ⟨ext0 ++ ext, by rw [i2, he0, List.append_assoc]⟩, ?_⟩
    intro x hx
    rcases List.mem_cons.mp hx with rfl | hx
    · rw [i2]; exact List.mem_append_left _ (h.reg_log_mem c x)
    · exact i3 x hx

theorem Inv.compilePipeline {s : PState} (h : s.Inv) (c sc : ℕ) (hc : c < s.ctxs.length)
    (hsc : sc < s.operands.length) :
    (s.compilePipeline c sc).Inv ∧ (c, sc) ∈ (s.compilePipeline c sc).compileLog := by
  obtain ⟨hroot, _, _, hlt, _⟩ := pipelineOrder_spec s.operandsOf s.operands.length h.dag sc hsc
  obtain ⟨i1, _, i3⟩ := foldl_reg_spec c _ s h hc hlt
  rw [compilePipeline_eq]
  exact ⟨i1, i3 sc hroot⟩

theorem Inv.compile {s : PState} (h : s.Inv) (c sc : ℕ) : (s.compile c sc).1.Inv := by
  rcases compile_fst s c sc with e | ⟨e, hsc, hc, _⟩ <;> rw [e]
  · exact h
  · exact (h.compilePipeline c sc hc hsc).1

/-- `compile` of an existing circuit in an existing context returns a compiled circuit and
    registers it. -/
theorem Inv.compile_registers {s : PState} (h : s.Inv) (c sc : ℕ) (hsc : sc < s.operands.length)
    (hc : c < s.ctxs.length) :
    ∃ cc, (s.compile c sc).2 = .cc cc ∧ (s.compile c sc).1.compiledOf c sc = some cc := by
  have hg : ¬ (sc ≥ s.operands.length ∨ c ≥ s.ctxs.length) := by omega
  cases hk : s.compiledOf c sc with
  | some cc =>
    rw [compile_of_some s c sc cc hg hk]
    exact ⟨cc, rfl, hk⟩
  | none =>
    rw [compile_of_none s c sc hg hk]
    obtain ⟨i1, i2⟩ := h.compilePipeline c sc hc hsc
    have := (i1.log_iff c sc).mp i2
    obtain ⟨cc, hcc⟩ := Option.isSome_iff_exists.mp this
    exact ⟨cc, by simp only [hcc], hcc⟩

/-! ## operands are compiled before their consumers -/

/-- In the compile log every circuit comes after all of its operands (same context). -/
def LogTopo (s : PState) : Prop :=
  ∀ l1 c sc l2, s.compileLog = l1 ++ (c, sc) :: l2 → ∀ o ∈ s.operandsOf sc, (c, o) ∈ l1

theorem split_snoc {α : Type} {l l1 l2 : List α} {a x : α} (he : l ++ [a] = l1 ++ x :: l2) :
    (l = l1 ∧ a = x) ∨ ∃ l2', l = l1 ++ x :: l2' := by
  rcases List.eq_nil_or_concat l2 with rfl | ⟨l2', b, rfl⟩
  · obtain ⟨h1, h2⟩ := List.append_inj' (t₁ := [a]) (t₂ := [x]) he rfl
    cases h2
    exact Or.inl ⟨h1, rfl⟩
  · have he' : l ++ [a] = (l1 ++ x :: l2') ++ [b] := by rw [he]; simp
    obtain ⟨h1, _⟩ := List.append_inj' he' rfl
    exact Or.inr ⟨l2', h1⟩

theorem LogTopo.reg {s : PState} (ht : s.LogTopo) (c sci : ℕ)
    (hops : ∀ o ∈ s.operandsOf sci, (c, o) ∈ s.compileLog) : (s.reg c sci).LogTopo := by
  cases hk : s.compiledOf c sci with
  | some cc => rw [reg_of_some s c sci (by simp [hk])]; exact ht
  | none =>
    intro l1 c' sc' l2 he o ho
    rw [reg_log s c sci hk] at he
    rw [reg_operandsOf] at ho
    rcases split_snoc he with ⟨h1, h2⟩ | ⟨l2', h1⟩
    · cases h2
      rw [← h1]
      exact hops o ho
    · exact ht l1 c' sc' l2' h1 o ho

theorem foldl_reg_topo (c : ℕ) : ∀ (l : List ℕ) (s : PState), s.Inv → c < s.ctxs.length →
    (∀ x ∈ l, x < s.operands.length) → s.LogTopo →
    (∀ l1 x l2, l = l1 ++ x :: l2 → ∀ o ∈ s.operandsOf x, o ∈ l1 ∨ (c, o) ∈ s.compileLog) →
    (l.foldl (fun s sci => s.reg c sci) s).LogTopo := by
  intro l
  induction l with
  | nil => intro s _ _ _ ht _; exact ht
  | cons a l ih =>
    intro s h hc hl ht hrel
    have h1 : (s.reg c a).Inv := h.reg c a hc (hl a List.mem_cons_self)
    obtain ⟨ext0, he0⟩ := reg_log_ext s c a
    rw [List.foldl_cons]
    apply ih (s.reg c a) h1 (by rw [reg_ctxs_length]; exact hc)
      (by intro x hx; rw [reg_operands]; exact hl x (List.mem_cons_of_mem _ hx))
    · apply ht.reg
      intro o ho
      rcases hrel [] a l rfl o ho with h' | h'
      · cases h'
      · exact h'
    · intro l1 x l2 he o ho
      rw [reg_operandsOf] at ho
      rcases hrel (a :: l1) x l2 (by rw [he]; rfl) o ho with h' | h'
      · rcases List.mem_cons.mp h' with rfl | h'
        · exact Or.inr (h.reg_log_mem c o)
        · exact Or.inl h'
      · right; rw [he0]; exact List.mem_append_left _ h'

theorem LogTopo.compilePipeline {s : PState} (h : s.Inv) (ht : s.LogTopo) (c sc : ℕ)
    (hc : c < s.ctxs.length) (hsc : sc < s.operands.length) : (s.compilePipeline c sc).LogTopo := by
  obtain ⟨_, htopo, _, hlt, _⟩ := pipelineOrder_spec s.operandsOf s.operands.length h.dag sc hsc
  rw [compilePipeline_eq]
  exact foldl_reg_topo c _ s h hc hlt ht
    (fun l1 x l2 he o ho => Or.inl (htopo l1 x l2 he o ho))

theorem LogTopo.compile {s : PState} (h : s.Inv) (ht : s.LogTopo) (c sc : ℕ) :
    (s.compile c sc).1.LogTopo := by
  rcases compile_fst s c sc with e | ⟨e, hsc, hc, _⟩ <;> rw [e]
  · exact ht
  · exact ht.compilePipeline h c sc hc hsc

/-- steps that keep the log, and the operands of logged circuits, keep `LogTopo` -/
theorem LogTopo.of_same {s s' : PState} (ht : s.LogTopo) (hlog : s'.compileLog = s.compileLog)
    (hop : ∀ c sc, (c, sc) ∈ s.compileLog → s'.operandsOf sc = s.operandsOf sc) : s'.LogTopo := by
  intro l1 c sc l2 he o ho
  rw [hlog] at he
  rw [hop c sc (by rw [he]; simp)] at ho
  exact ht l1 c sc l2 he o ho

theorem LogTopo.append_operands {s : PState} (h : s.Inv) (ht : s.LogTopo) (ops : List ℕ) :
    ({ s with operands := s.operands ++ [ops] } : PState).LogTopo :=
  ht.of_same rfl (fun _ sc hm => operandsOf_append_lt s ops sc (h.log_lt hm))

/-! ## every step preserves the invariant -/

theorem mapM_option_mem {α β : Type} (f : α → Option β) :
    ∀ (l : List α) (r : List β), l.mapM f = some r → ∀ y ∈ r, ∃ x ∈ l, f x = some y := by
  intro l
  induction l with
  | nil =>
    intro r h y hy
    rw [List.mapM_nil] at h
    cases h
    cases hy
  | cons a l ih =>
    intro r h y hy
    rw [List.mapM_cons] at h
    cases hfa : f a with
    | none => rw [hfa] at h; cases h
    | some b =>
      rw [hfa] at h
      cases hl : l.mapM f with
      | none => rw [hl] at h; cases h
      | some bs =>
        rw [hl] at h
        cases h
        rcases List.mem_cons.mp hy with rfl | hy
        · exact ⟨a, List.mem_cons_self, hfa⟩
        · obtain ⟨x, hx, hfx⟩ := ih bs hl y hy
          exact ⟨x, List.mem_cons_of_mem _ hx, hfx⟩

theorem Inv.symbolicOf_lt {s : PState} (h : s.Inv) {c cc sc : ℕ} (hk : s.symbolicOf c cc = some sc) :
    sc < s.operands.length := by
  unfold symbolicOf at hk
  cases hf : (s.ctx c).bimap.find? (·.2 == cc) with
  | none => rw [hf] at hk; cases hk
  | some p =>
    rw [hf] at hk
    cases hk
    exact h.sc_lt c p (List.mem_of_find?_eq_some hf)

theorem ctx_setCtx_bimap (s : PState) (c c' : ℕ) (cs : CtxState) (hb : cs.bimap = (s.ctx c').bimap) :
    ((s.setCtx c' cs).ctx c).bimap = (s.ctx c).bimap := by
  rw [ctx_setCtx]
  split
  · next h => rw [hb, h.1]
  · rfl

/-- what a step does, up to the properties the invariants look at -/
theorem step_cases (s : PState) (op : POp') :
    ((∀ c, ((s.step op).1.ctx c).bimap = (s.ctx c).bimap) ∧ (s.step op).1.nextCc = s.nextCc ∧
      (s.step op).1.compileLog = s.compileLog ∧ (s.step op).1.operands = s.operands) ∨
    (∃ ops, (∀ o ∈ ops, o < s.operands.length) ∧
      (s.step op).1 = { s with operands := s.operands ++ [ops] }) ∨
    (∃ c sc, (s.step op).1 = (s.compile c sc).1) ∨
    (∃ (c sc : ℕ) (scs ccs : List ℕ), ccs.mapM (s.symbolicOf c) = some scs ∧
      (s.step op).1 = (({ s with operands := s.operands ++ [scs] } : PState).compile c sc).1) := by
  cases op with
  | newCircuit => exact Or.inr (Or.inl ⟨[], by simp, rfl⟩)
  | symOp ops =>
    rw [step_symOp]
    split
    · next h =>
      rw [Bool.and_eq_true, List.all_eq_true] at h
      exact Or.inr (Or.inl ⟨ops, fun o ho => by simpa using h.1 o ho, rfl⟩)
    · exact Or.inl ⟨fun _ => rfl, rfl, rfl, rfl⟩
  | newCtx =>
    rw [step_newCtx]
    exact Or.inl ⟨fun c => by rw [ctx_newCtx], rfl, rfl, rfl⟩
  | compile c sc => exact Or.inr (Or.inr (Or.inl ⟨_, sc, rfl⟩))
  | ccOp c ccs =>
    rw [step_ccOp]
    split
    · exact Or.inl ⟨fun _ => rfl, rfl, rfl, rfl⟩
    · cases hk : ccs.mapM (s.symbolicOf (c.getD s.active)) with
      | none => exact Or.inl ⟨fun _ => rfl, rfl, rfl, rfl⟩
      | some scs => exact Or.inr (Or.inr (Or.inr ⟨_, _, scs, ccs, hk, rfl⟩))
  | enter c' =>
    rw [step_enter]
    split
    · exact Or.inl ⟨fun _ => rfl, rfl, rfl, rfl⟩
    · exact Or.inl ⟨fun c => ctx_setCtx_bimap s c c' _ rfl, rfl, rfl, rfl⟩
  | exit c' =>
    rw [step_exit]
    split
    · exact Or.inl ⟨fun c => ctx_setCtx_bimap s c c' _ rfl, rfl, rfl, rfl⟩
    · exact Or.inl ⟨fun _ => rfl, rfl, rfl, rfl⟩
  | isCompiled _ _ => exact Or.inl ⟨fun _ => rfl, rfl, rfl, rfl⟩
  | hasSymbolic _ _ => exact Or.inl ⟨fun _ => rfl, rfl, rfl, rfl⟩
  | getCompiled _ _ => exact Or.inl ⟨fun _ => rfl, rfl, rfl, rfl⟩
  | getSymbolic _ _ => exact Or.inl ⟨fun _ => rfl, rfl, rfl, rfl⟩

theorem Inv.step {s : PState} (h : s.Inv) (op : POp') : (s.step op).1.Inv := by
  rcases step_cases s op with ⟨h1, h2, h3, h4⟩ | ⟨ops, h1, h2⟩ | ⟨c, sc, h1⟩ |
      ⟨c, sc, scs, ccs, h1, h2⟩
  · refine h.of_same h1 h2 h3 (by rw [h4]; exact Nat.le_refl _) ?_
    intro sc hsc o ho
    unfold operandsOf at ho
    rw [h4] at hsc ho
    exact h.dag sc hsc o ho
  · rw [h2]; exact h.append_operands ops h1
  · rw [h1]; exact h.compile c sc
  · rw [h2]
    apply Inv.compile
    apply h.append_operands
    intro o ho
    obtain ⟨x, _, hx⟩ := mapM_option_mem _ ccs scs h1 o ho
    exact h.symbolicOf_lt hx

theorem LogTopo.step {s : PState} (h : s.Inv) (ht : s.LogTopo) (op : POp') :
    (s.step op).1.LogTopo := by
  rcases step_cases s op with ⟨_, _, h3, h4⟩ | ⟨ops, h1, h2⟩ | ⟨c, sc, h1⟩ |
      ⟨c, sc, scs, ccs, h1, h2⟩
  · exact ht.of_same h3 (fun _ sc _ => by unfold operandsOf; rw [h4])
  · rw [h2]; exact ht.append_operands h ops
  · rw [h1]; exact ht.compile h c sc
  · rw [h2]
    apply LogTopo.compile
    · apply h.append_operands
      intro o ho
      obtain ⟨x, _, hx⟩ := mapM_option_mem _ ccs scs h1 o ho
      exact h.symbolicOf_lt hx
    · exact ht.append_operands h scs

theorem logTopo_init : (({} : PState)).LogTopo := by
  intro l1 c sc l2 he
  cases l1 <;> cases he

/-! ## `run` -/

theorem run_nil (s : PState) : s.run [] = (s, []) := rfl

private theorem run_aux (ops : List POp') (a b : PState × List POut) (h : a.1 = b.1) :
    (ops.foldl (fun (acc : PState × List POut) op =>
      let (s', o) := acc.1.step op
      (s', acc.2 ++ [o])) a).1 =
    (ops.foldl (fun (acc : PState × List POut) op =>
      let (s', o) := acc.1.step op
      (s', acc.2 ++ [o])) b).1 := by
  induction ops generalizing a b with
  | nil => exact h
  | cons op ops ih =>
    simp only [List.foldl_cons]
    apply ih
    simp only [h]

theorem run_cons_fst (s : PState) (op : POp') (ops : List POp') :
    (s.run (op :: ops)).1 = ((s.step op).1.run ops).1 := by
  unfold run
  simp only [List.foldl_cons]
  apply run_aux
  rfl

theorem run_append_fst (s : PState) (ops₁ ops₂ : List POp') :
    (s.run (ops₁ ++ ops₂)).1 = ((s.run ops₁).1.run ops₂).1 := by
  induction ops₁ generalizing s with
  | nil => rfl
  | cons op ops ih => rw [List.cons_append, run_cons_fst, run_cons_fst, ih]

theorem run_snoc_fst (s : PState) (ops : List POp') (op : POp') :
    (s.run (ops ++ [op])).1 = ((s.run ops).1.step op).1 := by
  rw [run_append_fst, run_cons_fst, run_nil]

/-! ## context tokens -/

/-- Key lemma for `exit_restores`: only `enter c` / `exit c` change the token of context `c`. -/
theorem step_token (s : PState) (op : POp') (c : ℕ) (h1 : op ≠ .enter c) (h2 : op ≠ .exit c) :
    ((s.step op).1.ctx c).token = (s.ctx c).token := by
  cases op with
  | newCircuit => rfl
  | symOp ops => rw [step_symOp]; split <;> rfl
  | newCtx => rw [step_newCtx]; simp only; rw [ctx_newCtx]
  | compile c' sc => exact compile_token s _ sc c
  | ccOp c' ccs =>
    rw [step_ccOp]
    split
    · rfl
    · split
      · rfl
      · rw [compile_token]; rfl
  | enter c' =>
    have hne : c ≠ c' := fun e => h1 (by rw [e])
    rw [step_enter]
    split
    · rfl
    · show ((s.setCtx c' _).ctx c).token = _
      rw [ctx_setCtx_ne _ _ _ _ hne]
  | exit c' =>
    have hne : c ≠ c' := fun e => h2 (by rw [e])
    rw [step_exit]
    split
    · show ((s.setCtx c' _).ctx c).token = _
      rw [ctx_setCtx_ne _ _ _ _ hne]
    · rfl
  | isCompiled _ _ => rfl
  | hasSymbolic _ _ => rfl
  | getCompiled _ _ => rfl
  | getSymbolic _ _ => rfl

theorem run_token (s : PState) (ops : List POp') (c : ℕ)
    (h : ∀ op ∈ ops, op ≠ .enter c ∧ op ≠ .exit c) :
    ((s.run ops).1.ctx c).token = (s.ctx c).token := by
  induction ops generalizing s with
  | nil => rfl
  | cons op ops ih =>
    rw [run_cons_fst, ih _ (fun o ho => h o (List.mem_cons_of_mem _ ho)),
      step_token s op c (h op List.mem_cons_self).1 (h op List.mem_cons_self).2]

theorem step_enter_ok (s : PState) (c : ℕ) (hc : c < s.ctxs.length) (hfree : (s.ctx c).token = none) :
    s.step (.enter c) =
      ({ s.setCtx c { s.ctx c with token := some s.active } with active := c }, .unit) := by
  rw [step_enter, if_neg]
  rw [hfree]
  simp [hc]

theorem step_exit_ok (s : PState) (c prev : ℕ) (h : (s.ctx c).token = some prev) :
    s.step (.exit c) =
      ({ s.setCtx c { s.ctx c with token := none } with active := prev }, .unit) := by
  rw [step_exit]
  simp only [h]

theorem step_exit_none (s : PState) (c : ℕ) (h : (s.ctx c).token = none) :
    s.step (.exit c) = (s, .error) := by
  rw [step_exit]
  simp only [h]

theorem enter_token (s : PState) (c : ℕ) (hc : c < s.ctxs.length) (hfree : (s.ctx c).token = none) :
    ((s.step (.enter c)).1.ctx c).token = some s.active := by
  rw [step_enter_ok s c hc hfree]
  show ((s.setCtx c _).ctx c).token = _
  rw [ctx_setCtx_self _ _ _ hc]

/-! ## whole histories -/

theorem Inv.run {s : PState} (h : s.Inv) (ops : List POp') : (s.run ops).1.Inv := by
  induction ops generalizing s with
  | nil => exact h
  | cons op ops ih => rw [run_cons_fst]; exact ih (h.step op)

theorem LogTopo.run {s : PState} (h : s.Inv) (ht : s.LogTopo) (ops : List POp') :
    (s.run ops).1.LogTopo := by
  induction ops generalizing s with
  | nil => exact ht
  | cons op ops ih => rw [run_cons_fst]; exact ih (h.step op) (ht.step h op)

/-! ## consequences of the invariant -/

theorem Inv.bimap_bijection {s : PState} (h : s.Inv) (c sc cc : ℕ) :
    s.compiledOf c sc = some cc ↔ s.symbolicOf c cc = some sc := by
  unfold compiledOf symbolicOf
  rw [alookup_eq_some_iff _ (h.left_nodup c), find_snd_eq_some_iff _ (h.right_nodup c)]

theorem compile_idempotent' (s : PState) (c sc cc : ℕ) (hr : (s.compile c sc).2 = .cc cc) :
    (s.compile c sc).1.compile c sc = ((s.compile c sc).1, .cc cc) := by
  by_cases hg : sc ≥ s.operands.length ∨ c ≥ s.ctxs.length
  · rw [compile_of_bad s c sc hg] at hr; cases hr
  · cases hk : s.compiledOf c sc with
    | some cc' =>
      rw [compile_of_some s c sc cc' hg hk] at hr ⊢
      cases hr
      exact compile_of_some s c sc _ hg hk
    | none =>
      rw [compile_of_none s c sc hg hk] at hr ⊢
      cases hk' : (s.compilePipeline c sc).compiledOf c sc with
      | none => simp only [hk'] at hr; cases hr
      | some cc'' =>
        simp only [hk'] at hr ⊢
        cases hr
        apply compile_of_some _ _ _ _ _ hk'
        rw [compilePipeline_operands, compilePipeline_ctxs_length]
        exact hg

theorem operands_compiled {s : PState} (h : s.Inv) (ht : s.LogTopo) (c sc : ℕ)
    (hk : (s.compiledOf c sc).isSome) : ∀ o ∈ s.operandsOf sc, (s.compiledOf c o).isSome := by
  intro o ho
  obtain ⟨l1, l2, he⟩ := List.append_of_mem ((h.log_iff c sc).mpr hk)
  have := ht l1 c sc l2 he o ho
  exact (h.log_iff c o).mp (by rw [he]; exact List.mem_append_left _ this)

/-! ## well-bracketed histories -/

/-- Syntactically well-bracketed histories.  `busy` lists the contexts that may not be entered
    (they are entered further out); `with c:` blocks nest, and a block never enters a context that
    is already entered (re-entrance of an active context is not claimed). -/
inductive WB : List ℕ → List POp' → Prop
  | nil (busy : List ℕ) : WB busy []
  | op (busy : List ℕ) (op : POp') (rest : List POp') : (∀ c, op ≠ .enter c) → (∀ c, op ≠ .exit c) →
      WB busy rest → WB busy (op :: rest)
  | block (busy : List ℕ) (c : ℕ) (body rest : List POp') : c ∉ busy → WB (c :: busy) body →
      WB busy rest → WB busy (.enter c :: (body ++ .exit c :: rest))

theorem step_active (s : PState) (op : POp') (h1 : ∀ c, op ≠ .enter c) (h2 : ∀ c, op ≠ .exit c) :
    (s.step op).1.active = s.active := by
  cases op with
  | newCircuit => rfl
  | symOp ops => rw [step_symOp]; split <;> rfl
  | newCtx => rfl
  | compile c' sc => exact compile_active s _ sc
  | ccOp c' ccs =>
    rw [step_ccOp]
    split
    · rfl
    · split
      · rfl
      · rw [compile_active]
  | enter c' => exact absurd rfl (h1 c')
  | exit c' => exact absurd rfl (h2 c')
  | isCompiled _ _ => rfl
  | hasSymbolic _ _ => rfl
  | getCompiled _ _ => rfl
  | getSymbolic _ _ => rfl

theorem step_enter_fail (s : PState) (c : ℕ) (h : ¬ c < s.ctxs.length) :
    s.step (.enter c) = (s, .error) := by
  rw [step_enter, if_pos]
  left; omega

theorem exit_token (s : PState) (c prev : ℕ) (h : (s.ctx c).token = some prev) :
    ((s.step (.exit c)).1.ctx c).token = none ∧ (s.step (.exit c)).1.active = prev := by
  have hc : c < s.ctxs.length := by
    by_contra hc
    rw [ctx_of_ge s c (by omega)] at h
    cases h
  rw [step_exit_ok s c prev h]
  refine ⟨?_, rfl⟩
  show ((s.setCtx c _).ctx c).token = none
  rw [ctx_setCtx_self _ _ _ hc]

/-- A well-bracketed history restores the active context and all tokens, provided the contexts
    it may enter are free at the start. -/
theorem WB.run_restores {busy : List ℕ} {ops : List POp'} (hwb : WB busy ops) :
    ∀ s : PState, (∀ c, c ∉ busy → (s.ctx c).token = none) →
      (s.run ops).1.active = s.active ∧ ∀ c, ((s.run ops).1.ctx c).token = (s.ctx c).token := by
  induction hwb with
  | nil busy => intro s _; exact ⟨rfl, fun _ => rfl⟩
  | op busy op rest h1 h2 _ ih =>
    intro s hfree
    have htok : ∀ c, ((s.step op).1.ctx c).token = (s.ctx c).token :=
      fun c => step_token s op c (h1 c) (h2 c)
    obtain ⟨i1, i2⟩ := ih (s.step op).1 (fun c hc => by rw [htok]; exact hfree c hc)
    rw [run_cons_fst]
    exact ⟨by rw [i1, step_active s op h1 h2], fun c => by rw [i2, htok]⟩
  | block busy c body rest hcb _ _ ihb ihr =>
    intro s hfree
    rw [run_cons_fst, run_append_fst, run_cons_fst]
    by_cases hc : c < s.ctxs.length
    · -- the block is entered
      have hcfree := hfree c hcb
      have ht1 : ((s.step (.enter c)).1.ctx c).token = some s.active := enter_token s c hc hcfree
      have ht1' : ∀ c', c' ≠ c → ((s.step (.enter c)).1.ctx c').token = (s.ctx c').token := by
        intro c' hne
        exact step_token s (.enter c) c' (fun e => hne (by cases e; rfl)) (fun e => by cases e)
      obtain ⟨_, b2⟩ := ihb (s.step (.enter c)).1 (by
        intro c' hc'
        rw [List.mem_cons, not_or] at hc'
        rw [ht1' c' hc'.1]
        exact hfree c' hc'.2)
      have ht2 : ((((s.step (.enter c)).1.run body).1).ctx c).token = some s.active := by
        rw [b2, ht1]
      obtain ⟨e1, e2⟩ := exit_token _ c s.active ht2
      have ht3 : ∀ c', (((((s.step (.enter c)).1.run body).1).step (.exit c)).1.ctx c').token =
          (s.ctx c').token := by
        intro c'
        by_cases hne : c' = c
        · subst hne; rw [e1, hcfree]
        · rw [step_token _ (.exit c) c' (fun e => by cases e) (fun e => hne (by cases e; rfl)),
            b2, ht1' c' hne]
      obtain ⟨r1, r2⟩ := ihr _ (fun c' hc' => by rw [ht3]; exact hfree c' hc')
      exact ⟨by rw [r1, e2], fun c' => by rw [r2, ht3]⟩
    · -- the context object does not exist: `enter` and the matching `exit` are both refused
      rw [step_enter_fail s c hc]
      obtain ⟨b1, b2⟩ := ihb s (fun c' hc' => hfree c' (fun h => hc' (List.mem_cons_of_mem _ h)))
      have ht2 : (((s.run body).1).ctx c).token = none := by rw [b2]; exact hfree c hcb
      rw [step_exit_none _ c ht2]
      obtain ⟨r1, r2⟩ := ihr (s.run body).1 (fun c' hc' => by rw [b2]; exact hfree c' hc')
      exact ⟨by rw [r1, b1], fun c' => by rw [r2, b2]⟩

theorem WB.exit_restores {busy : List ℕ} {body : List POp'} {c : ℕ} (hwb : WB (c :: busy) body)
    (s : PState) (hc : c < s.ctxs.length) (hfree : ∀ c', c' ∉ busy → (s.ctx c').token = none)
    (hcb : c ∉ busy) :
    ((s.step (.enter c)).1.run body).1.active = c ∧
      (((s.step (.enter c)).1.run body).1.step (.exit c)).1.active = s.active := by
  constructor
  · have h1 : (s.step (.enter c)).1.active = c := by rw [step_enter_ok s c hc (hfree c hcb)]
    obtain ⟨b1, _⟩ := hwb.run_restores (s.step (.enter c)).1 (by
      intro c' hc'
      rw [List.mem_cons, not_or] at hc'
      rw [step_token s (.enter c) c' (fun e => hc'.1 (by cases e; rfl)) (fun e => by cases e)]
      exact hfree c' hc'.2)
    rw [b1, h1]
  · have := ((WB.block busy c body [] hcb hwb (WB.nil busy)).run_restores s hfree).1
    rw [run_cons_fst, run_append_fst, run_cons_fst, run_nil] at this
    exact this

end PState

end Cirkit
