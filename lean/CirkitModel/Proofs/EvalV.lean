/-
  CirkitModel.Proofs.EvalV — the vectorised evaluator the driver runs (`Node.evalV`) agrees with
  the unit-wise denotation (`Node.eval`) on well-formed trees, over any operation record.
-/
import CirkitModel.Model.Node

namespace Cirkit

theorem getD_ofFn {α : Type} {n : Nat} (f : Fin n → α) (i : Nat) (h : i < n) (d : α) :
    (Array.ofFn f).getD i d = f ⟨i, h⟩ := by
  simp [Array.getD, h]

theorem Ops.sumN_congr {R : Type} (o : Ops R) (n : Nat) (f g : Nat → R)
    (h : ∀ i, i < n → f i = g i) : o.sumN n f = o.sumN n g := by
  induction n with
  | zero => rfl
  | succ n ih =>
    simp only [Ops.sumN]
    rw [ih (fun i hi => h i (Nat.lt_succ_of_lt hi)), h n (Nat.lt_succ_self n)]

theorem Ops.prodN_congr {R : Type} (o : Ops R) (n : Nat) (f g : Nat → R)
    (h : ∀ i, i < n → f i = g i) : o.prodN n f = o.prodN n g := by
  induction n with
  | zero => rfl
  | succ n ih =>
    simp only [Ops.prodN]
    rw [ih (fun i hi => h i (Nat.lt_succ_of_lt hi)), h n (Nat.lt_succ_self n)]

namespace Node
variable {R V : Type}

theorem evalV_size (o : Ops R) (x : Nat → V) (n : Node R V) : (n.evalV o x).size = n.units := by
  cases n <;> simp [evalV, units]

theorem digit_lt (k ar h i : Nat) (hk : 0 < k) : digit k ar h i < k := by
  unfold digit; exact Nat.mod_lt _ hk

theorem evalV_getD (o : Ops R) (x : Nat → V) (n : Node R V) (hwf : n.WF) (i : Nat)
    (hi : i < n.units) (d : R) : (n.evalV o x).getD i d = n.eval o x i := by
  induction n generalizing i d with
  | leaf v k f => simp only [units] at hi; simp [evalV, eval, getD_ofFn, hi]
  | const k c => simp only [units] at hi; simp [evalV, eval, getD_ofFn, hi]
  | sum ar kin kout W ch ih =>
    simp only [units] at hi
    simp only [evalV, eval, getD_ofFn _ _ hi, Ops.sumFin]
    apply Ops.sumN_congr
    intro h hh
    simp only [hh, dite_true]
    apply Ops.sumN_congr
    intro j hj
    rw [getD_ofFn _ _ hh]
    have hw := hwf ⟨h, hh⟩
    rw [ih ⟨h, hh⟩ hw.1 j (by rw [hw.2]; exact hj)]
  | had ar k ch ih =>
    simp only [units] at hi
    simp only [evalV, eval, getD_ofFn _ _ hi, Ops.prodFin]
    apply Ops.prodN_congr
    intro h hh
    simp only [hh, dite_true]
    rw [getD_ofFn _ _ hh]
    have hw := hwf ⟨h, hh⟩
    rw [ih ⟨h, hh⟩ hw.1 i (by rw [hw.2]; exact hi)]
  | kron ar k ch ih =>
    simp only [units] at hi
    simp only [evalV, eval, getD_ofFn _ _ hi, Ops.prodFin]
    apply Ops.prodN_congr
    intro h hh
    simp only [hh, dite_true]
    rw [getD_ofFn _ _ hh]
    have hw := hwf ⟨h, hh⟩
    have hk : 0 < k := by
      rcases Nat.eq_zero_or_pos k with h0 | h0
      · subst h0
        have : ar ≠ 0 := by omega
        simp [Nat.zero_pow (Nat.pos_of_ne_zero this)] at hi
      · exact h0
    rw [ih ⟨h, hh⟩ hw.1 _ (by rw [hw.2]; exact digit_lt k ar h i hk)]

end Node
end Cirkit
