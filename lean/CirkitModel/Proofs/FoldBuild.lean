/-
  CirkitModel.Proofs.FoldBuild — the model of `build_folded_graph` (`buildFolded`,
  `groupFrontier`) always emits a certificate accepted by `FoldCert.valid`.

  * `gfStep_spec`: one step of `group_foldable_modules` either opens a new group or appends the
    module to the unique group with its key;
  * `GFInv`: groups are non-empty, key-homogeneous and have pairwise different keys;
  * `groupFrontier_perm`: grouping permutes the frontier;
  * `loc_append_left`: a module of an earlier chunk is located in that chunk;
  * `flatMap_split`: position `gi` of a `flatMap` lies in the image of exactly one element;
  * `buildFolded_valid'`: the certificate is valid.
-/
import Mathlib.Data.List.Basic
import Mathlib.Data.List.GetD
import Mathlib.Data.List.Range
import Mathlib.Data.List.Perm.Basic
import Mathlib.Tactic.Common
import CirkitModel.Proofs.Fold

namespace Cirkit

/-- key of a group = key of its first member -/
def gkey (key : ℕ → ℕ) (grp : List ℕ) : ℕ := key (grp.headD 0)

/-- one step of `groupFrontier` -/
def gfStep (key : ℕ → ℕ) (groups : List (List ℕ)) (m : ℕ) : List (List ℕ) :=
  if groups.any (fun grp => gkey key grp == key m) then
    groups.map (fun grp => if gkey key grp == key m then grp ++ [m] else grp)
  else groups ++ [[m]]

theorem groupFrontier_eq (key : ℕ → ℕ) (fr : List ℕ) :
    groupFrontier key fr = fr.foldl (gfStep key) [] := rfl

/-- invariant of the grouping loop -/
structure GFInv (key : ℕ → ℕ) (groups : List (List ℕ)) : Prop where
  ne : ∀ grp ∈ groups, grp ≠ []
  hom : ∀ grp ∈ groups, ∀ m ∈ grp, key m = gkey key grp
  pw : groups.Pairwise (fun a b => gkey key a ≠ gkey key b)

theorem gfStep_spec (key : ℕ → ℕ) (groups : List (List ℕ)) (m : ℕ)
    (pw : groups.Pairwise (fun a b => gkey key a ≠ gkey key b)) :
    ((∀ grp ∈ groups, gkey key grp ≠ key m) ∧ gfStep key groups m = groups ++ [[m]]) ∨
    (∃ A a B, groups = A ++ a :: B ∧ gkey key a = key m ∧
      (∀ grp ∈ A, gkey key grp ≠ key m) ∧ (∀ grp ∈ B, gkey key grp ≠ key m) ∧
      gfStep key groups m = A ++ (a ++ [m]) :: B) := by
  induction groups with
  | nil => left; simp [gfStep]
  | cons a rest ih =>
    rw [List.pairwise_cons] at pw
    obtain ⟨ha, hrest⟩ := pw
    by_cases hk : gkey key a = key m
    · right
      refine ⟨[], a, rest, rfl, hk, by simp, fun b hb => ?_, ?_⟩
      · rw [← hk]; exact (ha b hb).symm
      · have hmap : rest.map (fun grp => if gkey key grp == key m then grp ++ [m] else grp)
            = rest := by
          conv_rhs => rw [← List.map_id rest]
          refine List.map_congr_left (fun b hb => ?_)
          have : gkey key b ≠ key m := by rw [← hk]; exact (ha b hb).symm
          simp [this]
        simp only [beq_iff_eq] at hmap
        simp [gfStep, hk, hmap]
    · rcases ih hrest with ⟨hno, he⟩ | ⟨A, a', B, hg, hk', hA, hB, he⟩
      · left
        refine ⟨fun b hb => ?_, ?_⟩
        · rcases List.mem_cons.mp hb with rfl | hb
          · exact hk
          · exact hno b hb
        · have hany : rest.any (fun grp => gkey key grp == key m) = false := by
            rw [List.any_eq_false]
            intro b hb; simpa using hno b hb
          simp [gfStep, hk, hany]
      · right
        refine ⟨a :: A, a', B, by rw [hg]; rfl, hk', fun b hb => ?_, hB, ?_⟩
        · rcases List.mem_cons.mp hb with rfl | hb
          · exact hk
          · exact hA b hb
        · have hany : rest.any (fun grp => gkey key grp == key m) = true := by
            rw [List.any_eq_true]
            exact ⟨a', by rw [hg]; simp, by simpa using hk'⟩
          have he' : rest.map (fun grp => if gkey key grp == key m then grp ++ [m] else grp)
              = A ++ (a' ++ [m]) :: B := by
            simpa [gfStep, hany] using he
          simp only [beq_iff_eq] at he'
          simp [gfStep, hk, hany, he']

theorem gfStep_inv {key : ℕ → ℕ} {groups : List (List ℕ)} (m : ℕ) (h : GFInv key groups) :
    GFInv key (gfStep key groups m) := by
  rcases gfStep_spec key groups m h.pw with ⟨hno, he⟩ | ⟨A, a, B, hg, hk, hA, hB, he⟩
  · rw [he]
    refine ⟨fun grp hg => ?_, fun grp hg x hx => ?_, ?_⟩
    · rcases List.mem_append.mp hg with hg | hg
      · exact h.ne grp hg
      · simp at hg; subst hg; simp
    · rcases List.mem_append.mp hg with hg | hg
      · exact h.hom grp hg x hx
      · simp at hg; subst hg; simp at hx; subst hx; rfl
    · rw [List.pairwise_append]
      refine ⟨h.pw, by simp, fun x hx y hy => ?_⟩
      simp at hy; subst hy
      exact hno x hx
  · have hane : a ≠ [] := h.ne a (by rw [hg]; simp)
    have hhead : gkey key (a ++ [m]) = gkey key a := by
      cases a with
      | nil => exact absurd rfl hane
      | cons x xs => rfl
    rw [he]
    refine ⟨fun grp hgr => ?_, fun grp hgr x hx => ?_, ?_⟩
    · rcases List.mem_append.mp hgr with hgr | hgr
      · exact h.ne grp (by rw [hg]; exact List.mem_append_left _ hgr)
      · rcases List.mem_cons.mp hgr with rfl | hgr
        · simp
        · exact h.ne grp (by rw [hg]; simp [hgr])
    · rcases List.mem_append.mp hgr with hgr | hgr
      · exact h.hom grp (by rw [hg]; exact List.mem_append_left _ hgr) x hx
      · rcases List.mem_cons.mp hgr with rfl | hgr
        · rw [hhead]
          rcases List.mem_append.mp hx with hx | hx
          · exact h.hom a (by rw [hg]; simp) x hx
          · simp at hx; subst hx; exact hk.symm
        · exact h.hom grp (by rw [hg]; simp [hgr]) x hx
    · have pw := h.pw
      rw [hg, List.pairwise_append, List.pairwise_cons] at pw
      obtain ⟨pA, ⟨paB, pB⟩, pAB⟩ := pw
      rw [List.pairwise_append, List.pairwise_cons]
      refine ⟨pA, ⟨fun b hb => ?_, pB⟩, fun x hx y hy => ?_⟩
      · rw [hhead]; exact paB b hb
      · rcases List.mem_cons.mp hy with rfl | hy
        · rw [hhead]; exact pAB x hx a (by simp)
        · exact pAB x hx y (by simp [hy])

theorem gfStep_perm {key : ℕ → ℕ} {groups : List (List ℕ)} (m : ℕ) (h : GFInv key groups) :
    (gfStep key groups m).flatten.Perm (groups.flatten ++ [m]) := by
  rcases gfStep_spec key groups m h.pw with ⟨_, he⟩ | ⟨A, a, B, hg, _, _, _, he⟩
  · rw [he]; simp
  · rw [he, hg]
    simp only [List.flatten_append, List.flatten_cons, List.append_assoc]
    refine List.Perm.append_left _ (List.Perm.append_left _ ?_)
    exact List.perm_append_comm

theorem foldl_gfStep (key : ℕ → ℕ) (fr : List ℕ) (groups : List (List ℕ)) (h : GFInv key groups) :
    GFInv key (fr.foldl (gfStep key) groups) ∧
    (fr.foldl (gfStep key) groups).flatten.Perm (groups.flatten ++ fr) := by
  induction fr generalizing groups with
  | nil => exact ⟨h, by simp⟩
  | cons m fr ih =>
    obtain ⟨h1, h2⟩ := ih (gfStep key groups m) (gfStep_inv m h)
    refine ⟨h1, h2.trans ?_⟩
    have := (gfStep_perm m h).append_right fr
    simpa using this

theorem GFInv.nil (key : ℕ → ℕ) : GFInv key [] := ⟨by simp, by simp, List.Pairwise.nil⟩

theorem groupFrontier_inv (key : ℕ → ℕ) (fr : List ℕ) : GFInv key (groupFrontier key fr) :=
  (foldl_gfStep key fr [] (GFInv.nil key)).1

theorem groupFrontier_perm (key : ℕ → ℕ) (fr : List ℕ) :
    (groupFrontier key fr).flatten.Perm fr := by
  rw [groupFrontier_eq]
  simpa using (foldl_gfStep key fr [] (GFInv.nil key)).2

theorem flatMap_groupFrontier_perm (key : ℕ → ℕ) (frs : List (List ℕ)) :
    (frs.flatMap (groupFrontier key)).flatten.Perm frs.flatten := by
  induction frs with
  | nil => simp
  | cons fr frs ih =>
    simp only [List.flatMap_cons, List.flatten_append, List.flatten_cons]
    exact (groupFrontier_perm key fr).append ih

/-! ### `loc` finds members, and finds them in the earliest chunk -/

theorem indexOf?_of_mem {m : ℕ} {l : List ℕ} (h : m ∈ l) : ∃ s, FoldCert.indexOf? m l = some s := by
  induction l with
  | nil => simp at h
  | cons a as ih =>
    simp only [FoldCert.indexOf?]
    by_cases ha : a = m
    · exact ⟨0, by simp [ha]⟩
    · have : m ∈ as := by
        rcases List.mem_cons.mp h with rfl | h
        · exact absurd rfl ha
        · exact h
      obtain ⟨s, hs⟩ := ih this
      exact ⟨s + 1, by simp [ha, hs]⟩

theorem loc_go_append_left {i : ℕ} {A : List (List ℕ)} (B : List (List ℕ)) (k : ℕ)
    (h : i ∈ A.flatten) : ∃ p, FoldCert.loc.go i (A ++ B) k = some p ∧ p.1 < k + A.length := by
  induction A generalizing k with
  | nil => simp at h
  | cons a A ih =>
    simp only [List.cons_append, FoldCert.loc.go]
    cases hi : FoldCert.indexOf? i a with
    | some s => exact ⟨(k, s), rfl, by simp⟩
    | none =>
      have hna : i ∉ a := fun hm => by
        obtain ⟨s, hs⟩ := indexOf?_of_mem hm
        rw [hs] at hi; cases hi
      have : i ∈ A.flatten := by
        simp only [List.flatten_cons, List.mem_append] at h
        exact h.resolve_left hna
      obtain ⟨p, hp, hlt⟩ := ih (k + 1) this
      exact ⟨p, hp, by simp only [List.length_cons]; omega⟩

theorem loc_append_left {i : ℕ} {A : List (List ℕ)} (B : List (List ℕ)) (h : i ∈ A.flatten) :
    ∃ p, FoldCert.loc (A ++ B) i = some p ∧ p.1 < A.length := by
  obtain ⟨p, hp, hlt⟩ := loc_go_append_left B 0 h
  exact ⟨p, hp, by simpa using hlt⟩

theorem loc_of_mem {i : ℕ} {groups : List (List ℕ)} (h : i ∈ groups.flatten) :
    ∃ p, FoldCert.loc groups i = some p := by
  obtain ⟨p, hp, _⟩ := loc_append_left [] h
  exact ⟨p, by simpa using hp⟩

/-- position `gi` of a `flatMap` lies in the image of one element `xs[k]`, after the images of the
    first `k` elements -/
theorem flatMap_split (f : List ℕ → List (List ℕ)) (xs : List (List ℕ)) (gi : ℕ)
    (h : gi < (xs.flatMap f).length) :
    ∃ k, k < xs.length ∧ ((xs.take k).flatMap f).length ≤ gi ∧
      (xs.flatMap f).getD gi [] ∈ f (xs.getD k []) := by
  induction xs generalizing gi with
  | nil => simp at h
  | cons x xs ih =>
    simp only [List.flatMap_cons, List.length_append] at h
    by_cases hlt : gi < (f x).length
    · refine ⟨0, by simp, by simp, ?_⟩
      simp only [List.flatMap_cons, List.getD_cons_zero]
      rw [List.getD_append _ _ _ _ hlt, List.getD_eq_getElem _ _ hlt]
      exact List.getElem_mem hlt
    · obtain ⟨k, hk, hle, hmem⟩ := ih (gi - (f x).length) (by omega)
      refine ⟨k + 1, by simpa using hk, ?_, ?_⟩
      · simp only [List.take_succ_cons, List.flatMap_cons, List.length_append]; omega
      · simp only [List.flatMap_cons, List.getD_cons_succ]
        rw [List.getD_append_right _ _ _ _ (by omega)]
        exact hmem

/-! ### the certificate built by the model is valid -/

/-- What `build_folded_graph` is handed: a layer-wise topological ordering of the modules
    `0 … n-1`, fold keys that determine the arity, outputs that are modules. -/
structure Layered (g : UGraph) (frs : List (List ℕ)) : Prop where
  perm : frs.flatten.Perm (List.range g.n)
  earlier : ∀ k < frs.length, ∀ m ∈ frs.getD k [], ∀ i ∈ g.ins m, i ∈ (frs.take k).flatten
  arity : ∀ m < g.n, ∀ m' < g.n, g.key m = g.key m' → (g.ins m).length = (g.ins m').length
  outs : ∀ o ∈ g.outputs, o < g.n

theorem groups_inv (key : ℕ → ℕ) (frs : List (List ℕ)) :
    ∀ grp ∈ frs.flatMap (groupFrontier key), grp ≠ [] ∧ ∀ m ∈ grp, key m = gkey key grp := by
  intro grp hg
  obtain ⟨fr, _, hgf⟩ := List.mem_flatMap.mp hg
  have inv := groupFrontier_inv key fr
  exact ⟨inv.ne grp hgf, inv.hom grp hgf⟩

theorem headD_mem {l : List ℕ} (h : l ≠ []) : l.headD 0 ∈ l := by
  cases l with
  | nil => exact absurd rfl h
  | cons a as => simp

theorem buildFolded_eq (g : UGraph) (frs : List (List ℕ))
    (hlt : ∀ grp ∈ frs.flatMap (groupFrontier g.key), ∀ m ∈ grp, m < g.n)
    (harity : ∀ m < g.n, ∀ m' < g.n, g.key m = g.key m' → (g.ins m).length = (g.ins m').length) :
    buildFolded g frs =
      { groups := frs.flatMap (groupFrontier g.key)
        inIdx := (frs.flatMap (groupFrontier g.key)).map fun members => members.map fun m =>
          (g.ins m).map fun i => (FoldCert.loc (frs.flatMap (groupFrontier g.key)) i).getD (0, 0)
        outIdx := g.outputs.map fun o =>
          (FoldCert.loc (frs.flatMap (groupFrontier g.key)) o).getD (0, 0) } := by
  unfold buildFolded
  simp only [FoldCert.mk.injEq, true_and, and_true]
  refine List.map_congr_left (fun members hm => ?_)
  obtain ⟨hne, hhom⟩ := groups_inv g.key frs members hm
  split
  · rename_i hemp
    refine List.map_congr_left (fun m hmm => ?_)
    have h1 := harity m (hlt members hm m hmm) (members.headD 0)
      (hlt members hm _ (headD_mem hne)) (hhom m hmm)
    have h2 : (g.ins (members.headD 0)).length = 0 := by
      simpa [List.isEmpty_iff] using hemp
    have : g.ins m = [] := List.length_eq_zero_iff.mp (by omega)
    simp [this]
  · rfl

theorem buildFolded_valid' (g : UGraph) (frs : List (List ℕ)) (h : Layered g frs) :
    (buildFolded g frs).valid g = true := by
  have hperm0 : (frs.flatMap (groupFrontier g.key)).flatten.Perm (List.range g.n) :=
    (flatMap_groupFrontier_perm g.key frs).trans h.perm
  have hlt0 : ∀ grp ∈ frs.flatMap (groupFrontier g.key), ∀ m ∈ grp, m < g.n := fun grp hg m hm =>
    List.mem_range.mp (hperm0.mem_iff.mp (List.mem_flatten.mpr ⟨grp, hg, hm⟩))
  rw [buildFolded_eq g frs hlt0 h.arity]
  generalize hgr : frs.flatMap (groupFrontier g.key) = groups
  have hperm : groups.flatten.Perm (List.range g.n) := by
    rw [← hgr]; exact hperm0
  have hlt : ∀ grp ∈ groups, ∀ m ∈ grp, m < g.n := by rw [← hgr]; exact hlt0
  have hinv := groups_inv g.key frs
  rw [hgr] at hinv
  simp only [FoldCert.valid, Bool.and_eq_true, beq_iff_eq, List.all_eq_true, List.mem_range]
  refine ⟨⟨⟨⟨?_, by simp⟩, fun gi hgi => ?_⟩, by simp⟩, fun j hj => ?_⟩
  · -- the groups partition the modules
    simp only [FoldCert.partitions, Bool.and_eq_true, beq_iff_eq, List.all_eq_true, List.mem_range]
    refine ⟨by rw [hperm.length_eq, List.length_range], fun m hm => ?_⟩
    rw [hperm.count_eq]
    rw [List.Nodup.count List.nodup_range, if_pos (List.mem_range.mpr hm)]
  · -- group `gi`
    have hM : groups.getD gi [] = groups[gi] := List.getD_eq_getElem _ _ hgi
    have hI : ∀ F : List ℕ → List (List (ℕ × ℕ)), (groups.map F).getD gi [] = F groups[gi] := by
      intro F
      rw [List.getD_eq_getElem _ _ (by simpa using hgi), List.getElem_map]
    rw [hM, hI]
    have hmem : groups[gi] ∈ groups := List.getElem_mem hgi
    obtain ⟨hne, hhom⟩ := hinv _ hmem
    generalize groups[gi] = members at hM hmem hne hhom
    refine ⟨⟨⟨by simp, ?_⟩, fun m hm => ?_⟩, fun f hf => ?_⟩
    · cases members with
      | nil => exact absurd rfl hne
      | cons a as => rfl
    · have hk : g.key m = g.key (members.headD 0) := hhom m hm
      exact ⟨hk, h.arity _ (hlt _ hmem m hm) _ (hlt _ hmem _ (headD_mem hne)) hk⟩
    · have hR : ∀ G : ℕ → List (ℕ × ℕ), (members.map G).getD f [] = G members[f] := by
        intro G
        rw [List.getD_eq_getElem _ _ (by simpa using hf), List.getElem_map]
      have hm : members.getD f 0 = members[f] := List.getD_eq_getElem _ _ hf
      rw [hR, hm]
      have hmm : members[f] ∈ members := List.getElem_mem hf
      generalize members[f] = m at hmm
      refine ⟨by simp, fun x hx => ?_⟩
      have hx' : x < (g.ins m).length := by simpa using hx
      have hi : (g.ins m).getD x 0 = (g.ins m)[x] := List.getD_eq_getElem _ _ hx'
      have hrow : (List.map (fun i => (FoldCert.loc groups i).getD (0, 0)) (g.ins m)).getD x (0, 0)
          = (FoldCert.loc groups (g.ins m)[x]).getD (0, 0) := by
        rw [List.getD_eq_getElem _ _ hx, List.getElem_map]
      rw [hi, hrow]
      have him : (g.ins m)[x] ∈ g.ins m := List.getElem_mem hx'
      generalize (g.ins m)[x] = i at him
      -- locate group `gi` in the image of frontier `k`
      obtain ⟨k, hk, hle, hmk⟩ := flatMap_split (groupFrontier g.key) frs gi (by rw [hgr]; exact hgi)
      rw [hgr, hM] at hmk
      have hmfr : m ∈ frs.getD k [] :=
        (groupFrontier_perm g.key _).mem_iff.mp (List.mem_flatten.mpr ⟨members, hmk, hmm⟩)
      have hiA : i ∈ ((frs.take k).flatMap (groupFrontier g.key)).flatten :=
        (flatMap_groupFrontier_perm g.key _).mem_iff.mpr (h.earlier k hk m hmfr i him)
      have hsplit : groups = (frs.take k).flatMap (groupFrontier g.key)
          ++ (frs.drop k).flatMap (groupFrontier g.key) := by
        rw [← List.flatMap_append, List.take_append_drop, hgr]
      obtain ⟨p, hp, hlt⟩ := loc_append_left ((frs.drop k).flatMap (groupFrontier g.key)) hiA
      rw [← hsplit] at hp
      rw [hp]
      simp only [Option.getD_some, beq_self_eq_true, Bool.true_and, decide_eq_true_eq]
      omega
  · -- outputs
    have ho : g.outputs.getD j 0 = g.outputs[j] := List.getD_eq_getElem _ _ hj
    have hrow : (List.map (fun i => (FoldCert.loc groups i).getD (0, 0)) g.outputs).getD j (0, 0)
        = (FoldCert.loc groups g.outputs[j]).getD (0, 0) := by
      rw [List.getD_eq_getElem _ _ (by simpa using hj), List.getElem_map]
    rw [ho, hrow]
    have hlt : g.outputs[j] < g.n := h.outs _ (List.getElem_mem hj)
    have hin : g.outputs[j] ∈ groups.flatten := hperm.mem_iff.mpr (List.mem_range.mpr hlt)
    obtain ⟨p, hp⟩ := loc_of_mem hin
    rw [hp]; rfl


/-- the executable check `layeredB` (what the driver runs on the real ordering) implies `Layered` -/
theorem layeredB_sound {g : UGraph} {frs : List (List ℕ)} (h : layeredB g frs = true) :
    Layered g frs := by
  simp only [layeredB, Bool.and_eq_true, List.all_eq_true, List.mem_range, Bool.or_eq_true,
    bne_iff_ne, beq_iff_eq, decide_eq_true_eq, List.contains_iff_mem] at h
  obtain ⟨⟨⟨hp, he⟩, ha⟩, ho⟩ := h
  refine ⟨perm_of_partitions hp, fun k hk m hm i hi => he k hk m hm i hi, fun m hm m' hm' hkey => ?_, ho⟩
  rcases ha m hm m' hm' with hne | heq
  · exact absurd hkey hne
  · exact heq

theorem buildFolded_valid_of_layeredB (g : UGraph) (frs : List (List ℕ))
    (h : layeredB g frs = true) : (buildFolded g frs).valid g = true :=
  buildFolded_valid' g frs (layeredB_sound h)

end Cirkit
