/-
  CirkitModel.Proofs.Fold — helper lemmas for C02 (folding soundness, address-book gathers).

  * `buildList`: the "append one value computed from the accumulator" fold shared by
    `evalUnfolded` and `evalFolded`, with its length / entry / prefix lemmas;
  * `FoldCert.loc` returns a location that really holds the module;
  * `FoldCert.partitions` forces every member of a group to be a module id `< n`;
  * `FoldCert.valid` unpacked into propositions (`valid_parts`);
  * `fold_slices`: the slice invariant, `fold_outputs`: the gathered outputs;
  * `dedup` / `cumOffset` lemmas for the address-book entries.
-/
import Mathlib.Data.List.Basic
import Mathlib.Data.List.GetD
import Mathlib.Data.List.Range
import Mathlib.Data.List.Perm.Subperm
import Mathlib.Tactic.Common
import CirkitModel.Model.Fold

namespace Cirkit

/-- A graph is topologically ordered when every input id is smaller. -/
def UGraph.Topo (g : UGraph) : Prop := ∀ m < g.n, ∀ i ∈ g.ins m, i < m

/-! ### folds that append one value computed from the accumulator -/

section build
variable {β : Type}

/-- `[F 0 [], F 1 [v₀], F 2 [v₀, v₁], …]` (`n` entries) -/
def buildList (F : ℕ → List β → β) (n : ℕ) : List β :=
  (List.range n).foldl (fun acc m => acc ++ [F m acc]) []

theorem buildList_zero (F : ℕ → List β → β) : buildList F 0 = [] := rfl

theorem buildList_succ (F : ℕ → List β → β) (n : ℕ) :
    buildList F (n + 1) = buildList F n ++ [F n (buildList F n)] := by
  simp only [buildList, List.range_succ, List.foldl_append, List.foldl_cons, List.foldl_nil]

theorem length_buildList (F : ℕ → List β → β) (n : ℕ) : (buildList F n).length = n := by
  induction n with
  | zero => rfl
  | succ n ih => rw [buildList_succ, List.length_append, ih]; rfl

/-- earlier entries do not change when the fold goes on -/
theorem buildList_getD_of_le (F : ℕ → List β → β) {m n : ℕ} (h : m ≤ n) {i : ℕ} (hi : i < m)
    (d : β) : (buildList F n).getD i d = (buildList F m).getD i d := by
  induction n, h using Nat.le_induction with
  | base => rfl
  | succ n hmn ih =>
    rw [buildList_succ, List.getD_append _ _ _ _ (by rw [length_buildList]; omega), ih]

/-- entry `m` is `F m` of the first `m` entries -/
theorem buildList_getD (F : ℕ → List β → β) {m n : ℕ} (h : m < n) (d : β) :
    (buildList F n).getD m d = F m (buildList F m) := by
  rw [buildList_getD_of_le F (Nat.succ_le_of_lt h) (Nat.lt_succ_self m), buildList_succ,
    List.getD_append_right _ _ _ _ (by rw [length_buildList]), length_buildList, Nat.sub_self]
  rfl

end build

/-! ### the two evaluations as `buildList` -/

section evals
variable {α : Type}

/-- the step of `evalUnfolded` -/
def stepU (g : UGraph) (sem : ℕ → List α → α) (dflt : α) (m : ℕ) (acc : List α) : α :=
  sem m ((g.ins m).map fun i => acc.getD i dflt)

/-- the step of `evalFolded` -/
def stepF (c : FoldCert) (sem : ℕ → List α → α) (dflt : α) (gi : ℕ) (acc : List (List α)) :
    List α :=
  (List.range (c.groups.getD gi []).length).map fun f =>
    sem ((c.groups.getD gi []).getD f 0)
      (((c.inIdx.getD gi []).getD f []).map fun p => (acc.getD p.1 []).getD p.2 dflt)

theorem evalUnfolded_eq (g : UGraph) (sem : ℕ → List α → α) (dflt : α) :
    evalUnfolded g sem dflt = buildList (stepU g sem dflt) g.n := rfl

theorem evalFolded_eq (c : FoldCert) (sem : ℕ → List α → α) (dflt : α) :
    evalFolded c sem dflt = buildList (stepF c sem dflt) c.groups.length := rfl

theorem length_evalUnfolded (g : UGraph) (sem : ℕ → List α → α) (dflt : α) :
    (evalUnfolded g sem dflt).length = g.n := by
  rw [evalUnfolded_eq, length_buildList]

theorem length_evalFolded (c : FoldCert) (sem : ℕ → List α → α) (dflt : α) :
    (evalFolded c sem dflt).length = c.groups.length := by
  rw [evalFolded_eq, length_buildList]

/-- In a topologically ordered graph the value of module `m` is its semantics applied to the
    values of its inputs. -/
theorem evalUnfolded_getD (g : UGraph) (sem : ℕ → List α → α) (dflt : α) (htopo : g.Topo)
    {m : ℕ} (hm : m < g.n) :
    (evalUnfolded g sem dflt).getD m dflt
      = sem m ((g.ins m).map fun i => (evalUnfolded g sem dflt).getD i dflt) := by
  rw [evalUnfolded_eq, buildList_getD _ hm]
  show sem m _ = sem m _
  congr 1
  refine List.map_congr_left (fun i hi => ?_)
  exact (buildList_getD_of_le _ (Nat.le_of_lt hm) (htopo m hm i hi) dflt).symm

/-- slice `f` of folded module `gi` is the semantics of member `f` on the gathered slices of
    earlier folded modules -/
theorem evalFolded_getD (c : FoldCert) (sem : ℕ → List α → α) (dflt : α)
    {gi : ℕ} (hgi : gi < c.groups.length) {f : ℕ} (hf : f < (c.groups.getD gi []).length) :
    ((evalFolded c sem dflt).getD gi []).getD f dflt
      = sem ((c.groups.getD gi []).getD f 0)
          (((c.inIdx.getD gi []).getD f []).map fun p =>
            ((buildList (stepF c sem dflt) gi).getD p.1 []).getD p.2 dflt) := by
  rw [evalFolded_eq, buildList_getD _ hgi]
  unfold stepF
  rw [List.getD_eq_getElem _ _ (by simpa using hf)]
  simp only [List.getElem_map, List.getElem_range]

theorem length_evalFolded_getD (c : FoldCert) (sem : ℕ → List α → α) (dflt : α)
    {gi : ℕ} (hgi : gi < c.groups.length) :
    ((evalFolded c sem dflt).getD gi []).length = (c.groups.getD gi []).length := by
  rw [evalFolded_eq, buildList_getD _ hgi]
  simp [stepF]

end evals

/-! ### `loc` -/

theorem indexOf?_some {m : ℕ} {l : List ℕ} {s : ℕ} (h : FoldCert.indexOf? m l = some s) :
    s < l.length ∧ l.getD s 0 = m := by
  induction l generalizing s with
  | nil => simp [FoldCert.indexOf?] at h
  | cons a as ih =>
    simp only [FoldCert.indexOf?] at h
    split at h
    · cases h; subst_vars; simp
    · cases hi : FoldCert.indexOf? m as with
      | none => simp [hi] at h
      | some t =>
        simp only [hi, Option.map_some, Option.some.injEq] at h
        subst h
        obtain ⟨h1, h2⟩ := ih hi
        exact ⟨by simpa using h1, by simpa using h2⟩

theorem loc_go_some {m : ℕ} {gs : List (List ℕ)} {k gi s : ℕ}
    (h : FoldCert.loc.go m gs k = some (gi, s)) :
    k ≤ gi ∧ gi - k < gs.length ∧ s < (gs.getD (gi - k) []).length
      ∧ (gs.getD (gi - k) []).getD s 0 = m := by
  induction gs generalizing k with
  | nil => simp [FoldCert.loc.go] at h
  | cons a as ih =>
    simp only [FoldCert.loc.go] at h
    cases hi : FoldCert.indexOf? m a with
    | some t =>
      simp only [hi, Option.some.injEq, Prod.mk.injEq] at h
      obtain ⟨rfl, rfl⟩ := h
      obtain ⟨h1, h2⟩ := indexOf?_some hi
      refine ⟨Nat.le_refl _, ?_, ?_, ?_⟩
      · simp
      · simpa using h1
      · simpa using h2
    | none =>
      simp only [hi] at h
      obtain ⟨h1, h2, h3, h4⟩ := ih h
      have e : gi - k = (gi - (k + 1)) + 1 := by omega
      refine ⟨by omega, ?_, ?_, ?_⟩
      · simp only [List.length_cons]; omega
      · rw [e]; simpa using h3
      · rw [e]; simpa using h4

/-- the location returned by `loc` holds the module -/
theorem loc_some {groups : List (List ℕ)} {m gi s : ℕ}
    (h : FoldCert.loc groups m = some (gi, s)) :
    gi < groups.length ∧ s < (groups.getD gi []).length ∧ (groups.getD gi []).getD s 0 = m := by
  have := loc_go_some (k := 0) h
  simpa using this

/-! ### `partitions` -/

theorem mem_flatten_of_getD {groups : List (List ℕ)} {gi s : ℕ} (hgi : gi < groups.length)
    (hs : s < (groups.getD gi []).length) : (groups.getD gi []).getD s 0 ∈ groups.flatten := by
  rw [List.getD_eq_getElem _ _ hgi] at hs ⊢
  rw [List.getD_eq_getElem _ _ hs]
  exact List.mem_flatten.mpr ⟨_, List.getElem_mem hgi, List.getElem_mem hs⟩

/-- if the groups partition `0 … n-1`, every member is `< n` (pigeonhole) -/
theorem lt_of_partitions {n : ℕ} {groups : List (List ℕ)}
    (hp : FoldCert.partitions n groups = true) {m : ℕ} (hm : m ∈ groups.flatten) : m < n := by
  simp only [FoldCert.partitions, Bool.and_eq_true, beq_iff_eq, List.all_eq_true,
    List.mem_range] at hp
  obtain ⟨hlen, hcnt⟩ := hp
  have hsub : List.range n ⊆ groups.flatten := by
    intro x hx
    have := hcnt x (List.mem_range.mp hx)
    exact List.count_pos_iff.mp (by omega)
  have hperm : List.Perm (List.range n) groups.flatten :=
    (List.subperm_of_subset List.nodup_range hsub).perm_of_length_le
      (by rw [hlen, List.length_range])
  exact List.mem_range.mp (hperm.mem_iff.mpr hm)

/-- groups that partition `0 … n-1` are, flattened, a permutation of `range n` -/
theorem perm_of_partitions {n : ℕ} {groups : List (List ℕ)}
    (hp : FoldCert.partitions n groups = true) : groups.flatten.Perm (List.range n) := by
  simp only [FoldCert.partitions, Bool.and_eq_true, beq_iff_eq, List.all_eq_true,
    List.mem_range] at hp
  obtain ⟨hlen, hcnt⟩ := hp
  have hsub : List.range n ⊆ groups.flatten := by
    intro x hx
    have := hcnt x (List.mem_range.mp hx)
    exact List.count_pos_iff.mp (by omega)
  exact ((List.subperm_of_subset List.nodup_range hsub).perm_of_length_le
      (by rw [hlen, List.length_range])).symm

/-! ### `valid`, unpacked -/

theorem valid_parts {g : UGraph} {c : FoldCert} (hv : c.valid g = true) :
    FoldCert.partitions g.n c.groups = true ∧
    (∀ gi < c.groups.length, ∀ f < (c.groups.getD gi []).length,
      ((c.inIdx.getD gi []).getD f []).length
          = (g.ins ((c.groups.getD gi []).getD f 0)).length ∧
      ∀ h < ((c.inIdx.getD gi []).getD f []).length,
        FoldCert.loc c.groups ((g.ins ((c.groups.getD gi []).getD f 0)).getD h 0)
            = some (((c.inIdx.getD gi []).getD f []).getD h (0, 0)) ∧
        (((c.inIdx.getD gi []).getD f []).getD h (0, 0)).1 < gi) ∧
    c.outIdx.length = g.outputs.length ∧
    ∀ j < g.outputs.length,
      FoldCert.loc c.groups (g.outputs.getD j 0) = some (c.outIdx.getD j (0, 0)) := by
  simp only [FoldCert.valid, Bool.and_eq_true, beq_iff_eq, List.all_eq_true,
    List.mem_range] at hv
  obtain ⟨⟨⟨⟨hp, _⟩, hg⟩, hol⟩, ho⟩ := hv
  refine ⟨hp, ?_, hol, ho⟩
  intro gi hgi f hf
  obtain ⟨_, hrows⟩ := hg gi hgi
  obtain ⟨hrl, hrow⟩ := hrows f hf
  refine ⟨hrl, fun h hh => ?_⟩
  have := hrow h hh
  split at this
  · rename_i p hp'
    simp only [Bool.and_eq_true, beq_iff_eq, decide_eq_true_eq] at this
    obtain ⟨rfl, hlt⟩ := this
    exact ⟨hp', hlt⟩
  · exact absurd this (by simp)

/-! ### soundness of folding -/

section sound
variable {α : Type}

/-- The slice invariant: slice `f` of folded module `gi` is the value of its `f`-th member. -/
theorem fold_slices (g : UGraph) (c : FoldCert) (sem : ℕ → List α → α) (dflt : α)
    (htopo : g.Topo) (hv : c.valid g = true) :
    ∀ gi, gi < c.groups.length → ∀ f, f < (c.groups.getD gi []).length →
      ((evalFolded c sem dflt).getD gi []).getD f dflt
        = (evalUnfolded g sem dflt).getD ((c.groups.getD gi []).getD f 0) dflt := by
  obtain ⟨hp, hg, -, -⟩ := valid_parts hv
  intro gi
  induction gi using Nat.strong_induction_on with
  | _ gi ih =>
    intro hgi f hf
    obtain ⟨hrl, hrow⟩ := hg gi hgi f hf
    have hm : (c.groups.getD gi []).getD f 0 < g.n :=
      lt_of_partitions hp (mem_flatten_of_getD hgi hf)
    rw [evalFolded_getD c sem dflt hgi hf, evalUnfolded_getD g sem dflt htopo hm]
    congr 1
    refine List.ext_getElem (by simp only [List.length_map]; exact hrl) (fun h h1 h2 => ?_)
    simp only [List.length_map] at h1 h2
    obtain ⟨hloc, hlt⟩ := hrow h h1
    simp only [List.getElem_map]
    rw [← List.getD_eq_getElem _ (0, 0) h1, ← List.getD_eq_getElem _ 0 h2]
    generalize ((c.inIdx.getD gi []).getD f []).getD h (0, 0) = p at hloc hlt
    obtain ⟨p1, p2⟩ := p
    obtain ⟨hp1, hp2, hpm⟩ := loc_some hloc
    have hlt' : p1 < gi := hlt
    have e := buildList_getD_of_le (stepF c sem dflt) (Nat.le_of_lt hgi) hlt' ([] : List α)
    rw [← evalFolded_eq] at e
    show ((buildList (stepF c sem dflt) gi).getD p1 []).getD p2 dflt = _
    rw [← e, ← hpm]
    exact ih p1 hlt' hp1 p2 hp2

/-- gathering `outIdx` from the folded evaluation gives the unfolded outputs -/
theorem fold_outputs (g : UGraph) (c : FoldCert) (sem : ℕ → List α → α) (dflt : α)
    (htopo : g.Topo) (hv : c.valid g = true) :
    gatherOutputs c (evalFolded c sem dflt) dflt
      = g.outputs.map (fun o => (evalUnfolded g sem dflt).getD o dflt) := by
  obtain ⟨-, -, hol, ho⟩ := valid_parts hv
  unfold gatherOutputs
  refine List.ext_getElem (by simp only [List.length_map]; exact hol) (fun j h1 h2 => ?_)
  simp only [List.length_map] at h1 h2
  simp only [List.getElem_map]
  have hloc := ho j h2
  rw [← List.getD_eq_getElem _ (0, 0) h1, ← List.getD_eq_getElem _ 0 h2]
  generalize c.outIdx.getD j (0, 0) = p at hloc
  obtain ⟨p1, p2⟩ := p
  obtain ⟨hp1, hp2, hpm⟩ := loc_some hloc
  rw [← hpm]
  exact fold_slices g c sem dflt htopo hv p1 hp1 p2 hp2

end sound

/-! ### address-book entries -/

theorem mem_dedup {a : ℕ} {l : List ℕ} : a ∈ dedup l ↔ a ∈ l := by
  induction l with
  | nil => simp [dedup]
  | cons b bs ih =>
    simp only [dedup, List.mem_cons, List.mem_filter, ih, bne_iff_ne, ne_eq]
    by_cases h : a = b <;> simp [h]

theorem nodup_dedup (l : List ℕ) : (dedup l).Nodup := by
  induction l with
  | nil => simp [dedup]
  | cons b bs ih =>
    simp only [dedup, List.nodup_cons, List.mem_filter, bne_self_eq_false, Bool.false_eq_true,
      and_false, not_false_eq_true, true_and]
    exact ih.filter _

/-- Indexing the concatenation of the outputs of `ids` at `cumOffset + s` returns slice `s` of
    module `mid` (no duplicate-freeness needed: `cumOffset` stops at the first occurrence). -/
theorem getD_flatMap_cumOffset {α : Type} (numFolds : ℕ → ℕ) (outs : ℕ → List α) (dflt : α)
    (hlen : ∀ m, (outs m).length = numFolds m) {ids : List ℕ} {mid : ℕ} (hmem : mid ∈ ids)
    {s : ℕ} (hs : s < numFolds mid) :
    (ids.flatMap outs).getD (cumOffset numFolds ids mid + s) dflt = (outs mid).getD s dflt := by
  induction ids with
  | nil => simp at hmem
  | cons a as ih =>
    simp only [List.flatMap_cons, cumOffset]
    split
    · subst_vars
      rw [Nat.zero_add, List.getD_append _ _ _ _ (by rw [hlen]; exact hs)]
    · rename_i hne
      have hmem' : mid ∈ as := by
        rcases List.mem_cons.mp hmem with h | h
        · exact absurd h.symm hne
        · exact h
      rw [List.getD_append_right _ _ _ _ (by rw [hlen]; omega), hlen, ← ih hmem']
      congr 1
      omega

end Cirkit
