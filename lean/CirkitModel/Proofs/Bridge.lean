/-
  CirkitModel.Proofs.Bridge — ties the import-free operation record `Ops` to Mathlib's algebra:
  `Ops.ofCommSemiring R` is the record the theorems are stated over, and the executable
  `Rat` instance *is* that record (`ratOps_eq`).
-/
import Mathlib.Algebra.BigOperators.Ring.Finset
import Mathlib.Algebra.BigOperators.Fin
import Mathlib.Algebra.Order.Field.Rat
import CirkitModel.Model.Basic
import CirkitModel.Model.Num

open Finset

namespace Cirkit

/-- The operation record of a commutative semiring. -/
def Ops.ofCommSemiring (R : Type) [CommSemiring R] : Ops R :=
  { zero := 0, one := 1, add := (· + ·), mul := (· * ·) }

/-- The record the driver executes at `Rat` is literally the record the theorems are about. -/
theorem ratOps_eq : ratOps = Ops.ofCommSemiring Rat := rfl

section
variable {R : Type} [CommSemiring R]

@[simp] theorem ofCS_zero : (Ops.ofCommSemiring R).zero = 0 := rfl
@[simp] theorem ofCS_one : (Ops.ofCommSemiring R).one = 1 := rfl
@[simp] theorem ofCS_add (a b : R) : (Ops.ofCommSemiring R).add a b = a + b := rfl
@[simp] theorem ofCS_mul (a b : R) : (Ops.ofCommSemiring R).mul a b = a * b := rfl

theorem sumN_eq (n : Nat) (f : Nat → R) :
    (Ops.ofCommSemiring R).sumN n f = ∑ i ∈ range n, f i := by
  induction n with
  | zero => simp [Ops.sumN]
  | succ n ih => simp [Ops.sumN, ih, Finset.sum_range_succ]

theorem prodN_eq (n : Nat) (f : Nat → R) :
    (Ops.ofCommSemiring R).prodN n f = ∏ i ∈ range n, f i := by
  induction n with
  | zero => simp [Ops.prodN]
  | succ n ih => simp [Ops.prodN, ih, Finset.prod_range_succ]

theorem sumFin_eq (n : Nat) (f : Fin n → R) :
    (Ops.ofCommSemiring R).sumFin n f = ∑ h : Fin n, f h := by
  unfold Ops.sumFin
  rw [sumN_eq, Finset.sum_fin_eq_sum_range]
  rfl

theorem prodFin_eq (n : Nat) (f : Fin n → R) :
    (Ops.ofCommSemiring R).prodFin n f = ∏ h : Fin n, f h := by
  unfold Ops.prodFin
  rw [prodN_eq, Finset.prod_fin_eq_prod_range]
  rfl

end
end Cirkit
