/-
  CirkitModel.Proofs.Sample — lemmas behind the "propagate = follow" part of C15: the bottom-up
  batched propagation of the sampling query (`Node.propagate`, what the implementation computes)
  returns, column by column, the assignment of the top-down walk (`Node.follow`, the law the
  sampler is defined by); the walk returns a complete assignment of the scope whose values come
  from input layers of the right variable; and it is a walk in the sense of `Node.Reach`.
-/
import Mathlib.Algebra.BigOperators.Group.Finset.Basic
import Mathlib.Algebra.BigOperators.Fin
import CirkitModel.Model.Sample
import CirkitModel.Proofs.Norm

open Finset

namespace Cirkit

/-! ### the folds -/

section folds
variable {A : Type}

theorem Draw.foldN_eq [AddCommMonoid A] (n : ℕ) (f : ℕ → A) :
    Draw.foldN 0 (· + ·) n f = ∑ i ∈ range n, f i := by
  induction n with
  | zero => rfl
  | succ n ih => rw [Draw.foldN, ih, Finset.sum_range_succ]

theorem Draw.foldFin_eq [AddCommMonoid A] (n : ℕ) (f : Fin n → A) :
    Draw.foldFin 0 (· + ·) n f = ∑ h : Fin n, f h := by
  unfold Draw.foldFin
  rw [Draw.foldN_eq, Finset.sum_fin_eq_sum_range]

theorem Draw.firstN_none {n : ℕ} {f : ℕ → Option A} (h : ∀ i < n, f i = none) :
    Draw.firstN n f = none := by
  induction n with
  | zero => rfl
  | succ n ih =>
    rw [Draw.firstN, ih fun i hi => h i (Nat.lt_succ_of_lt hi)]
    exact h n (Nat.lt_succ_self n)

theorem Draw.firstN_some {n : ℕ} {f : ℕ → Option A} {a : A} (h : Draw.firstN n f = some a) :
    ∃ i < n, f i = some a := by
  induction n with
  | zero => exact absurd h (by simp [Draw.firstN])
  | succ n ih =>
    rw [Draw.firstN] at h
    cases hn : Draw.firstN n f with
    | some b =>
      rw [hn] at h
      obtain ⟨i, hi, hfi⟩ := ih (hn.trans h)
      exact ⟨i, Nat.lt_succ_of_lt hi, hfi⟩
    | none =>
      rw [hn] at h
      exact ⟨n, Nat.lt_succ_self n, h⟩

theorem Draw.firstN_single {n : ℕ} {f : ℕ → Option A} {i0 : ℕ} (hi0 : i0 < n) {a : A}
    (h0 : f i0 = some a) (h : ∀ i < n, i ≠ i0 → f i = none) : Draw.firstN n f = some a := by
  induction n with
  | zero => exact absurd hi0 (Nat.not_lt_zero _)
  | succ n ih =>
    rw [Draw.firstN]
    rcases Nat.lt_succ_iff_lt_or_eq.mp hi0 with hlt | heq
    · rw [ih hlt fun i hi hne => h i (Nat.lt_succ_of_lt hi) hne]
    · subst heq
      rw [Draw.firstN_none fun i hi => h i (Nat.lt_succ_of_lt hi) (Nat.ne_of_lt hi)]
      exact h0

theorem Draw.firstN_isSome {n : ℕ} {f : ℕ → Option A} {i : ℕ} (hi : i < n)
    (h : (f i).isSome) : (Draw.firstN n f).isSome := by
  induction n with
  | zero => exact absurd hi (Nat.not_lt_zero _)
  | succ n ih =>
    rw [Draw.firstN]
    cases hn : Draw.firstN n f with
    | some b => rfl
    | none =>
      rcases Nat.lt_succ_iff_lt_or_eq.mp hi with hlt | heq
      · have := ih hlt
        rw [hn] at this
        exact absurd this (by simp)
      · subst heq
        exact h

theorem Draw.firstFin_none {n : ℕ} {f : Fin n → Option A} (h : ∀ i, f i = none) :
    Draw.firstFin n f = none :=
  Draw.firstN_none fun i hi => by rw [dif_pos hi]; exact h ⟨i, hi⟩

theorem Draw.firstFin_some {n : ℕ} {f : Fin n → Option A} {a : A}
    (h : Draw.firstFin n f = some a) : ∃ i, f i = some a := by
  obtain ⟨i, hi, hfi⟩ := Draw.firstN_some h
  rw [dif_pos hi] at hfi
  exact ⟨⟨i, hi⟩, hfi⟩

theorem Draw.firstFin_single {n : ℕ} {f : Fin n → Option A} (i0 : Fin n) {a : A}
    (h0 : f i0 = some a) (h : ∀ i, i ≠ i0 → f i = none) : Draw.firstFin n f = some a := by
  refine Draw.firstN_single i0.isLt ?_ fun i hi hne => ?_
  · rw [dif_pos i0.isLt]; exact h0
  · rw [dif_pos hi]; exact h ⟨i, hi⟩ fun e => hne (congrArg Fin.val e)

theorem Draw.firstFin_isSome {n : ℕ} {f : Fin n → Option A} (i : Fin n)
    (h : (f i).isSome) : (Draw.firstFin n f).isSome :=
  Draw.firstN_isSome i.isLt (by rw [dif_pos i.isLt]; exact h)

/-- If at most one entry is `some`, taking the first `some` is adding everything up (with `none`
    read as zero): the algebraic content of "summing padded samples over disjoint variables is
    concatenation". -/
theorem Draw.firstFin_getD_eq_sum [AddCommMonoid A] {n : ℕ} (f : Fin n → Option A)
    (hdis : ∀ h h', h ≠ h' → f h ≠ none → f h' = none) :
    (Draw.firstFin n f).getD 0 = ∑ h : Fin n, (f h).getD 0 := by
  by_cases hex : ∃ h0, f h0 ≠ none
  · obtain ⟨h0, hh0⟩ := hex
    obtain ⟨a, ha⟩ := Option.ne_none_iff_exists'.mp hh0
    have hothers : ∀ h, h ≠ h0 → f h = none := fun h hne => hdis h0 h (Ne.symm hne) hh0
    rw [Draw.firstFin_single h0 ha hothers,
      Finset.sum_eq_single h0 (fun h _ hne => by rw [hothers h hne]; rfl)
        (fun hn => absurd (Finset.mem_univ h0) hn), ha]
  · have hall : ∀ h, f h = none := fun h => by
      by_contra hc
      exact hex ⟨h, hc⟩
    rw [Draw.firstFin_none hall]
    exact (Finset.sum_eq_zero fun h _ => by rw [hall h]; rfl).symm

end folds

/-! ### support of the walk and of the propagated rows -/

section support
variable {R V A : Type}

/-- The walk assigns only variables of the scope. -/
theorem Node.follow_some_mem (n : Node R V) (d : Draw A) (i v : ℕ) (a : A)
    (h : n.follow d i v = some a) : Node.Mem v n := by
  induction n generalizing d i with
  | leaf v' k f =>
    simp only [Node.follow] at h
    split at h
    · assumption
    · exact absurd h (by simp)
  | const k c => exact absurd h (by simp [Node.follow])
  | sum ar kin kout W ch ih =>
    simp only [Node.follow] at h
    split at h
    · next hlt => exact ⟨⟨_, hlt⟩, ih _ _ _ h⟩
    · exact absurd h (by simp)
  | had ar k ch ih =>
    simp only [Node.follow] at h
    obtain ⟨h', hh'⟩ := Draw.firstFin_some h
    exact ⟨h', ih h' _ _ hh'⟩
  | kron ar k ch ih =>
    simp only [Node.follow] at h
    obtain ⟨h', hh'⟩ := Draw.firstFin_some h
    exact ⟨h', ih h' _ _ hh'⟩

theorem Node.follow_none_of_not_mem (n : Node R V) (d : Draw A) (i v : ℕ)
    (h : ¬ Node.Mem v n) : n.follow d i v = none := by
  cases hf : n.follow d i v with
  | none => rfl
  | some a => exact absurd (Node.follow_some_mem n d i v a hf) h

/-- Support lemma: a propagated row is zero outside the scope of its layer (no hypothesis on the
    circuit). -/
theorem Node.propagate_support [AddCommMonoid A] (n : Node R V) (d : Draw A) (i v : ℕ)
    (h : n.propagate 0 (· + ·) d i v ≠ 0) : Node.Mem v n := by
  induction n generalizing d i with
  | leaf v' k f =>
    simp only [Node.propagate] at h
    split at h
    · assumption
    · exact absurd rfl h
  | const k c => exact absurd rfl h
  | sum ar kin kout W ch ih =>
    simp only [Node.propagate] at h
    split at h
    · next hlt => exact ⟨⟨_, hlt⟩, ih _ _ _ h⟩
    · exact absurd rfl h
  | had ar k ch ih =>
    simp only [Node.propagate] at h
    rw [Draw.foldFin_eq] at h
    obtain ⟨h', _, hh'⟩ := Finset.exists_ne_zero_of_sum_ne_zero h
    exact ⟨h', ih h' _ _ hh'⟩
  | kron ar k ch ih =>
    simp only [Node.propagate] at h
    rw [Draw.foldFin_eq] at h
    obtain ⟨h', _, hh'⟩ := Finset.exists_ne_zero_of_sum_ne_zero h
    exact ⟨h', ih h' _ _ hh'⟩

/-! ### propagate = follow -/

/-- For a decomposable circuit the bottom-up row of unit `i` holds in column `v` the value the
    top-down walk from unit `i` assigns to `v`, and zero where the walk assigns nothing.  No
    hypothesis on the draws, on well-formedness or on smoothness is needed. -/
theorem Node.propagate_eq_follow [AddCommMonoid A] (n : Node R V) (hd : n.Decomp) (d : Draw A)
    (i v : ℕ) : n.propagate 0 (· + ·) d i v = (n.follow d i v).getD 0 := by
  induction n generalizing d i with
  | leaf v' k f =>
    simp only [Node.propagate, Node.follow]
    split <;> rfl
  | const k c => rfl
  | sum ar kin kout W ch ih =>
    simp only [Node.propagate, Node.follow]
    split
    · next hlt => exact ih _ (hd _) _ _
    · rfl
  | had ar k ch ih =>
    simp only [Node.propagate, Node.follow]
    rw [Draw.foldFin_eq, Draw.firstFin_getD_eq_sum]
    · exact Finset.sum_congr rfl fun h _ => ih h (hd.1 h) _ _
    · intro h h' hne hsome
      obtain ⟨a, ha⟩ := Option.ne_none_iff_exists'.mp hsome
      exact Node.follow_none_of_not_mem _ _ _ _
        (hd.2 h h' v hne (Node.follow_some_mem _ _ _ _ a ha))
  | kron ar k ch ih =>
    simp only [Node.propagate, Node.follow]
    rw [Draw.foldFin_eq, Draw.firstFin_getD_eq_sum]
    · exact Finset.sum_congr rfl fun h _ => ih h (hd.1 h) _ _
    · intro h h' hne hsome
      obtain ⟨a, ha⟩ := Option.ne_none_iff_exists'.mp hsome
      exact Node.follow_none_of_not_mem _ _ _ _
        (hd.2 h h' v hne (Node.follow_some_mem _ _ _ _ a ha))

/-! ### the walk returns a complete assignment of the scope -/

theorem Node.sum_col_lt {ar kin m : ℕ} (h : m < ar * kin) : m / kin < ar ∧ m % kin < kin := by
  have hkin : 0 < kin := by
    rcases Nat.eq_zero_or_pos kin with h0 | h0
    · subst h0; exact absurd h (by simp)
    · exact h0
  exact ⟨Nat.div_lt_of_lt_mul (by rwa [Nat.mul_comm] at h), Nat.mod_lt _ hkin⟩

/-- Smooth, well-formed, fitting draws: from every unit the walk assigns every variable of the
    scope.  (Decomposability is not needed for this direction.) -/
theorem Node.follow_isSome (n : Node R V) (hs : n.Smooth) (hwf : n.WF) (d : Draw A)
    (hf : n.Fits d) (i : ℕ) (hi : i < n.units) (v : ℕ) (hv : Node.Mem v n) :
    (n.follow d i v).isSome := by
  induction n generalizing d i with
  | leaf v' k f =>
    have hv' : v = v' := hv
    simp only [Node.follow]
    rw [if_pos hv']; rfl
  | const k c => exact hv.elim
  | sum ar kin kout W ch ih =>
    obtain ⟨hlt, hmod⟩ := Node.sum_col_lt (hf.1 i hi)
    simp only [Node.follow]
    rw [dif_pos hlt]
    obtain ⟨h0, hh0⟩ := hv
    exact ih _ (hs.1 _) (hwf _).1 _ (hf.2 _) _ (by rw [(hwf _).2]; exact hmod)
      ((hs.2 h0 _ v).mp hh0)
  | had ar k ch ih =>
    obtain ⟨h0, hh0⟩ := hv
    simp only [Node.follow]
    exact Draw.firstFin_isSome h0
      (ih h0 (hs h0) (hwf h0).1 _ (hf h0) _ (by rw [(hwf h0).2]; exact hi) hh0)
  | kron ar k ch ih =>
    obtain ⟨h0, hh0⟩ := hv
    simp only [Node.follow]
    exact Draw.firstFin_isSome h0
      (ih h0 (hs h0) (hwf h0).1 _ (hf h0) _ (by rw [(hwf h0).2]; exact digit_lt h0 hi) hh0)

/-- Every value of the assignment is the value drawn by a unit of an input layer over that very
    variable (position `p` of the tree, unit `r` within the layer). -/
theorem Node.follow_from_leaf (n : Node R V) (hwf : n.WF) (d : Draw A) (hf : n.Fits d) (i : ℕ)
    (hi : i < n.units) (v : ℕ) (a : A) (h : n.follow d i v = some a) :
    ∃ p r, n.LeafAt v p r ∧ a = d.val p r := by
  induction n generalizing d i with
  | leaf v' k f =>
    simp only [Node.follow] at h
    split at h
    · next hv =>
      refine ⟨[], i, ⟨hv, hi⟩, ?_⟩
      exact (Option.some.inj h).symm
    · exact absurd h (by simp)
  | const k c => exact absurd h (by simp [Node.follow])
  | sum ar kin kout W ch ih =>
    obtain ⟨hlt, hmod⟩ := Node.sum_col_lt (hf.1 i hi)
    simp only [Node.follow] at h
    rw [dif_pos hlt] at h
    obtain ⟨p, r, hl, hv⟩ :=
      ih _ (hwf _).1 _ (hf.2 ⟨_, hlt⟩) _ (by rw [(hwf _).2]; exact hmod) h
    exact ⟨_ :: p, r, ⟨hlt, hl⟩, hv⟩
  | had ar k ch ih =>
    simp only [Node.follow] at h
    obtain ⟨h0, hh0⟩ := Draw.firstFin_some h
    obtain ⟨p, r, hl, hv⟩ :=
      ih h0 (hwf h0).1 _ (hf h0) _ (by rw [(hwf h0).2]; exact hi) hh0
    exact ⟨h0.val :: p, r, ⟨h0.isLt, hl⟩, hv⟩
  | kron ar k ch ih =>
    simp only [Node.follow] at h
    obtain ⟨h0, hh0⟩ := Draw.firstFin_some h
    obtain ⟨p, r, hl, hv⟩ :=
      ih h0 (hwf h0).1 _ (hf h0) _ (by rw [(hwf h0).2]; exact digit_lt h0 hi) hh0
    exact ⟨h0.val :: p, r, ⟨h0.isLt, hl⟩, hv⟩

/-- An input-layer position over `v` witnesses that `v` is in the scope. -/
theorem Node.LeafAt.mem {n : Node R V} {v : ℕ} {p : List ℕ} {r : ℕ} (h : n.LeafAt v p r) :
    Node.Mem v n := by
  induction n generalizing p with
  | leaf v' k f =>
    cases p with
    | nil => exact h.1
    | cons _ _ => exact h.elim
  | const k c => cases p <;> exact h.elim
  | sum ar kin kout W ch ih =>
    cases p with
    | nil => exact h.elim
    | cons h0 p => obtain ⟨hh, hl⟩ := h; exact ⟨⟨h0, hh⟩, ih _ hl⟩
  | had ar k ch ih =>
    cases p with
    | nil => exact h.elim
    | cons h0 p => obtain ⟨hh, hl⟩ := h; exact ⟨⟨h0, hh⟩, ih _ hl⟩
  | kron ar k ch ih =>
    cases p with
    | nil => exact h.elim
    | cons h0 p => obtain ⟨hh, hl⟩ := h; exact ⟨⟨h0, hh⟩, ih _ hl⟩

end support

/-! ### the walk is a walk of `Node.Reach` -/

section reach
variable {R V : Type} [CommSemiring R] [PartialOrder R]

/-- Every draw has positive mass: every unit of every input layer drew a value of positive
    density, every output unit of every sum layer drew a column of positive weight (what
    `Categorical(probs = …).sample` returns), and constant units are positive (they are `1` in a
    normalised circuit). -/
def Node.DrawPos : Node R V → Draw V → Prop
  | .leaf _ k f, d => ∀ r < k, 0 < f r (d.val [] r)
  | .const k c, _ => ∀ i < k, 0 < c i
  | .sum ar _ kout W ch, d =>
      (∀ o < kout, 0 < W o (d.col [] o)) ∧ ∀ h : Fin ar, (ch h).DrawPos (d.child h.val)
  | .had _ _ ch, d => ∀ h : Fin _, (ch h).DrawPos (d.child h.val)
  | .kron _ _ ch, d => ∀ h : Fin _, (ch h).DrawPos (d.child h.val)

/-- Any total assignment that agrees with the walk where the walk assigns a value is an assignment
    the top-down sampler "can return" in the sense of `Node.Reach`. -/
theorem Node.follow_reach (n : Node R V) (hwf : n.WF) (hd : n.Decomp) (d : Draw V)
    (hf : n.Fits d) (hp : n.DrawPos d) (i : ℕ) (hi : i < n.units) (x : ℕ → V)
    (hx : ∀ v a, n.follow d i v = some a → x v = a) : n.Reach i x := by
  induction n generalizing d i with
  | leaf v k f =>
    refine Node.Reach.leaf ?_
    have e : x v = d.val [] i := hx v _ (by simp only [Node.follow]; exact if_pos trivial)
    rw [e]
    exact hp i hi
  | const k c => exact Node.Reach.const (hp i hi)
  | sum ar kin kout W ch ih =>
    obtain ⟨hlt, hmod⟩ := Node.sum_col_lt (hf.1 i hi)
    refine Node.Reach.sum ⟨_, hlt⟩ (d.col [] i % kin) hmod ?_ ?_
    · have e : d.col [] i / kin * kin + d.col [] i % kin = d.col [] i := Nat.div_add_mod' _ _
      rw [e]
      exact hp.1 i hi
    · refine ih _ (hwf _).1 (hd _) _ (hf.2 ⟨_, hlt⟩) (hp.2 ⟨_, hlt⟩) _
        (by rw [(hwf _).2]; exact hmod) fun v a hva => hx v a ?_
      simp only [Node.follow]
      rw [dif_pos hlt]
      exact hva
  | had ar k ch ih =>
    refine Node.Reach.had fun h => ?_
    refine ih h (hwf h).1 (hd.1 h) _ (hf h) (hp h) _ (by rw [(hwf h).2]; exact hi)
      fun v a hva => hx v a ?_
    simp only [Node.follow]
    exact Draw.firstFin_single h hva fun h' hne =>
      Node.follow_none_of_not_mem _ _ _ _
        (hd.2 h h' v (Ne.symm hne) (Node.follow_some_mem _ _ _ _ a hva))
  | kron ar k ch ih =>
    refine Node.Reach.kron fun h => ?_
    refine ih h (hwf h).1 (hd.1 h) _ (hf h) (hp h) _
      (by rw [(hwf h).2]; exact digit_lt h hi) fun v a hva => hx v a ?_
    simp only [Node.follow]
    exact Draw.firstFin_single h hva fun h' hne =>
      Node.follow_none_of_not_mem _ _ _ _
        (hd.2 h h' v (Ne.symm hne) (Node.follow_some_mem _ _ _ _ a hva))

end reach
end Cirkit
