/-
  CirkitModel.Proofs.EvidConj — lemmas behind C06 (evidence, concatenate) and C07 (conjugate).
-/
import Mathlib.Algebra.BigOperators.Ring.Finset
import Mathlib.Algebra.BigOperators.Fin
import Mathlib.Algebra.BigOperators.Group.List.Basic
import Mathlib.Algebra.BigOperators.RingEquiv
import CirkitModel.Model.Node
import CirkitModel.Proofs.Bridge
import CirkitModel.Proofs.Operators

open Finset

namespace Cirkit

section Structural
variable {R V : Type}

namespace Node

/-! ### evidence: structure -/

theorem mem_evid (n : Node R V) (obs : ℕ → Option V) (z : ℕ) :
    Node.Mem z (n.evid obs) ↔ (Node.Mem z n ∧ obs z = none) := by
  induction n with
  | leaf v k f =>
    cases hobs : obs v with
    | none =>
      simp only [evid, hobs, Mem, iff_self_and]
      intro h; rw [h]; exact hobs
    | some a =>
      simp only [evid, hobs, Mem, false_iff, not_and]
      intro h; rw [h, hobs]; exact fun h' => nomatch h'
  | const k c => simp only [evid, Mem, false_and]
  | sum ar kin kout W ch ih => simp only [evid, Mem, ih, exists_and_right]
  | had ar k ch ih => simp only [evid, Mem, ih, exists_and_right]
  | kron ar k ch ih => simp only [evid, Mem, ih, exists_and_right]

theorem evid_units (n : Node R V) (obs : ℕ → Option V) : (n.evid obs).units = n.units := by
  cases n with
  | leaf v k f => cases hobs : obs v <;> simp only [evid, hobs, units]
  | const k c => rfl
  | sum ar kin kout W ch => rfl
  | had ar k ch => rfl
  | kron ar k ch => rfl

theorem evid_wf (n : Node R V) (obs : ℕ → Option V) (h : n.WF) : (n.evid obs).WF := by
  induction n with
  | leaf v k f => cases hobs : obs v <;> simp only [evid, hobs, WF]
  | const k c => trivial
  | sum ar kin kout W ch ih =>
    exact fun h' => ⟨ih h' (h h').1, by rw [evid_units]; exact (h h').2⟩
  | had ar k ch ih =>
    exact fun h' => ⟨ih h' (h h').1, by rw [evid_units]; exact (h h').2⟩
  | kron ar k ch ih =>
    exact fun h' => ⟨ih h' (h h').1, by rw [evid_units]; exact (h h').2⟩

/-! ### conjugate: structure -/

theorem mem_conj (n : Node R V) (σ : R → R) (z : ℕ) : Node.Mem z (n.conj σ) ↔ Node.Mem z n := by
  induction n with
  | leaf v k f => rfl
  | const k c => rfl
  | sum ar kin kout W ch ih => simp only [conj, Mem, ih]
  | had ar k ch ih => simp only [conj, Mem, ih]
  | kron ar k ch ih => simp only [conj, Mem, ih]

theorem conj_units (n : Node R V) (σ : R → R) : (n.conj σ).units = n.units := by
  cases n <;> rfl

theorem conj_wf (n : Node R V) (σ : R → R) : (n.conj σ).WF ↔ n.WF := by
  induction n with
  | leaf v k f => rfl
  | const k c => rfl
  | sum ar kin kout W ch ih => simp only [conj, WF, ih, conj_units]
  | had ar k ch ih => simp only [conj, WF, ih, conj_units]
  | kron ar k ch ih => simp only [conj, WF, ih, conj_units]

theorem conj_smooth (n : Node R V) (σ : R → R) : (n.conj σ).Smooth ↔ n.Smooth := by
  induction n with
  | leaf v k f => rfl
  | const k c => rfl
  | sum ar kin kout W ch ih => simp only [conj, Smooth, ih, mem_conj]
  | had ar k ch ih => simp only [conj, Smooth, ih]
  | kron ar k ch ih => simp only [conj, Smooth, ih]

theorem conj_decomp (n : Node R V) (σ : R → R) : (n.conj σ).Decomp ↔ n.Decomp := by
  induction n with
  | leaf v k f => rfl
  | const k c => rfl
  | sum ar kin kout W ch ih => simp only [conj, Decomp, ih]
  | had ar k ch ih => simp only [conj, Decomp, ih, mem_conj]
  | kron ar k ch ih => simp only [conj, Decomp, ih, mem_conj]

end Node

/-! ### concatenate -/

theorem concat_evalV {S : Type} (o : Ops S) (cs : List (Circ S V)) (x : ℕ → V) :
    ((Circ.concat cs).outputs.map fun n => n.evalV o x)
      = (cs.map fun c => c.outputs.map fun n => n.evalV o x).flatten := by
  simp only [Circ.concat, List.map_flatten, List.map_map]
  rfl

end Structural

section
variable {R V : Type} [CommSemiring R]

namespace Node

/-! ### evidence: semantics -/

theorem evid_correct (n : Node R V) (obs : ℕ → Option V) (y : ℕ → V) (i : ℕ) :
    (n.evid obs).eval (Ops.ofCommSemiring R) y i
      = n.eval (Ops.ofCommSemiring R) (fun u => (obs u).getD (y u)) i := by
  induction n generalizing i with
  | leaf v k f => cases hobs : obs v <;> simp only [evid, hobs, eval, Option.getD]
  | const k c => rfl
  | sum ar kin kout W ch ih =>
    simp only [evid, eval_sum']
    exact Finset.sum_congr rfl fun h _ => Finset.sum_congr rfl fun j _ => by rw [ih h j]
  | had ar k ch ih =>
    simp only [evid, eval_had']
    exact Finset.prod_congr rfl fun h _ => ih h _
  | kron ar k ch ih =>
    simp only [evid, eval_kron']
    exact Finset.prod_congr rfl fun h _ => ih h _

theorem evid_ignores (n : Node R V) (obs : ℕ → Option V) (y y' : ℕ → V)
    (h : ∀ u, obs u = none → y u = y' u) (i : ℕ) :
    (n.evid obs).eval (Ops.ofCommSemiring R) y i = (n.evid obs).eval (Ops.ofCommSemiring R) y' i := by
  rw [evid_correct, evid_correct]
  congr 1
  funext u
  cases hobs : obs u with
  | none => simp only [Option.getD]; exact h u hobs
  | some a => rfl

/-! ### conjugate: semantics -/

theorem conj_correct (n : Node R V) (σ : R →+* R) (x : ℕ → V) (i : ℕ) :
    (n.conj σ).eval (Ops.ofCommSemiring R) x i = σ (n.eval (Ops.ofCommSemiring R) x i) := by
  induction n generalizing i with
  | leaf v k f => rfl
  | const k c => rfl
  | sum ar kin kout W ch ih =>
    simp only [conj, eval_sum', map_sum, map_mul, ih]
  | had ar k ch ih =>
    simp only [conj, eval_had', map_prod, ih]
  | kron ar k ch ih =>
    simp only [conj, eval_kron', map_prod, ih]

theorem quad_map (σ : R →+* R) (dom : List V) (w : V → R) (hw : ∀ a, σ (w a) = w a) (g : V → R) :
    Node.quad (Ops.ofCommSemiring R) dom w (fun a => σ (g a))
      = σ (Node.quad (Ops.ofCommSemiring R) dom w g) := by
  simp only [quad_eq_sum]
  induction dom with
  | nil => simp only [List.map_nil, List.sum_nil, map_zero]
  | cons a l ih => simp only [List.map_cons, List.sum_cons, ih, map_add, map_mul, hw]

/-- conjugation and integration against a real quadrature commute syntactically -/
theorem conj_integ1 (n : Node R V) (σ : R →+* R) (dom : List V) (w : V → R)
    (hw : ∀ a, σ (w a) = w a) (v : ℕ) :
    (n.conj σ).integ1 v (Node.quad (Ops.ofCommSemiring R) dom w)
      = (n.integ1 v (Node.quad (Ops.ofCommSemiring R) dom w)).conj σ := by
  induction n with
  | leaf v' k f =>
    by_cases hvv : v' = v
    · simp only [conj, integ1, if_pos hvv, quad_map σ dom w hw]
    · simp only [conj, integ1, if_neg hvv]
  | const k c => rfl
  | sum ar kin kout W ch ih => simp only [conj, integ1, ih]
  | had ar k ch ih => simp only [conj, integ1, ih]
  | kron ar k ch ih => simp only [conj, integ1, ih]

end Node
end
end Cirkit
