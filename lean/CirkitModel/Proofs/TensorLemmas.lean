/-
  CirkitModel.Proofs.TensorLemmas — index arithmetic of the row-major tensors of
  `CirkitModel.Model.Tensor` and unfolding lemmas for `PExpr.applyOp`.
-/
import Mathlib.Tactic.Ring
import Mathlib.Tactic.Linarith
import Mathlib.Data.List.Basic
import CirkitModel.Model.Tensor
import CirkitModel.Model.PExpr

namespace Cirkit

/-! ### shapeSize -/

theorem foldl_mul_eq (l : List Nat) (k : Nat) :
    List.foldl (· * ·) k l = k * List.foldl (· * ·) 1 l := by
  induction l generalizing k with
  | nil => simp
  | cons d ds ih =>
    simp only [List.foldl_cons]
    rw [ih (k * d), ih (1 * d)]
    ring

@[simp] theorem shapeSize_nil : shapeSize [] = 1 := rfl

theorem shapeSize_cons (d : Nat) (ds : List Nat) : shapeSize (d :: ds) = d * shapeSize ds := by
  unfold shapeSize
  rw [List.foldl_cons, foldl_mul_eq]
  ring

theorem shapeSize_append (a b : List Nat) : shapeSize (a ++ b) = shapeSize a * shapeSize b := by
  induction a with
  | nil => simp
  | cons d ds ih => rw [List.cons_append, shapeSize_cons, shapeSize_cons, ih]; ring

theorem shapeSize_pair (m n : Nat) : shapeSize [m, n] = m * n := by
  simp [shapeSize_cons]

theorem shapeSize_single (m : Nat) : shapeSize [m] = m := by
  simp [shapeSize_cons]

/-! ### split3 -/

theorem split3_size' (shape : List Nat) (ax : Nat) (h : ax < shape.length) :
    shapeSize shape
      = shapeSize (shape.take ax) * shape.getD ax 1 * shapeSize (shape.drop (ax + 1)) := by
  have hg : shape.getD ax 1 = shape[ax] := by
    simp [List.getD_eq_getElem?_getD, h]
  conv_lhs => rw [← List.take_append_drop ax shape]
  rw [shapeSize_append, List.drop_eq_getElem_cons h, shapeSize_cons, hg]
  ring

theorem split3_size (shape : List Nat) (ax : Nat) (h : ax < shape.length) :
    let (o, len, inner) := Tensor.split3 shape ax
    shapeSize shape = o * len * inner := by
  simpa [Tensor.split3] using split3_size' shape ax h

/-! ### row-major index arithmetic -/

theorem div_add_lt {i b j : ℕ} (hj : j < b) : (i * b + j) / b = i := by
  rw [Nat.mul_comm, Nat.mul_add_div (by omega), Nat.div_eq_of_lt hj, Nat.add_zero]

theorem mod_add_lt {i b j : ℕ} (hj : j < b) : (i * b + j) % b = j := by
  rw [Nat.mul_comm, Nat.mul_add_mod, Nat.mod_eq_of_lt hj]

theorem pair_lt {a len i inner : ℕ} (ha : a < len) (hi : i < inner) :
    a * inner + i < len * inner := by
  have : (a + 1) * inner ≤ len * inner := Nat.mul_le_mul_right _ ha
  rw [Nat.add_mul] at this
  omega

theorem flat3_div_outer {o a i len inner : ℕ} (ha : a < len) (hi : i < inner) :
    ((o * len + a) * inner + i) / (len * inner) = o := by
  have : (o * len + a) * inner + i = o * (len * inner) + (a * inner + i) := by ring
  rw [this, div_add_lt (pair_lt ha hi)]

theorem flat3_mid {o a i len inner : ℕ} (ha : a < len) (hi : i < inner) :
    (((o * len + a) * inner + i) / inner) % len = a := by
  rw [div_add_lt hi, mod_add_lt ha]

theorem flat3_inner {o a i len inner : ℕ} (hi : i < inner) :
    ((o * len + a) * inner + i) % inner = i := mod_add_lt hi

theorem flat3_lt {o a i outer len inner : ℕ} (ho : o < outer) (ha : a < len) (hi : i < inner) :
    (o * len + a) * inner + i < outer * len * inner :=
  pair_lt (pair_lt ho ha) hi

namespace Tensor
variable {R : Type}

/-! ### ofFn3 / get3 -/

@[simp] theorem ofFn3_shape (shape : List Nat) (ax : Nat) (f : Nat → Nat → Nat → R) :
    (ofFn3 shape ax f).shape = shape := rfl

@[simp] theorem ofFn3_size (shape : List Nat) (ax : Nat) (f : Nat → Nat → Nat → R) :
    (ofFn3 shape ax f).data.size = shapeSize shape := by
  simp [ofFn3]

theorem ofFn3_ok (shape : List Nat) (ax : Nat) (f : Nat → Nat → Nat → R) :
    (ofFn3 shape ax f).ok = true := by
  simp [ok]

theorem ofFn3_data_getD (shape : List Nat) (ax : Nat) (f : Nat → Nat → Nat → R) (n : Nat) (z : R)
    (hn : n < shapeSize shape) :
    (ofFn3 shape ax f).data.getD n z
      = f (n / ((split3 shape ax).2.1 * (split3 shape ax).2.2))
          ((n / (split3 shape ax).2.2) % (split3 shape ax).2.1) (n % (split3 shape ax).2.2) := by
  simp [ofFn3, Array.getD, hn]

/-- Reading the 3-d view of a tensor built from its 3-d view. -/
theorem get3_ofFn3 (shape : List Nat) (ax : Nat) (f : Nat → Nat → Nat → R)
    (h : ax < shape.length) (o a i : Nat)
    (ho : o < (split3 shape ax).1) (ha : a < (split3 shape ax).2.1)
    (hi : i < (split3 shape ax).2.2) (z : R) :
    (ofFn3 shape ax f).get3 ax o a i z = f o a i := by
  have hs : shapeSize shape
      = (split3 shape ax).1 * (split3 shape ax).2.1 * (split3 shape ax).2.2 :=
    split3_size' shape ax h
  have hn : (o * (split3 shape ax).2.1 + a) * (split3 shape ax).2.2 + i < shapeSize shape := by
    rw [hs]; exact flat3_lt ho ha hi
  show (ofFn3 shape ax f).data.getD
    ((o * (split3 shape ax).2.1 + a) * (split3 shape ax).2.2 + i) z = _
  rw [ofFn3_data_getD _ _ _ _ _ hn, flat3_div_outer ha hi, flat3_mid ha hi,
    flat3_inner hi]

/-! ### ofFn / getD -/

@[simp] theorem ofFn_shape (shape : List Nat) (f : List Nat → R) :
    (ofFn shape f).shape = shape := rfl

@[simp] theorem ofFn_size (shape : List Nat) (f : List Nat → R) :
    (ofFn shape f).data.size = shapeSize shape := by
  simp [ofFn]

theorem ofFn_ok (shape : List Nat) (f : List Nat → R) : (ofFn shape f).ok = true := by
  simp [ok]

theorem ofFn_data_getD (shape : List Nat) (f : List Nat → R) (n : Nat) (z : R)
    (hn : n < shapeSize shape) :
    (ofFn shape f).data.getD n z = f (unravel shape n) := by
  simp [ofFn, Array.getD, hn]

/-- `idx` is a valid multi-index of `shape`. -/
def InRange (shape idx : List Nat) : Prop :=
  idx.length = shape.length ∧ ∀ k < shape.length, idx[k]! < shape[k]!

theorem inRange_cons {d i : Nat} {ds is : List Nat} (h : InRange (d :: ds) (i :: is)) :
    i < d ∧ InRange ds is := by
  obtain ⟨hl, hk⟩ := h
  refine ⟨by simpa using hk 0 (by simp), by simpa using hl, fun k hk' => ?_⟩
  simpa using hk (k + 1) (by simpa using hk')

theorem offset_lt (shape idx : List Nat) (h : InRange shape idx) :
    offset shape idx < shapeSize shape := by
  induction shape generalizing idx with
  | nil => simp [offset]
  | cons d ds ih =>
    cases idx with
    | nil => exact absurd h.1 (by simp)
    | cons i is =>
      obtain ⟨hi, hr⟩ := inRange_cons h
      simp only [offset, shapeSize_cons]
      exact pair_lt hi (ih is hr)

theorem unravel_offset (shape idx : List Nat) (h : InRange shape idx) :
    unravel shape (offset shape idx) = idx := by
  induction shape generalizing idx with
  | nil =>
    cases idx with
    | nil => rfl
    | cons i is => exact absurd h.1 (by simp)
  | cons d ds ih =>
    cases idx with
    | nil => exact absurd h.1 (by simp)
    | cons i is =>
      obtain ⟨_, hr⟩ := inRange_cons h
      have hlt := offset_lt ds is hr
      simp only [offset, unravel]
      rw [div_add_lt hlt, mod_add_lt hlt, ih is hr]

/-- Reading an entry of a tensor built from a function on multi-indices. -/
theorem getD_ofFn (shape : List Nat) (f : List Nat → R) (idx : List Nat) (z : R)
    (hidx : idx.length = shape.length ∧ ∀ k < shape.length, idx[k]! < shape[k]!) :
    (ofFn shape f).getD idx z = f idx := by
  show (ofFn shape f).data.getD (offset shape idx) z = _
  rw [ofFn_data_getD _ _ _ _ (offset_lt shape idx hidx), unravel_offset shape idx hidx]

/-- rank-2 version: `get2` of `ofFn`. -/
theorem get2_ofFn (m n : Nat) (f : List Nat → R) (i j : Nat) (z : R) (hi : i < m) (hj : j < n) :
    (ofFn [m, n] f).get2 i j z = f [i, j] := by
  have hlt : i * n + j < shapeSize [m, n] := by rw [shapeSize_pair]; exact pair_lt hi hj
  show (ofFn [m, n] f).data.getD (i * n + j) z = _
  rw [ofFn_data_getD _ _ _ _ hlt]
  simp only [unravel, shapeSize_single, shapeSize_nil, Nat.div_one]
  rw [div_add_lt hj, mod_add_lt hj]

theorem getD_of_lt (s : List Nat) (ax d : Nat) (h : ax < s.length) : s.getD ax d = s[ax] := by
  simp [List.getD_eq_getElem?_getD, h]

/-- replacing the axis entry only changes the middle component of the 3-d view -/
theorem split3_set (s : List Nat) (ax n : Nat) (h : ax < s.length) :
    split3 (s.set ax n) ax = ((split3 s ax).1, n, (split3 s ax).2.2) := by
  simp [split3, List.take_set_of_le (Nat.le_refl ax), List.drop_set_of_lt (Nat.lt_succ_self ax),
    List.getD_eq_getElem?_getD, h]

/-- on a rank-2 tensor the generic multi-index read is `get2` -/
theorem getD_pair (t : Tensor R) (m n i j : Nat) (z : R) (ht : t.shape = [m, n]) :
    t.getD [i, j] z = t.get2 i j z := by
  simp [Tensor.getD, Tensor.get2, ht, offset, shapeSize_single]

theorem zipWith_getD (f : R → R → R) (a b : Tensor R) (n : Nat) (z : R)
    (ha : n < a.data.size) (hb : n < b.data.size) :
    (Tensor.zipWith f a b).data.getD n z = f (a.data.getD n z) (b.data.getD n z) := by
  simp [Tensor.zipWith, Array.getD, ha, hb]

theorem map_getD (f : R → R) (t : Tensor R) (n : Nat) (z : R) (hn : n < t.data.size) :
    (Tensor.map f t).data.getD n z = f (t.data.getD n z) := by
  simp [Tensor.map, Array.getD, hn]

theorem size_of_ok (t : Tensor R) (h : t.ok = true) : t.data.size = shapeSize t.shape := by
  simpa [Tensor.ok] using h

end Tensor

/-! ### unfolding `applyOp` at each operator -/

section Unfold
open Tensor PExpr
variable {R : Type}

theorem applyOp_index (A : AOps R) (idx : List Nat) (ax : Nat) (t : Tensor R) :
    applyOp A (.index idx ax) [t]
      = if ax < t.shape.length then
          some (Tensor.ofFn3 (t.shape.set ax idx.length) ax fun o j i =>
            t.get3 ax o (idx.getD j 0) i A.zero)
        else none := by
  simp only [applyOp, POp.shape, List.map]
  split <;> rfl

theorem applyOp_outerProduct (A : AOps R) (ax : Nat) (a b : Tensor R) :
    applyOp A (.outerProduct ax) [a, b]
      = if a.shape.length = b.shape.length ∧ ax < a.shape.length then
          some (Tensor.ofFn3 (a.shape.set ax (a.shape.getD ax 0 * b.shape.getD ax 0)) ax
            fun o c i => A.mul (a.get3 ax o (c / b.shape.getD ax 1) i A.zero)
              (b.get3 ax o (c % b.shape.getD ax 1) i A.zero))
        else none := by
  simp only [applyOp, POp.shape, List.map]
  split <;> rfl

theorem applyOp_outerSum (A : AOps R) (ax : Nat) (a b : Tensor R) :
    applyOp A (.outerSum ax) [a, b]
      = if a.shape.length = b.shape.length ∧ ax < a.shape.length then
          some (Tensor.ofFn3 (a.shape.set ax (a.shape.getD ax 0 * b.shape.getD ax 0)) ax
            fun o c i => A.add (a.get3 ax o (c / b.shape.getD ax 1) i A.zero)
              (b.get3 ax o (c % b.shape.getD ax 1) i A.zero))
        else none := by
  simp only [applyOp, POp.shape, List.map]
  split <;> rfl

theorem applyOp_reduceSum (A : AOps R) (ax : Nat) (t : Tensor R) :
    applyOp A (.reduceSum ax) [t]
      = if ax < t.shape.length then
          some { shape := t.shape.eraseIdx ax,
                 data := Array.ofFn (n := shapeSize (t.shape.eraseIdx ax)) fun n =>
                   A.toOps.sumN (split3 t.shape ax).2.1 fun a =>
                     t.get3 ax (n.val / (split3 t.shape ax).2.2) a
                       (n.val % (split3 t.shape ax).2.2) A.zero }
        else none := by
  simp only [applyOp, POp.shape, List.map]
  split <;> rfl

theorem applyOp_reduceProd (A : AOps R) (ax : Nat) (t : Tensor R) :
    applyOp A (.reduceProd ax) [t]
      = if ax < t.shape.length then
          some { shape := t.shape.eraseIdx ax,
                 data := Array.ofFn (n := shapeSize (t.shape.eraseIdx ax)) fun n =>
                   A.toOps.prodN (split3 t.shape ax).2.1 fun a =>
                     t.get3 ax (n.val / (split3 t.shape ax).2.2) a
                       (n.val % (split3 t.shape ax).2.2) A.zero }
        else none := by
  simp only [applyOp, POp.shape, List.map]
  split <;> rfl

theorem applyOp_kronecker (A : AOps R) (a b : Tensor R) :
    applyOp A .kronecker [a, b]
      = if a.shape.length = b.shape.length then
          some (Tensor.ofFn (List.zipWith (· * ·) a.shape b.shape) fun idx =>
            A.mul (a.getD (List.zipWith (· / ·) idx b.shape) A.zero)
              (b.getD (List.zipWith (· % ·) idx b.shape) A.zero))
        else none := by
  simp only [applyOp, POp.shape, List.map]
  split <;> rfl

theorem applyOp_square (A : AOps R) (t : Tensor R) :
    applyOp A .square [t] = some (t.map fun x => A.mul x x) := by
  simp only [applyOp, POp.shape, List.map]; rfl

theorem applyOp_conj (A : AOps R) (t : Tensor R) :
    applyOp A .conj [t] = some (t.map A.conj) := by
  simp only [applyOp, POp.shape, List.map]; rfl

theorem applyOp_sum (A : AOps R) (a b : Tensor R) :
    applyOp A .sum [a, b] = if a.shape = b.shape then some (Tensor.zipWith A.add a b) else none := by
  simp only [applyOp, POp.shape, List.map]
  split <;> rfl

theorem applyOp_hadamard (A : AOps R) (a b : Tensor R) :
    applyOp A .hadamard [a, b]
      = if a.shape = b.shape then some (Tensor.zipWith A.mul a b) else none := by
  simp only [applyOp, POp.shape, List.map]
  split <;> rfl

theorem applyOp_mixing (A : AOps R) (t : Tensor R) (K H : Nat) (ht : t.shape = [K, H]) :
    applyOp A .mixing [t]
      = some (Tensor.ofFn [K, K * H] fun idx =>
          match idx with
          | [r, c] => if c % K = r then t.get2 r (c / K) A.zero else A.zero
          | _ => A.zero) := by
  simp only [applyOp, POp.shape, List.map, ht]
  rfl

theorem applyOp_polyProduct (A : AOps R) (a b : Tensor R) (k1 d1 k2 d2 : Nat)
    (ha : a.shape = [k1, d1]) (hb : b.shape = [k2, d2]) :
    applyOp A .polyProduct [a, b]
      = some (Tensor.ofFn [k1 * k2, d1 + d2 - 1] fun idx =>
          match idx with
          | [r, n] =>
              A.toOps.sumN d1 fun p =>
                if p ≤ n ∧ n - p < d2 then
                  A.mul (a.get2 (r / k2) p A.zero) (b.get2 (r % k2) (n - p) A.zero)
                else A.zero
          | _ => A.zero) := by
  simp only [applyOp, POp.shape, List.map, ha, hb]
  rfl

theorem applyOp_polyDiff_gt (A : AOps R) (t : Tensor R) (ord k d : Nat)
    (ht : t.shape = [k, d]) (hd : d > ord) :
    applyOp A (.polyDiff ord) [t]
      = some (Tensor.ofFn [k, d - ord] fun idx =>
          match idx with
          | [r, n] => A.mul (fallR A (n + ord) ord) (t.get2 r (n + ord) A.zero)
          | _ => A.zero) := by
  simp only [applyOp, POp.shape, List.map, ht, if_pos hd]
  rfl

theorem applyOp_polyDiff_le (A : AOps R) (t : Tensor R) (ord k d : Nat)
    (ht : t.shape = [k, d]) (hd : d ≤ ord) :
    applyOp A (.polyDiff ord) [t] = some (Tensor.ofFn [k, 1] fun _ => A.zero) := by
  have : ¬ d > ord := by omega
  simp only [applyOp, POp.shape, List.map, ht, if_neg this]
  rfl
end Unfold

/-! ### the result shape of `applyOp` is the symbolic shape rule -/

section Shape
open Tensor PExpr
variable {R : Type}

/-- Every operator returns a tensor whose shape is `POp.shape` of the argument shapes. -/
theorem applyOp_shape (A : AOps R) (op : POp) (args : List (Tensor R)) (r : Tensor R)
    (h : applyOp A op args = some r) : op.shape (args.map (·.shape)) = some r.shape := by
  unfold applyOp at h
  simp only [Option.bind_eq_bind, Option.bind_eq_some_iff] at h
  obtain ⟨s, hs, h⟩ := h
  rw [hs]; congr 1
  split at h
  all_goals first
    | (cases h; rfl)
    | (exact absurd h (Option.some_ne_none _).symm)
    | (cases h; simp only [POp.shape, List.map, Option.some.injEq] at hs; exact hs.symm)
    | (cases h; simp only [POp.shape, List.map] at hs; (split at hs <;> cases hs); rfl)
    | (rw [Option.bind_eq_some_iff] at h; obtain ⟨_, _, h⟩ := h; cases h; rfl)
    | (rw [Option.bind_eq_some_iff] at h; obtain ⟨_, _, h⟩ := h
       rw [Option.bind_eq_some_iff] at h; obtain ⟨_, _, h⟩ := h; cases h; rfl)
    | (rw [Option.bind_eq_some_iff] at h; obtain ⟨_, _, h⟩ := h; cases h
       simp only [POp.shape, List.map, Option.some.injEq] at hs; exact hs.symm)
    | (split at h <;> first | (cases h; rfl) | (exact absurd h (Option.some_ne_none _).symm) | (split at h <;> cases h <;> rfl))

mutual
theorem shape_sound_aux (A : AOps R) (θ : Nat → Option (Array R)) (pre : R → R) :
    ∀ (e : PExpr R) (t : Tensor R), PExpr.eval A θ pre e = .ok t → e.shape = some t.shape
  | .tensor uid sh, t, h => by
    rw [PExpr.eval] at h
    rw [PExpr.shape]
    split at h
    · split at h
      · cases h; rfl
      · cases h
    · cases h
  | .ref uid sh, t, h => by
    rw [PExpr.eval] at h
    rw [PExpr.shape]
    split at h
    · split at h
      · cases h; rfl
      · cases h
    · cases h
  | .const sh vals, t, h => by
    rw [PExpr.eval] at h
    rw [PExpr.shape]
    split at h
    · cases h; rfl
    · cases h
  | .app op args, t, h => by
    rw [PExpr.eval] at h
    rw [PExpr.shape]
    cases hv : PExpr.eval.evalList A θ pre args with
    | error e => rw [hv] at h; cases h
    | ok vs =>
      rw [hv] at h
      have hl := shapeList_sound_aux A θ pre args vs hv
      rw [hl]
      cases ha : applyOp A op vs with
      | none => simp only [bind, Except.bind, ha] at h; cases h
      | some r =>
        simp only [bind, Except.bind, ha] at h
        cases h
        exact applyOp_shape A op vs _ ha
theorem shapeList_sound_aux (A : AOps R) (θ : Nat → Option (Array R)) (pre : R → R) :
    ∀ (es : List (PExpr R)) (ts : List (Tensor R)), PExpr.eval.evalList A θ pre es = .ok ts →
      PExpr.shape.shapeList es = some (ts.map (·.shape))
  | [], ts, h => by
    rw [PExpr.eval.evalList] at h
    cases h
    rfl
  | e :: es, ts, h => by
    rw [PExpr.eval.evalList] at h
    rw [PExpr.shape.shapeList]
    cases hv : PExpr.eval A θ pre e with
    | error e => rw [hv] at h; cases h
    | ok v =>
      rw [hv] at h
      cases hvs : PExpr.eval.evalList A θ pre es with
      | error e => rw [hvs] at h; cases h
      | ok vs =>
        rw [hvs] at h
        cases h
        rw [shape_sound_aux A θ pre e v hv, shapeList_sound_aux A θ pre es vs hvs]
        rfl
end

end Shape

end Cirkit
