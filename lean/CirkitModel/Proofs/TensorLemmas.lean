/-
  CirkitModel.Proofs.TensorLemmas — index arithmetic of the row-major tensors of
  `CirkitModel.Model.Tensor` and unfolding lemmas for `PExpr.applyOp`.
-/
import Mathlib.Tactic.Ring
import Mathlib.Tactic.Linarith
import Mathlib.Data.List.Basic
import CirkitModel.Model.Tensor
import CirkitModel.Model.PExpr

namespace Cirkit

/-! ### shapeSize -/

theorem foldl_mul_eq (l : List Nat) (k : Nat) :
    List.foldl (· * ·) k l = k * List.foldl (· * ·) 1 l := by
  induction l generalizing k with
  | nil => simp
  | cons d ds ih =>
    simp only [List.foldl_cons]
    rw [ih (k * d), ih (1 * d)]
    ring

@[simp] theorem shapeSize_nil : shapeSize [] = 1 := rfl

theorem shapeSize_cons (d : Nat) (ds : List Nat) : shapeSize (d :: ds) = d * shapeSize ds := by
  unfold shapeSize
  rw [List.foldl_cons, foldl_mul_eq]
  ring

theorem shapeSize_append (a b : List Nat) : shapeSize (a ++ b) = shapeSize a * shapeSize b := by
  induction a with
  | nil => simp
  | cons d ds ih => rw [List.cons_append, shapeSize_cons, shapeSize_cons, ih]; ring

theorem shapeSize_pair (m n : Nat) : shapeSize [m, n] = m * n := by
  simp [shapeSize_cons]

theorem shapeSize_single (m : Nat) : shapeSize [m] = m := by
  simp [shapeSize_cons]

/-! ### split3 -/

theorem split3_size' (shape : List Nat) (ax : Nat) (h : ax < shape.length) :
    shapeSize shape
      = shapeSize (shape.take ax) * shape.getD ax 1 * shapeSize (shape.drop (ax + 1)) := by
  have hg : shape.getD ax 1 = shape[ax] := by
    simp [List.getD_eq_getElem?_getD, h]
  conv_lhs => rw [← List.take_append_drop ax shape]
  rw [shapeSize_append, List.drop_eq_getElem_cons h, shapeSize_cons, hg]
  ring

theorem split3_size (shape : List Nat) (ax : Nat) (h : ax < shape.length) :
    let (o, len, inner) := Tensor.split3 shape ax
    shapeSize shape = o * len * inner := by
  simpa [Tensor.split3] using split3_size' shape ax h

/-! ### row-major index arithmetic -/

theorem div_add_lt {i b j : ℕ} (hj : j < b) : (i * b + j) / b = i := by
  rw [Nat.mul_comm, Nat.mul_add_div (by omega), Nat.div_eq_of_lt hj, Nat.add_zero]

theorem mod_add_lt {i b j : ℕ} (hj : j < b) : (i * b + j) % b = j := by
  rw [Nat.mul_comm, Nat.mul_add_mod, Nat.mod_eq_of_lt hj]

theorem pair_lt {a len i inner : ℕ} (ha : a < len) (hi : i < inner) :
    a * inner + i < len * inner := by
  have : (a + 1) * inner ≤ len * inner := Nat.mul_le_mul_right _ ha
  rw [Nat.add_mul] at this
  omega

theorem flat3_div_outer {o a i len inner : ℕ} (ha : a < len) (hi : i < inner) :
    ((o * len + a) * inner + i) / (len * inner) = o := by
  have : (o * len + a) * inner + i = o * (len * inner) + (a * inner + i) := by ring
  rw [this, div_add_lt (pair_lt ha hi)]

theorem flat3_mid {o a i len inner : ℕ} (ha : a < len) (hi : i < inner) :
    (((o * len + a) * inner + i) / inner) % len = a := by
  rw [div_add_lt hi, mod_add_lt ha]

theorem flat3_inner {o a i len inner : ℕ} (hi : i < inner) :
    ((o * len + a) * inner + i) % inner = i := mod_add_lt hi

theorem flat3_lt {o a i outer len inner : ℕ} (ho : o < outer) (ha : a < len) (hi : i < inner) :
    (o * len + a) * inner + i < outer * len * inner :=
  pair_lt (pair_lt ho ha) hi

namespace Tensor
variable {R : Type}

/-! ### ofFn3 / get3 -/

@[simp] theorem ofFn3_shape (shape : List Nat) (ax : Nat) (f : Nat → Nat → Nat → R) :
    (ofFn3 shape ax f).shape = shape := rfl

@[simp] theorem ofFn3_size (shape : List Nat) (ax : Nat) (f : Nat → Nat → Nat → R) :
    (ofFn3 shape ax f).data.size = shapeSize shape := by
  simp [ofFn3]

theorem ofFn3_ok (shape : List Nat) (ax : Nat) (f : Nat → Nat → Nat → R) :
    (ofFn3 shape ax f).ok = true := by
  simp [ok]

theorem ofFn3_data_getD (shape : List Nat) (ax : Nat) (f : Nat → Nat → Nat → R) (n : Nat) (z : R)
    (hn : n < shapeSize shape) :
    (ofFn3 shape ax f).data.getD n z
      = f (n / ((split3 shape ax).2.1 * (split3 shape ax).2.2))
          ((n / (split3 shape ax).2.2) % (split3 shape ax).2.1) (n % (split3 shape ax).2.2) := by
  simp [ofFn3, Array.getD, hn]

/-- Reading the 3-d view of a tensor built from its 3-d view. -/
theorem get3_ofFn3 (shape : List Nat) (ax : Nat) (f : Nat → Nat → Nat → R)
    (h : ax < shape.length) (o a i : Nat)
    (ho : o < (split3 shape ax).1) (ha : a < (split3 shape ax).2.1)
    (hi : i < (split3 shape ax).2.2) (z : R) :
    (ofFn3 shape ax f).get3 ax o a i z = f o a i := by
  have hs : shapeSize shape
      = (split3 shape ax).1 * (split3 shape ax).2.1 * (split3 shape ax).2.2 :=
    split3_size' shape ax h
  have hn : (o * (split3 shape ax).2.1 + a) * (split3 shape ax).2.2 + i < shapeSize shape := by
    rw [hs]; exact flat3_lt ho ha hi
  show (ofFn3 shape ax f).data.getD
    ((o * (split3 shape ax).2.1 + a) * (split3 shape ax).2.2 + i) z = _
  rw [ofFn3_data_getD _ _ _ _ _ hn, flat3_div_outer ha hi, flat3_mid ha hi,
    flat3_inner hi]

/-! ### ofFn / getD -/

@[simp] theorem ofFn_shape (shape : List Nat) (f : List Nat → R) :
    (ofFn shape f).shape = shape := rfl

@[simp] theorem ofFn_size (shape : List Nat) (f : List Nat → R) :
    (ofFn shape f).data.size = shapeSize shape := by
  simp [ofFn]

theorem ofFn_ok (shape : List Nat) (f : List Nat → R) : (ofFn shape f).ok = true := by
  simp [ok]

theorem ofFn_data_getD (shape : List Nat) (f : List Nat → R) (n : Nat) (z : R)
    (hn : n < shapeSize shape) :
    (ofFn shape f).data.getD n z = f (unravel shape n) := by
  simp [ofFn, Array.getD, hn]

/-- `idx` is a valid multi-index of `shape`. -/
def InRange (shape idx : List Nat) : Prop :=
  idx.length = shape.length ∧ ∀ k < shape.length, idx[k]! < shape[k]!

theorem inRange_cons {d i : Nat} {ds is : List Nat} (h : InRange (d :: ds) (i :: is)) :
    i < d ∧ InRange ds is := by
  obtain ⟨hl, hk⟩ := h
  refine ⟨by simpa using hk 0 (by simp), by simpa using hl, fun k hk' => ?_⟩
  simpa using hk (k + 1) (by simpa using hk')

theorem offset_lt (shape idx : List Nat) (h : InRange shape idx) :
    offset shape idx < shapeSize shape := by
  induction shape generalizing idx with
  | nil => simp [offset]
  | cons d ds ih =>
    cases idx with
    | nil => exact absurd h.1 (by simp)
    | cons i is =>
      obtain ⟨hi, hr⟩ := inRange_cons h
      simp only [offset, shapeSize_cons]
      exact pair_lt hi (ih is hr)

theorem unravel_offset (shape idx : List Nat) (h : InRange shape idx) :
    unravel shape (offset shape idx) = idx := by
  induction shape generalizing idx with
  | nil =>
    cases idx with
    | nil => rfl
    | cons i is => exact absurd h.1 (by simp)
  | cons d ds ih =>
    cases idx with
    | nil => exact absurd h.1 (by simp)
    | cons i is =>
      obtain ⟨_, hr⟩ := inRange_cons h
      have hlt := offset_lt ds is hr
      simp only [offset, unravel]
      rw [div_add_lt hlt, mod_add_lt hlt, ih is hr]

/-- Reading an entry of a tensor built from a function on multi-indices. -/
theorem getD_ofFn (shape : List Nat) (f : List Nat → R) (idx : List Nat) (z : R)
    (hidx : idx.length = shape.length ∧ ∀ k < shape.length, idx[k]! < shape[k]!) :
    (ofFn shape f).getD idx z = f idx := by
  show (ofFn shape f).data.getD (offset shape idx) z = _
  rw [ofFn_data_getD _ _ _ _ (offset_lt shape idx hidx), unravel_offset shape idx hidx]

/-- rank-2 version: `get2` of `ofFn`. -/
theorem get2_ofFn (m n : Nat) (f : List Nat → R) (i j : Nat) (z : R) (hi : i < m) (hj : j < n) :
    (ofFn [m, n] f).get2 i j z = f [i, j] := by
  have hlt : i * n + j < shapeSize [m, n] := by rw [shapeSize_pair]; exact pair_lt hi hj
  show (ofFn [m, n] f).data.getD (i * n + j) z = _
  rw [ofFn_data_getD _ _ _ _ hlt]
  simp only [unravel, shapeSize_single, shapeSize_nil, Nat.div_one]
  rw [div_add_lt hj, mod_add_lt hj]

end Tensor

/-! ### unfolding `applyOp` at each operator -/

section Unfold
open Tensor PExpr
variable {R : Type}

theorem applyOp_index (A : AOps R) (idx : List Nat) (ax : Nat) (t : Tensor R) :
    applyOp A (.index idx ax) [t]
      = if ax < t.shape.length then
          some (Tensor.ofFn3 (t.shape.set ax idx.length) ax fun o j i =>
            t.get3 ax o (idx.getD j 0) i A.zero)
        else none := by
  simp only [applyOp, POp.shape, List.map]
  split <;> rfl

theorem applyOp_outerProduct (A : AOps R) (ax : Nat) (a b : Tensor R) :
    applyOp A (.outerProduct ax) [a, b]
      = if a.shape.length = b.shape.length ∧ ax < a.shape.length then
          some (Tensor.ofFn3 (a.shape.set ax (a.shape.getD ax 0 * b.shape.getD ax 0)) ax
            fun o c i => A.mul (a.get3 ax o (c / b.shape.getD ax 1) i A.zero)
              (b.get3 ax o (c % b.shape.getD ax 1) i A.zero))
        else none := by
  simp only [applyOp, POp.shape, List.map]
  split <;> rfl

theorem applyOp_outerSum (A : AOps R) (ax : Nat) (a b : Tensor R) :
    applyOp A (.outerSum ax) [a, b]
      = if a.shape.length = b.shape.length ∧ ax < a.shape.length then
          some (Tensor.ofFn3 (a.shape.set ax (a.shape.getD ax 0 * b.shape.getD ax 0)) ax
            fun o c i => A.add (a.get3 ax o (c / b.shape.getD ax 1) i A.zero)
              (b.get3 ax o (c % b.shape.getD ax 1) i A.zero))
        else none := by
  simp only [applyOp, POp.shape, List.map]
  split <;> rfl

theorem applyOp_reduceSum (A : AOps R) (ax : Nat) (t : Tensor R) :
    applyOp A (.reduceSum ax) [t]
      = if ax < t.shape.length then
          some { shape := t.shape.eraseIdx ax,
                 data := Array.ofFn (n := shapeSize (t.shape.eraseIdx ax)) fun n =>
                   A.toOps.sumN (split3 t.shape ax).2.1 fun a =>
                     t.get3 ax (n.val / (split3 t.shape ax).2.2) a
                       (n.val % (split3 t.shape ax).2.2) A.zero }
        else none := by
  simp only [applyOp, POp.shape, List.map]
  split <;> rfl

theorem applyOp_reduceProd (A : AOps R) (ax : Nat) (t : Tensor R) :
    applyOp A (.reduceProd ax) [t]
      = if ax < t.shape.length then
          some { shape := t.shape.eraseIdx ax,
                 data := Array.ofFn (n := shapeSize (t.shape.eraseIdx ax)) fun n =>
                   A.toOps.prodN (split3 t.shape ax).2.1 fun a =>
                     t.get3 ax (n.val / (split3 t.shape ax).2.2) a
                       (n.val % (split3 t.shape ax).2.2) A.zero }
        else none := by
  simp only [applyOp, POp.shape, List.map]
  split <;> rfl

theorem applyOp_kronecker (A : AOps R) (a b : Tensor R) :
    applyOp A .kronecker [a, b]
      = if a.shape.length = b.shape.length then
          some (Tensor.ofFn (List.zipWith (· * ·) a.shape b.shape) fun idx =>
            A.mul (a.getD (List.zipWith (· / ·) idx b.shape) A.zero)
              (b.getD (List.zipWith (· % ·) idx b.shape) A.zero))
        else none := by
  simp only [applyOp, POp.shape, List.map]
  split <;> rfl

theorem applyOp_square (A : AOps R) (t : Tensor R) :
    applyOp A .square [t] = some (t.map fun x => A.mul x x) := by
  simp only [applyOp, POp.shape, List.map]; rfl

theorem applyOp_conj (A : AOps R) (t : Tensor R) :
    applyOp A .conj [t] = some (t.map A.conj) := by
  simp only [applyOp, POp.shape, List.map]; rfl

theorem applyOp_sum (A : AOps R) (a b : Tensor R) :
    applyOp A .sum [a, b] = if a.shape = b.shape then some (Tensor.zipWith A.add a b) else none := by
  simp only [applyOp, POp.shape, List.map]
  split <;> rfl

theorem applyOp_hadamard (A : AOps R) (a b : Tensor R) :
    applyOp A .hadamard [a, b]
      = if a.shape = b.shape then some (Tensor.zipWith A.mul a b) else none := by
  simp only [applyOp, POp.shape, List.map]
  split <;> rfl

theorem applyOp_mixing (A : AOps R) (t : Tensor R) (K H : Nat) (ht : t.shape = [K, H]) :
    applyOp A .mixing [t]
      = some (Tensor.ofFn [K, K * H] fun idx =>
          match idx with
          | [r, c] => if c % K = r then t.get2 r (c / K) A.zero else A.zero
          | _ => A.zero) := by
  simp only [applyOp, POp.shape, List.map, ht]
  rfl

theorem applyOp_polyProduct (A : AOps R) (a b : Tensor R) (k1 d1 k2 d2 : Nat)
    (ha : a.shape = [k1, d1]) (hb : b.shape = [k2, d2]) :
    applyOp A .polyProduct [a, b]
      = some (Tensor.ofFn [k1 * k2, d1 + d2 - 1] fun idx =>
          match idx with
          | [r, n] =>
              A.toOps.sumN d1 fun p =>
                if p ≤ n ∧ n - p < d2 then
                  A.mul (a.get2 (r / k2) p A.zero) (b.get2 (r % k2) (n - p) A.zero)
                else A.zero
          | _ => A.zero) := by
  simp only [applyOp, POp.shape, List.map, ha, hb]
  rfl

theorem applyOp_polyDiff_gt (A : AOps R) (t : Tensor R) (ord k d : Nat)
    (ht : t.shape = [k, d]) (hd : d > ord) :
    applyOp A (.polyDiff ord) [t]
      = some (Tensor.ofFn [k, d - ord] fun idx =>
          match idx with
          | [r, n] => A.mul (fallR A (n + ord) ord) (t.get2 r (n + ord) A.zero)
          | _ => A.zero) := by
  simp only [applyOp, POp.shape, List.map, ht, if_pos hd]
  rfl

theorem applyOp_polyDiff_le (A : AOps R) (t : Tensor R) (ord k d : Nat)
    (ht : t.shape = [k, d]) (hd : d ≤ ord) :
    applyOp A (.polyDiff ord) [t] = some (Tensor.ofFn [k, 1] fun _ => A.zero) := by
  have : ¬ d > ord := by omega
  simp only [applyOp, POp.shape, List.map, ht, if_neg this]
  rfl
end Unfold

end Cirkit
