/-
  CirkitModel.Proofs.TemplatesFull — what the template builders of `CirkitModel.Model.Templates`
  evaluate to (C20), for every number of modes / every ordering.
-/
import Mathlib.Algebra.BigOperators.Ring.Finset
import Mathlib.Algebra.BigOperators.Fin
import Mathlib.Tactic.Ring
import CirkitModel.Model.Templates
import CirkitModel.Proofs.Bridge
import CirkitModel.Proofs.Index

open Finset

namespace Cirkit.Tpl
variable {R V : Type} [CommSemiring R]

/-! ### mixed-radix digits: `range (k ^ n)` ↔ `Fin n → Fin k` (first index most significant) -/

/-- row-major flat index of a multi-index: `Σ_j f_j · k^(n-1-j)` -/
def flatIdx (k n : ℕ) (f : Fin n → Fin k) : ℕ := ∑ j : Fin n, (f j).val * k ^ (n - 1 - j.val)

theorem flatIdx_eq (k n : ℕ) (f : Fin n → Fin k) :
    flatIdx k n f = (finFunctionFinEquiv (fun i => f (Fin.rev i))).val := by
  rw [finFunctionFinEquiv_apply]
  unfold flatIdx
  refine Fintype.sum_equiv Fin.revPerm _ _ (fun j => ?_)
  simp only [Fin.revPerm_apply, Fin.rev_rev, Fin.val_rev]
  congr 2
  omega

theorem flatIdx_lt (k n : ℕ) (f : Fin n → Fin k) : flatIdx k n f < k ^ n := by
  rw [flatIdx_eq]; exact Fin.is_lt _

theorem digit_flatIdx (k n : ℕ) (f : Fin n → Fin k) (j : Fin n) :
    digit k n j.val (flatIdx k n f) = (f j).val := by
  have h := congrFun (finFunctionFinEquiv.symm_apply_apply (fun i => f (Fin.rev i))) (Fin.rev j)
  have h' := congrArg Fin.val h
  rw [finFunctionFinEquiv_symm_apply_val, Fin.rev_rev, Fin.val_rev] at h'
  unfold digit
  rw [flatIdx_eq]
  have e : n - 1 - j.val = n - (j.val + 1) := by omega
  rw [e]; exact h'

/-- re-indexing a sum over flat indices as a sum over multi-indices -/
theorem sum_range_pow_eq_sum_fun (k n : ℕ) (g : ℕ → R) :
    ∑ c ∈ range (k ^ n), g c = ∑ f : Fin n → Fin k, g (flatIdx k n f) := by
  rw [Finset.sum_range]
  symm
  refine Fintype.sum_equiv
    ((Equiv.arrowCongr Fin.revPerm (Equiv.refl (Fin k))).trans finFunctionFinEquiv) _ _ (fun f => ?_)
  rw [flatIdx_eq]
  congr 2

/-! ### CP, Tucker, fully factorised -/

theorem cpNode_eval_aux (n rank : ℕ) (w : ℕ → R) (A : ℕ → ℕ → V → R) (x : ℕ → V) :
    (cpNode n rank w A).eval (Ops.ofCommSemiring R) x 0
      = ∑ r ∈ range rank, w r * ∏ j : Fin n, A j.val r (x j.val) := by
  simp only [cpNode, Node.eval, sumFin_eq, sumN_eq, prodFin_eq, ofCS_mul, Fin.sum_univ_one,
    Fin.val_zero, Nat.zero_mul, Nat.zero_add]

theorem tuckerNode_eval_digit (n rank : ℕ) (core : ℕ → R) (A : ℕ → ℕ → V → R) (x : ℕ → V) :
    (tuckerNode n rank core A).eval (Ops.ofCommSemiring R) x 0
      = ∑ c ∈ range (rank ^ n), core c * ∏ j : Fin n, A j.val (digit rank n j.val c) (x j.val) := by
  simp only [tuckerNode, Node.eval, sumFin_eq, sumN_eq, prodFin_eq, ofCS_mul, Fin.sum_univ_one,
    Fin.val_zero, Nat.zero_mul, Nat.zero_add]

theorem tuckerNode_eval_fun (n rank : ℕ) (core : ℕ → R) (A : ℕ → ℕ → V → R) (x : ℕ → V) :
    (tuckerNode n rank core A).eval (Ops.ofCommSemiring R) x 0
      = ∑ f : Fin n → Fin rank,
          core (flatIdx rank n f) * ∏ j : Fin n, A j.val (f j).val (x j.val) := by
  rw [tuckerNode_eval_digit, sum_range_pow_eq_sum_fun]
  refine Finset.sum_congr rfl (fun f _ => ?_)
  congr 1
  refine Finset.prod_congr rfl (fun j _ => ?_)
  rw [digit_flatIdx]

theorem ffNode_eval_aux (n : ℕ) (F : ℕ → V → R) (x : ℕ → V) :
    (ffNode n F).eval (Ops.ofCommSemiring R) x 0 = ∏ j : Fin n, F j.val (x j.val) := by
  unfold ffNode
  split
  · rename_i h; subst h
    simp only [Node.eval, Fin.prod_univ_one, Fin.val_zero]
  · simp only [Node.eval, prodFin_eq]

/-! ### tensor train -/

theorem ttVec_succ (rank : ℕ) (first : ℕ → V → R) (G : ℕ → ℕ → ℕ → V → R) (x : ℕ → V)
    (m q : ℕ) :
    ttVec (Ops.ofCommSemiring R) rank first G x (m + 1) q
      = ∑ r ∈ range rank,
          ttVec (Ops.ofCommSemiring R) rank first G x m r * G (m + 1) q r (x (m + 1)) := by
  simp only [ttVec, sumN_eq, ofCS_mul]

theorem ttVal_eq (inner rank : ℕ) (first : ℕ → V → R) (G : ℕ → ℕ → ℕ → V → R)
    (last : ℕ → V → R) (x : ℕ → V) :
    ttVal (Ops.ofCommSemiring R) inner rank first G last x
      = ∑ r ∈ range rank,
          ttVec (Ops.ofCommSemiring R) rank first G x inner r * last r (x (inner + 1)) := by
  simp only [ttVal, sumN_eq, ofCS_mul]

/-- one row of the block-diagonal ones matrix picks the units of one input -/
theorem mavOnes_sum (rank : ℕ) (e : ℕ → ℕ → R) (i : ℕ) (hi : i < rank) :
    ∑ h : Fin rank, ∑ j ∈ range rank,
        mavOnes (Ops.ofCommSemiring R) rank i (h.val * rank + j) * e h.val j
      = ∑ j ∈ range rank, e i j := by
  rw [Finset.sum_eq_single (⟨i, hi⟩ : Fin rank)]
  · refine Finset.sum_congr rfl (fun j hj => ?_)
    have hj' : j < rank := Finset.mem_range.mp hj
    simp only [mavOnes, div_of_lt_add hj', if_true, ofCS_one, one_mul]
  · intro h _ hne
    refine Finset.sum_eq_zero (fun j hj => ?_)
    have hj' : j < rank := Finset.mem_range.mp hj
    have : h.val ≠ i := fun e => hne (Fin.ext e)
    simp only [mavOnes, div_of_lt_add hj', this, if_false, ofCS_zero, zero_mul]
  · intro hni
    exact absurd (Finset.mem_univ _) hni

theorem ttChain_eval (rank : ℕ) (first : ℕ → V → R) (G : ℕ → ℕ → ℕ → V → R) (x : ℕ → V)
    (m : ℕ) : ∀ q, q < rank →
    (ttChain (Ops.ofCommSemiring R) rank first G m).eval (Ops.ofCommSemiring R) x q
      = ttVec (Ops.ofCommSemiring R) rank first G x m q := by
  induction m with
  | zero => intro q _; simp only [ttChain, Node.eval, ttVec]
  | succ m ih =>
    intro q hq
    rw [ttVec_succ]
    simp only [ttChain, Node.eval, sumFin_eq, sumN_eq, prodFin_eq, ofCS_mul, Fin.prod_univ_two,
      Fin.val_zero, Fin.val_one, if_true, Nat.one_ne_zero, if_false]
    rw [mavOnes_sum rank (fun h j =>
      (ttChain (Ops.ofCommSemiring R) rank first G m).eval (Ops.ofCommSemiring R) x j
        * G (m + 1) h j (x (m + 1))) q hq]
    refine Finset.sum_congr rfl (fun j hj => ?_)
    rw [ih j (Finset.mem_range.mp hj)]

theorem ttNode_eval (inner rank : ℕ) (first : ℕ → V → R) (G : ℕ → ℕ → ℕ → V → R)
    (last : ℕ → V → R) (x : ℕ → V) :
    (ttNode (Ops.ofCommSemiring R) inner rank first G last).eval (Ops.ofCommSemiring R) x 0
      = ttVal (Ops.ofCommSemiring R) inner rank first G last x := by
  rw [ttVal_eq]
  simp only [ttNode, Node.eval, sumFin_eq, sumN_eq, prodFin_eq, ofCS_mul, ofCS_one, one_mul,
    Fin.sum_univ_one, Fin.prod_univ_two, Fin.val_zero, Fin.val_one, if_true, Nat.one_ne_zero,
    if_false]
  refine Finset.sum_congr rfl (fun j hj => ?_)
  rw [ttChain_eval rank first G x inner j (Finset.mem_range.mp hj)]

/-- extension of a finite hidden-state sequence to a function on `ℕ` (0 outside) -/
def extZ {n K : ℕ} (z : Fin n → Fin K) : ℕ → ℕ := fun i => if h : i < n then (z ⟨i, h⟩).val else 0

theorem extZ_val {n K : ℕ} (z : Fin n → Fin K) (i : Fin n) : extZ z i.val = (z i).val := by
  simp only [extZ, i.is_lt, dite_true]

/-! ### tensor train: the sum over all bond indices -/

/-- weight of the bond-index sequence `r_0 … r_m` in the left-to-right contraction:
    `first[r_0, x_0] · Π_{i<m} G_{i+1}[r_{i+1}][r_i, x_{i+1}]` -/
def chainW (first : ℕ → V → R) (G : ℕ → ℕ → ℕ → V → R) (x : ℕ → V) : ℕ → (ℕ → ℕ) → R
  | 0, r => first (r 0) (x 0)
  | m + 1, r => chainW first G x m r * G (m + 1) (r (m + 1)) (r m) (x (m + 1))

theorem chainW_congr (first : ℕ → V → R) (G : ℕ → ℕ → ℕ → V → R) (x : ℕ → V) (m : ℕ) :
    ∀ r r' : ℕ → ℕ, (∀ i, i ≤ m → r i = r' i) → chainW first G x m r = chainW first G x m r' := by
  induction m with
  | zero => intro r r' h; rw [chainW, chainW, h 0 (Nat.le_refl 0)]
  | succ m ih =>
    intro r r' h
    rw [chainW, chainW, ih r r' (fun i hi => h i (by omega)), h (m + 1) (Nat.le_refl _),
      h m (by omega)]

theorem chainW_eq_prod (first : ℕ → V → R) (G : ℕ → ℕ → ℕ → V → R) (x : ℕ → V) (m : ℕ)
    (r : ℕ → ℕ) :
    chainW first G x m r
      = first (r 0) (x 0) * ∏ i ∈ range m, G (i + 1) (r (i + 1)) (r i) (x (i + 1)) := by
  induction m with
  | zero => simp only [chainW, Finset.range_zero, Finset.prod_empty, mul_one]
  | succ m ih => rw [chainW, ih, Finset.prod_range_succ, mul_assoc]

/-- `r_0 … r_{m-1}` from `r`, then `q` -/
def extQ {m K : ℕ} (r : Fin m → Fin K) (q : ℕ) : ℕ → ℕ :=
  fun i => if h : i < m then (r ⟨i, h⟩).val else q

theorem extQ_snoc {m K : ℕ} (r : Fin m → Fin K) (j : Fin K) (q i : ℕ) (hi : i ≤ m) :
    extQ (Fin.snoc r j : Fin (m + 1) → Fin K) q i = extQ r j.val i := by
  have hlt : i < m + 1 := by omega
  simp only [extQ, hlt, dite_true]
  by_cases h : i < m
  · simp only [h, dite_true]
    exact congrArg Fin.val (Fin.snoc_castSucc (α := fun _ => Fin K) j r ⟨i, h⟩)
  · simp only [h, dite_false]
    have e : i = m := by omega
    subst e
    exact congrArg Fin.val (Fin.snoc_last (α := fun _ => Fin K) j r)

theorem extZ_snoc {m K : ℕ} (r : Fin m → Fin K) (j : Fin K) (i : ℕ) (hi : i ≤ m) :
    extZ (Fin.snoc r j : Fin (m + 1) → Fin K) i = extQ r j.val i := by
  have h := extQ_snoc r j 0 i hi
  have hlt : i < m + 1 := by omega
  simp only [extQ, hlt, dite_true] at h
  simp only [extZ, hlt, dite_true]
  exact h

theorem ttVec_eq_sum_chains (rank : ℕ) (first : ℕ → V → R) (G : ℕ → ℕ → ℕ → V → R)
    (x : ℕ → V) (m : ℕ) : ∀ q : ℕ,
    ttVec (Ops.ofCommSemiring R) rank first G x m q
      = ∑ r : Fin m → Fin rank, chainW first G x m (extQ r q) := by
  induction m with
  | zero =>
    intro q
    simp only [ttVec, chainW, extQ, Nat.lt_irrefl, dite_false, Finset.univ_unique,
      Finset.sum_singleton]
  | succ m ih =>
    intro q
    rw [ttVec_succ, Finset.sum_range]
    symm
    rw [← (Fin.snocEquiv (fun _ : Fin (m + 1) => Fin rank)).sum_comp, Fintype.sum_prod_type]
    refine Finset.sum_congr rfl (fun j _ => ?_)
    rw [ih, Finset.sum_mul]
    refine Finset.sum_congr rfl (fun r _ => ?_)
    have hc : (Fin.snocEquiv (fun _ : Fin (m + 1) => Fin rank)) (j, r)
        = (Fin.snoc r j : Fin (m + 1) → Fin rank) := rfl
    rw [hc, chainW,
      chainW_congr first G x m _ (extQ r j.val) (fun i hi => extQ_snoc r j q i hi),
      extQ_snoc r j q m (Nat.le_refl m)]
    have h1 : extQ (Fin.snoc r j : Fin (m + 1) → Fin rank) q (m + 1) = q := by
      simp only [extQ, Nat.lt_irrefl, dite_false]
    have h2 : extQ r j.val m = j.val := by simp only [extQ, Nat.lt_irrefl, dite_false]
    rw [h1, h2]

/-- tensor train = the documented sum over all bond indices `r_0 … r_{n-2}` -/
theorem ttVal_joint (inner rank : ℕ) (first : ℕ → V → R) (G : ℕ → ℕ → ℕ → V → R)
    (last : ℕ → V → R) (x : ℕ → V) :
    ttVal (Ops.ofCommSemiring R) inner rank first G last x
      = ∑ r : Fin (inner + 1) → Fin rank,
          first (r 0).val (x 0)
            * (∏ i : Fin inner,
                G (i.val + 1) (r i.succ).val (r i.castSucc).val (x (i.val + 1)))
            * last (r (Fin.last inner)).val (x (inner + 1)) := by
  rw [ttVal_eq, Finset.sum_range]
  symm
  rw [← (Fin.snocEquiv (fun _ : Fin (inner + 1) => Fin rank)).sum_comp, Fintype.sum_prod_type]
  refine Finset.sum_congr rfl (fun j _ => ?_)
  rw [ttVec_eq_sum_chains, Finset.sum_mul]
  refine Finset.sum_congr rfl (fun r _ => ?_)
  have hc : (Fin.snocEquiv (fun _ : Fin (inner + 1) => Fin rank)) (j, r)
      = (Fin.snoc r j : Fin (inner + 1) → Fin rank) := rfl
  rw [hc, Fin.snoc_last,
    ← chainW_congr first G x inner _ _ (fun i hi => extZ_snoc r j i hi), chainW_eq_prod,
    ← Fin.prod_univ_eq_prod_range]
  have h0 : extZ (Fin.snoc r j : Fin (inner + 1) → Fin rank) 0
      = ((Fin.snoc r j : Fin (inner + 1) → Fin rank) 0).val := extZ_val _ 0
  rw [h0]
  congr 2
  refine Finset.prod_congr rfl (fun i _ => ?_)
  have h1 := extZ_val (Fin.snoc r j : Fin (inner + 1) → Fin rank) i.castSucc
  have h2 := extZ_val (Fin.snoc r j : Fin (inner + 1) → Fin rank) i.succ
  simp only [Fin.val_castSucc, Fin.val_succ] at h1 h2
  rw [h1, h2]

/-! ### hidden Markov model -/

theorem hmmBack_nil (K : ℕ) (E : ℕ → ℕ → V → R) (T : ℕ → ℕ → ℕ → R) (x : ℕ → V)
    (pos v i : ℕ) :
    hmmBack (Ops.ofCommSemiring R) K E T x pos v [] i
      = ∑ j ∈ range K, T pos i j * E v j (x v) := by
  simp only [hmmBack, sumN_eq, ofCS_mul]

theorem hmmBack_cons (K : ℕ) (E : ℕ → ℕ → V → R) (T : ℕ → ℕ → ℕ → R) (x : ℕ → V)
    (pos v w : ℕ) (rest : List ℕ) (i : ℕ) :
    hmmBack (Ops.ofCommSemiring R) K E T x pos v (w :: rest) i
      = ∑ j ∈ range K, T pos i j
          * (hmmBack (Ops.ofCommSemiring R) K E T x (pos + 1) w rest j * E v j (x v)) := by
  simp only [hmmBack, sumN_eq, ofCS_mul]

theorem hmmFrom_eval (K : ℕ) (E : ℕ → ℕ → V → R) (T : ℕ → ℕ → ℕ → R) (x : ℕ → V)
    (rest : List ℕ) : ∀ (pos v i : ℕ),
    (hmmFrom K E T pos v rest).eval (Ops.ofCommSemiring R) x i
      = hmmBack (Ops.ofCommSemiring R) K E T x pos v rest i := by
  induction rest with
  | nil =>
    intro pos v i
    rw [hmmBack_nil]
    simp only [hmmFrom, Node.eval, sumFin_eq, sumN_eq, ofCS_mul, Fin.sum_univ_one, Fin.val_zero,
      Nat.zero_mul, Nat.zero_add]
  | cons w rest ih =>
    intro pos v i
    rw [hmmBack_cons]
    simp only [hmmFrom, Node.eval, sumFin_eq, sumN_eq, prodFin_eq, ofCS_mul, Fin.sum_univ_one,
      Fin.prod_univ_two, Fin.val_zero, Fin.val_one, Nat.zero_mul, Nat.zero_add, if_true,
      Nat.one_ne_zero, if_false]
    refine Finset.sum_congr rfl (fun j _ => ?_)
    rw [ih]

theorem extZ_cons_zero {n K : ℕ} (j : Fin K) (z : Fin n → Fin K) :
    extZ (Fin.cons j z : Fin (n + 1) → Fin K) 0 = j.val := by
  simp only [extZ, Nat.succ_pos, dite_true]
  rfl

theorem extZ_cons_succ {n K : ℕ} (j : Fin K) (z : Fin n → Fin K) :
    (fun i => extZ (Fin.cons j z : Fin (n + 1) → Fin K) (i + 1)) = extZ z := by
  funext i
  simp only [extZ, Nat.add_lt_add_iff_right]
  split
  · rename_i h
    exact congrArg Fin.val (Fin.cons_succ (α := fun _ => Fin K) j z ⟨i, h⟩)
  · rfl

/-- weight of the hidden path `z` (`z i` = state at position `pos + i`) entered from unit `o`:
    `Π_i T_{pos+i}[z_{i-1}, z_i] · E_{l_i}[z_i](x_{l_i})` with `z_{-1} = o`. -/
def pathW (K : ℕ) (E : ℕ → ℕ → V → R) (T : ℕ → ℕ → ℕ → R) (x : ℕ → V) :
    ℕ → ℕ → List ℕ → (ℕ → ℕ) → R
  | _, _, [], _ => 1
  | pos, o, v :: rest, z =>
      T pos o (z 0) * E v (z 0) (x v) * pathW K E T x (pos + 1) (z 0) rest (fun i => z (i + 1))

theorem hmmBack_eq_sum_paths (K : ℕ) (E : ℕ → ℕ → V → R) (T : ℕ → ℕ → ℕ → R) (x : ℕ → V)
    (rest : List ℕ) : ∀ (pos v o : ℕ),
    hmmBack (Ops.ofCommSemiring R) K E T x pos v rest o
      = ∑ z : Fin (rest.length + 1) → Fin K, pathW K E T x pos o (v :: rest) (extZ z) := by
  induction rest with
  | nil =>
    intro pos v o
    rw [hmmBack_nil, Finset.sum_range]
    symm
    refine Fintype.sum_equiv (Equiv.funUnique (Fin 1) (Fin K)) _ _ (fun z => ?_)
    have h0 : extZ z 0 = (z 0).val := extZ_val z 0
    simp only [pathW, mul_one, h0, List.length_nil, Equiv.funUnique_apply]
    rfl
  | cons w rest ih =>
    intro pos v o
    rw [hmmBack_cons, Finset.sum_range]
    symm
    simp only [List.length_cons]
    rw [← (Fin.consEquiv (fun _ : Fin (rest.length + 1 + 1) => Fin K)).sum_comp,
      Fintype.sum_prod_type]
    refine Finset.sum_congr rfl (fun j _ => ?_)
    rw [ih, Finset.sum_mul, Finset.mul_sum]
    refine Finset.sum_congr rfl (fun z _ => ?_)
    have hc : (Fin.consEquiv (fun _ : Fin (rest.length + 1 + 1) => Fin K)) (j, z)
        = (Fin.cons j z : Fin (rest.length + 1 + 1) → Fin K) := rfl
    rw [hc, pathW, extZ_cons_zero, extZ_cons_succ]
    ring

/-- the path weight as the explicit product of initial/transition and emission factors -/
theorem pathW_eq_prod (K : ℕ) (E : ℕ → ℕ → V → R) (T : ℕ → ℕ → ℕ → R) (x : ℕ → V)
    (rest : List ℕ) : ∀ (pos o v : ℕ) (z : ℕ → ℕ),
    pathW K E T x pos o (v :: rest) z
      = T pos o (z 0) * (∏ i ∈ range rest.length, T (pos + 1 + i) (z i) (z (i + 1)))
          * ∏ i ∈ range (rest.length + 1),
              E ((v :: rest).getD i 0) (z i) (x ((v :: rest).getD i 0)) := by
  induction rest with
  | nil =>
    intro pos o v z
    simp only [pathW, List.length_nil, Finset.range_zero, Finset.prod_empty, mul_one,
      Nat.zero_add, Finset.prod_range_one, List.getD_cons_zero]
  | cons w rest ih =>
    intro pos o v z
    have hTr : ∏ i ∈ range (rest.length + 1), T (pos + 1 + i) (z i) (z (i + 1))
        = (∏ i ∈ range rest.length, T (pos + 1 + 1 + i) (z (i + 1)) (z (i + 1 + 1)))
            * T (pos + 1) (z 0) (z (0 + 1)) := by
      rw [Finset.prod_range_succ']
      congr 1
      exact Finset.prod_congr rfl
        (fun i _ => by rw [show pos + 1 + (i + 1) = pos + 1 + 1 + i by omega])
    have hEr : ∏ i ∈ range (rest.length + 1 + 1),
          E ((v :: w :: rest).getD i 0) (z i) (x ((v :: w :: rest).getD i 0))
        = (∏ i ∈ range (rest.length + 1),
            E ((w :: rest).getD i 0) (z (i + 1)) (x ((w :: rest).getD i 0)))
            * E v (z 0) (x v) := by
      rw [Finset.prod_range_succ']
      simp only [List.getD_cons_succ, List.getD_cons_zero]
    rw [pathW, ih (pos + 1) (z 0) w (fun i => z (i + 1)), List.length_cons, hTr, hEr]
    ring

/-- HMM = sum over all hidden state sequences (range-product form) -/
theorem hmmBack_joint_range (K : ℕ) (E : ℕ → ℕ → V → R) (T : ℕ → ℕ → ℕ → R) (x : ℕ → V)
    (rest : List ℕ) (pos v o : ℕ) :
    hmmBack (Ops.ofCommSemiring R) K E T x pos v rest o
      = ∑ z : Fin (rest.length + 1) → Fin K,
          T pos o (extZ z 0) * (∏ i ∈ range rest.length, T (pos + 1 + i) (extZ z i) (extZ z (i + 1)))
            * ∏ i ∈ range (rest.length + 1),
                E ((v :: rest).getD i 0) (extZ z i) (x ((v :: rest).getD i 0)) := by
  rw [hmmBack_eq_sum_paths]
  refine Finset.sum_congr rfl (fun z _ => ?_)
  rw [pathW_eq_prod]

/-- HMM = sum over all hidden state sequences `z : Fin n → Fin K` of
    `T_pos[o, z_0] · Π_{i<n-1} T_{pos+1+i}[z_i, z_{i+1}] · Π_{i<n} E_{l_i}[z_i](x_{l_i})`. -/
theorem hmmBack_joint (K : ℕ) (E : ℕ → ℕ → V → R) (T : ℕ → ℕ → ℕ → R) (x : ℕ → V)
    (rest : List ℕ) (pos v o : ℕ) :
    hmmBack (Ops.ofCommSemiring R) K E T x pos v rest o
      = ∑ z : Fin (rest.length + 1) → Fin K,
          T pos o (z 0).val
            * (∏ i : Fin rest.length, T (pos + 1 + i.val) (z i.castSucc).val (z i.succ).val)
            * ∏ i : Fin (rest.length + 1),
                E ((v :: rest).get i) (z i).val (x ((v :: rest).get i)) := by
  rw [hmmBack_joint_range]
  refine Finset.sum_congr rfl (fun z _ => ?_)
  rw [← Fin.prod_univ_eq_prod_range, ← Fin.prod_univ_eq_prod_range]
  have h0 : extZ z 0 = (z 0).val := extZ_val z 0
  rw [h0]
  congr 1
  · congr 1
    refine Finset.prod_congr rfl (fun i _ => ?_)
    have h1 : extZ z i.val = (z i.castSucc).val := extZ_val z i.castSucc
    have h2 : extZ z (i.val + 1) = (z i.succ).val := extZ_val z i.succ
    rw [h1, h2]
  · refine Finset.prod_congr rfl (fun i _ => ?_)
    have hg : (v :: rest).getD i.val 0 = (v :: rest).get i := by
      rw [List.getD_eq_getElem?_getD, List.getElem?_eq_getElem i.is_lt, List.get_eq_getElem]
      rfl
    rw [extZ_val, hg]

section WF
variable {R V : Type}

/-! ### the template trees are well formed (so `Node.evalV`, which the driver runs, is `Node.eval`:
    `Node.evalV_getD`) and have a single output unit -/

theorem cpNode_wf (n rank : ℕ) (w : ℕ → R) (A : ℕ → ℕ → V → R) :
    (cpNode n rank w A).WF ∧ (cpNode n rank w A).units = 1 :=
  ⟨fun _ => ⟨fun _ => ⟨trivial, rfl⟩, rfl⟩, rfl⟩

theorem tuckerNode_wf (n rank : ℕ) (core : ℕ → R) (A : ℕ → ℕ → V → R) :
    (tuckerNode n rank core A).WF ∧ (tuckerNode n rank core A).units = 1 :=
  ⟨fun _ => ⟨fun _ => ⟨trivial, rfl⟩, rfl⟩, rfl⟩

theorem ffNode_wf (n : ℕ) (F : ℕ → V → R) : (ffNode n F).WF ∧ (ffNode n F).units = 1 := by
  unfold ffNode
  split
  · exact ⟨trivial, rfl⟩
  · exact ⟨fun _ => ⟨trivial, rfl⟩, rfl⟩

theorem ttChain_wf (o : Ops R) (rank : ℕ) (first : ℕ → V → R) (G : ℕ → ℕ → ℕ → V → R) (m : ℕ) :
    (ttChain o rank first G m).WF ∧ (ttChain o rank first G m).units = rank := by
  induction m with
  | zero => exact ⟨trivial, rfl⟩
  | succ m ih =>
    refine ⟨fun q => ⟨fun h => ?_, rfl⟩, rfl⟩
    by_cases h0 : h.val = 0
    · simp only [h0, if_true]; exact ih
    · simp only [h0, if_false]; exact ⟨trivial, rfl⟩

theorem ttNode_wf (o : Ops R) (inner rank : ℕ) (first : ℕ → V → R) (G : ℕ → ℕ → ℕ → V → R)
    (last : ℕ → V → R) :
    (ttNode o inner rank first G last).WF ∧ (ttNode o inner rank first G last).units = 1 := by
  refine ⟨fun _ => ⟨fun h => ?_, rfl⟩, rfl⟩
  by_cases h0 : h.val = 0
  · simp only [h0, if_true]; exact ttChain_wf o rank first G inner
  · simp only [h0, if_false]; exact ⟨trivial, rfl⟩

theorem hmmFrom_wf (K : ℕ) (E : ℕ → ℕ → V → R) (T : ℕ → ℕ → ℕ → R) (rest : List ℕ) :
    ∀ pos v, (hmmFrom K E T pos v rest).WF ∧ (hmmFrom K E T pos v rest).units = hmmOut K pos := by
  induction rest with
  | nil => intro pos v; exact ⟨fun _ => ⟨trivial, rfl⟩, rfl⟩
  | cons w rest ih =>
    intro pos v
    refine ⟨fun _ => ⟨fun h => ?_, rfl⟩, rfl⟩
    by_cases h0 : h.val = 0
    · simp only [h0, if_true]
      refine ⟨(ih (pos + 1) w).1, ?_⟩
      rw [(ih (pos + 1) w).2]
      simp only [hmmOut, Nat.succ_ne_zero, if_false]
    · simp only [h0, if_false]; exact ⟨trivial, rfl⟩

theorem hmmNode_wf (K : ℕ) (E : ℕ → ℕ → V → R) (T : ℕ → ℕ → ℕ → R) (v : ℕ) (rest : List ℕ) :
    (hmmNode K E T (v :: rest)).WF ∧ (hmmNode K E T (v :: rest)).units = 1 :=
  hmmFrom_wf K E T rest 0 v

end WF

end Cirkit.Tpl
