/-
  CirkitModel.Proofs.Transport — evaluating a circuit over operations transported along a
  bijection (`LSESumSemiring`: `φ = log`, `ψ = exp`) is `φ` of evaluating it over the original
  operations; plus the max-shift identities the log-sum-exp implementations rely on.
-/
import CirkitModel.Proofs.Bridge
import CirkitModel.Model.Torch
import Mathlib.Logic.Equiv.Defs
import Mathlib.Analysis.SpecialFunctions.Log.Basic
import Mathlib.Analysis.SpecialFunctions.Exp

open Finset

namespace Cirkit

section transport
variable {R L : Type}

theorem Ops.transport_add (o : Ops R) (φ : R → L) (ψ : L → R) (hψ : ∀ a, ψ (φ a) = a) (a b : R) :
    (o.transport φ ψ).add (φ a) (φ b) = φ (o.add a b) := by
  simp only [Ops.transport, hψ]

theorem Ops.transport_mul (o : Ops R) (φ : R → L) (ψ : L → R) (hψ : ∀ a, ψ (φ a) = a) (a b : R) :
    (o.transport φ ψ).mul (φ a) (φ b) = φ (o.mul a b) := by
  simp only [Ops.transport, hψ]

theorem Ops.transport_sumN (o : Ops R) (φ : R → L) (ψ : L → R) (hψ : ∀ a, ψ (φ a) = a)
    (n : ℕ) (f : ℕ → R) :
    (o.transport φ ψ).sumN n (fun i => φ (f i)) = φ (o.sumN n f) := by
  induction n with
  | zero => rfl
  | succ n ih =>
    simp only [Ops.sumN]
    rw [ih, Ops.transport_add o φ ψ hψ]

theorem Ops.transport_prodN (o : Ops R) (φ : R → L) (ψ : L → R) (hψ : ∀ a, ψ (φ a) = a)
    (n : ℕ) (f : ℕ → R) :
    (o.transport φ ψ).prodN n (fun i => φ (f i)) = φ (o.prodN n f) := by
  induction n with
  | zero => rfl
  | succ n ih =>
    simp only [Ops.prodN]
    rw [ih, Ops.transport_mul o φ ψ hψ]

theorem Ops.transport_sumFin (o : Ops R) (φ : R → L) (ψ : L → R) (hψ : ∀ a, ψ (φ a) = a)
    (n : ℕ) (f : Fin n → R) :
    (o.transport φ ψ).sumFin n (fun h => φ (f h)) = φ (o.sumFin n f) := by
  unfold Ops.sumFin
  rw [← Ops.transport_sumN o φ ψ hψ]
  congr 1
  funext i
  split <;> rfl

theorem Ops.transport_prodFin (o : Ops R) (φ : R → L) (ψ : L → R) (hψ : ∀ a, ψ (φ a) = a)
    (n : ℕ) (f : Fin n → R) :
    (o.transport φ ψ).prodFin n (fun h => φ (f h)) = φ (o.prodFin n f) := by
  unfold Ops.prodFin
  rw [← Ops.transport_prodN o φ ψ hψ]
  congr 1
  funext i
  split <;> rfl

theorem Node.eval_transport_gen {V : Type} (o : Ops R) (φ : R → L) (ψ : L → R)
    (hψ : ∀ a, ψ (φ a) = a) (x : ℕ → V) (n : Node R V) :
    ∀ i : ℕ, (n.mapVals φ).eval (o.transport φ ψ) x i = φ (n.eval o x i) := by
  induction n with
  | leaf v k f => intro i; rfl
  | const k c => intro i; rfl
  | sum ar kin kout W ch ih =>
    intro i
    simp only [Node.mapVals, Node.eval]
    simp only [ih, Ops.transport_mul o φ ψ hψ, Ops.transport_sumN o φ ψ hψ,
      Ops.transport_sumFin o φ ψ hψ]
  | had ar k ch ih =>
    intro i
    simp only [Node.mapVals, Node.eval]
    simp only [ih, Ops.transport_prodFin o φ ψ hψ]
  | kron ar k ch ih =>
    intro i
    simp only [Node.mapVals, Node.eval]
    simp only [ih, Ops.transport_prodFin o φ ψ hψ]

end transport

theorem Node.eval_transport {R L V : Type} [CommSemiring R] (φ : R ≃ L) (x : ℕ → V) (n : Node R V) (i : ℕ) :
    (n.mapVals φ).eval (Ops.transport (Ops.ofCommSemiring R) φ φ.symm) x i
      = φ (n.eval (Ops.ofCommSemiring R) x i) :=
  Node.eval_transport_gen (Ops.ofCommSemiring R) φ φ.symm φ.symm_apply_apply x n i

theorem lse_shift_real {ι : Type} (s : Finset ι) (w x : ι → ℝ) (m : ℝ)
    (hpos : 0 < ∑ i ∈ s, w i * Real.exp (x i)) :
    Real.log (∑ i ∈ s, w i * Real.exp (x i - m)) + m = Real.log (∑ i ∈ s, w i * Real.exp (x i)) := by
  have h1 : ∑ i ∈ s, w i * Real.exp (x i - m)
      = (∑ i ∈ s, w i * Real.exp (x i)) * Real.exp (-m) := by
    rw [Finset.sum_mul]
    apply Finset.sum_congr rfl
    intro i _
    rw [sub_eq_add_neg, Real.exp_add, mul_assoc]
  rw [h1, Real.log_mul hpos.ne' (Real.exp_pos _).ne', Real.log_exp]
  ring

theorem clse_shift {ι : Type} (s : Finset ι) (w x : ι → ℂ) (m : ℝ) :
    (∑ i ∈ s, w i * Complex.exp (x i - (m : ℂ))) * Complex.exp (m : ℂ) = ∑ i ∈ s, w i * Complex.exp (x i) := by
  rw [Finset.sum_mul]
  apply Finset.sum_congr rfl
  intro i _
  rw [mul_assoc, ← Complex.exp_add, sub_add_cancel]

end Cirkit
