/-
  Driver.SampleCmd — the `sample_propagate` command of the driver: run the model of the sampling
  query (`CirkitModel.Model.Sample`: `Node.propagate`, the bottom-up batched propagation, and
  `Node.follow`, the top-down walk) on the draws RECORDED from one instrumented run of the real
  `SamplingQuery`.  Imports `Lean.Data.Json` and import-free model files only.

  The circuit is one previously registered with the `circuit` command (looked up by `Driver.Main`
  and passed in).  Only its structure is used (layer kinds, arities, unit counts, variables, wiring):
  weights and input functions do not enter `propagate` / `follow`, so no `theta` is needed and the
  command works in every number mode.  The DAG is unfolded into a tree exactly as
  `SCirc.denoteLayers` does (input `h` of layer `p` is layer `ins[h]` of `p`); the tree-shaped `Draw`
  reads, at the tree position reached by the path `[h_1, …, h_m]` from the output layer, the
  recorded draws of the DAG layer `ins(… ins(ins(out)[h_1])[h_2] …)[h_m]` — so a shared DAG layer
  uses the same draws wherever it appears in the unfolded tree.

  Request
    {"cmd": "sample_propagate", "id": ID,
     "vars": [v_0, v_1, …],               -- the variable ids of the columns to report, in order
     "output": k,                          -- optional, default 0: position in the circuit's `outputs`
     "unit": u,                            -- optional, default 0: unit of that output layer to read
     "draws": [{"layer": p, "samples": [[d_0, …, d_{K-1}], …]}, …]}
  `p` is the index of the layer in the `layers` array of the `circuit` command (topological order).
  `samples[n][r]` (naturals) is, for sample `n`:
    * `p` a sum layer: the weight column `m` (0 ≤ m < arity · num_input_units, column
      `h · num_input_units + j` = unit `j` of input `h`) drawn by OUTPUT unit `r`
      (`mixing_samples[fold, r, n]` of `TorchSumLayer.sample`);
    * `p` an input layer over one variable: the value drawn by unit `r`
      (`layer.sample(N)[fold, r, n]`).
  Every sum layer and every input layer over a variable must have exactly one entry, every entry
  the same number `N ≥ 1` of samples, every sample exactly `num_output_units` of that layer entries.
  Entries for other layers (products, constants) are ignored.

  Response
    {"n": N,
     "rows":   [[x_0, x_1, …], …],   -- per sample: `propagate 0 (+)` at unit `u`, column `v_i` (naturals)
     "follow": [[a_0 | null, …], …], -- per sample: `follow` at unit `u`, variable `v_i`; null = unassigned
     "fits":   [b, …],               -- per sample: every drawn column is a column of its weight matrix
     "agree":  [b, …]}               -- per sample: rows[n][i] == (follow[n][i] or 0) for every i
  (`agree` is `C15.propagate_eq_follow` when the circuit is decomposable.)
-/
import Lean.Data.Json
import CirkitModel.Model.Sym
import CirkitModel.Model.Sample

open Lean Cirkit

namespace SampleCmd
variable {R : Type}

/-- The structure-only tree of every layer: the same unfolding as `SCirc.denoteLayers`, with the
    weights and input functions (irrelevant to `propagate` / `follow`) replaced by `()`. -/
def skeleton (c : SCirc R) : Array (Node Unit Unit) :=
  c.layers.foldl (init := #[]) fun acc l =>
    let dflt : Node Unit Unit := .const 0 (fun _ => ())
    let child (ar : Nat) : Fin ar → Node Unit Unit := fun h => acc.getD (l.ins.getD h.val 0) dflt
    match l.kind with
    | .sum kin kout ar _ => acc.push (.sum ar kin kout (fun _ _ => ()) (child ar))
    | .hadamard k ar => acc.push (.had ar k (child ar))
    | .kronecker k ar => acc.push (.kron ar k (child ar))
    | kind =>
        match kind.inputScope with
        | [v] => acc.push (.leaf v kind.numOutputUnits (fun _ _ => ()))
        | _ => acc.push (.const kind.numOutputUnits (fun _ => ()))

/-- The DAG layer sitting at a position of the tree unfolded from layer `l`. -/
def layerAt (c : SCirc R) (l : Nat) : List Nat → Nat
  | [] => l
  | h :: p => layerAt c (((c.layers[l]?.map (·.ins)).getD []).getD h 0) p

/-- The tree-shaped draws of one sample read from a table indexed by DAG layer. -/
def dagDraw (c : SCirc R) (root : Nat) (tbl : Nat → Nat → Nat) : Draw Nat :=
  { val := fun p r => tbl (layerAt c root p) r
    col := fun p o => tbl (layerAt c root p) o }

/-- does the layer draw something that must be recorded? -/
def draws? (k : LKind R) : Bool :=
  k.isSum || (k.isInput && k.inputScope.length == 1)

def run (c : SCirc R) (j : Json) : Except String Json := do
  if !c.wf then throw "ill-formed circuit"
  let vars ← (← (← j.getObjVal? "vars").getArr?).toList.mapM (·.getNat?)
  let outPos := ((j.getObjVal? "output").toOption.bind (·.getNat?.toOption)).getD 0
  let unit := ((j.getObjVal? "unit").toOption.bind (·.getNat?.toOption)).getD 0
  let root ← match c.outputs[outPos]? with
    | some r => pure r
    | none => throw s!"sample_propagate: the circuit has no output {outPos}"
  -- recorded draws, by DAG layer: samples × units
  let entries ← (← (← j.getObjVal? "draws").getArr?).toList.mapM fun e => do
    let p ← (← e.getObjVal? "layer").getNat?
    let ss ← (← (← e.getObjVal? "samples").getArr?).mapM fun s => do
      (← s.getArr?).mapM (·.getNat?)
    pure (p, ss)
  let mut recs : Array (Option (Array (Array Nat))) := Array.replicate c.layers.size none
  for (p, ss) in entries do
    if p ≥ c.layers.size then throw s!"sample_propagate: no layer {p}"
    if (recs.getD p none).isSome then throw s!"sample_propagate: two entries for layer {p}"
    recs := recs.set! p (some ss)
  -- number of samples, shape checks
  let mut N : Option Nat := none
  for p in List.range c.layers.size do
    match c.layers[p]? with
    | none => pure ()
    | some l =>
        if draws? l.kind then
          match recs.getD p none with
          | none => throw s!"sample_propagate: no draws recorded for layer {p}"
          | some ss =>
              match N with
              | none => N := some ss.size
              | some n =>
                  if ss.size != n then
                    throw s!"sample_propagate: layer {p} has {ss.size} samples, others {n}"
              if !(ss.all fun s => s.size == l.kind.numOutputUnits) then
                throw s!"sample_propagate: layer {p} needs {l.kind.numOutputUnits} draws per sample"
  let n ← match N with
    | some n => if n = 0 then throw "sample_propagate: no samples" else pure n
    | none =>
        -- a circuit of constants only: nothing is drawn; report one (empty) sample
        pure 1
  let node := (skeleton c).getD root (.const 0 (fun _ => ()))
  let results := (List.range n).map fun s =>
    let tbl : Nat → Nat → Nat := fun p r =>
      (((recs.getD p none).bind (·[s]?)).bind (·[r]?)).getD 0
    let d := dagDraw c root tbl
    let row := vars.map fun v => node.propagate 0 (· + ·) d unit v
    let fol := vars.map fun v => node.follow d unit v
    let fits := (List.range c.layers.size).all fun p =>
      match c.layers[p]? with
      | some l =>
          if l.kind.isSum then
            (List.range l.kind.numOutputUnits).all fun o =>
              tbl p o < l.kind.arity * l.kind.numInputUnits
          else true
      | none => true
    let agree := row == fol.map (·.getD 0)
    (row, fol, fits, agree)
  pure (Json.mkObj [
    ("n", toJson n),
    ("rows", Json.arr (results.toArray.map fun r => toJson r.1)),
    ("follow", Json.arr (results.toArray.map fun r =>
      Json.arr (r.2.1.toArray.map fun o => match o with
        | some a => toJson a
        | none => Json.null))),
    ("fits", Json.arr (results.toArray.map fun r => Json.bool r.2.2.1)),
    ("agree", Json.arr (results.toArray.map fun r => Json.bool r.2.2.2))])

end SampleCmd
