/-
  Driver.TemplateCmd — the `template` command of the driver: build the model of a circuit template
  (`CirkitModel.Model.Templates`) from plain JSON factors and evaluate it (`Node.evalV`) on index
  tuples.  Imports `Lean.Data.Json` and import-free model files only.

  Request  `{"cmd": "template", "kind": K, ...factors..., "X": [[x_0, x_1, ...], ...]}`
  Response `{"ok": [[u_0, ...], ...], "units": n}` — per row of `X`, the values of the units of the
  output layer (a single unit for every template), printed with the `show_` of the number mode.
  `x_v` is the value (a natural number: an index / category) of variable id `v`; missing entries
  read 0.  Numbers of the factors are parsed by the number parser of the mode.

  kind "cp"     : "rank": R, "factors": [A_0, …, A_{n-1}], A_j = embedding weight of mode j as
                  R rows × I_j columns (A_j[r][a], the `(num_units, num_states)` layout of
                  `EmbeddingLayer.weight`), optional "weights": [w_0, …, w_{R-1}] (row of the
                  `(1, R)` sum-layer weight; all ones when absent).
  kind "tucker" : "rank", "factors" as for cp, "core": flat list of R^n numbers = the `(1, R^n)`
                  weight row of the sum layer = the core tensor flattened row-major (first mode most
                  significant).
  kind "tt"     : "rank": R, "first": R × I_0, "last": R × I_{n-1},
                  "inner": [[E_{1,0}, …, E_{1,R-1}], …, [E_{n-2,0}, …]] where E_{m,q} (R × I_m) is
                  the weight of `inner_embeddings[m-1][q]`; n = len(inner) + 2.
  kind "hmm"    : "K": number of latent states, "ordering": [v_0, …, v_{n-1}],
                  "emissions": [E_0, E_1, …] indexed by VARIABLE ID, E_v = K × I_v table (unit r of the
                  input layer of variable v at value a), "transitions": [T_0, …, T_{n-1}] indexed by
                  POSITION in the ordering, T_i = weight (`out_i × K`, out_0 = 1, else K) of the sum
                  layer placed above the input layer of ordering[i] (the real template creates them in
                  the order T_{n-1}, …, T_0).
  kind "ff"     : "factors": [F_0, …, F_{n-1}] indexed by variable id, F_i = list of the values of
                  the single unit of the input layer of variable i (F_i[a]).
-/
import Lean.Data.Json
import CirkitModel.Model.Templates

open Lean Cirkit

namespace TemplateCmd
variable {R : Type}

def field (j : Json) (k : String) : Except String Json := j.getObjVal? k

def natField (j : Json) (k : String) : Except String Nat := do (← field j k).getNat?

def items (j : Json) : Except String (List Json) := do pure (← j.getArr?).toList

def natList (j : Json) : Except String (List Nat) := do (← items j).mapM (·.getNat?)

def vec (parse : Json → Except String R) (j : Json) : Except String (List R) := do
  (← items j).mapM parse

def mat (parse : Json → Except String R) (j : Json) : Except String (List (List R)) := do
  (← items j).mapM (vec parse)

def mats (parse : Json → Except String R) (j : Json) : Except String (List (List (List R))) := do
  (← items j).mapM (mat parse)

def matss (parse : Json → Except String R) (j : Json) :
    Except String (List (List (List (List R)))) := do
  (← items j).mapM (mats parse)

/-- every matrix of the list has exactly `rows` rows -/
def checkRows (what : String) (rows : Nat) (ms : List (List (List R))) : Except String Unit :=
  if ms.all (fun m => m.length == rows) then pure ()
  else throw s!"template: every matrix of {what} must have {rows} rows"

/-- the model tree of the request -/
def build (A : AOps R) (parse : Json → Except String R) (j : Json) :
    Except String (Node R Nat) := do
  let z := A.zero
  let kind ← (← field j "kind").getStr?
  match kind with
  | "cp" => do
      let rank ← natField j "rank"
      let fs ← mats parse (← field j "factors")
      checkRows "factors" rank fs
      let w : Nat → R ← match j.getObjVal? "weights" with
        | .ok wj => do
            let ws ← vec parse wj
            if ws.length != rank then throw "template cp: weights must have rank entries"
            pure (Tpl.tbl1 z ws)
        | .error _ => pure (fun _ => A.one)
      pure (Tpl.cpNode fs.length rank w (Tpl.tbl3 z fs))
  | "tucker" => do
      let rank ← natField j "rank"
      let fs ← mats parse (← field j "factors")
      checkRows "factors" rank fs
      let core ← vec parse (← field j "core")
      if core.length != rank ^ fs.length then
        throw s!"template tucker: core must be the flat list of rank^n = {rank ^ fs.length} numbers"
      pure (Tpl.tuckerNode fs.length rank (Tpl.tbl1 z core) (Tpl.tbl3 z fs))
  | "tt" => do
      let rank ← natField j "rank"
      let first ← mat parse (← field j "first")
      let last ← mat parse (← field j "last")
      let inner ← matss parse (← field j "inner")
      checkRows "first/last" rank [first, last]
      if !(inner.all fun es => es.length == rank) then
        throw "template tt: every inner mode needs rank embeddings"
      for es in inner do checkRows "inner" rank es
      -- the tree repeats the shared running layer: rank^inner copies of the first embedding
      if rank ^ inner.length > 1000000 then throw "template tt: unfolded tree too large"
      -- `G m q r a` for inner mode m = 1 … n-2 is `inner[m-1][q][r][a]`
      let G : Nat → Nat → Nat → Nat → R := fun m q r a =>
        if m = 0 then z else Tpl.tbl4 z inner (m - 1) q r a
      pure (Tpl.ttNode A.toOps inner.length rank (Tpl.tbl2 z first) G (Tpl.tbl2 z last))
  | "hmm" => do
      let K ← natField j "K"
      let ord ← natList (← field j "ordering")
      if ord.isEmpty then throw "template hmm: the ordering should be non-empty"
      let es ← mats parse (← field j "emissions")
      let ts ← mats parse (← field j "transitions")
      checkRows "emissions" K es
      if !(ord.all fun v => v < es.length) then
        throw "template hmm: emissions are indexed by variable id; one is missing"
      if ts.length != ord.length then
        throw "template hmm: one transition matrix per position of the ordering"
      if !((List.range ts.length).all fun i => (ts.getD i []).length == Tpl.hmmOut K i) then
        throw "template hmm: transitions[0] has 1 row, the others K rows"
      pure (Tpl.hmmNode K (Tpl.tbl3 z es) (Tpl.tbl3 z ts) ord)
  | "ff" => do
      let fs ← mat parse (← field j "factors")
      if fs.isEmpty then throw "template ff: the number of variables should be positive"
      pure (Tpl.ffNode fs.length (fun i a => Tpl.tbl2 z fs i a))
  | _ => throw s!"unknown template kind {kind}"

/-- build and evaluate on every row of `"X"` -/
def run (A : AOps R) (parse : Json → Except String R) (j : Json) : Except String Json := do
  let n ← build A parse j
  let rows ← (← items (← field j "X")).mapM natList
  let res := rows.map fun row =>
    Json.arr ((n.evalV A.toOps (fun v => row.getD v 0)).map fun u => Json.str (A.show_ u))
  pure (Json.mkObj [("ok", Json.arr res.toArray), ("units", toJson n.units)])

end TemplateCmd
