/-
  Driver.Main — line protocol between the Python harness and the executable Lean model.
  One JSON object per input line, one JSON object per output line.
  Imports the import-free model and `Lean.Data.Json` only (never Mathlib).
  Run: `lake env lean --run Driver/Main.lean`  (first line selects the number mode).
-/
import Lean.Data.Json
import CirkitModel.Model.Num
import CirkitModel.Model.Sym
import CirkitModel.Model.Fold
import CirkitModel.Model.Mul
import CirkitModel.Model.Registry
import CirkitModel.Model.RegionGraph
import Driver.TemplateCmd
import Driver.SampleCmd

open Lean Cirkit

/-- number mode: operations + JSON number parser -/
structure Mode (R : Type) where
  A : AOps R
  parse : Json → Except String R

def parseRatStr (s : String) : Except String Rat :=
  match s.splitOn "/" with
  | [n] => match n.toInt? with
      | some i => .ok (i : Rat)
      | none => .error s!"bad rational {s}"
  | [n, d] => match n.toInt?, d.toNat? with
      | some i, some k => if k = 0 then .error "zero denominator" else .ok (mkRat i k)
      | _, _ => .error s!"bad rational {s}"
  | _ => .error s!"bad rational {s}"

def parseRat (j : Json) : Except String Rat :=
  match j with
  | .str s => parseRatStr s
  | .num n => if n.exponent = 0 then .ok (n.mantissa : Rat) else
      .ok (mkRat n.mantissa (10 ^ n.exponent))
  | _ => .error "expected rational"

def ratMode : Mode Rat := { A := ratA, parse := parseRat }

def gaussMode : Mode GaussRat :=
  { A := gaussA
    parse := fun j => match j with
      | .arr #[a, b] => do pure ⟨← parseRat a, ← parseRat b⟩
      | j => do pure ⟨← parseRat j, 0⟩ }

def dualMode : Mode Dual :=
  { A := dualA
    parse := fun j => match j with
      | .arr #[a, b] => do pure ⟨← parseRat a, ← parseRat b⟩
      | j => do pure ⟨← parseRat j, 0⟩ }

def jetMode (K : Nat) : Mode Jet :=
  { A := jetA K
    parse := fun j => match j with
      | .arr a => do
          let cs ← a.mapM parseRat
          pure (Array.ofFn (n := K + 1) fun i => cs.getD i.val 0)
      | j => do pure (Jet.ofConst K (← parseRat j)) }

def floatMode : Mode Float :=
  { A := floatA
    parse := fun j => match j with
      | .num n => if n.exponent = 0 ∧ n.mantissa ≥ 0 then .ok (Float.ofBits n.mantissa.toNat.toUInt64)
                  else .error "float mode expects the IEEE bit pattern as a non-negative integer"
      | .str s => do let q ← parseRatStr s; pure (ratToFloat q)
      | _ => .error "expected float bits" }

section parse
variable {R : Type}

def getNat (j : Json) (k : String) : Except String Nat := do (← j.getObjVal? k).getNat?
def getNatD (j : Json) (k : String) (d : Nat) : Nat := (getNat j k).toOption.getD d
def getStr (j : Json) (k : String) : Except String String := do (← j.getObjVal? k).getStr?
def getBoolD (j : Json) (k : String) (d : Bool) : Bool :=
  match j.getObjVal? k with
  | .ok (.bool b) => b
  | _ => d
def getNatList (j : Json) (k : String) : Except String (List Nat) := do
  let a ← (← j.getObjVal? k).getArr?
  a.toList.mapM (·.getNat?)
def getNatLL (j : Json) (k : String) : Except String (List (List Nat)) := do
  let a ← (← j.getObjVal? k).getArr?
  a.toList.mapM fun r => do (← r.getArr?).toList.mapM (·.getNat?)
def parsePair (j : Json) : Except String (Nat × Nat) :=
  match j with
  | .arr #[a, b] => do pure (← a.getNat?, ← b.getNat?)
  | _ => .error "expected a pair"
def getOptRat (j : Json) (k : String) : Except String (Option Rat) :=
  match j.getObjVal? k with
  | .ok .null => .ok none
  | .ok v => do pure (some (← parseRat v))
  | .error _ => .ok none

partial def parsePExpr (M : Mode R) (j : Json) : Except String (PExpr R) := do
  let o ← getStr j "o"
  match o with
  | "tensor" => pure (.tensor (← getNat j "uid") (← getNatList j "shape"))
  | "ref" => pure (.ref (← getNat j "uid") (← getNatList j "shape"))
  | "const" => do
      let vals ← (← (← j.getObjVal? "vals").getArr?).mapM M.parse
      pure (.const (← getNatList j "shape") vals)
  | _ => do
      let args ← (← (← j.getObjVal? "a").getArr?).toList.mapM (parsePExpr M)
      let ax := getNatD j "axis" 0
      let op : POp ← match o with
        | "index" => pure (.index (← getNatList j "indices") ax)
        | "sum" => pure .sum
        | "hadamard" => pure .hadamard
        | "kronecker" => pure .kronecker
        | "outer_product" => pure (.outerProduct ax)
        | "outer_sum" => pure (.outerSum ax)
        | "exp" => pure .exp
        | "log" => pure .log
        | "square" => pure .square
        | "softplus" => pure .softplus
        | "sigmoid" => pure .sigmoid
        | "scaled_sigmoid" => do
            match (← getOptRat j "vmin"), (← getOptRat j "vmax") with
            | some a, some b => pure (.scaledSigmoid a b)
            | _, _ => throw "scaled_sigmoid needs vmin/vmax"
        | "clamp" => pure (.clamp (← getOptRat j "vmin") (← getOptRat j "vmax"))
        | "conj" => pure .conj
        | "reduce_sum" => pure (.reduceSum ax)
        | "reduce_prod" => pure (.reduceProd ax)
        | "reduce_lse" => pure (.reduceLSE ax)
        | "softmax" => pure (.softmax ax)
        | "log_softmax" => pure (.logSoftmax ax)
        | "mixing" => pure .mixing
        | "gauss_prod_mean" => pure .gaussProdMean
        | "gauss_prod_stddev" => pure .gaussProdStddev
        | "gauss_prod_logpart" => pure .gaussProdLogPart
        | "poly_product" => pure .polyProduct
        | "poly_diff" => pure (.polyDiff (← getNat j "order"))
        | "matmul" => pure .matmul
        | "flatten" => pure (.flatten (← getNat j "start") (← getNat j "end"))
        | _ => throw s!"unknown parameter op {o}"
      pure (.app op args)

def optP (M : Mode R) (p : Json) (k : String) : Except String (Option (PExpr R)) :=
  match p.getObjVal? k with
  | .ok v => do pure (some (← parsePExpr M v))
  | .error _ => .ok none

def reqP (M : Mode R) (p : Json) (k : String) : Except String (PExpr R) := do
  parsePExpr M (← p.getObjVal? k)

partial def parseKind (M : Mode R) (j : Json) : Except String (LKind R) := do
  let t ← getStr j "t"
  let p := (j.getObjVal? "p").toOption.getD (Json.mkObj [])
  match t with
  | "emb" => pure (.embedding (← getNat j "v") (← getNat j "k") (← getNat j "n") (← reqP M p "weight"))
  | "cat" => pure (.categorical (← getNat j "v") (← getNat j "k") (← getNat j "n")
                (← optP M p "probs") (← optP M p "logits"))
  | "bin" => pure (.binomial (← getNat j "v") (← getNat j "k") (← getNat j "total")
                (← optP M p "probs") (← optP M p "logits"))
  | "gauss" => pure (.gaussian (← getNat j "v") (← getNat j "k") (← reqP M p "mean")
                (← reqP M p "stddev") (← optP M p "log_partition"))
  | "poly" => pure (.polynomial (← getNat j "v") (← getNat j "k") (← getNat j "degree") (← reqP M p "coeff"))
  | "constv" => pure (.constantValue (← getNat j "k") (getBoolD j "log_space" false) (← reqP M p "value"))
  | "evi" => do
      let inner ← parseKind M (← j.getObjVal? "inner")
      pure (.evidence inner (← reqP M p "observation"))
  | "sum" => pure (.sum (← getNat j "kin") (← getNat j "kout") (← getNat j "ar") (← reqP M p "weight"))
  | "had" => pure (.hadamard (← getNat j "k") (← getNat j "ar"))
  | "kron" => pure (.kronecker (← getNat j "k") (← getNat j "ar"))
  | _ => throw s!"unknown layer type {t}"

def parseCirc (M : Mode R) (j : Json) : Except String (SCirc R) := do
  let ls ← (← j.getObjVal? "layers").getArr?
  let layers ← ls.mapM fun lj => do
    let kind ← parseKind M lj
    let ins := (getNatList lj "in").toOption.getD []
    pure ({ kind := kind, ins := ins } : SLayer R)
  pure { layers := layers, outputs := ← getNatList j "outputs" }

def parseTheta (M : Mode R) (j : Json) : Except String (List (Nat × Array R)) := do
  match j.getObjVal? "theta" with
  | .error _ => pure []
  | .ok t => do
      let obj ← t.getObj?
      obj.foldlM (init := []) fun acc k v => do
        match k.toNat? with
        | some uid => do
            let vals ← (← v.getArr?).mapM M.parse
            pure ((uid, vals) :: acc)
        | none => throw s!"bad uid {k}"

def thetaFn (l : List (Nat × Array R)) : Nat → Option (Array R) :=
  fun uid => (l.find? (·.1 == uid)).map (·.2)

def parseRows (M : Mode R) (j : Json) (k : String) : Except String (List (Array R)) := do
  match j.getObjVal? k with
  | .error _ => pure []
  | .ok x => do
      let rows ← x.getArr?
      rows.toList.mapM fun r => do (← r.getArr?).mapM M.parse

end parse

section run
variable {R : Type}

def showArr (A : AOps R) (a : Array R) : Json := Json.arr (a.map fun x => Json.str (A.show_ x))

def scopeJson (s : Scope) : Json := Json.arr (s.toArray.map fun v => toJson (v : Nat))

structure State (R : Type) where
  circuits : List (String × SCirc R) := []

def State.get (s : State R) (id : String) : Except String (SCirc R) :=
  match s.circuits.find? (·.1 == id) with
  | some (_, c) => .ok c
  | none => .error s!"unknown circuit {id}"

def rowFn (A : AOps R) (row : Array R) : Nat → R := fun v => row.getD v A.zero

/-- discrete-sum functional per variable from the domain sizes of the circuit -/
def sumFunctional (A : AOps R) (doms : List (Nat × Nat)) (q : List (R × R) := []) :
    Nat → (R → R) → R :=
  fun v g =>
    match doms.find? (·.1 == v) with
    | some (_, n) =>
        Node.quad A.toOps ((List.range n).map fun a => A.ofRat (a : Nat)) (fun _ => A.one) g
    | none =>
        -- continuous variable: the quadrature rule (points, weights) sent by the harness
        A.toOps.sumL (q.map fun (a, w) => A.mul w (g a))

/-- optional quadrature rule `{"quad": [[point, weight], ...]}` for continuous variables -/
def getQuad (M : Mode R) (j : Json) : Except String (List (R × R)) :=
  match j.getObjVal? "quad" with
  | .error _ => .ok []
  | .ok q => do
      (← q.getArr?).toList.mapM fun pw => match pw with
        | .arr #[a, w] => do pure (← M.parse a, ← M.parse w)
        | _ => .error "quad: expected [point, weight]"

def handle (M : Mode R) (s : State R) (j : Json) : Except String (State R × Json) := do
  let A := M.A
  let cmd ← getStr j "cmd"
  match cmd with
  | "circuit" => do
      let id ← getStr j "id"
      let c ← parseCirc M j
      pure ({ s with circuits := (id, c) :: s.circuits.filter (·.1 != id) }, Json.mkObj [("ok", Json.bool true), ("wf", Json.bool c.wf)])
  | "drop" => do
      let id ← getStr j "id"
      pure ({ s with circuits := s.circuits.filter (·.1 != id) }, Json.mkObj [("ok", Json.bool true)])
  | "props" => do
      let c ← s.get (← getStr j "id")
      let sc := c.scopes
      let fields := [("wf", Json.bool c.wf), ("scope", scopeJson c.scope),
        ("layer_scopes", Json.arr (sc.map scopeJson)),
        ("smooth", Json.bool c.isSmooth), ("decomposable", Json.bool c.isDecomposable),
        ("structured_decomposable", Json.bool c.isStructuredDecomposable),
        ("omni_compatible", Json.bool c.isOmniCompatible),
        ("factorizations", Json.arr (c.scopeFactorizations.toArray.map fun (sc, fs) =>
            Json.arr #[scopeJson sc, Json.arr (fs.toArray.map fun f => Json.arr (f.toArray.map scopeJson))])),
        ("num_outputs", toJson c.outputs.length),
        ("out_units", Json.arr (c.outputs.toArray.map fun i => toJson ((c.layers[i]?.map (·.kind.numOutputUnits)).getD 0)))]
      let fields := match j.getObjVal? "other" with
        | .ok (.str id2) => match s.get id2 with
            | .ok c2 => fields ++ [("compatible", Json.bool (c.areCompatible c2))]
            | .error _ => fields
        | _ => fields
      pure (s, Json.mkObj fields)
  | "eval" => do
      let c ← s.get (← getStr j "id")
      let θ := thetaFn (← parseTheta M j)
      let rows ← parseRows M j "X"
      let useAbs := getBoolD j "abs" false
      let pre : R → R := if useAbs then A.absv else id
      let outs ← c.denote A θ pre
      let res := rows.map fun row =>
        Json.arr (outs.toArray.map fun n => showArr A (n.evalV A.toOps (rowFn A (row.map pre))))
      pure (s, Json.mkObj [("ok", Json.arr res.toArray)])
  | "op_eval" => do
      -- model operator applied to the denotation of the operand, evaluated on rows
      let c ← s.get (← getStr j "id")
      let θ := thetaFn (← parseTheta M j)
      let rows ← parseRows M j "X"
      let op ← getStr j "op"
      let outs ← c.denote A θ
      let doms := c.domains
      let S := sumFunctional A doms (← getQuad M j)
      let newOuts : List (Node R R) ← match op with
        | "integrate" => do
            let zs ← getNatList j "vars"
            pure (outs.map fun n => n.integ S zs)
        | "evidence" => do
            let vs ← getNatList j "vars"
            let vals ← (← (← j.getObjVal? "vals").getArr?).mapM M.parse
            let obs : Nat → Option R := fun v =>
              match vs.idxOf? v with
              | some k => vals[k]?
              | none => none
            pure (outs.map fun n => n.evid obs)
        | "conjugate" => pure (outs.map fun n => n.conj A.conj)
        | _ => throw s!"unknown op {op}"
      let res := rows.map fun row =>
        Json.arr (newOuts.toArray.map fun n => showArr A (n.evalV A.toOps (rowFn A row)))
      pure (s, Json.mkObj [("ok", Json.arr res.toArray)])
  | "spec_integrate" => do
      -- specification side: Σ_z eval c (y, z) over the listed discrete variables
      let c ← s.get (← getStr j "id")
      let θ := thetaFn (← parseTheta M j)
      let rows ← parseRows M j "X"
      let zs ← getNatList j "vars"
      let outs ← c.denote A θ
      let S := sumFunctional A c.domains (← getQuad M j)
      let res := rows.map fun row =>
        Json.arr (outs.toArray.map fun n =>
          Json.arr ((Array.range n.units).map fun i =>
            Json.str (A.show_ (Node.sumOver S (zs.filter fun z => n.vars.contains z)
              -- unit `i` through the vectorised evaluator (`evalV_correct`: equal to `eval`, linear cost)
              (fun y => (n.evalV A.toOps y).getD i A.toOps.zero) (rowFn A row)))))
      pure (s, Json.mkObj [("ok", Json.arr res.toArray)])
  | "masked_eval" => do
      let c ← s.get (← getStr j "id")
      let θ := thetaFn (← parseTheta M j)
      let rows ← parseRows M j "X"
      let masks ← (← (← j.getObjVal? "masks").getArr?).toList.mapM fun m => do
        (← m.getArr?).toList.mapM (·.getNat?)
      let outs ← c.denote A θ
      let S := sumFunctional A c.domains (← getQuad M j)
      let res := (rows.zip masks).map fun (row, mask) =>
        -- `maskedEval` computed through theorem C11.maskedEval_eq_integ: masked evaluation = evaluation
        -- of the circuit with the masked variables integrated out (vectorised evaluator, linear cost)
        Json.arr (outs.toArray.map fun n =>
          showArr A ((n.integ S (mask.eraseDups)).evalV A.toOps (rowFn A row)))
      pure (s, Json.mkObj [("ok", Json.arr res.toArray)])
  | "param" => do
      let e ← parsePExpr M (← j.getObjVal? "expr")
      let θ := thetaFn (← parseTheta M j)
      let t ← e.eval A θ
      pure (s, Json.mkObj [("shape", Json.arr (t.shape.toArray.map fun n => toJson (n : Nat))),
        ("symshape", match e.shape with
          | some sh => Json.arr (sh.toArray.map fun n => toJson (n : Nat))
          | none => Json.null),
        ("ok", showArr A t.data)])
  | "rg" => do
      -- validity and flags of a serialised region graph
      let regions ← getNatLL j "regions"
      let parts ← (← (← j.getObjVal? "partitions").getArr?).toList.mapM fun p => do
        pure ((← getNat p "out"), (← getNatList p "ins"))
      let g : RG := { regions := regions.map Scope.ofList, partitions := parts, roots := ← getNatList j "roots" }
      pure (s, Json.mkObj [("valid", Json.bool g.valid), ("roots_cover", Json.bool g.rootsCover),
        ("sd", Json.bool g.isSD), ("omni", Json.bool g.isOmni), ("scope", scopeJson g.scope),
        ("roundtrip", Json.bool (RG.load g.dump == g))])
  | "registry" => do
      -- run the compiler-registry / pipeline-context state machine on an operation history
      let opsJ ← (← j.getObjVal? "ops").getArr?
      let optCtx : Json → Option Nat := fun o => match o.getObjVal? "ctx" with
        | .ok (.num n) => some n.mantissa.toNat
        | _ => none
      let ops ← opsJ.toList.mapM fun o => do
        let k ← getStr o "op"
        match k with
        | "new" => pure POp'.newCircuit
        | "sym" => pure (POp'.symOp (← getNatList o "operands"))
        | "newctx" => pure POp'.newCtx
        | "compile" => pure (POp'.compile (optCtx o) (← getNat o "sc"))
        | "ccop" => pure (POp'.ccOp (optCtx o) (← getNatList o "ccs"))
        | "enter" => pure (POp'.enter (← getNat o "ctx"))
        | "exit" => pure (POp'.exit (← getNat o "ctx"))
        | "is_compiled" => pure (POp'.isCompiled (optCtx o) (← getNat o "sc"))
        | "has_symbolic" => pure (POp'.hasSymbolic (optCtx o) (← getNat o "cc"))
        | "get_compiled" => pure (POp'.getCompiled (optCtx o) (← getNat o "sc"))
        | "get_symbolic" => pure (POp'.getSymbolic (optCtx o) (← getNat o "cc"))
        | _ => throw s!"unknown registry op {k}"
      let (st, outs) := PState.run {} ops
      let showO : POut → Json := fun o => match o with
        | .sc n => Json.mkObj [("sc", toJson n)]
        | .cc n => Json.mkObj [("cc", toJson n)]
        | .ctx n => Json.mkObj [("ctx", toJson n)]
        | .bool b => Json.mkObj [("bool", Json.bool b)]
        | .unit => Json.str "unit"
        | .error => Json.str "error"
      pure (s, Json.mkObj [("outs", Json.arr (outs.toArray.map showO)),
        ("compile_log", Json.arr (st.compileLog.toArray.map fun p => Json.arr #[toJson p.1, toJson p.2])),
        ("active", toJson st.active)])
  | "precheck" => do
      -- argument checks of the operators: returns the error class the model predicts (or "ok")
      let c ← s.get (← getStr j "id")
      let op ← getStr j "op"
      let showE : Option OpErr → Json := fun e => match e with
        | none => Json.str "ok"
        | some .structural => Json.str "structural"
        | some .value => Json.str "value"
        | some .notImplemented => Json.str "not_implemented"
      let r ← match op with
        | "integrate" => pure (c.integratePre (Scope.ofList (← getNatList j "vars")))
        | "evidence" => pure (c.evidencePre (Scope.ofList (← getNatList j "vars")))
        | "differentiate" => do
            let ord ← (← j.getObjVal? "order").getInt?
            pure (c.differentiatePre ord)
        | "multiply" => do
            let c2 ← s.get (← getStr j "id2")
            pure (c.multiplyPre c2)
        | "query" => pure c.queryPre
        | _ => throw s!"unknown op {op}"
      pure (s, Json.mkObj [("pre", showE r)])
  | "op_mul" => do
      -- model multiply on the denotations of two registered circuits
      let c1 ← s.get (← getStr j "id")
      let c2 ← s.get (← getStr j "id2")
      let θ := thetaFn (← parseTheta M j)
      let rows ← parseRows M j "X"
      let o1 ← c1.denote A θ
      let o2 ← c2.denote A θ
      match Circ.mul A.toOps ⟨o1⟩ ⟨o2⟩ with
      | .error e => pure (s, Json.mkObj [("refused", Json.str (reprStr e))])
      | .ok p =>
          let res := rows.map fun row =>
            Json.arr (p.outputs.toArray.map fun n => showArr A (n.evalV A.toOps (rowFn A row)))
          pure (s, Json.mkObj [("ok", Json.arr res.toArray)])
  | "foldcert" => do
      -- validate a fold certificate read from the real compiled circuit, and recompute the model's
      let n ← getNat j "n"
      let insL ← getNatLL j "ins"
      let keys ← getNatList j "keys"
      let g : UGraph := { n := n, ins := fun m => insL.getD m [], key := fun m => keys.getD m 0,
                          outputs := ← getNatList j "outputs" }
      let groups ← getNatLL j "groups"
      let inIdx ← (← (← j.getObjVal? "in_idx").getArr?).toList.mapM fun grp => do
        (← grp.getArr?).toList.mapM fun row => do
          (← row.getArr?).toList.mapM parsePair
      let outIdx ← (← (← j.getObjVal? "out_idx").getArr?).toList.mapM parsePair
      let c : FoldCert := { groups := groups, inIdx := inIdx, outIdx := outIdx }
      let frontiers ← getNatLL j "frontiers"
      let mc := buildFolded g frontiers
      let numFolds : Nat → Nat := fun gi => (groups.getD gi []).length
      let topo := (List.range n).all fun m => (g.ins m).all (· < m)
      -- executable form of the hypothesis `Layered` of theorem C02.buildFolded_valid
      let layered := layeredB g frontiers
      let entries := (List.range groups.length).map fun gi =>
        let e := stackedEntry (inIdx.getD gi []) numFolds
        Json.mkObj [("ids", toJson e.1), ("idx", toJson e.2)]
      let outEntry := stackedEntry [outIdx] numFolds
      pure (s, Json.mkObj [("valid", Json.bool (c.valid g)), ("topo", Json.bool topo),
        ("model_groups", toJson mc.groups), ("layered", Json.bool layered),
        ("model_valid", Json.bool (mc.valid g)),
        ("model_same", Json.bool (mc.groups == groups && mc.outIdx == outIdx &&
            mc.inIdx == inIdx)),
        ("entries", Json.arr entries.toArray),
        ("out_entry", Json.mkObj [("ids", toJson outEntry.1), ("idx", toJson outEntry.2)])])
  | "template" => do
      -- circuit templates (cp / tucker / tt / hmm / ff) built by the model and evaluated on index tuples
      pure (s, ← TemplateCmd.run A M.parse j)
  | "sample_propagate" => do
      -- C15: bottom-up propagation / top-down walk of the sampling query on recorded draws
      pure (s, ← SampleCmd.run (← s.get (← getStr j "id")) j)
  | _ => throw s!"unknown command {cmd}"

partial def loop (M : Mode R) (h : IO.FS.Stream) (out : IO.FS.Stream) (s : State R) : IO Unit := do
  let line ← h.getLine
  if line.isEmpty then return ()
  let (s', resp) :=
    match Json.parse line with
    | .error e => (s, Json.mkObj [("error", Json.str s!"json: {e}")])
    | .ok j =>
        match handle M s j with
        | .ok (s', r) => (s', r)
        | .error e => (s, Json.mkObj [("error", Json.str e)])
  out.putStrLn resp.compress
  out.flush
  loop M h out s'

end run

def main (args : List String) : IO Unit := do
  let stdin ← IO.getStdin
  let stdout ← IO.getStdout
  match args with
  | ["rat"] => loop ratMode stdin stdout {}
  | ["gauss"] => loop gaussMode stdin stdout {}
  | ["dual"] => loop dualMode stdin stdout {}
  | ["float"] => loop floatMode stdin stdout {}
  | [m] =>
      if m.startsWith "jet" then
        match (m.drop 3).toNat? with
        | some K => loop (jetMode K) stdin stdout {}
        | none => IO.eprintln "usage: Main jet<K>"
      else IO.eprintln "usage: Main (rat|gauss|dual|float|jet<K>)"
  | _ => IO.eprintln "usage: Main (rat|gauss|dual|float)"
