import CirkitModel.Model.Basic
import CirkitModel.Model.Node
import CirkitModel.Model.Tensor
import CirkitModel.Model.PExpr
import CirkitModel.Model.Scope
import CirkitModel.Model.Sym
import CirkitModel.Model.Num
import CirkitModel.Model.Templates
