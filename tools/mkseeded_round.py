#!/usr/bin/env python3
"""tools/mkseeded_round.py <catch-file> <mutant-root> : add the confirmed changes of ONE round of sub-agent seeded
changes (<root>/<PID>/<variant>/{patch.diff,demo.py,meta.json,validated.json}) to /verif/seeded/ without touching the
entries of earlier rounds. Same acceptance rule as tools/mkseeded.py."""
import json
import os
import shutil
import sys

HERE = os.path.dirname(os.path.dirname(os.path.abspath(__file__)))
catch = {}
for line in open(sys.argv[1]):
    parts = line.split()
    if len(parts) >= 3:
        catch[parts[0]] = " ".join(parts[2:])
root = sys.argv[2].rstrip("/")
rnd = os.path.basename(root)
for pid in sorted(os.listdir(root)):
    for var in sorted(os.listdir(os.path.join(root, pid))):
        d = os.path.join(root, pid, var)
        need = [os.path.join(d, f) for f in ("patch.diff", "demo.py", "meta.json", "validated.json")]
        if not all(os.path.exists(f) for f in need):
            print("skipped (incomplete)", d)
            continue
        v = json.load(open(need[3]))
        ok = v.get("applies") and v.get("demo_exit_clean") == 0 and v.get("demo_exit_mutated", 0) != 0 \
            and "323 passed" in v.get("suite_with_change", "") and "failed" not in v.get("suite_with_change", "")
        if not ok:
            print("dropped", d, v)
            continue
        meta = json.load(open(need[2]))
        sid = f"{pid}-{var}-{rnd}"
        out = os.path.join(HERE, "seeded", sid)
        os.makedirs(out, exist_ok=True)
        shutil.copy(need[0], out)
        shutil.copy(need[1], out)
        res = catch.get(d, "")
        json.dump({
            "property": meta["property"],
            "origin": "fresh sub-agent given only the property text and its own scratch worktree of /repo",
            "summary": meta.get("summary"),
            "needs": meta.get("needs"),
            "agent_commands_run": meta.get("commands_run"),
            "confirmed_by_me": {
                "how": "tools/validate_seeded.sh in a scratch worktree: demo without the change, git apply, demo with the change, full suite with the change (-n 6)",
                "repo_head": v.get("repo_head"),
                "demo_exit_without_change": v.get("demo_exit_clean"),
                "demo_exit_with_change": v.get("demo_exit_mutated"),
                "suite_with_change": v.get("suite_with_change"),
            },
            "check_result": {
                "how": f"git -C /repo apply patch.diff; ./check {meta['property']} quick; git -C /repo checkout -- .",
                "result": res or "not run",
                "caught": "exit=1" in res,
            },
        }, open(os.path.join(out, "meta.json"), "w"), indent=1)
        print("kept", sid, "caught" if "exit=1" in res else "NOT CAUGHT / not run")
