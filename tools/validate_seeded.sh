#!/bin/bash
# tools/validate_seeded.sh <mutant dir with patch.diff demo.py> ... : confirm each seeded change in a scratch
# worktree: demo passes without, fails with; full suite still passes with the change. Writes validated.json beside it.
WT=${VAL_WT:-/tmp/val_wt}   # VAL_WT=<worktree> lets several validations run in parallel
T=$(mktemp -d /tmp/val.XXXXXX)
if [ ! -d $WT ]; then git -C /repo worktree add -q --detach $WT HEAD; fi
for d in "$@"; do
  [ -f "$d/patch.diff" ] || continue
  [ -f "$d/validated.json" ] && continue
  git -C $WT checkout -q --detach $(git -C /repo rev-parse HEAD); git -C $WT checkout -- .
  cd $WT
  PYTHONPATH=$WT /venv/bin/python "$d/demo.py" > $T/demo0.out 2>&1; clean=$?
  if ! git -C $WT apply "$d/patch.diff"; then echo "{\"applies\": false}" > "$d/validated.json"; continue; fi
  PYTHONPATH=$WT /venv/bin/python "$d/demo.py" > $T/demo1.out 2>&1; mut=$?
  PYTHONPATH=$WT /venv/bin/python -m pytest -q -p no:cacheprovider -n 6 --timeout=900 > $T/suite.out 2>&1
  suite=$(tail -1 $T/suite.out)
  git -C $WT checkout -- .
  echo "{\"applies\": true, \"repo_head\": \"$(git -C /repo rev-parse --short HEAD)\", \"demo_exit_clean\": $clean, \"demo_exit_mutated\": $mut, \"suite_with_change\": \"$suite\"}" > "$d/validated.json"
  echo "$d: clean=$clean mutated=$mut suite=$suite"
done
