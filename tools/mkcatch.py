#!/usr/bin/env python3
"""tools/mkcatch.py : rewrite the catch-matrix table of DESIGN.md section 8 from seeded/*/meta.json."""
import json
import os
import re

HERE = os.path.dirname(os.path.dirname(os.path.abspath(__file__)))
rows = []
for sid in sorted(os.listdir(os.path.join(HERE, "seeded")), key=lambda s: (s.startswith("revert"), s)):
    mp = os.path.join(HERE, "seeded", sid, "meta.json")
    if not os.path.exists(mp):
        continue
    m = json.load(open(mp))
    what = re.sub(r"\s+", " ", (m.get("summary") or "")).strip()
    what = re.sub(r"^fixed: property=\S+ \S+ ", "", what)
    if len(what) > 230:
        what = what[:227] + "…"
    cr = m.get("check_result", {})
    if cr.get("caught_by"):
        res = "reported by " + ", ".join(cr["caught_by"]) + " (not by " + m["property"] + ")"
    elif cr.get("caught"):
        res = "reported by " + m["property"] + (" (no-failing-input-found)" if "no-failing-input-found" in cr.get("result", "") and "replay" not in cr.get("result", "").replace("no-failing-input-found", "") else "")
    elif cr.get("result", "not run") == "not run":
        res = "not run"
    else:
        res = "**missed** by the quick tier" + (": " + cr["note"] if cr.get("note") else "")
    rows.append(f"| {sid} | {m['property']} | {what.replace('|', '/')} | {res} |")

table = "| seed | property | change | quick check of the property |\n|---|---|---|---|\n" + "\n".join(rows)
p = os.path.join(HERE, "DESIGN.md")
s = open(p).read()
begin, end = "<!-- catch-matrix:begin -->", "<!-- catch-matrix:end -->"
if begin in s:
    s = s[:s.index(begin)] + begin + "\n" + table + "\n" + s[s.index(end):]
else:
    s = s.replace("CATCH_MATRIX_PLACEHOLDER", begin + "\n" + table + "\n" + end)
open(p, "w").write(s)
print(len(rows), "rows")
