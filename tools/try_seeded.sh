#!/bin/bash
# tools/try_seeded.sh <patch.diff> <PID> [tier] : apply a seeded change to /repo, run the check, undo it.
# With -R as 4th arg the patch is applied in reverse (used to re-introduce a fixed defect).
patch="$1"; pid="$2"; tier="${3:-quick}"; rev="${4:-}"
cd /verif
export VERIF_EVIDENCE_DIR=/tmp/verif_evidence_seeded; mkdir -p $VERIF_EVIDENCE_DIR
if ! git -C /repo diff --quiet; then echo "repo dirty, refusing"; exit 3; fi
git -C /repo apply $rev "$patch" || { echo "patch does not apply"; exit 3; }
./check "$pid" "$tier" > /tmp/seeded_$pid.out 2>&1; code=$?
git -C /repo checkout -- .
echo "exit=$code"; grep -E "VIOLATION|KNOWN-FINDING|MACHINERY" /tmp/seeded_$pid.out | head -5
exit 0
