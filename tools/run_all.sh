#!/bin/bash
# tools/run_all.sh [tier] : run every claimed check on the current tree, print exit codes and times.
tier="${1:-quick}"
cd "$(dirname "$0")/.."
for i in 01 02 03 04 05 06 07 08 09 10 11 12 13 14 15 16 17 18 19 20; do
  s=$(date +%s)
  ./check C$i $tier > /tmp/all_C$i.out 2>&1; code=$?
  e=$(date +%s)
  echo "C$i exit=$code $((e-s))s $(grep -c '^VIOLATION' /tmp/all_C$i.out) violations, $(grep -c '^KNOWN-FINDING' /tmp/all_C$i.out) known"
done
