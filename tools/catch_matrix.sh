#!/bin/bash
# tools/catch_matrix.sh <out> <dir>... : run each seeded change (dir with patch.diff, meta.json naming its property)
# against the check of its property on /repo (applied, checked, reverted); one line per change.
out="$1"; shift
cd "$(dirname "$0")/.."
export VERIF_EVIDENCE_DIR=/tmp/verif_evidence_seeded; mkdir -p $VERIF_EVIDENCE_DIR
for d in "$@"; do
  [ -f "$d/patch.diff" ] || continue
  pid=$(python3 -c "import json,sys;print(json.load(open('$d/meta.json'))['property'])")
  rev=$(python3 -c "import json,sys;print('-R' if json.load(open('$d/meta.json')).get('reverse') else '')")
  if ! git -C /repo diff --quiet -- cirkit; then echo "repo dirty"; exit 3; fi
  if ! git -C /repo apply $rev "$d/patch.diff" 2>/dev/null; then echo "$d $pid DOES-NOT-APPLY" >> "$out"; continue; fi
  ./check $pid quick > /tmp/cm_run.out 2>&1; code=$?
  git -C /repo checkout -- cirkit
  tags=$(grep -c '^VIOLATION' /tmp/cm_run.out)
  first=$(grep -m1 '^VIOLATION' /tmp/cm_run.out)
  echo "$d $pid exit=$code violations=$tags $first" >> "$out"
done
