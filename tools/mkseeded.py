#!/usr/bin/env python3
"""tools/mkseeded.py <catch-matrix-file> <mutant-root>... : copy confirmed seeded changes into /verif/seeded/.

A change is kept only if its validated.json (written by tools/validate_seeded.sh in a scratch worktree) says:
the patch applies, the demo exits 0 without it and non-zero with it, and the unedited suite still passes.
The catch-matrix file (tools/catch_matrix.sh) supplies what the check of the property reported."""
import json
import os
import shutil
import sys

HERE = os.path.dirname(os.path.dirname(os.path.abspath(__file__)))
catch = {}
for line in open(sys.argv[1]):
    parts = line.split()
    if len(parts) >= 3:
        catch[parts[0]] = " ".join(parts[2:])

# changes that the check of their own property does not report but another check does (run by hand)
OTHER_CHECK = {
    "C09-B": {"caught_by": ["C11"],
              "note": "not reported by the C09 check (the change does not alter any refusal decision or structural flag); "
                      "reported by the C11 check: git -C /repo apply patch.diff; ./check C11 quick -> exit 1, VIOLATION property=C11 "
                      "(marginal query values)"},
}
kept, dropped = [], []
for root in sys.argv[2:]:
    rnd = os.path.basename(root.rstrip("/"))
    for pid in sorted(os.listdir(root)):
        for var in sorted(os.listdir(os.path.join(root, pid))):
            d = os.path.join(root, pid, var)
            vj = os.path.join(d, "validated.json")
            if not (os.path.exists(vj) and os.path.exists(os.path.join(d, "patch.diff"))):
                dropped.append((d, "not validated"))
                continue
            v = json.load(open(vj))
            ok = v.get("applies") and v.get("demo_exit_clean") == 0 and v.get("demo_exit_mutated", 0) != 0 \
                and "323 passed" in v.get("suite_with_change", "") and "failed" not in v.get("suite_with_change", "")
            if not ok:
                dropped.append((d, f"validation: {v}"))
                continue
            meta = json.load(open(os.path.join(d, "meta.json")))
            sid = f"{pid}-{var}" if rnd == "mutout" else f"{pid}-{var}-{rnd}"
            out = os.path.join(HERE, "seeded", sid)
            os.makedirs(out, exist_ok=True)
            shutil.copy(os.path.join(d, "patch.diff"), out)
            shutil.copy(os.path.join(d, "demo.py"), out)
            res = catch.get(out, "") or catch.get(d, "")  # the run on seeded/<id> (final checks) wins
            json.dump({
                "property": meta["property"],
                "origin": "fresh sub-agent given only the property text and its own scratch worktree of /repo",
                "summary": meta.get("summary"),
                "needs": meta.get("needs"),
                "agent_commands_run": meta.get("commands_run"),
                "confirmed_by_me": {
                    "how": "tools/validate_seeded.sh in scratch worktree /tmp/val_wt: demo without the change, git apply, demo with the change, full suite with the change (-n 6)",
                    "repo_head": v.get("repo_head"),
                    "demo_exit_without_change": v.get("demo_exit_clean"),
                    "demo_exit_with_change": v.get("demo_exit_mutated"),
                    "suite_with_change": v.get("suite_with_change"),
                },
                "check_result": {
                    "how": f"git -C /repo apply patch.diff; ./check {meta['property']} quick; git -C /repo checkout -- cirkit",
                    "result": res or "not run",
                    "caught": "exit=1" in res,
                },
            }, open(os.path.join(out, "meta.json"), "w"), indent=1)
            if sid in OTHER_CHECK and "exit=1" not in res:
                m_ = json.load(open(os.path.join(out, "meta.json")))
                m_["check_result"].update(OTHER_CHECK[sid])
                json.dump(m_, open(os.path.join(out, "meta.json"), "w"), indent=1)
            kept.append(sid)

# reverse of every fix: commit
kf = json.load(open(os.path.join(HERE, "known_findings.json")))
for f in kf["findings"]:
    if f.get("status") != "fixed":
        continue
    diff = os.path.join(HERE, "fixes", f"{f['id']}.diff")
    if not os.path.exists(diff):
        continue
    out = os.path.join(HERE, "seeded", f"revert-{f['id']}")
    os.makedirs(out, exist_ok=True)
    shutil.copy(diff, os.path.join(out, "patch.diff"))
    key = os.path.join("seeded", f"revert-{f['id']}")
    res = catch.get(out, catch.get(key, ""))
    json.dump({
        "property": f["property"],
        "reverse": True,
        "origin": f"reverse of the fix: commit {f['commit']} in /repo (re-introduces defect {f['id']}); the unedited suite passes with and without it",
        "summary": f["what"],
        "needs": "see summary: the failing input named there",
        "demonstration": "the replay file written by the check when the patch is reverse-applied (git -C /repo apply -R patch.diff)",
        "check_result": {"how": f"git -C /repo apply -R patch.diff; ./check {f['property']} quick; git -C /repo checkout -- cirkit",
                         "result": res or "not run", "caught": "exit=1" in res},
    }, open(os.path.join(out, "meta.json"), "w"), indent=1)
    kept.append(f"revert-{f['id']}")

print("kept", len(kept), "dropped", len(dropped))
for d, why in dropped:
    print(" dropped", d, why[:150])
