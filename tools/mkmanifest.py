#!/usr/bin/env python3
"""Regenerates MANIFEST.json from the table below (keep in sync with harness/cXX.py)."""
import json, os
HERE = os.path.dirname(os.path.dirname(os.path.abspath(__file__)))
props = [json.loads(l) for l in open(os.path.join(HERE, "properties.jsonl"))]

NOTE = ("Trusted: Lean kernel + Mathlib; axioms of every property theorem audited each run "
        "(subset of propext, Classical.choice, Quot.sound; no sorry/native_decide/own axioms). The theorems are "
        "about the hand-written Lean model; the model is tied to /repo by the correspondence check run by this very "
        "command against the current working tree (in-process, PYTHONPATH=/repo). Floating point, torch kernels, "
        "autograd and RNG are runtime facts, exercised not proved. See DESIGN.md section 5.")

# id -> (technique, text, design_ref) for the checks that exist
BUILT = {
 "C01": ("Lean 4 proof (layer denotation lemmas, executable evaluator = denotation, Kronecker loop = mixed radix, "
         "semiring transport, LSE shift) + correspondence: Lean evaluator vs compiled torch circuit",
         "Theorems over every well-formed circuit tree / commutative semiring; correspondence on generated circuits x "
         "4 parameter classes x 3 semirings x fold x optimize x batch sizes {1,2,F,F+1}, exact where float64 is exact, "
         "1e-9 relative to the magnitude bound otherwise.", "DESIGN.md 4/C01"),
 "C02": ("Lean 4 proof (fold_sound for every graph / module semantics / valid certificate; buildFolded_valid: the modelled build_folded_graph always emits a valid certificate; address-book gather "
         "lemmas, rewrite identities) + correspondence: certificate of the real fold validated by the model, "
         "flag-equivalence of compiled outputs, registry addressability",
         "fold_sound is proved for all graphs and certificates and buildFolded_valid for every layer-wise ordering; each run validates the certificate and address-book "
         "entries produced by the real build_folded_graph (harness spy) with the Lean model, compares the 4 flag "
         "combinations with each other and with the Lean evaluator after writing one valuation through the registry.",
         "DESIGN.md 4/C02"),
 "C03": ("Lean 4 proof (integ1_correct / integrate_correct by induction over smooth decomposable trees for any linear "
         "functional, Fubini-free order independence) + correspondence: Lean eval of real integrate() vs Lean spec, "
         "compiled vs brute force / quadrature",
         "Theorem for every smooth decomposable tree, variable list and linear functional; correspondence over all "
         "non-empty Z of generated circuits, exact over Rat for embeddings.", "DESIGN.md 4/C03"),
 "C04": ("Lean 4 proof (mul_correct: whenever the model of multiply returns, the result is the pointwise product in "
         "Kronecker unit order — every rule, sum arity, unit count, input order; units/WF; circuit-level output layout) "
         "+ correspondence: Lean eval of real multiply() vs product of Lean evals, model operator vs real operator, "
         "compiled product vs product of compiled operands",
         "Full theorem (no partial cases) by induction over a relational presentation of the model of multiply; "
         "correspondence on vtree-skeleton pairs/chains/squares/evidence-conditioned operands, exact over Rat for "
         "embedding and polynomial inputs.", "DESIGN.md 4/C04"),
 "C08": ("Lean 4 proof (smooth/decomposable iff definitions, structured-decomposability and compatibility soundness, "
         "symmetry, invariance of the factor lists under permutation of layer inputs) + correspondence: real predicates "
         "vs Lean model vs brute-force definitions + metamorphic permutation/renaming checks on the real code",
         "Theorems about the model predicates for every layer DAG; discrete, exact correspondence incl. malformed "
         "circuits and pairs.", "DESIGN.md 4/C08"),
 "C09": ("Lean 4 proof (decision logic of every operator's argument checks stated outright; integrate/evidence/"
         "conjugate/multiply preserve well-formedness, smoothness, decomposability, scope, units) + correspondence: "
         "error class of the real operators vs model prechecks, structure of every returned circuit recomputed by Lean",
         "Theorems for all circuits/arguments; correspondence over a well-formed and a malformed stream.",
         "DESIGN.md 4/C09"),
 "C05": ("Lean 4 proof (diff1_correct over MvPolynomial: the model of differentiate denotes the k-th partial "
         "derivative for every smooth decomposable polynomial circuit and every k; outputs in strictly increasing "
         "variable-id order followed by c; coefficient rule of the polynomial differential; transfer to numeric "
         "evaluation by ring homomorphisms) + correspondence: Lean eval of real differentiate() vs derivatives "
         "computed by the Lean model over truncated power series, compiled under all flags, nested autograd",
         "Theorems for all circuits/orders; correspondence exact over Rat, ids >= 8, gaps, orders 1-3.",
         "DESIGN.md 4/C05"),
 "C14": ("Lean 4 proof (entry formulas of index, outer product/sum, reductions, Kronecker, mixing, polynomial "
         "product/differential, entrywise ops over the row-major tensor model for every shape and axis; symbolic shape "
         "= evaluated shape for every well-formed graph; composition; softmax row sums) + correspondence: compiled "
         "parameter graphs (F = 1..4 folds, optimize on/off) vs Lean PExpr.eval",
         "Theorems for all shapes/axes; correspondence on random graphs over all node types, exact for the algebraic "
         "operators.", "DESIGN.md 4/C14"),
 "C10": ("Lean 4 proof (a parameter graph / circuit denotes a function of the valuation of its leaves only; a reference "
         "evaluates to the very tensor it points to; derived circuits have only reference/constant leaves; with the "
         "operator theorems C03/C04/C06/C07, which hold for every valuation, the defining relations survive every "
         "update) + correspondence along histories of optimizer steps / copy_ / reset / load_state_dict / evaluations",
         "Theorems for all graphs and valuations; correspondence: every compiled derived circuit vs Lean eval of its "
         "symbolic circuit under the operand's current values after each step of random histories, storage census.",
         "DESIGN.md 4/C10"),
 "C17": ("Lean 4 proof (fold-wise initialisation touches exactly its slice; axis arithmetic of the compiled Dirichlet "
         "initialiser = declared axis for positive and negative axes; movedim restores the shape; refutation witnesses "
         "of the two historical defects) + correspondence: slices read through the registry for every initialiser x "
         "shape x axis x fold grouping x repeated resets",
         "Theorems for all axes/ranks/groupings; correspondence exact for constants, sums/bounds for random initialisers.",
         "DESIGN.md 4/C17"),
 "C18": ("Lean 4 proof (invariant of the registry/pipeline state machine preserved by every step hence every history: "
         "bimap bijective, compile idempotent, operands compiled first and once (completeness of the BFS + Kahn "
         "ordering proved), operator-on-compiled = compile of symbolic operator, enter/exit restores the active context "
         "for well-bracketed and sequentially reused contexts) + correspondence: random histories on the real "
         "PipelineContext / TorchCompiler / ContextVar vs the model step by step",
         "All theorems full (no partial); correspondence compares outputs, _compile_circuit call order (spy) and the "
         "active context / operator registry after every step.", "DESIGN.md 4/C18"),
 "C19": ("Lean 4 proof (load o save restores every registered storage for any same-layout instance, also with "
         "duplicate keys; keys are a function of the layout; exactly-once iff no storage under two keys) + "
         "correspondence: save -> fresh compilation -> load -> bitwise equal outputs, key census",
         "Theorems for all layouts; correspondence over circuits and pipelines x flags; D12 (duplicate keys in derived "
         "circuits) is a recorded known finding.", "DESIGN.md 4/C19"),
 "C06": ("Lean 4 proof (evidence_correct for every tree and observation, scope, concatenate) + correspondence: Lean "
         "eval of real evidence()/concatenate() vs Lean eval of operands; compiled vs compiled-on-overwritten-input",
         "Theorems need no structural hypothesis; correspondence on generated circuits with heterogeneous inputs "
         "under flags/semirings.", "DESIGN.md 4/C06"),
 "C07": ("Lean 4 proof (conjugate_correct for any ring endomorphism, involution, commutes with real quadrature; "
         "instance at complex conjugation) + correspondence over Q[i] exactly and floats with tolerance",
         "Theorems for every tree; correspondence on complex embedding/polynomial circuits (exact), real circuits and "
         "unnormalised Gaussian products.", "DESIGN.md 4/C07"),
 "C11": ("Lean 4 proof (maskedEval = eval of integrate = per-sample marginal, mask only matters on the scope) + "
         "correspondence: IntegrateQuery vs Lean maskedEval vs brute force vs compiled integrate()",
         "Theorems for every smooth decomposable tree and mask; correspondence with per-sample masks in 3 forms, batch "
         "sizes {1,2,F,F+1,5}, all flags, probs/logits/binomial/Gaussian inputs.", "DESIGN.md 4/C11"),
 "C12": ("Lean 4 proof (a circuit whose sum weights have unit row sums over normalised inputs integrates to 1 and "
         "its marginals are the integrals of the joint; non-negativity / positivity of monotone circuits; softmax, "
         "mixing-weight and sigmoid parameterisations have the row sums / ranges the theorem needs) + correspondence: "
         "every template and parameterisation of the library compiled and integrated (symbolic integrate or "
         "IntegrateQuery), after initialisation, after optimiser steps and after reset",
         "Theorems for every smooth decomposable tree; correspondence over region-graph templates x sum-product "
         "layers x input layers x flags, marginal consistency by enumeration.", "DESIGN.md 4/C12"),
 "C13": ("Lean 4 proof (evaluation over dual numbers a + b eps computes value and derivative of every polynomial "
         "circuit: the reference derivative; gradients are a function of the denoted function only, hence "
         "flag-independent given C01/C02; the safe logarithm's backward equals 1/x away from 0; max-shifted "
         "log-sum-exp has the derivative of the plain one wherever the sum is positive) + correspondence: autograd "
         "gradients pulled back through the registry vs the Lean dual-number evaluator / finite differences of the "
         "Lean evaluator, under all four flag combinations",
         "Theorems full; autograd itself is runtime (trusted, exercised). D27 (contributions through exactly-zero "
         "units are dropped in log space) is a recorded known finding.", "DESIGN.md 4/C13"),
 "C15": ("Lean 4 proof (the library's bottom-up batched propagation equals the top-down walk on any decomposable "
         "circuit — propagate_eq_follow; the walk assigns exactly the variables of the scope, each from an input layer "
         "of that variable — follow_complete / propagate_complete; every returned assignment is reachable and has "
         "positive probability — follow_reach, propagate_positive, sample_support; the law of the walk is the "
         "evaluation: per-layer equations, eval_is_distribution) + correspondence: instrumented SamplingQuery — the "
         "model's propagate / follow run on the recorded draws vs the returned rows, every layer step checked "
         "deterministically on the recorded mixture choices, column frequencies vs weights, joint frequencies vs exact "
         "probabilities of the Lean evaluator",
         "All theorems full. Frequencies are statistical (6 sigma, fixed seeds); the pseudo-random draws themselves "
         "are runtime. D15 (scopes with gaps) is a recorded known finding.",
         "DESIGN.md 4/C15"),
 "C16": ("Lean 4 proof (region-graph validity implies partitions of pairwise disjoint parts that cover the parent, "
         "for any number of parts; dump/load is the identity; structured decomposability is a property of scopes, "
         "invariant under permutation of partition inputs) + correspondence: every region-graph algorithm of the "
         "library vs the model's validity / structured-decomposability / omni-compatibility predicates, dump-load "
         "round trips, and the circuits built from them (smooth, decomposable, scopes, units, outputs)",
         "Theorems full for the region-graph model; build_circuit soundness is not a theorem: it is checked on every "
         "generated graph through the structural predicates proved in C08. D19 is a recorded known finding.",
         "DESIGN.md 4/C16"),
 "C20": ("Lean 4 proof (model template builders cpNode / tuckerNode / ttNode / hmmNode / ffNode mirroring the layer "
         "structure the library builds evaluate to the documented contractions: CP and Tucker for every number of "
         "modes and rank, tensor train for every chain length as matrix chain and as sum over all rank tuples, HMM for "
         "every ordering as backward recursion and as sum over hidden paths with emission number ordering[i] at step i, "
         "fully factorised) + correspondence: real templates vs the model builders fed with the extracted factors vs "
         "the documented formula recomputed in Python vs the compiled circuit; logic circuits vs truth tables and model counts",
         "Theorems full (tucker_formula_partial superseded by tucker_formula). Logic circuits: determinism is a "
         "hypothesis, carried by the correspondence only. D21/D23 are recorded known findings.", "DESIGN.md 4/C20"),
}
checks, na = [], []
for p in props:
    pid = p["id"]
    if pid in BUILT:
        tech, text, ref = BUILT[pid]
        checks.append({
            "property_id": pid,
            "quick_cmd": f"./check {pid} quick",
            "thorough_cmd": f"./check {pid} thorough",
            "evidence_file": f"evidence/{pid}.json",
            "replay_cmd_template": f"./check {pid} --replay {{path}}",
            "engine": "lean4-model+correspondence",
            "level_claimed": {"category": "proof", "text": text, "design_ref": ref},
            "level_note": NOTE,
            "technique": tech,
        })
    else:
        na.append({"property_id": pid, "reason": "check not built yet in this round (model and theorems planned in DESIGN.md section 4); not claimed until its check exists"})
m = {
 "version": 1,
 "setup_cmd": "cd lean && lake build CirkitModel driver CirkitModel.All",
 "hooks": {"guard": "CIRKIT_VERIF", "enable": "no hooks are needed: checks import /repo in-process and observe through public API and harness-side spies",
           "baseline_off_cmd": "cd /repo && /venv/bin/python -m pytest -q -p no:cacheprovider --timeout=900",
           "source_commits": [], "add_only": True},
 "engines": [{"name": "lean4-model+correspondence", "path": "lean/ + harness/",
              "serves_properties": [c["property_id"] for c in checks],
              "kind_free_text": "Lean 4 model + theorems (lake project lean/), compiled line-protocol driver, Python correspondence harness running the real cirkit in-process"}],
 "checks": checks,
 "not_applicable": na,
 "notes": "fix: commits in /repo (genuine defects repaired) are listed in known_findings.json with status=fixed; see DESIGN.md section 6.",
}
json.dump(m, open(os.path.join(HERE, "MANIFEST.json"), "w"), indent=1)
print(len(checks), "checks,", len(na), "not claimed")
