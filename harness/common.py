"""Helpers shared by the circuit-level checks: model evaluation in the right number mode,
magnitude bounds, comparison of torch outputs against model outputs."""
from __future__ import annotations

from fractions import Fraction

import numpy as np

import gen
import leanmodel
import real
import ser

REL_TOL = 1e-9


class Mismatch(Exception):
    def __init__(self, msg, detail=None):
        super().__init__(msg)
        self.detail = detail or {}


def choose_mode(ser_rat: dict, cplx: bool) -> str:
    if not ser.circuit_is_algebraic(ser_rat):
        return "float"
    return "gauss" if cplx else "rat"


def spec_is_complex(spec: dict) -> bool:
    def pc(d):
        return any(isinstance(v, dict) and v.get("cplx") for v in d.values())
    return any(pc(d) for d in spec["layers"])


TREE_LIMIT = 60000


class TooLarge(Exception):
    """The circuit's DAG unfolds into a tree too large for the tree-shaped Lean evaluator."""


def unfolded_size(ser_circ: dict) -> int:
    size = []
    for d in ser_circ["layers"]:
        size.append(1 + sum(size[j] for j in d.get("in", [])))
    return sum(size[o] for o in ser_circ["outputs"])


class ModelCircuit:
    """A symbolic circuit registered with the Lean driver in the appropriate number mode."""

    _n = 0

    def __init__(self, sc, *, cplx=False, mode=None):
        probe = ser.ser_circuit(sc, "rat") if not cplx else ser.ser_circuit(sc, "gauss")
        self.mode = mode or choose_mode(probe, cplx)
        self.ser = probe if self.mode in ("rat", "gauss") and (self.mode == "gauss") == cplx \
            else ser.ser_circuit(sc, self.mode)
        self.sc = sc
        ModelCircuit._n += 1
        self.cid = f"c{ModelCircuit._n}"
        self.d = leanmodel.driver(self.mode)
        r = self.d.put_circuit(self.cid, self.ser)
        self.wf = r["wf"]
        self.tree_size = unfolded_size(self.ser)

    def guard(self):
        if self.tree_size > TREE_LIMIT:
            raise TooLarge(f"unfolded tree has {self.tree_size} nodes")

    def drop(self):
        try:
            self.d.call({"cmd": "drop", "id": self.cid})
        except Exception:
            pass

    def eval(self, theta, X):
        self.guard()
        return self.d.eval(self.cid, theta, X)

    def magnitude(self, theta, X):
        """Upper bound on the size of every intermediate sum: evaluation with |θ| and |x|
        (meaningful for the algebraic classes; for float mode the value itself is used)."""
        if self.mode == "float":
            return None
        return self.d.eval(self.cid, theta, X, absolute=True)


def _abs(v):
    if isinstance(v, complex):
        return abs(v.real) + abs(v.imag)
    if isinstance(v, tuple):
        return abs(v[0]) + abs(v[1])
    return abs(v)


def to_complex(v):
    if isinstance(v, tuple):
        return complex(float(v[0]), float(v[1]))
    return complex(float(v))


def compare(y: np.ndarray, model, mag, mode: str, *, tol=REL_TOL):
    """Compare a torch output array (B, O, K) in linear space with the model's nested list.
    Returns (n_exact, n_tol); raises Mismatch on the first entry outside tolerance."""
    B = len(model)
    if y.shape[0] != B:
        raise Mismatch(f"batch dimension {y.shape[0]} != {B}")
    n_exact = n_tol = 0
    for b in range(B):
        if y.shape[1] != len(model[b]):
            raise Mismatch(f"number of outputs {y.shape[1]} != {len(model[b])}")
        for o in range(len(model[b])):
            if y.shape[2] != len(model[b][o]):
                raise Mismatch(f"number of units {y.shape[2]} != {len(model[b][o])} at output {o}")
            for k in range(len(model[b][o])):
                got = y[b, o, k]
                exp = model[b][o][k]
                if mode == "rat":
                    g = float(np.real(got))
                    if np.iscomplexobj(got) and abs(np.imag(got)) > tol * max(1.0, abs(g)):
                        m = float(mag[b][o][k]) if mag is not None else abs(float(exp))
                        if abs(np.imag(got)) > tol * max(m, 1e-300) * 10:
                            raise Mismatch("imaginary part of a real circuit",
                                           {"row": b, "output": o, "unit": k, "got": str(got), "expected": str(exp)})
                    if not np.isfinite(g):
                        raise Mismatch("non-finite value", {"row": b, "output": o, "unit": k, "got": str(got), "expected": str(exp)})
                    if Fraction(g) == exp:
                        n_exact += 1
                        continue
                    m = float(mag[b][o][k]) if mag is not None else abs(float(exp))
                    if abs(g - float(exp)) <= tol * max(m, 1e-300):
                        n_tol += 1
                        continue
                    raise Mismatch("value", {"row": b, "output": o, "unit": k, "got": repr(g), "expected": str(exp), "magnitude": m})
                if mode == "gauss":
                    g = complex(got)
                    e = to_complex(exp)
                    m = float(mag[b][o][k][0]) if mag is not None else abs(e)
                    if abs(g - e) <= tol * max(m, 1e-300):
                        if g == e:
                            n_exact += 1
                        else:
                            n_tol += 1
                        continue
                    raise Mismatch("value", {"row": b, "output": o, "unit": k, "got": repr(g), "expected": repr(e), "magnitude": m})
                # float mode: monotone circuits, magnitude = |value|
                g = float(np.real(got))
                e = float(exp)
                if g == e:
                    n_exact += 1
                    continue
                if not np.isfinite(g) and not (np.isinf(e) and g == e):
                    raise Mismatch("non-finite value", {"row": b, "output": o, "unit": k, "got": repr(g), "expected": repr(e)})
                if abs(g - e) <= tol * max(abs(e), 1e-300) * 10:
                    n_tol += 1
                    continue
                raise Mismatch("value", {"row": b, "output": o, "unit": k, "got": repr(g), "expected": repr(e)})
    return n_exact, n_tol


def compare_arrays(a: np.ndarray, b: np.ndarray, *, tol=1e-9, what="arrays"):
    """Real-code-only oracle comparisons (both sides torch): relative to the larger magnitude."""
    if a.shape != b.shape:
        raise Mismatch(f"{what}: shape {a.shape} != {b.shape}")
    scale = np.maximum(np.abs(a), np.abs(b))
    bad = np.abs(a - b) > tol * np.maximum(scale, 1e-300)
    bad |= ~np.isfinite(a) & np.isfinite(b)
    if bad.any():
        idx = tuple(int(i) for i in np.argwhere(bad)[0])
        raise Mismatch(f"{what}: value", {"index": idx, "a": repr(a[idx]), "b": repr(b[idx])})


def fold_counts(tc) -> list[int]:
    return sorted({int(l.num_folds) for l in tc.layers})


def input_array(X, spec):
    """Torch input for rows X: int64 when every variable is discrete, float64 otherwise."""
    cont = set(spec.get("continuous", [])) | {d["v"] for d in spec["layers"] if d["t"] == "poly"}
    arr = np.array(X)
    if cont:
        return arr.astype(np.float64)
    return arr.astype(np.int64)
