"""C13 — gradients of compiled circuits are correct and flag-independent."""
from __future__ import annotations

import random
from fractions import Fraction

import numpy as np
import torch

import common
import gen
import leanmodel
import real
import ser
from framework import Run
from c10 import freeze_some

RULE = ("generated circuits x parameter classes (positive / signed embeddings and polynomials with learnable, constant "
        "and frozen-random tensors of equal shapes side by side, identically-zero units, exponential-family inputs with "
        "softmax / exp / sigmoid weights) x semiring x the four (fold, optimize) combinations: a random linear "
        "functional L of the outputs (of the raw log-space outputs for the log semirings, restricted to the entries "
        "whose value is non-zero) is back-propagated; the gradient of every learnable symbolic tensor parameter, "
        "pulled back through the compiler registry, and of the continuous inputs vs (i) the exact derivative computed "
        "by the Lean evaluator over dual numbers a + b.eps (f' = b, (log f)' = b / a) for the algebraic classes, or "
        "central finite differences of the Lean float evaluator otherwise, (ii) the gradients under the other flag "
        "combinations entry by entry, (iii) finiteness and presence (no None / NaN / inf) wherever the value is "
        "non-zero; non-trivial = distinct canonical spec with a sum and a product layer")

CLASSES = [
    ("emb_pos", dict(leaf_kinds=["emb"], weight_pz=["id"]), ["sum-product", "lse-sum", "complex-lse-sum"], True),
    ("signed", dict(leaf_kinds=["emb", "poly"], weight_pz=["id"], signed=True), ["sum-product", "complex-lse-sum"], True),
    ("signed_zero", dict(leaf_kinds=["emb", "poly"], weight_pz=["id"], signed=True), ["complex-lse-sum", "sum-product"], True),
    ("pos_zero", dict(leaf_kinds=["emb"], weight_pz=["id"]), ["lse-sum", "complex-lse-sum", "sum-product"], True),
    ("expfam", dict(leaf_kinds=["cat_probs", "cat_softmax", "cat_logits", "bin_logits", "gauss", "emb"],
                    weight_pz=["id", "softmax", "exp", "sigmoid", "softplus"], units=[1, 2]), ["sum-product", "lse-sum"], False),
]
MAX_ENTRIES = 10
FD_H = 2.0 ** -20


def learnable_params(sc):
    return [p for p in ser.tensor_params(sc) if getattr(p, "learnable", True)]


def objective_coeffs(rng, m_vals, cplx_sr: bool):
    """Random dyadic coefficient per output entry; 0 where the value is exactly 0."""
    c = []
    for row in m_vals:
        c.append([[0.0 if v == 0 else rng.randrange(-8, 9) / 4 for v in out] for out in row])
    c = np.array(c, dtype=np.float64)
    d = np.zeros_like(c)
    if cplx_sr:
        d = np.array([[[0.0 if v == 0 else rng.randrange(-4, 5) / 4 for v in out] for out in row] for row in m_vals])
    return c, d


def torch_grads(comp, tc, sc, X, Xcont_cols, semiring, c, d):
    """Back-propagate L and pull the gradients back to symbolic parameters. Returns (param grads, input grads)."""
    for p in tc.parameters():
        p.grad = None
    x = torch.as_tensor(X)
    if Xcont_cols:
        x = x.clone().requires_grad_(True)
    y = tc(x)
    if semiring == "sum-product":
        L = (torch.as_tensor(c) * y).sum()
    elif semiring == "lse-sum":
        mask = torch.as_tensor(c != 0)
        L = (torch.as_tensor(c)[mask] * y[mask]).sum()
    else:
        coef = torch.as_tensor(c + 1j * d)
        mask = torch.as_tensor((c != 0) | (d != 0))
        L = (coef[mask] * y[mask]).real.sum()
    if not L.requires_grad:
        return None, None
    L.backward()
    out = {}
    for p in learnable_params(sc):
        pt, idx = comp.state.retrieve_compiled_parameter(p)
        g = pt._ptensor.grad
        out[ser.UIDS.uid(p)] = None if g is None else g[idx].detach().clone().numpy().reshape(-1)
    gx = x.grad.detach().numpy() if Xcont_cols and x.grad is not None else None
    return out, gx


def expected_from_dual(dual_vals, semiring, c, d):
    """sum over entries of coefficient * derivative, from model values (a, b) = f, f'."""
    tot = Fraction(0)
    bound = 0.0
    for b, row in enumerate(dual_vals):
        for o, out in enumerate(row):
            for k, (a, bb) in enumerate(out):
                cc = Fraction(float(c[b, o, k]))
                if cc == 0 and (d is None or d[b, o, k] == 0):
                    continue
                if semiring == "sum-product":
                    tot += cc * bb
                    bound += abs(float(cc)) * abs(float(bb))
                else:
                    # (log f)' = f' / f ; real circuit: the phase is constant, its derivative vanishes
                    tot += cc * bb / a
                    bound += abs(float(cc)) * abs(float(bb) / float(a))
    return tot, bound


def zero_unit_rows(sc, theta, X) -> set[int]:
    """Rows of X at which some unit of some layer evaluates to exactly 0 (model evaluation over Rat)."""
    ser_all = ser.ser_circuit(sc, "rat")
    ser_all = dict(ser_all, outputs=list(range(len(ser_all["layers"]))))
    d = leanmodel.driver("rat")
    d.put_circuit("zz", ser_all)
    try:
        vals = d.eval("zz", theta, X)
    finally:
        d.call({"cmd": "drop", "id": "zz"})
    return {b for b, row in enumerate(vals) if any(v == 0 for out in row for v in out)}


def run_scenario(run: Run, scen: dict, rng: random.Random):
    spec, semiring, cls, exact = scen["spec"], scen["semiring"], scen["class"], scen["exact"]
    sc = gen.build_circuit(spec)
    mc = common.ModelCircuit(sc)
    try:
        params = ser.tensor_params(sc)
        learn = learnable_params(sc)
        if not learn:
            run.feature("no_learnable", True)
            return
        X = scen.get("X") or gen.gen_inputs(rng, spec, scen.get("B", 3))
        Xarr = common.input_array(X, spec)
        cont = sorted(set(spec.get("continuous", [])) | {d_["v"] for d_ in spec["layers"] if d_["t"] == "poly"})
        grads, gxs, theta0 = {}, {}, None
        cvals = None
        for fold, optimize in real.FLAGS:
            flags = f"fold={fold},optimize={optimize}"
            try:
                comp, tc = real.compile_circuit(sc, fold=fold, optimize=optimize, semiring=semiring)
                if theta0 is None:
                    theta0 = real.read_theta(comp, params)
                else:
                    real.write_theta(comp, params, theta0)
            except Exception as e:  # noqa: BLE001
                run.violation("compile-crash", scen, f"{type(e).__name__}: {e} ({flags})")
                return
            if cvals is None:
                m = mc.eval(theta0, X)
                c, d = objective_coeffs(rng, m, semiring == "complex-lse-sum")
                if scen.get("coef"):
                    c, d = np.array(scen["coef"][0], dtype=np.float64), np.array(scen["coef"][1], dtype=np.float64)
                if semiring == "lse-sum":
                    # log of a negative value does not exist in the real log semiring
                    for b, row in enumerate(m):
                        for o, out in enumerate(row):
                            for k, v in enumerate(out):
                                if v <= 0:
                                    c[b, o, k] = 0.0
                cvals = (c, d)
                scen = dict(scen, coef=[c.tolist(), d.tolist()])
                if not c.any():
                    run.feature("all_outputs_zero", True)
                    return
            c, d = cvals
            try:
                g, gx = torch_grads(comp, tc, sc, Xarr, cont, semiring, c, d)
            except Exception as e:  # noqa: BLE001
                run.violation("backward-crash", dict(scen, X=X), f"{type(e).__name__}: {e} ({flags})")
                return
            if g is None:
                run.violation("no-grad", dict(scen, X=X), f"the output does not require grad although the circuit has learnable parameters ({flags})")
                return
            grads[(fold, optimize)] = g
            gxs[(fold, optimize)] = gx
            # (iii) presence and finiteness
            for p in learn:
                u = ser.UIDS.uid(p)
                if g[u] is None:
                    run.violation("grad-none", dict(scen, X=X), f"a learnable tensor parameter of shape {tuple(p.shape)} receives no gradient ({flags}, {semiring})")
                    return
                if not np.all(np.isfinite(g[u].view(np.float64) if np.iscomplexobj(g[u]) else g[u])):
                    run.violation("grad-not-finite", dict(scen, X=X), f"non-finite gradient for a parameter of shape {tuple(p.shape)} although only non-zero outputs enter the objective ({flags}, {semiring})")
                    return
            if gx is not None and not np.all(np.isfinite(gx)):
                run.violation("grad-not-finite", dict(scen, X=X), f"non-finite input gradient ({flags}, {semiring})")
                return
            run.evaluations += 1
        # (ii) flag independence
        base = grads[(False, False)]
        scale = {u: max(1e-300, float(np.max(np.abs(v)))) for u, v in base.items()}
        for fl, g in grads.items():
            for u, v in g.items():
                if v.shape != base[u].shape or np.max(np.abs(v - base[u])) > 1e-9 * max(1.0, scale[u]):
                    j = int(np.argmax(np.abs(v - base[u])))
                    at_zero = False
                    if semiring != "sum-product" and exact and mc.mode == "rat":
                        zr = zero_unit_rows(sc, theta0, X)
                        at_zero = bool(zr & {b for b in range(len(X)) if cvals[0][b].any()})
                    run.violation("gradient-through-exact-zero" if at_zero else "flag-dependent-gradient", dict(scen, X=X),
                                  f"parameter of {v.size} entries: entry {j} has gradient {v[j]} under fold={fl[0]},optimize={fl[1]} and {base[u][j]} unfolded ({semiring}"
                                  f"{'; some unit is exactly 0 at a row of the batch, where log-space gradients drop contributions' if at_zero else ''})")
                    if at_zero:
                        continue
                    return
                run.tolerance += 1
            if gxs[fl] is not None and gxs[(False, False)] is not None:
                if np.max(np.abs(gxs[fl] - gxs[(False, False)])) > 1e-9 * max(1.0, float(np.max(np.abs(gxs[(False, False)])))):
                    run.violation("flag-dependent-gradient", dict(scen, X=X), f"input gradients differ under fold={fl[0]},optimize={fl[1]} ({semiring})")
                    return
        # (i) the true derivative
        entries = [(ser.UIDS.uid(p), j) for p in learn for j in range(int(np.prod(p.shape)))]
        rng.shuffle(entries)
        entries = entries[:MAX_ENTRIES]
        c, d = cvals
        if exact and mc.mode == "rat":
            dd = leanmodel.driver("dual")
            cid = "g" + mc.cid
            dd.put_circuit(cid, ser.ser_circuit(sc, "dual"))
            try:
                for (u, j) in entries:
                    th = {k: [(Fraction(float(np.real(v))), Fraction(1 if (k == u and i == j) else 0)) for i, v in enumerate(vals)]
                          for k, vals in theta0.items()}
                    vals = dd.eval(cid, th, [[(Fraction(float(v)), Fraction(0)) for v in row] for row in X])
                    want, bound = expected_from_dual(vals, semiring, c, d)
                    got = float(np.real(base[u][j]))
                    run.evaluations += 1
                    if Fraction(got) == want:
                        run.exact += 1
                    elif abs(got - float(want)) <= 1e-9 * max(bound, abs(float(want)), 1e-300) + 1e-12 * max(1.0, scale[u]):
                        run.tolerance += 1  # incl. float noise (1e-32) where the exact derivative is 0
                    else:
                        zr = zero_unit_rows(sc, theta0, X) if semiring != "sum-product" else set()
                        at_zero = bool(zr & {b for b in range(len(X)) if c[b].any()})
                        run.violation("gradient-through-exact-zero" if at_zero else "gradient-wrong", dict(scen, X=X, entry=[u, j]),
                                      f"autograd gives {got} for entry {j} of a parameter (value {theta0[u][j]}), the exact derivative of the denoted function is {float(want)} "
                                      f"({semiring}, unfolded{'; some unit is exactly 0 at rows ' + str(sorted(zr)) if at_zero else ''})")
                        if not at_zero:
                            return
                # continuous inputs
                gx = gxs[(False, False)]
                if gx is not None:
                    for v in cont[:3]:
                        for b in range(len(X)):
                            Xd = [[(Fraction(float(x)), Fraction(1 if (bb == b and col == v) else 0)) for col, x in enumerate(row)]
                                  for bb, row in enumerate(X)]
                            th = {k: [(Fraction(float(np.real(x))), Fraction(0)) for x in vals] for k, vals in theta0.items()}
                            vals = dd.eval(cid, th, Xd)
                            want, bound = expected_from_dual(vals, semiring, c, d)
                            got = float(gx[b, v])
                            run.evaluations += 1
                            if abs(got - float(want)) <= 1e-9 * max(bound, abs(float(want)), 1e-300) + 1e-12 * max(1.0, float(np.max(np.abs(gx)))):
                                run.tolerance += 1
                            else:
                                zr = zero_unit_rows(sc, theta0, X) if semiring != "sum-product" else set()
                                at_zero = b in zr
                                run.violation("gradient-through-exact-zero" if at_zero else "input-gradient-wrong", dict(scen, X=X, entry=[b, v]),
                                              f"autograd gives d/dx[{b},{v}] = {got}, the exact derivative is {float(want)} ({semiring}"
                                              f"{'; some unit is exactly 0 at this row' if at_zero else ''})")
                                if not at_zero:
                                    return
            finally:
                try:
                    dd.call({"cmd": "drop", "id": cid})
                except Exception:  # noqa: BLE001
                    pass
        else:
            # central finite differences of the reference (Lean float) evaluation
            lscale = [0.0]

            def Lval(theta):
                vals = mc.eval(theta, X)
                tot, sc_ = 0.0, 0.0
                for b, row in enumerate(vals):
                    for o, out in enumerate(row):
                        for k, v in enumerate(out):
                            if c[b, o, k] != 0:
                                t_ = c[b, o, k] * (float(v) if semiring == "sum-product" else float(np.log(float(v))))
                                tot += t_
                                sc_ += abs(t_)
                lscale[0] = max(lscale[0], sc_)
                return tot

            for (u, j) in entries:
                tp = {k: list(v) for k, v in theta0.items()}
                tm = {k: list(v) for k, v in theta0.items()}
                tp[u][j] = tp[u][j] + FD_H
                tm[u][j] = tm[u][j] - FD_H
                fd = (Lval(tp) - Lval(tm)) / (2 * FD_H)
                got = float(np.real(base[u][j]))
                run.evaluations += 1
                # truncation O(h^2) plus cancellation: the objective is a sum of terms of size lscale, known to ~1e-15
                if abs(got - fd) <= 1e-5 * max(1.0, abs(fd), abs(got)) + 4e-15 * lscale[0] / FD_H:
                    run.tolerance += 1
                else:
                    run.violation("gradient-wrong", dict(scen, X=X, entry=[u, j]),
                                  f"autograd gives {got} for entry {j} of a parameter, central finite differences of the reference evaluation give {fd} ({semiring})")
                    return
    finally:
        mc.drop()


def check(run: Run, tier: str, seed: int):
    n = 200 if tier == "quick" else 1200
    for i in range(n):
        cls, opts, semirings, exact = CLASSES[i % len(CLASSES)]
        srng = random.Random(f"C13-{seed}-{i}")
        o = dict(opts)
        spec = gen.gen_spec(srng, **o)
        if len(spec["layers"]) > 30:
            spec = gen.gen_spec(srng, nv=2, **o)
        if cls in ("signed_zero", "pos_zero"):
            spec = gen.zero_some(spec, srng)
        if cls in ("emb_pos", "signed") and i % 2:
            spec = freeze_some(spec, srng)
        semiring = semirings[(i // len(CLASSES)) % len(semirings)]
        scen = {"spec": spec, "class": cls, "semiring": semiring, "exact": exact, "B": 3}
        feats = gen.spec_features(spec)
        run.case({"spec": spec, "semiring": semiring}, nontrivial=feats["had"] + feats["kron"] > 0 and any(d["t"] == "sum" for d in spec["layers"]),
                 sample=scen if i < 1 else None,
                 features={"class": cls, "semiring": semiring, "kron": feats["kron"] > 0, "vars": feats["vars"],
                           "frozen": any(isinstance(v, dict) and v.get("frozen") for d in spec["layers"] for v in d.values())})
        run_scenario(run, scen, srng)


def replay(run: Run, body: dict):
    s = {k: v for k, v in body["scenario"].items() if k not in ("entry",)}
    run_scenario(run, s, random.Random(0))
