"""C16 — region-graph constructions are valid and yield well-formed circuits."""
from __future__ import annotations

import os
import random
import tempfile

import numpy as np
import torch

import common
import leanmodel
from framework import Run
from cirkit.symbolic.layers import CategoricalLayer, EmbeddingLayer, HadamardLayer, KroneckerLayer, SumLayer
from cirkit.symbolic.parameters import mixing_weight_factory
from cirkit.templates.region_graph import (ChowLiuTree, FullyFactorized, LinearTree, PoonDomingos, QuadGraph, QuadTree,
                                           RandomBinaryTree, RegionGraph)
from cirkit.templates.region_graph.graph import PartitionNode, RegionNode
from cirkit.templates.utils import Parameterization, parameterization_to_factory

RULE = ("every region-graph algorithm over an argument grid (RandomBinaryTree: variables 1-9 x depth None/1..3 x "
        "repetitions 1-3 x seeds; LinearTree: sizes x repetitions x orderings x randomize; FullyFactorized; QuadTree "
        "(2 and 4 splits) and QuadGraph over image shapes incl. non-square and multi-channel; PoonDomingos with scalar / "
        "per-axis delta lists and max depth; ChowLiuTree on random categorical and Gaussian data): the serialised graph "
        "is validated by the Lean model (RG.valid, roots cover, RG.isSD vs the real flag, dump/load round trip both in "
        "the model and through the real dump()/load()), then build_circuit with cp / cp-t / tucker and with explicit "
        "sum/product factories (Hadamard and Kronecker), 1-3 input/sum units and classes: the Lean model recomputes from "
        "the serialised circuit that it is well-formed, smooth, decomposable, over exactly the graph's variables, "
        "structured-decomposable when the graph is, with num_classes units per output; "
        "non-trivial = distinct (algorithm, arguments, builder) with at least one partition")


def ser_rg(rg: RegionGraph) -> dict:
    regs = list(rg.region_nodes)
    idx = {id(r): i for i, r in enumerate(regs)}
    parts = []
    for p in rg.partition_nodes:
        outs = rg.node_outputs(p)
        parts.append({"out": idx[id(outs[0])] if len(outs) == 1 else 10 ** 6, "ins": [idx[id(r)] for r in rg.node_inputs(p)],
                      "scope": sorted(int(v) for v in p.scope)})
    return {"regions": [sorted(int(v) for v in r.scope) for r in regs], "partitions": parts,
            "roots": [idx[id(r)] for r in rg.outputs]}


def make_rg(spec: dict):
    a = spec["alg"]
    k = dict(spec["args"])
    if a == "rbt":
        return RandomBinaryTree(k["n"], depth=k["depth"], num_repetitions=k["rep"], seed=k["seed"])
    if a == "linear":
        return LinearTree(k["n"], num_repetitions=k["rep"], ordering=k.get("ordering"), randomize=k["randomize"], seed=k["seed"])
    if a == "ff":
        return FullyFactorized(k["n"], num_repetitions=k["rep"])
    if a == "qt":
        return QuadTree(tuple(k["shape"]), num_patch_splits=k["splits"])
    if a == "qg":
        return QuadGraph(tuple(k["shape"]))
    if a == "pd":
        return PoonDomingos(tuple(k["shape"]), delta=k["delta"], max_depth=k.get("max_depth"))
    if a == "clt":
        g = torch.Generator().manual_seed(k["seed"])
        if k["type"] == "categorical":
            data = torch.randint(0, k["cats"], (k["rows"], k["n"]), generator=g)
            # make some features dependent so the tree is not arbitrary
            data[:, 1 % k["n"]] = (data[:, 0] + (torch.rand(k["rows"], generator=g) < 0.2).long()) % k["cats"]
            return ChowLiuTree(data, input_type="categorical", num_categories=k["cats"], root=k.get("root"))
        data = torch.randn(k["rows"], k["n"], generator=g)
        data[:, 1 % k["n"]] = data[:, 0] * 0.7 + 0.3 * data[:, 1 % k["n"]]
        return ChowLiuTree(data, input_type="gaussian", root=k.get("root"))
    raise ValueError(a)


def rand_rg_spec(rng: random.Random) -> dict:
    a = rng.choice(["rbt", "rbt", "linear", "ff", "qt", "qg", "pd", "clt"])
    if a == "rbt":
        n = rng.choice([1, 2, 3, 4, 5, 5, 6, 6, 7, 8, 9])
        maxd = max(0, int(np.floor(np.log2(n)))) if n > 1 else 0
        depth = rng.choice([None, None] + list(range(0, maxd + 1)))
        return {"alg": a, "args": {"n": n, "depth": depth, "rep": rng.choice([1, 2, 2, 3]), "seed": rng.randrange(1000)}}
    if a == "linear":
        n = rng.randint(1, 7)
        ordering = None
        if rng.random() < 0.4:
            ordering = list(range(n)); rng.shuffle(ordering)
        return {"alg": a, "args": {"n": n, "rep": rng.choice([1, 2, 2, 3]), "ordering": ordering,
                                   "randomize": ordering is None and rng.random() < 0.7, "seed": rng.randrange(1000)}}
    if a == "ff":
        return {"alg": a, "args": {"n": rng.randint(1, 7), "rep": rng.choice([1, 2, 3])}}
    shape = [rng.choice([1, 1, 2, 3]), rng.randint(1, 5), rng.randint(1, 5)]
    if a == "qt":
        return {"alg": a, "args": {"shape": shape, "splits": rng.choice([2, 4])}}
    if a == "qg":
        return {"alg": a, "args": {"shape": shape}}
    if a == "pd":
        shape = [rng.choice([1, 2]), rng.randint(1, 4), rng.randint(1, 4)]
        delta = rng.choice([1, 2, [1, 2], [[1, 1], [2, 1]], 1.5, [[1, 2], [2, 2]]])
        if shape[1] == 1 and shape[2] == 1:
            shape[2] = 2
        return {"alg": a, "args": {"shape": shape, "delta": delta, "max_depth": rng.choice([None, None, 1, 2])}}
    n = rng.randint(2, 6)
    return {"alg": "clt", "args": {"n": n, "rows": 60, "cats": 3, "type": rng.choice(["categorical", "gaussian"]),
                                   "seed": rng.randrange(1000), "root": rng.choice([None, 0, n - 1])}}


def run_scenario(run: Run, scen: dict, rng: random.Random):
    d = leanmodel.driver("rat")
    try:
        rg = make_rg(scen["rg"])
    except Exception as e:  # noqa: BLE001
        run.violation("construction-crash", scen, f"{scen['rg']['alg']} with valid arguments raised {type(e).__name__}: {e}")
        return
    s = ser_rg(rg)
    r = d.call({"cmd": "rg", **s})
    run.evaluations += 1
    nvars = scen["rg"]["args"].get("n") or int(np.prod(scen["rg"]["args"]["shape"]))
    if not r["valid"]:
        run.violation("invalid-region-graph", dict(scen, rg_ser=s), "a partition does not split its region into non-empty pairwise disjoint regions covering it (or a partition has no single parent / a scope is empty)")
        return
    if not r["roots_cover"] or r["scope"] != list(range(nvars)):
        run.violation("root-coverage", dict(scen, rg_ser=s), f"roots do not cover all {nvars} variables: scope {r['scope']}")
        return
    if bool(rg.is_structured_decomposable) != r["sd"]:
        run.violation("sd-flag", dict(scen, rg_ser=s), f"is_structured_decomposable={rg.is_structured_decomposable}, but by its partitions the graph is {'structured' if r['sd'] else 'not structured'}-decomposable")
        return
    # dump / load
    try:
        with tempfile.TemporaryDirectory() as td:
            fn = os.path.join(td, "rg.json")
            rg.dump(fn)
            rg2 = RegionGraph.load(fn)
        s2 = ser_rg(rg2)
    except Exception as e:  # noqa: BLE001
        run.violation("dump-load-crash", scen, f"{type(e).__name__}: {e}")
        return
    canon = lambda z: (z["regions"], sorted((p["out"], tuple(p["ins"])) for p in z["partitions"]), z["roots"])  # noqa: E731
    if canon(s) != canon(s2) or not r["roundtrip"]:
        run.violation("dump-load", dict(scen, rg_ser=s, loaded=s2), "saving and loading the region graph changed it")
        return
    run.exact += 1
    # build circuits
    b = scen["build"]
    K, Ki, C = b["num_sum_units"], b["num_input_units"], b["num_classes"]
    wf = parameterization_to_factory(Parameterization(activation="softmax", initialization="normal"))
    input_factory = lambda scope, num_units: CategoricalLayer(scope, num_units, num_categories=3)  # noqa: E731
    kw = dict(input_factory=input_factory, num_input_units=Ki, num_sum_units=K, num_classes=C)
    try:
        if b["kind"] in ("cp", "cp-t", "tucker"):
            if b["kind"] in ("cp-t", "tucker"):
                kw["num_input_units"] = K  # these abstractions need equally sized inputs
            nary = (lambda shape: mixing_weight_factory(shape, param_factory=wf)) if b["mixing"] else wf
            sc = rg.build_circuit(sum_product=b["kind"], sum_weight_factory=wf, nary_sum_weight_factory=nary, **kw)
        else:
            kw["num_input_units"] = Ki
            sum_factory = lambda ni, no: SumLayer(ni, no, weight_factory=wf)  # noqa: E731
            if b["kind"] == "factories-had":
                prod_factory = lambda ni, ar: HadamardLayer(ni, arity=ar)  # noqa: E731
            else:
                prod_factory = lambda ni, ar: KroneckerLayer(ni, arity=ar)  # noqa: E731
            sc = rg.build_circuit(sum_factory=sum_factory, prod_factory=prod_factory, sum_weight_factory=wf, **kw)
    except Exception as e:  # noqa: BLE001
        run.violation("build-circuit-crash", scen, f"build_circuit({b}) raised {type(e).__name__}: {e}")
        return
    mc = common.ModelCircuit(sc)
    try:
        mp = mc.d.props(mc.cid)
    finally:
        mc.drop()
    run.evaluations += 1
    if not mp["wf"] or not mp["smooth"] or not mp["decomposable"]:
        run.violation("circuit-structure", scen, f"built circuit: well-formed={mp['wf']} smooth={mp['smooth']} decomposable={mp['decomposable']}")
        return
    if mp["scope"] != list(range(nvars)):
        run.violation("circuit-scope", scen, f"built circuit scope {mp['scope']} != variables of the region graph")
        return
    if r["sd"] and not mp["structured_decomposable"]:
        run.violation("circuit-not-sd", scen, "the region graph is structured-decomposable but the built circuit is not")
        return
    if any(u != C for u in mp["out_units"]) or mp["num_outputs"] != len(rg.outputs):
        # D19 (recorded) concerns the sum-product abstractions on a single-region graph only; with explicit
        # layer factories the library does honour num_classes there
        tag = "circuit-outputs" if (s["partitions"] or b["kind"] not in ("cp", "cp-t", "tucker")) else "circuit-outputs-single-region"
        run.violation(tag, scen, f"output units {mp['out_units']} (expected {C} each), {mp['num_outputs']} outputs for {len(rg.outputs)} roots")
        return
    run.exact += 1


def check(run: Run, tier: str, seed: int):
    n = 300 if tier == "quick" else 2000
    for i in range(n):
        srng = random.Random(f"C16-{seed}-{i}")
        rgs = rand_rg_spec(srng)
        build = {"kind": ["cp", "cp-t", "tucker", "factories-had", "factories-kron"][i % 5],
                 "num_sum_units": srng.choice([1, 2, 3]), "num_input_units": srng.choice([1, 2, 3]),
                 "num_classes": srng.choice([1, 1, 2, 3]), "mixing": srng.random() < 0.5}
        scen = {"rg": rgs, "build": build}
        run.case(scen, nontrivial=True, sample=scen if i < 2 else None,
                 features={"alg": rgs["alg"], "build": build["kind"], "classes": build["num_classes"]})
        run_scenario(run, scen, srng)


def replay(run: Run, body: dict):
    run_scenario(run, body["scenario"], random.Random(0))
