"""Entry point: ./check <ID> [quick|thorough] | ./check <ID> --replay <path>"""
from __future__ import annotations

import importlib
import json
import os
import sys

import framework
import leanmodel


def main() -> int:
    if len(sys.argv) < 2:
        print("usage: check <ID> [quick|thorough] | check <ID> --replay <path>", file=sys.stderr)
        return 2
    pid = sys.argv[1].upper()
    tier = os.environ.get("VERIF_TIER", "quick")
    replay_path = None
    args = sys.argv[2:]
    if args and args[0] == "--replay":
        replay_path = args[1]
    elif args:
        tier = args[0]
    seed = int(os.environ.get("VERIF_SEED", "0"))
    mod = importlib.import_module(pid.lower())
    # proof side first: depends only on /verif; failure = broken machinery (exit 2)
    if os.environ.get('VERIF_DEV_SKIP_PROOF'):
        proof = {'obligations': 0, 'discharged': 0, 'theorems': [], 'checker_cmd': 'SKIPPED (development only)'}
    else:
        proof = framework.proof_audit(pid)
    if tier == "thorough" and not replay_path:
        proof.update(framework.leanchecker(pid))
    run = framework.Run(pid, tier, seed if not replay_path else 999999, rule=mod.RULE, clean=not replay_path)
    run.assumptions = list(getattr(mod, "ASSUMPTIONS", []))
    try:
        if replay_path:
            body = json.load(open(replay_path))
            mod.replay(run, body)
            for v in run.violations:
                print("replayed:", v["detail"])
            code = 1 if run.violations else 0
            print("replay:", "violation reproduced" if code else "no violation on this tree")
            return code
        try:
            mod.check(run, tier, seed)
        except framework.TooManyViolations:
            pass
        return run.finish(proof)
    finally:
        leanmodel.close_all()


if __name__ == "__main__":
    framework.main_wrapper(main)
