"""C01 — the compiled circuit computes the function its symbolic circuit denotes."""
from __future__ import annotations

import random

import numpy as np

import common
import gen
import real
import ser
from framework import Run

CLASSES = [
    # name, generator options, semirings
    ("emb_real", dict(leaf_kinds=["emb"], weight_pz=["id"]), ["sum-product", "lse-sum", "complex-lse-sum"]),
    ("emb_poly_signed", dict(leaf_kinds=["emb", "poly"], weight_pz=["id"], signed=True),
     ["sum-product", "complex-lse-sum"]),
    ("complex", dict(leaf_kinds=["emb", "poly"], weight_pz=["id"], signed=True, complex=True),
     ["complex-lse-sum"]),
    # products of exact zeros in log space: nested Kronecker layers over units that are identically zero
    ("kron_zero", dict(leaf_kinds=["emb", "poly"], weight_pz=["id"], signed=True, prod_kinds=["kron"], units=[1, 2]),
     ["complex-lse-sum"]),
    ("expfam", dict(leaf_kinds=["cat_probs", "cat_softmax", "cat_logits", "bin_probs", "bin_logits",
                                "gauss", "gauss_lp", "emb"],
                    weight_pz=["id", "softmax", "exp", "sigmoid", "softplus", "square", "scaled_sigmoid", "clamp"]),
     ["sum-product", "lse-sum"]),
]

RULE = ("random hierarchical circuits (generator harness/gen.py: 1-5 variables with ids up to 17, sum arity 1-3 "
        "dense/mixing, Hadamard/Kronecker arity 2-3, 1-3 units per layer, 1-3 outputs incl. inner layers as outputs, "
        "shared sub-circuits) x 5 parameter classes (one with identically-zero units under nested Kronecker products) x semiring x (fold, optimize) x batch sizes {1,2,F,F+1}; "
        "non-trivial = distinct canonical spec with at least one sum and one product layer")


def run_scenario(run: Run, spec: dict, cls: str, semiring: str, fold: bool, optimize: bool, rng: random.Random):
    scen = {"spec": spec, "class": cls, "semiring": semiring, "fold": fold, "optimize": optimize}
    sc = gen.build_circuit(spec)
    cplx = common.spec_is_complex(spec)
    mc = common.ModelCircuit(sc, cplx=cplx)
    try:
        if not mc.wf:
            run.violation("model-wf", scen, "generator produced a circuit the model calls ill-formed",
                          no_failing_input=True, broken="correspondence: Circuit.__init__ accepts vs SCirc.wf")
            return
        try:
            comp, tc = real.compile_circuit(sc, fold=fold, optimize=optimize, semiring=semiring)
        except Exception as e:  # noqa: BLE001
            run.violation("compile-crash", scen, f"compilation raised {type(e).__name__}: {e}")
            return
        params = ser.tensor_params(sc)
        theta = real.read_theta(comp, params)
        Fs = common.fold_counts(tc)
        sizes = sorted({1, 2, max(Fs), max(Fs) + 1} | ({Fs[len(Fs) // 2]} if Fs else set()))
        for B in sizes:
            X = gen.gen_inputs(rng, spec, B)
            scen_b = dict(scen, X=X)
            try:
                y = real.evaluate(tc, common.input_array(X, spec), semiring=semiring)
            except Exception as e:  # noqa: BLE001
                run.violation("eval-crash", scen_b, f"evaluation raised {type(e).__name__}: {e} (batch size {B}, folds {Fs})")
                return
            try:
                m = mc.eval(theta, X)
                mag = mc.magnitude(theta, X)
            except Exception as e:  # noqa: BLE001
                raise RuntimeError(f"model evaluation failed: {e}")
            run.evaluations += 1
            try:
                ne, nt = common.compare(y, m, mag, mc.mode)
                run.exact += ne
                run.tolerance += nt
            except common.Mismatch as mm:
                run.violation("value-mismatch", scen_b,
                              f"compiled output differs from the denotation: {mm} {mm.detail} "
                              f"(batch size {B}, folds {Fs}, mode {mc.mode})")
                return
            # each row depends only on its own input row (real-code-only oracle)
            if B > 1:
                try:
                    rows = [real.evaluate(tc, common.input_array([x], spec), semiring=semiring)[0] for x in X]
                    common.compare_arrays(np.stack(rows), y, tol=1e-11, what="row-wise vs batch")
                except common.Mismatch as mm:
                    run.violation("row-dependence", scen_b, f"{mm} {mm.detail} (batch size {B}, folds {Fs})")
                    return
                except Exception as e:  # noqa: BLE001
                    run.violation("eval-crash", scen_b, f"single-row evaluation raised {type(e).__name__}: {e}")
                    return
    finally:
        mc.drop()


def check(run: Run, tier: str, seed: int):
    rng = random.Random(f"C01-{seed}")
    n = 320 if tier == "quick" else 1600
    combos_per = 3 if tier == "quick" else 12
    for i in range(n):
        cls, opts, semirings = CLASSES[i % len(CLASSES)]
        srng = random.Random(f"C01-{seed}-{i}")
        o = dict(opts)
        if cls == "expfam":
            o["units"] = [1, 2]
        spec = gen.gen_spec(srng, **o)
        if len(spec["layers"]) > (40 if tier == "quick" else 70):
            spec = gen.gen_spec(srng, nv=2, **o)
        if cls == "kron_zero" and i % 2:
            spec = gen.nested_kron_spec(srng, cplx=srng.random() < 0.3)
            run.feature("nested_kron_chain", True)
        if cls == "kron_zero" or (cls != "expfam" and i % 8 >= 4):
            spec = gen.zero_some(spec, srng)  # exact zeros: -inf in log space
            run.feature("exact_zero_units", True)
        feats = gen.spec_features(spec)
        nontrivial = feats["had"] + feats["kron"] > 0 and any(d["t"] == "sum" for d in spec["layers"])
        run.case(spec, nontrivial=nontrivial, sample={"class": cls, "spec": spec} if i < 2 else None,
                 features={"class": cls, "layers_bucket": feats["layers"] // 10 * 10, "vars": feats["vars"],
                           "outputs": feats["outputs"], "sum_arity_max": feats["sum_arity_max"],
                           "max_var>=8": feats["max_var"] >= 8, "kron": feats["kron"] > 0,
                           "mixing": feats["mixing"] > 0})
        all_combos = [(s, f, op) for s in semirings for (f, op) in real.FLAGS]
        rng.shuffle(all_combos)
        # always include a folded combination
        chosen = all_combos[:combos_per]
        if not any(f for _, f, _ in chosen):
            chosen[-1] = next(c for c in all_combos if c[1])
        for semiring, fold, optimize in chosen:
            run.feature("semiring", semiring)
            run.feature("flags", f"fold={fold},optimize={optimize}")
            run_scenario(run, spec, cls, semiring, fold, optimize, srng)


def replay(run: Run, body: dict):
    s = body["scenario"]
    rng = random.Random(0)
    run_scenario(run, s["spec"], s.get("class", "?"), s["semiring"], s["fold"], s["optimize"], rng)
