"""C15 — sampling draws from the distribution the circuit encodes."""
from __future__ import annotations

import copy
import itertools
import math
import random

import numpy as np
import torch

import common
import gen
import real
import ser
from framework import Run
from cirkit.backend.torch.layers.inner import TorchHadamardLayer, TorchKroneckerLayer, TorchSumLayer
from cirkit.backend.torch.layers.input import TorchInputLayer
from cirkit.backend.torch.layers.optimized import TorchCPTLayer, TorchTuckerLayer
from cirkit.backend.torch.queries import SamplingQuery

RULE = ("normalised monotonic smooth decomposable circuits (generator harness/gen.py restricted to categorical inputs "
        "given by probabilities incl. one-hot rows or softmax, binomial inputs (probabilities or logits), softmax-normalised sum weights "
        "of arity 1-3 dense / mixing, Hadamard and Kronecker products of arity 2-3, 1-3 units, scopes {0..n-1}; a few "
        "scopes with gaps) x (fold, optimize) x torch seeds; one instrumented SamplingQuery run of N samples: (a) every "
        "layer step checked deterministically against the model's sampling equations on the recorded mixture choices "
        "(sum: the drawn column m selects input m div K_in, unit m mod K_in — the column the evaluation multiplies by "
        "weight m; Hadamard / CP-T: union over all inputs; Kronecker / Tucker: mixed-radix digits; inputs: own column only, value in "
        "the domain), (b) the returned rows are the root's rows, (c) frequencies of the drawn columns vs the weight rows and "
        "(d) of the returned assignments vs the exact probabilities computed by the Lean evaluator, within 6 standard "
        "deviations, and no sample with probability zero, (e) for plain compilations the returned rows vs the model's "
        "propagate / follow (Model/Sample.lean) run on the recorded draws; the parameters are then re-randomised in place "
        "and the same compiled circuit is sampled again ((a), (c)-(e) against the current weights); non-trivial = distinct (spec, flags)")

OPTS = dict(leaf_kinds=["cat_probs", "cat_probs", "cat_softmax", "bin_probs", "bin_logits"],
            weight_pz=["softmax"], units=[1, 2, 3], kout=1, nout=1, inner_outputs=False)
SIGMA = 6.0


def sparsify(spec: dict, rng) -> dict:
    """Turn some probability rows into one-hot rows: the support becomes sparse, so a wrongly routed sample has
    probability zero."""
    s = copy.deepcopy(spec)
    for d in s["layers"]:
        if d["t"] == "cat" and "probs" in d and d["probs"]["pz"] == "id":
            k, n = d["probs"]["inner"]
            for r in range(k):
                if rng.random() < 0.5:
                    hot = rng.randrange(n)
                    for j in range(n):
                        d["probs"]["vals"][r * n + j] = 1.0 if j == hot else 0.0
    return s


class Rec:
    def __init__(self):
        self.calls = []  # (layer, inputs, output, mix)


def instrumented_sample(tc, N: int, seed: int):
    q = SamplingQuery(tc)
    rec = Rec()
    orig = getattr(q, "_layer_fn", None)
    if orig is None:  # refactored away: only the statistical part of the check remains
        torch.manual_seed(seed)
        with torch.no_grad():
            samples, mixtures = q(N)
        return samples, mixtures, None

    def spy(layer, *inputs, num_samples, mixture_samples):
        before = len(mixture_samples)
        out = orig(layer, *inputs, num_samples=num_samples, mixture_samples=mixture_samples)
        mix = mixture_samples[before] if len(mixture_samples) > before and not isinstance(layer, TorchInputLayer) else None
        rec.calls.append((layer, [i.clone() for i in inputs], out.clone(), None if mix is None else mix.clone()))
        return out

    q._layer_fn = spy
    torch.manual_seed(seed)
    with torch.no_grad():
        samples, mixtures = q(N)
    return samples, mixtures, rec


def local_checks(rec: Rec, N: int, D: int, doms: dict[int, int], vs: list[int]):
    """Deterministic per-layer equations. Returns (None | (tag, detail)), number of checks, and the list of
    (weight rows, drawn columns) for the frequency test."""
    draws = []
    n = 0
    for layer, inputs, out, mix in rec.calls:
        name = type(layer).__name__
        if isinstance(layer, TorchInputLayer):
            # out: (F, K, N, D); only the column of the layer's variable may be non-zero
            F = out.shape[0]
            if out.shape[2:] != (N, D):
                return ("sample-shape", f"{name} returns samples of shape {tuple(out.shape)} for N={N}, D={D}"), n, draws
            sidx = layer.scope_idx  # (F, 1)
            for f in range(F):
                col = int(sidx[f, 0])
                other = [c for c in range(D) if c != col]
                if other and torch.any(out[f][..., other] != 0):
                    return ("input-column", f"{name} fold {f} over variable column {col} writes into other columns"), n, draws
                v = vs[col] if col < len(vs) else None
                dom = doms.get(v)
                if dom is not None:
                    x = out[f][..., col]
                    if torch.any(x < 0) or torch.any(x >= dom) or torch.any(x != torch.round(x)):
                        return ("input-support", f"{name} over variable {v} samples values outside 0..{dom - 1}"), n, draws
                n += 1
            continue
        (x,) = inputs  # (F, H, K, N, D)
        F, H, K = x.shape[0], x.shape[1], x.shape[2]
        if isinstance(layer, TorchHadamardLayer):
            want = x.sum(dim=1)
        elif isinstance(layer, TorchKroneckerLayer):
            want = torch.zeros((F, K ** H, N, D), dtype=x.dtype)
            for o in range(K ** H):
                acc = 0
                for h in range(H):
                    digit = (o // (K ** (H - 1 - h))) % K
                    acc = acc + x[:, h, digit]
                want[:, o] = acc
        elif isinstance(layer, (TorchSumLayer, TorchCPTLayer, TorchTuckerLayer)):
            if mix is None:
                return ("no-mixture-samples", f"{name} reports no mixture samples"), n, draws
            with torch.no_grad():
                w = layer.weight()  # (F, Ko, cols)
            Ko = w.shape[1]
            if tuple(mix.shape) != (F, Ko, N):
                return ("sample-shape", f"{name} mixture samples of shape {tuple(mix.shape)}, expected {(F, Ko, N)}"), n, draws
            want = torch.zeros((F, Ko, N, D), dtype=x.dtype)
            ar = torch.arange(N)
            for f in range(F):
                for o in range(Ko):
                    m = mix[f, o]  # (N,)
                    if isinstance(layer, TorchSumLayer):
                        # column m of the weight multiplies unit m mod K of input m div K in the evaluation
                        want[f, o] = x[f, m // K, m % K, ar]
                    elif isinstance(layer, TorchCPTLayer):
                        # CP-T: column m weighs unit m of the Hadamard product of all inputs
                        want[f, o] = x[f, :, m, ar].sum(dim=0)
                    else:
                        # Tucker: column m weighs unit m of the Kronecker product (mixed-radix digits of m)
                        acc = 0
                        for h in range(H):
                            acc = acc + x[f, h, (m // (K ** (H - 1 - h))) % K, ar]
                        want[f, o] = acc
            draws.append((name, w.detach().numpy(), mix.numpy()))
        else:
            return ("unknown-layer", f"no sampling equation for {name}"), n, draws
        if want.shape != out.shape or not torch.equal(want.to(out.dtype), out):
            bad = None
            if want.shape == out.shape:
                idx = torch.nonzero((want.to(out.dtype) != out).any(dim=-1))[0].tolist()
                bad = f"fold {idx[0]}, unit {idx[1]}, sample {idx[2]}: got {out[tuple(idx)].tolist()}, the equation gives {want[tuple(idx)].tolist()}"
            return ("layer-sampling-equation", f"{name} (arity {H}, {K} input units): {bad or ('shape ' + str(tuple(out.shape)))}"), n, draws
        n += 1
    return None, n, draws


def freq_outlier(count: int, N: int, p: float) -> bool:
    if p <= 0.0:
        return count > 0
    if p >= 1.0:
        return count < N
    sd = math.sqrt(N * p * (1 - p))
    return abs(count - N * p) > SIGMA * sd + 1.0


def run_scenario(run: Run, scen: dict, rng: random.Random):
    spec, fold, optimize, N = scen["spec"], scen["fold"], scen["optimize"], scen["N"]
    sc = gen.build_circuit(spec)
    vs = sorted(sc.scope)
    gaps = vs != list(range(len(vs)))
    try:
        comp, tc = real.compile_circuit(sc, fold=fold, optimize=optimize, semiring=scen.get("semiring", "sum-product"))
    except Exception as e:  # noqa: BLE001
        run.violation("compile-crash", scen, f"{type(e).__name__}: {e}")
        return
    doms = {int(v): int(spec["states"][str(v)]) for v in vs}
    try:
        samples, mixtures, rec = instrumented_sample(tc, N, scen["torch_seed"])
    except Exception as e:  # noqa: BLE001
        run.violation("sampling-scope-gaps" if gaps else "sampling-crash", scen,
                      f"SamplingQuery raised {type(e).__name__}: {e} (scope {vs}, fold={fold}, optimize={optimize})")
        return
    D = len(vs)
    if tuple(samples.shape) != (N, D):
        run.violation("sampling-scope-gaps" if gaps else "sample-shape", scen, f"samples of shape {tuple(samples.shape)} for N={N} and scope {vs}")
        return
    if gaps:
        # columns are indexed by position in the scope in the returned tensor; nothing further is specified
        run.feature("scope_gaps_survived", True)
    # (a) per-layer equations
    if rec is None:
        run.feature("unobservable", "SamplingQuery._layer_fn")
        bad, nchecks, draws = None, 0, []
    else:
        bad, nchecks, draws = local_checks(rec, N, D, doms, vs)
    run.evaluations += nchecks
    if bad:
        run.violation("sampling-scope-gaps" if gaps else bad[0], scen, f"{bad[1]} (fold={fold}, optimize={optimize})")
        return
    run.exact += nchecks
    # (b) the returned rows are the rows of unit 0 of the first output
    root = rec.calls[-1][2] if rec is not None else samples
    # evaluate() stacks the outputs: (O, K, N, D) for a single output with one unit, fold 0
    if not torch.equal(samples, root[0, 0] if root.dim() == 4 else samples):
        run.violation("returned-rows", scen, "the returned samples are not the rows of the output unit")
        return
    # (c) frequencies of the drawn columns
    for name, w, mix in draws:
        F, Ko, C = w.shape
        for f in range(F):
            for o in range(Ko):
                cnt = np.bincount(mix[f, o], minlength=C)
                for c in range(C):
                    run.tolerance += 1
                    if freq_outlier(int(cnt[c]), N, float(w[f, o, c])):
                        run.violation("mixture-frequencies", scen,
                                      f"{name} fold {f} unit {o}: column {c} drawn {int(cnt[c])}/{N} times, weight {float(w[f, o, c]):.6f}")
                        return
    # (c2) the parameters change (as by a training step or load_state_dict) and the same compiled circuit is
    #      sampled again: the draws must follow the *current* weights
    if rec is not None and scen.get("phase2", True):
        with torch.no_grad():
            for p_ in tc.parameters():
                if not (p_.requires_grad and p_.is_floating_point()):
                    continue
                for f_ in range(p_.shape[0]):  # fold slices: tensors of different roles may share one folded tensor
                    q_ = p_[f_]
                    if bool((q_ >= 0).all()) and torch.allclose(q_.sum(dim=-1), torch.ones(1, dtype=q_.dtype)):
                        continue  # probabilities given directly: leave them normalised
                    q_.copy_(torch.randn_like(q_) * 1.5)
        try:
            samples, mixtures, rec = instrumented_sample(tc, N, scen["torch_seed"] + 1)
        except Exception as e:  # noqa: BLE001
            run.violation("sampling-crash", scen, f"second SamplingQuery after a parameter update raised {type(e).__name__}: {e}")
            return
        bad, nchecks, draws = local_checks(rec, N, D, doms, vs)
        run.evaluations += nchecks
        if bad:
            run.violation(bad[0], scen, f"{bad[1]} (after a parameter update; fold={fold}, optimize={optimize})")
            return
        for name, w, mix in draws:
            F, Ko, C = w.shape
            for f in range(F):
                for o in range(Ko):
                    cnt = np.bincount(mix[f, o], minlength=C)
                    for c in range(C):
                        run.tolerance += 1
                        if freq_outlier(int(cnt[c]), N, float(w[f, o, c])):
                            run.violation("mixture-frequencies-after-update", scen,
                                          f"{name} fold {f} unit {o}: after the parameters changed, column {c} is drawn {int(cnt[c])}/{N} times but its current weight is {float(w[f, o, c]):.6f}")
                            return
    # (d) joint frequencies vs exact probabilities from the model
    params = ser.tensor_params(sc)
    theta = real.read_theta(comp, params)
    mc = common.ModelCircuit(sc)
    try:
        rows = []
        for a in itertools.product(*[range(doms[v]) for v in vs]):
            r = [0] * (max(vs) + 1)
            for v, val in zip(vs, a):
                r[v] = val
            rows.append(r)
        # (e) the model's propagate / follow (Model/Sample.lean; C15.propagate_eq_follow, follow_complete) on the
        #     recorded draws: plain compilation only, where compiled layers are the symbolic layers in order
        if rec is not None and not fold and not optimize and len(rec.calls) == len(mc.ser["layers"]):
            M = min(N, 200)
            draws = []
            kinds = {"sum": TorchSumLayer, "had": TorchHadamardLayer, "kron": TorchKroneckerLayer}
            aligned = all(isinstance(call[0], kinds.get(d["t"], TorchInputLayer)) and
                          (d["t"] in kinds or vs[int(call[0].scope_idx[0, 0])] == d["v"])
                          for d, call in zip(mc.ser["layers"], rec.calls))
            if not aligned:
                run.feature("unobservable", "compiled layer order")
            for li, (layer, inputs, out, mix) in enumerate(rec.calls if aligned else []):
                if isinstance(layer, TorchInputLayer):
                    col = int(layer.scope_idx[0, 0])
                    draws.append({"layer": li, "samples": [[int(out[0, r, n, col]) for r in range(out.shape[1])] for n in range(M)]})
                elif mix is not None:
                    draws.append({"layer": li, "samples": [[int(mix[0, r, n]) for r in range(mix.shape[1])] for n in range(M)]})
            r = None
            if aligned:
                try:
                    r = mc.d.call({"cmd": "sample_propagate", "id": mc.cid, "vars": vs, "draws": draws})
                except Exception as e:  # noqa: BLE001
                    run.violation("model-propagate", scen, f"the model rejects the recorded draws: {e}", no_failing_input=True,
                                  broken="correspondence: Model/Sample.lean propagate vs SamplingQuery")
                    return
            for n in range(M if r is not None else 0):
                run.evaluations += 1
                got = [int(x) for x in samples[n].tolist()]
                if not (r["fits"][n] and r["agree"][n]) or r["rows"][n] != got:
                    run.violation("propagate-mismatch", dict(scen, sample=n),
                                  f"sample {n}: SamplingQuery returns {got}, the model's propagation of the recorded draws gives {r['rows'][n]} "
                                  f"(top-down walk {r['follow'][n]}, draws fit: {r['fits'][n]})")
                    return
                run.exact += 1
            if r is not None:
                run.feature("model_propagate_compared", True)
        m = mc.eval(theta, rows)
        probs = {tuple(r[v] for v in vs): float(m[i][0][0]) for i, r in enumerate(rows)}
        tot = sum(probs.values())
        if abs(tot - 1.0) > 1e-9:
            run.violation("generator-not-normalised", scen, f"model probabilities sum to {tot}", no_failing_input=True,
                          broken="harness: generated circuit is not normalised")
            return
        counts = {}
        for row in samples.tolist():
            key = tuple(int(x) for x in row)
            counts[key] = counts.get(key, 0) + 1
        for key, c in counts.items():
            if key not in probs:
                run.violation("sample-outside-domain", scen, f"sampled assignment {key} is outside the domains {doms}")
                return
        for key, p in probs.items():
            run.tolerance += 1
            c = counts.get(key, 0)
            if p <= 1e-15 and c > 0:
                run.violation("zero-probability-sample", dict(scen, assignment=list(key)),
                              f"assignment {dict(zip(vs, key))} sampled {c} times but has probability {p} (fold={fold}, optimize={optimize})")
                return
            if freq_outlier(c, N, min(max(p, 0.0), 1.0)):
                run.violation("joint-frequencies", dict(scen, assignment=list(key)),
                              f"assignment {dict(zip(vs, key))}: {c}/{N} samples, probability {p:.6f} (more than {SIGMA} sd; fold={fold}, optimize={optimize})")
                return
    finally:
        mc.drop()


def check(run: Run, tier: str, seed: int):
    n = 180 if tier == "quick" else 900
    N = 3000 if tier == "quick" else 20000
    for i in range(n):
        srng = random.Random(f"C15-{seed}-{i}")
        nv = srng.choice([1, 2, 2, 3, 3, 4])
        vs = list(range(nv))
        if i % 15 == 14 and nv >= 2:
            vs = sorted(srng.sample(range(0, 9), nv))  # a scope with gaps
        o = dict(OPTS, vars=vs)
        if i % 3 == 2:
            o["prod_kinds"] = ["kron", "had"]
        spec = gen.gen_spec(srng, **o)
        if len(spec["layers"]) > 40:
            spec = gen.gen_spec(srng, **dict(o, vars=vs[:2]))
        if i % 2:
            spec = sparsify(spec, srng)
        total = int(np.prod([spec["states"][str(v)] for v in spec["vars"]], dtype=float))
        if total > 600:
            run.feature("skipped_large_domain", True)
            continue
        plain = i % 3 == 0
        scen = {"spec": spec, "fold": (not plain) and srng.random() < 0.6, "optimize": (not plain) and srng.random() < 0.6, "N": N,
                "torch_seed": srng.randrange(10 ** 6), "semiring": srng.choice(["sum-product", "lse-sum"])}
        feats = gen.spec_features(spec)
        run.case({"spec": spec, "f": scen["fold"], "o": scen["optimize"]}, nontrivial=feats["had"] + feats["kron"] > 0,
                 sample=scen if i < 1 else None,
                 features={"flags": f"{scen['fold']},{scen['optimize']}", "vars": feats["vars"], "sum_arity_max": feats["sum_arity_max"],
                           "kron": feats["kron"] > 0, "gaps": spec["vars"] != list(range(len(spec["vars"]))), "sparse": bool(i % 2)})
        run_scenario(run, scen, srng)


def replay(run: Run, body: dict):
    s = {k: v for k, v in body["scenario"].items() if k != "assignment"}
    run_scenario(run, s, random.Random(0))
