"""Operator pipelines: chains of real symbolic operators applied to generated circuits."""
from __future__ import annotations

import random

import gen
import cirkit.symbolic.functional as SF
from cirkit.symbolic.circuit import StructuralPropertyError
from cirkit.utils.scope import Scope


class Refused(Exception):
    """The real operator refused (raised) — allowed by the properties that say 'or refuses'."""

    def __init__(self, op, exc):
        super().__init__(f"{op['op']}: {type(exc).__name__}: {exc}")
        self.op, self.exc = op, exc


def error_class(e: Exception) -> str:
    if isinstance(e, StructuralPropertyError):
        return "structural"
    if isinstance(e, NotImplementedError):
        return "not_implemented"
    if isinstance(e, ValueError):
        return "value"
    if isinstance(e, AssertionError):
        return "assertion"
    if isinstance(e, (KeyError, IndexError)):
        return "signature_not_found"
    return "other:" + type(e).__name__


def apply_op(sc, op: dict, ctx: dict):
    name = op["op"]
    if name == "integrate":
        return SF.integrate(sc, Scope(op["vars"]))
    if name == "evidence":
        return SF.evidence(sc, {int(k): v for k, v in op["obs"].items()})
    if name == "conjugate":
        return SF.conjugate(sc)
    if name == "square":
        return SF.multiply(sc, sc)
    if name == "multiply":
        other = gen.build_circuit(op["other"])
        ctx.setdefault("others", []).append(other)
        return SF.multiply(sc, other)
    if name == "differentiate":
        return SF.differentiate(sc, order=op["order"])
    if name == "concatenate":
        other = gen.build_circuit(op["other"])
        ctx.setdefault("others", []).append(other)
        return SF.concatenate([sc, other])
    raise ValueError(name)


def build_pipeline(spec: dict, ops: list[dict], ctx: dict | None = None):
    """[base, op1(base), op2(op1(base)), ...]; raises Refused if an operator raises."""
    ctx = ctx if ctx is not None else {}
    chain = [gen.build_circuit(spec)]
    for op in ops:
        try:
            chain.append(apply_op(chain[-1], op, ctx))
        except Exception as e:  # noqa: BLE001
            raise Refused(op, e)
    return chain


INTEGRABLE = {"emb", "cat", "gauss"}


def random_ops(rng: random.Random, spec: dict, cls: str, max_ops: int = 2) -> list[dict]:
    """A short random chain of operators that is legal for the leaf kinds of the spec (the real
    operator may still refuse, e.g. on non-compatible operands)."""
    leaf_t = {d["v"]: d["t"] for d in spec["layers"] if "v" in d}
    vs = list(spec["vars"])
    ops = []
    cur_vars = list(vs)
    for _ in range(rng.randint(1, max_ops)):
        cands = ["conjugate"]
        intvars = [v for v in cur_vars if leaf_t.get(v) in INTEGRABLE
                   and all(d["t"] in INTEGRABLE for d in spec["layers"] if d.get("v") == v)]
        if intvars:
            cands += ["integrate", "integrate"]
        obsvars = [v for v in cur_vars]
        if obsvars:
            cands += ["evidence"]
        if not any(o["op"] in ("integrate", "evidence", "square") for o in ops):
            cands += ["square"]
        if all(t == "poly" for t in leaf_t.values()) and not ops:
            cands += ["differentiate", "differentiate"]
        name = rng.choice(cands)
        if name == "integrate":
            zs = rng.sample(intvars, rng.randint(1, len(intvars)))
            ops.append({"op": "integrate", "vars": sorted(zs)})
            cur_vars = [v for v in cur_vars if v not in zs]
        elif name == "evidence":
            zs = rng.sample(obsvars, rng.randint(1, len(obsvars)))
            obs = {}
            for v in zs:
                if str(v) in spec["states"] and v not in spec.get("continuous", []):
                    obs[str(v)] = rng.randrange(spec["states"][str(v)])
                else:
                    obs[str(v)] = rng.choice(range(-8, 9)) / 4
            ops.append({"op": "evidence", "obs": obs})
            cur_vars = [v for v in cur_vars if v not in zs]
        elif name == "differentiate":
            ops.append({"op": "differentiate", "order": rng.choice([1, 1, 2, 3])})
            break
        else:
            ops.append({"op": name})
        if not cur_vars:
            break
    return ops
