"""Structured generator: circuits that follow a vtree *skeleton* (one decomposition per variable
set, fixed product kind per region, every region = one sum layer over >= 1 product layers), the
shape region-graph circuits have.  Two specs generated from the same skeleton are compatible and
multipliable whatever their unit counts, sum arities, repetitions and parameterisations are."""
from __future__ import annotations

import random

import gen


def make_skeleton(rng: random.Random, vs: list[int], *, prod_kinds=("had", "had", "kron"), leaf_sum_p=0.5) -> dict:
    """{'vars': [...], 'regions': {key: {'part': [[...],...], 'kind': 'had'|'kron'} | {'leaf_sum': bool}}}"""
    regions = {}

    def rec(sub):
        key = ",".join(map(str, sorted(sub)))
        if key in regions:
            return
        if len(sub) == 1:
            regions[key] = {"leaf_sum": rng.random() < leaf_sum_p}
            return
        k = 2 if len(sub) < 3 or rng.random() < 0.7 else 3
        sub = list(sub)
        rng.shuffle(sub)
        cuts = sorted(rng.sample(range(1, len(sub)), k - 1))
        part = [sorted(sub[a:b]) for a, b in zip([0] + cuts, cuts + [len(sub)])]
        kind = rng.choice(list(prod_kinds))
        regions[key] = {"part": part, "kind": kind}
        for p in part:
            rec(p)

    rec(vs)
    return {"vars": sorted(vs), "regions": regions}


def gen_structured(rng: random.Random, skeleton: dict, **kw) -> dict:
    o = dict(gen.DEFAULT_OPTS)
    o.update(kw)
    o["states"] = dict(o.get("states", {}))
    o["continuous"] = set()
    o["varkind"] = dict(o.get("varkind", {}))
    b = gen.SpecBuilder(rng, o)
    units = o["units"]
    max_alt = o.get("max_alt", 3)

    def region(sub, k):
        key = ",".join(map(str, sorted(sub)))
        r = skeleton["regions"][key]
        if len(sub) == 1:
            o["units"] = [k]
            i = b.leaf(sub[0])
            o["units"] = units
            if r["leaf_sum"]:
                i = b.sum_over([i], k, force_dense=True)
            return i
        kind = r["kind"]
        nalt = 1 if rng.random() < 0.5 else rng.randint(2, max_alt)
        prods = []
        for a in range(nalt):
            part = list(r["part"])
            if kind == "had" and a > 0 and rng.random() < 0.6:
                rng.shuffle(part)  # the same decomposition listed in another input order
            kc = rng.choice(units)
            if kind == "kron":
                kc = min(kc, 2 if len(part) >= 3 else 3)
            if prods:
                kc_prev = b.units(prods[0]) if kind == "had" else None
            chs = [region(p, kc) for p in part]
            prods.append(b.add({"t": kind, "in": chs, "k": kc}))
        # all products feeding one sum must have the same number of units
        ku = b.units(prods[0])
        if any(b.units(p) != ku for p in prods):
            # redo the later alternatives with the unit count of the first
            kc0 = b.layers[prods[0]]["k"]
            fixed = [prods[0]]
            for a in range(1, nalt):
                part = list(r["part"])
                if kind == "had" and rng.random() < 0.6:
                    rng.shuffle(part)
                chs = [region(p, kc0) for p in part]
                fixed.append(b.add({"t": kind, "in": chs, "k": kc0}))
            prods = fixed
        return b.sum_over(prods, k)

    nout = o.get("nout") or rng.choice([1, 1, 2])
    kout = o.get("kout") or rng.choice(units)
    outs = [region(skeleton["vars"], kout) for _ in range(nout)]
    spec = {"layers": b.layers, "outputs": outs, "vars": sorted(skeleton["vars"]),
            "states": {str(k): v for k, v in o["states"].items()}, "continuous": sorted(o["continuous"])}
    return gen.prune_spec(spec)


def twin_opts(spec: dict) -> dict:
    """Options that make a second spec agree with `spec` on variable domains and kinds."""
    return {"states": {int(k): v for k, v in spec["states"].items()},
            "varkind": {v: ("cont" if v in spec.get("continuous", []) else "disc") for v in spec["vars"]}}
