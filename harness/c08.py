"""C08 — structural-property predicates agree with their definitions."""
from __future__ import annotations

import copy
import itertools
import random

import common
import gen
import gen2
import leanmodel
import ser
from framework import Run
from cirkit.symbolic.circuit import are_compatible

RULE = ("generated circuits from the unstructured generator (non-structured alternatives, shared regions), the "
        "structured generator (vtree skeletons, repetitions in different input orders) and the malformed stream "
        "(non-smooth sums, overlapping product inputs, constant layers with empty scope as product inputs); real "
        "is_smooth / is_decomposable / is_structured_decomposable / is_omni_compatible / are_compatible(both orders) "
        "vs the Lean model on the serialised circuit, vs the definitions evaluated by brute force on layer scopes, and "
        "metamorphic invariance under permutation of layer inputs and injective non-monotone renaming of variables; "
        "non-trivial = distinct circuit (pair) with a product layer")


def real_flags(sc):
    return {"smooth": sc.is_smooth, "decomposable": sc.is_decomposable,
            "structured_decomposable": sc.is_structured_decomposable, "omni_compatible": sc.is_omni_compatible}


def definitions(spec):
    """Scopes bottom-up and the definitions of the flags, straight from the spec."""
    scopes = []
    for d in spec["layers"]:
        if "in" in d:
            s = frozenset().union(*[scopes[j] for j in d["in"]])
        else:
            s = frozenset([d["v"]]) if "v" in d else frozenset()
        scopes.append(s)
    smooth = all(scopes[j] == scopes[i] for i, d in enumerate(spec["layers"]) if d["t"] == "sum" for j in d["in"])
    decomp = all(not (scopes[a] & scopes[b]) for i, d in enumerate(spec["layers"]) if d["t"] in ("had", "kron")
                 for a, b in itertools.combinations(d["in"], 2))
    splits = {}
    for i, d in enumerate(spec["layers"]):
        if d["t"] in ("had", "kron"):
            parts = [scopes[j] for j in d["in"] if scopes[j]]
            if len(parts) > 1:
                splits.setdefault(scopes[i], set()).add(frozenset(parts))
    return scopes, smooth, decomp, splits


def permute_inputs(spec, rng):
    s = copy.deepcopy(spec)
    for d in s["layers"]:
        if "in" in d and len(d["in"]) > 1:
            rng.shuffle(d["in"])
    return s


def rename(spec, rng):
    vs = spec["vars"]
    pool = list(range(0, 24))
    new = rng.sample(pool, len(vs))
    m = dict(zip(vs, new))
    s = copy.deepcopy(spec)
    for d in s["layers"]:
        if "v" in d:
            d["v"] = m[d["v"]]
    s["vars"] = sorted(new)
    s["states"] = {str(m[int(k)]): v for k, v in spec["states"].items()}
    s["continuous"] = sorted(m[v] for v in spec.get("continuous", []))
    return s, m


def check_one(run: Run, spec, scen, rng):
    sc = gen.build_circuit(spec)
    rf = real_flags(sc)
    mc = common.ModelCircuit(sc)
    try:
        mp = mc.d.props(mc.cid)
        scopes, smooth, decomp, splits = definitions(spec)
        run.evaluations += 1
        # definitions
        if rf["smooth"] != smooth:
            run.violation("smooth-flag", scen, f"is_smooth={rf['smooth']} but every-sum-has-same-scope-inputs is {smooth}")
            return None
        if rf["decomposable"] != decomp:
            run.violation("decomposable-flag", scen, f"is_decomposable={rf['decomposable']} but pairwise-disjoint-product-inputs is {decomp}")
            return None
        if rf["structured_decomposable"]:
            if not (smooth and decomp) or any(len(v) > 1 for v in splits.values()):
                run.violation("sd-unsound", scen, "reported structured-decomposable, but some scope is split in two different ways (or the circuit is not smooth/decomposable)")
                return None
        # model correspondence
        run.disagreements_checked += 1
        for k in ("smooth", "decomposable", "structured_decomposable", "omni_compatible"):
            if mp[k] != rf[k]:
                run.violation("model-flags", scen, f"{k}: real {rf[k]} vs model {mp[k]}", no_failing_input=True,
                              broken=f"correspondence SCirc.{k} vs Circuit.{k}")
                return None
        if sorted(sc.scope) != mp["scope"]:
            run.violation("model-scope", scen, f"scope real {sorted(sc.scope)} vs model {mp['scope']}", no_failing_input=True, broken="correspondence scope")
            return None
        run.exact += 1
        return sc, rf, (smooth, decomp, splits)
    finally:
        mc.drop()


def run_scenario(run: Run, scen: dict, rng: random.Random):
    spec = scen["spec"]
    r = check_one(run, spec, scen, rng)
    if r is None:
        return
    sc, rf, (smooth, decomp, splits) = r
    # metamorphic: order of inputs
    ps = permute_inputs(spec, rng)
    psc = gen.build_circuit(ps)
    pf = real_flags(psc)
    if pf != rf:
        run.violation("order-dependence", dict(scen, permuted=ps), f"flags change when layers list their inputs in another order: {rf} -> {pf}")
        return
    # metamorphic: renaming (omni-compatibility depends on the numbering by construction: excluded)
    rs, m = rename(spec, rng)
    rsc = gen.build_circuit(rs)
    rff = real_flags(rsc)
    for k in ("smooth", "decomposable", "structured_decomposable"):
        if rff[k] != rf[k]:
            run.violation("numbering-dependence", dict(scen, renamed=rs, mapping={str(a): b for a, b in m.items()}),
                          f"{k} changes under an injective renaming of the variables: {rf[k]} -> {rff[k]}")
            return
    # pairs
    other = scen.get("other")
    if other is not None:
        osc = gen.build_circuit(other)
        c12, c21 = are_compatible(sc, osc), are_compatible(osc, sc)
        if c12 != c21:
            run.violation("compat-asymmetric", scen, f"are_compatible(c1, c2)={c12} but are_compatible(c2, c1)={c21}")
            return
        _, sm2, dc2, sp2 = definitions(other)
        if c12:
            bad = not (smooth and decomp and sm2 and dc2)
            allsp = {}
            for sps in (splits, sp2):
                for k, v in sps.items():
                    allsp.setdefault(k, set()).update(v)
            bad = bad or any(len(v) > 1 for v in allsp.values())
            if bad:
                run.violation("compat-unsound", scen, "reported compatible, but some scope is split in two different ways across the two circuits (or one is not smooth/decomposable)")
                return
        m1 = common.ModelCircuit(sc); m2 = common.ModelCircuit(osc, mode=m1.mode)
        try:
            mp = m1.d.props(m1.cid, other=m2.cid)
            run.disagreements_checked += 1
            if mp["compatible"] != c12:
                run.violation("model-compat", scen, f"are_compatible real {c12} vs model {mp['compatible']}", no_failing_input=True,
                              broken="correspondence SCirc.areCompatible vs are_compatible")
                return
        finally:
            m1.drop(); m2.drop()
        # compatibility is independent of input order and numbering as well
        pos = permute_inputs(other, rng)
        if are_compatible(psc, gen.build_circuit(pos)) != c12:
            run.violation("order-dependence", dict(scen, permuted=ps, permuted_other=pos), f"are_compatible changes when layers list their inputs in another order (was {c12})")
            return
        ro = copy.deepcopy(other)
        for d in ro["layers"]:
            if "v" in d:
                d["v"] = m.get(d["v"], d["v"])
        if set(other["vars"]) <= set(m):
            if are_compatible(rsc, gen.build_circuit(ro)) != c12:
                run.violation("numbering-dependence", dict(scen, renamed=rs, renamed_other=ro), f"are_compatible changes under an injective renaming (was {c12})")
                return


def check(run: Run, tier: str, seed: int):
    n = 480 if tier == "quick" else 3000
    base = dict(leaf_kinds=["emb"], weight_pz=["id"])
    for i in range(n):
        srng = random.Random(f"C08-{seed}-{i}")
        kind = ["plain", "structured", "malformed", "structured_pair", "plain_pair", "malformed"][i % 6]
        other = None
        if kind.startswith("structured"):
            vs = srng.sample(gen.VAR_POOL_WIDE if srng.random() < 0.6 else gen.VAR_POOL_SMALL, srng.choice([2, 3, 3, 4, 5]))
            sk = gen2.make_skeleton(srng, vs)
            spec = gen2.gen_structured(srng, sk, **base)
            if kind.endswith("pair"):
                if srng.random() < 0.7:
                    other = gen2.gen_structured(srng, sk, **dict(base, **gen2.twin_opts(spec)))
                else:
                    other = gen2.gen_structured(srng, gen2.make_skeleton(srng, vs), **dict(base, **gen2.twin_opts(spec)))
        else:
            o = dict(base)
            if kind == "malformed":
                o.update(p_nonsmooth=0.4, p_nondecomp=0.3, p_const=0.3)
            spec = gen.gen_spec(srng, **o)
            if len(spec["layers"]) > 50:
                spec = gen.gen_spec(srng, nv=3, **o)
            if kind.endswith("pair"):
                if srng.random() < 0.5:
                    # the same (possibly non-structured) circuit again, inputs listed in another order
                    other = permute_inputs(spec, srng)
                else:
                    o2 = dict(base, vars=spec["vars"], states={int(k): v for k, v in spec["states"].items()})
                    other = gen.gen_spec(srng, **o2)
        scen = {"kind": kind, "spec": spec, "other": other}
        feats = gen.spec_features(spec)
        run.case([spec, other], nontrivial=feats["had"] + feats["kron"] > 0, sample=scen if i < 1 else None,
                 features={"kind": kind})
        sc_flags = None
        run_scenario(run, scen, srng)


def replay(run: Run, body: dict):
    run_scenario(run, body["scenario"], random.Random(0))
