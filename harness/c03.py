"""C03 — integrate returns exactly the marginal / partition function."""
from __future__ import annotations

import itertools
import random

import numpy as np
import torch

import common
import gen
import pipelines
import real
import ser
from framework import Run
import cirkit.symbolic.functional as SF
from cirkit.utils.scope import Scope

RULE = ("generated smooth decomposable circuits (embedding / categorical probs+logits / Gaussian inputs, sum arity "
        "1-3, Hadamard+Kronecker, ids up to 17, multi-output) x every non-empty Z (all subsets for <= 4 variables, "
        "sampled otherwise) x remaining-variable rows; Lean eval of the real integrate() result vs Lean sum over z of "
        "the operand (exact over Rat for embeddings), Lean model operator vs real operator, compiled integrate() vs "
        "brute-force sum / trapezoid quadrature of the compiled operand under a (fold, optimize, semiring) combo, "
        "integrate(Z1) then integrate(Z2) vs integrate(Z1 u Z2); non-trivial = distinct (spec, Z) with a sum and "
        "a product layer and Z a proper or full subset")

CLASSES = [
    ("emb", dict(leaf_kinds=["emb"], weight_pz=["id"]), ["sum-product", "lse-sum"]),
    ("emb_signed", dict(leaf_kinds=["emb"], weight_pz=["id"], signed=True), ["sum-product", "complex-lse-sum"]),
    ("cat", dict(leaf_kinds=["cat_probs", "cat_softmax", "cat_logits", "emb"], units=[1, 2],
                 weight_pz=["id", "softmax", "exp"]), ["sum-product", "lse-sum"]),
    ("gauss", dict(leaf_kinds=["gauss", "gauss_lp", "cat_logits", "emb"], units=[1, 2],
                   weight_pz=["id", "softmax"]), ["sum-product", "lse-sum"]),
]

GRID = np.arange(-24.0, 24.0 + 1e-9, 0.125)  # trapezoid grid for Gaussian variables


def domains_of(spec):
    return {int(k): v for k, v in spec["states"].items() if int(k) not in spec.get("continuous", [])}


def brute_force(tc, spec, rows, zs, semiring):
    """sum / quadrature over the variables zs of the compiled operand at the given rows."""
    doms = domains_of(spec)
    cont = set(spec.get("continuous", []))
    axes, weights = [], []
    for z in zs:
        if z in cont:
            axes.append(GRID)
            w = np.full(len(GRID), GRID[1] - GRID[0]); w[0] *= 0.5; w[-1] *= 0.5
            weights.append(w)
        else:
            axes.append(np.arange(doms[z], dtype=float))
            weights.append(np.ones(doms[z]))
    total = None
    combos = list(itertools.product(*[range(len(a)) for a in axes]))
    out = []
    for row in rows:
        X = np.tile(np.array(row, dtype=float), (len(combos), 1))
        W = np.ones(len(combos))
        for j, z in enumerate(zs):
            idx = np.array([c[j] for c in combos])
            X[:, z] = axes[j][idx]
            W *= weights[j][idx]
        y = real.evaluate(tc, X if cont or any(d["t"] == "poly" for d in spec["layers"]) else X.astype(np.int64),
                          semiring=semiring)
        out.append(np.tensordot(W, y, axes=(0, 0)))
    return np.stack(out)


def brute_force_per_output(tc, sc, spec, rows, zs, semiring):
    """Every output is summed over Z intersected with its own scope (a variable an output does not
    depend on contributes no factor)."""
    base = real.evaluate(tc, common.input_array(rows, spec), semiring=semiring)
    bf = np.array(base, copy=True)
    groups = {}
    for oi, o in enumerate(sc.outputs):
        groups.setdefault(tuple(z for z in zs if z in sc.layer_scope(o)), []).append(oi)
    for zo, ois in groups.items():
        if not zo:
            continue
        part = brute_force(tc, spec, rows, list(zo), semiring)
        for oi in ois:
            bf[:, oi] = part[:, oi]
    return bf


def run_scenario(run: Run, scen: dict, rng: random.Random):
    spec, zs, semiring, fold, optimize = scen["spec"], scen["Z"], scen["semiring"], scen["fold"], scen["optimize"]
    sc = gen.build_circuit(spec)
    operands = [sc]
    if scen.get("other"):
        # the integrand is a product of two compatible circuits (its constant layers are outer products of parameters)
        other = gen.build_circuit(scen["other"])
        try:
            operands = [sc, other]
            sc = SF.multiply(sc, other)
        except Exception as e:  # noqa: BLE001
            run.feature("refused", "multiply:" + pipelines.error_class(e))
            return
    if not (sc.is_smooth and sc.is_decomposable):
        return
    cont = set(spec.get("continuous", []))
    try:
        isc = SF.integrate(sc, Scope(zs))
    except Exception as e:  # noqa: BLE001
        run.feature("refused", pipelines.error_class(e))
        run.violation("integrate-raised", scen, f"integrate raised {type(e).__name__}: {e} on a smooth decomposable circuit with an integration rule for every input layer")
        return
    rest = [v for v in spec["vars"] if v not in zs]
    if sorted(isc.scope) != sorted(rest):
        run.violation("scope", scen, f"scope of the result {sorted(isc.scope)} != scope minus Z {sorted(rest)}")
        return
    if len(isc.outputs) != len(sc.outputs):
        run.violation("num-outputs", scen, f"{len(isc.outputs)} outputs, expected {len(sc.outputs)}")
        return
    B = 3
    rows = gen.gen_inputs(rng, spec, B)
    scen_x = dict(scen, rows=rows)
    # ---- Lean semantics of the real result vs Lean specification on the operand -------------
    n_cont_z = len([z for z in zs if z in cont])
    mc = common.ModelCircuit(sc)
    mi = common.ModelCircuit(isc, mode=mc.mode)
    try:
        # cost guard for the model side: (unfolded tree) x (assignments of Z) x rows
        n_assign = int(np.prod([1 if z in cont else spec["states"][str(z)] for z in zs], dtype=float))
        if max(mc.tree_size, mi.tree_size) > common.TREE_LIMIT or mc.tree_size * n_assign * B > 3_000_000:
            run.feature("skipped_large_model", True)
            return
        comp = real.TorchCompiler(semiring=semiring, fold=fold, optimize=optimize)
        for o_ in operands:
            comp.compile(o_)
        tc = comp.compile(sc)
        itc = comp.compile(isc)
        theta = real.read_theta(comp, [p_ for o_ in operands for p_ in ser.tensor_params(o_)])
        if n_cont_z == 0:
            a = mi.eval(theta, rows)
            b = mc.d.spec_integrate(mc.cid, theta, rows, zs)
            c = mc.d.op_eval(mc.cid, theta, rows, "integrate", vars=list(zs))
            run.evaluations += 1
            ok, why = same_nested(a, b, mc.mode)
            if not ok:
                run.violation("integral-wrong", scen_x,
                              f"Lean evaluation of the circuit returned by integrate() differs from the sum over z of the operand: {why}")
                return
            ok, why = same_nested(a, c, mc.mode)
            run.disagreements_checked += 1
            if not ok:
                # correspondence broke but the property oracle above passed
                run.violation("model-operator", scen_x, f"model integrate vs real integrate denote different functions: {why}",
                              no_failing_input=True, broken="correspondence Node.integ vs functional.integrate")
                return
            if mc.mode == "rat":
                run.exact += 1
            else:
                run.tolerance += 1
        # ---- real-code-only oracle ----------------------------------------------------------
        if n_cont_z <= 2 and np.prod([len(GRID) if z in cont else spec["states"][str(z)] for z in zs]) <= 200000:
            try:
                yi = real.evaluate(itc, common.input_array(rows, spec) if isc.scope else None, semiring=semiring)
                if not isc.scope:
                    yi = np.broadcast_to(yi, (B, *yi.shape[1:]))
                # every output is integrated over Z intersected with its own scope
                bf = np.zeros_like(yi)
                groups = {}
                for oi, o in enumerate(sc.outputs):
                    groups.setdefault(tuple(z for z in zs if z in sc.layer_scope(o)), []).append(oi)
                for zo, ois in groups.items():
                    part = brute_force(tc, spec, rows, list(zo), semiring) if zo else \
                        real.evaluate(tc, common.input_array(rows, spec), semiring=semiring)
                    for oi in ois:
                        bf[:, oi] = part[:, oi]
            except Exception as e:  # noqa: BLE001
                run.violation("eval-crash", scen_x, f"{type(e).__name__}: {e}")
                return
            run.evaluations += 1
            try:
                tol = 1e-9 if scen["class"] != "emb_signed" else None
                if tol is None:
                    m = mi.eval(theta, rows); mag = mi.magnitude(theta, rows)
                    common.compare(yi, m, mag, mi.mode)
                else:
                    common.compare_arrays(yi, bf, tol=1e-8 if n_cont_z else 1e-9, what="compiled integrate vs brute force")
            except common.Mismatch as mm:
                run.violation("compiled-integral-wrong", scen_x, f"{mm} {mm.detail} (fold={fold}, optimize={optimize}, {semiring})")
                return
        # ---- integrate Z1 then Z2 == integrate (Z1 u Z2) --------------------------------------
        if len(zs) >= 2:
            cut = rng.randint(1, len(zs) - 1)
            perm = list(zs); rng.shuffle(perm)
            z1, z2 = perm[:cut], perm[cut:]
            try:
                i12 = SF.integrate(SF.integrate(sc, Scope(z1)), Scope(z2))
            except Exception as e:  # noqa: BLE001
                run.violation("integrate-raised", dict(scen_x, Z1=z1, Z2=z2), f"second integrate raised {type(e).__name__}: {e}")
                return
            m12 = common.ModelCircuit(i12, mode=mc.mode)
            try:
                a12 = m12.eval(theta, rows)
                a = mi.eval(theta, rows)
                ok, why = same_nested(a12, a, mc.mode)
                if not ok:
                    run.violation("integrate-twice", dict(scen_x, Z1=z1, Z2=z2), f"integrate(Z1) then integrate(Z2) differs from integrate(Z1 u Z2): {why}")
                    return
            finally:
                m12.drop()
    finally:
        mc.drop(); mi.drop()


def same_nested(a, b, mode, tol=1e-9):
    if isinstance(a, list):
        if not isinstance(b, list) or len(a) != len(b):
            return False, f"shape {len(a)} vs {len(b) if isinstance(b, list) else '?'}"
        for x, y in zip(a, b):
            ok, why = same_nested(x, y, mode, tol)
            if not ok:
                return ok, why
        return True, ""
    if mode in ("rat", "gauss", "dual"):
        return (a == b), f"{a} != {b}"
    if a == b:
        return True, ""
    ok = abs(a - b) <= tol * max(abs(a), abs(b), 1e-300)
    return ok, f"{a!r} != {b!r}"


def subsets(vs, rng, limit):
    all_ = [list(c) for r in range(1, len(vs) + 1) for c in itertools.combinations(vs, r)]
    if len(all_) <= limit:
        return all_
    keep = [list(vs)] + rng.sample(all_[:-1], limit - 1)
    return keep


def check(run: Run, tier: str, seed: int):
    n = 120 if tier == "quick" else 900
    for i in range(n):
        cls, opts, semirings = CLASSES[i % len(CLASSES)]
        srng = random.Random(f"C03-{seed}-{i}")
        o = dict(opts)
        spec = gen.gen_spec(srng, **o)
        if len(spec["layers"]) > (36 if tier == "quick" else 60):
            spec = gen.gen_spec(srng, nv=2, **o)
        feats = gen.spec_features(spec)
        nontrivial = feats["had"] + feats["kron"] > 0 and any(d["t"] == "sum" for d in spec["layers"])
        other = None
        if (i // len(CLASSES)) % 3 == 2 and cls in ("emb", "emb_signed"):
            import c04
            ops = c04.gen_operands(srng, dict(o, **c04.COMMON), "pair")
            spec, other = ops[0]["spec"], ops[1]["spec"]
            feats = gen.spec_features(spec)
        for zs in subsets(spec["vars"], srng, 4 if tier == "quick" else 15):
            semiring = srng.choice(semirings)
            fold, optimize = srng.choice(real.FLAGS)
            scen = {"spec": spec, "class": cls, "Z": sorted(zs), "semiring": semiring, "fold": fold, "optimize": optimize}
            if other is not None:
                scen["other"] = other
            run.case({"spec": spec, "Z": sorted(zs), "other": other}, nontrivial=nontrivial, sample=scen if i < 1 else None,
                     features={"class": cls, "|Z|": len(zs), "full_scope": len(zs) == len(spec["vars"]),
                               "semiring": semiring, "flags": f"{fold},{optimize}", "outputs": feats["outputs"],
                               "sum_arity_max": feats["sum_arity_max"]})
            run_scenario(run, scen, srng)


def replay(run: Run, body: dict):
    run_scenario(run, body["scenario"], random.Random(0))
