"""Serialise real cirkit symbolic circuits / parameter graphs for the Lean driver.

The serialiser reads only public attributes of the symbolic objects (`layers`, `layer_inputs`,
`outputs`, `params`, `config`, parameter-graph `nodes` / `node_inputs` / `output`).  The compiled
torch circuit never passes through it, so a serialiser bug shows up as a model-vs-torch mismatch.
"""
from __future__ import annotations

from fractions import Fraction

import numpy as np

import cirkit.symbolic.layers as L
import cirkit.symbolic.parameters as P
from cirkit.symbolic.circuit import Circuit

from leanmodel import enc_num


class Unsupported(Exception):
    pass


class UidMap:
    """Stable integer ids for symbolic tensor parameters (by object identity)."""

    def __init__(self):
        self._ids: dict[int, int] = {}
        self._keep: list = []

    def uid(self, node) -> int:
        k = id(node)
        if k not in self._ids:
            self._ids[k] = len(self._ids)
            self._keep.append(node)
        return self._ids[k]

    def nodes(self):
        return list(self._keep)


UIDS = UidMap()

_UNARY = {
    P.ExpParameter: "exp", P.LogParameter: "log", P.SquareParameter: "square",
    P.SoftplusParameter: "softplus", P.SigmoidParameter: "sigmoid",
    P.ConjugateParameter: "conj", P.MixingWeightParameter: "mixing",
}
_BINARY = {
    P.SumParameter: "sum", P.HadamardParameter: "hadamard", P.KroneckerParameter: "kronecker",
    P.PolynomialProduct: "poly_product", P.GaussianProductStddev: "gauss_prod_stddev",
}
_AXIS1 = {
    P.ReduceSumParameter: "reduce_sum", P.ReduceProductParameter: "reduce_prod",
    P.ReduceLSEParameter: "reduce_lse", P.SoftmaxParameter: "softmax",
    P.LogSoftmaxParameter: "log_softmax",
}
_AXIS2 = {P.OuterProductParameter: "outer_product", P.OuterSumParameter: "outer_sum"}
_NARY = {P.GaussianProductMean: "gauss_prod_mean", P.GaussianProductLogPartition: "gauss_prod_logpart"}


def const_values(node: P.ConstantParameter):
    v = node.value
    if isinstance(v, np.ndarray):
        return np.broadcast_to(v, node.shape).reshape(-1).tolist()
    n = int(np.prod(node.shape))
    return [v] * n


def _rat(x):
    if x is None:
        return None
    f = Fraction(float(x))
    return f"{f.numerator}/{f.denominator}"


def ser_pnode(pg: P.Parameter, node, mode: str, uids: UidMap) -> dict:
    ins = [ser_pnode(pg, n, mode, uids) for n in pg.node_inputs(node)]
    t = type(node)
    if isinstance(node, P.ReferenceParameter):
        tgt = node.deref()
        if isinstance(tgt, P.ConstantParameter):
            return {"o": "const", "shape": list(tgt.shape),
                    "vals": [enc_num(_py(v), mode) for v in const_values(tgt)]}
        return {"o": "ref", "uid": uids.uid(tgt), "shape": list(tgt.shape)}
    if isinstance(node, P.ConstantParameter):
        return {"o": "const", "shape": list(node.shape),
                "vals": [enc_num(_py(v), mode) for v in const_values(node)]}
    if isinstance(node, P.TensorParameter):
        return {"o": "tensor", "uid": uids.uid(node), "shape": list(node.shape)}
    if t in _UNARY:
        return {"o": _UNARY[t], "a": ins}
    if t in _BINARY:
        return {"o": _BINARY[t], "a": ins}
    if t in _AXIS1 or t in _AXIS2:
        return {"o": (_AXIS1.get(t) or _AXIS2.get(t)), "axis": int(node.axis), "a": ins}
    if t in _NARY:
        return {"o": _NARY[t], "a": ins}
    if t is P.IndexParameter:
        return {"o": "index", "indices": [int(i) for i in node.indices], "axis": int(node.axis), "a": ins}
    if t is P.ScaledSigmoidParameter:
        return {"o": "scaled_sigmoid", "vmin": _rat(node.vmin), "vmax": _rat(node.vmax), "a": ins}
    if t is P.ClampParameter:
        return {"o": "clamp", "vmin": _rat(node.vmin), "vmax": _rat(node.vmax), "a": ins}
    if t is P.PolynomialDifferential:
        return {"o": "poly_diff", "order": int(node.order), "a": ins}
    raise Unsupported(f"parameter node {t.__name__}")


def _py(v):
    if isinstance(v, (np.floating,)):
        return float(v)
    if isinstance(v, (np.integer,)):
        return int(v)
    if isinstance(v, (np.complexfloating,)):
        return complex(v)
    return v


def ser_param(pg: P.Parameter, mode: str = "rat", uids: UidMap = UIDS) -> dict:
    return ser_pnode(pg, pg.output, mode, uids)


def _var(scope) -> int:
    (v,) = tuple(scope)
    return int(v)


def ser_layer_kind(sl, mode: str, uids: UidMap) -> dict:
    ps = {name: ser_param(pg, mode, uids) for name, pg in sl.params.items()}
    if isinstance(sl, L.EvidenceLayer):
        return {"t": "evi", "inner": ser_layer_kind(sl.layer, mode, uids), "p": ps}
    if isinstance(sl, L.EmbeddingLayer):
        return {"t": "emb", "v": _var(sl.scope), "k": sl.num_output_units, "n": sl.num_states, "p": ps}
    if isinstance(sl, L.CategoricalLayer):
        return {"t": "cat", "v": _var(sl.scope), "k": sl.num_output_units, "n": sl.num_categories, "p": ps}
    if isinstance(sl, L.BinomialLayer):
        return {"t": "bin", "v": _var(sl.scope), "k": sl.num_output_units, "total": sl.total_count, "p": ps}
    if isinstance(sl, L.GaussianLayer):
        return {"t": "gauss", "v": _var(sl.scope), "k": sl.num_output_units, "p": ps}
    if isinstance(sl, L.PolynomialLayer):
        return {"t": "poly", "v": _var(sl.scope), "k": sl.num_output_units, "degree": sl.degree, "p": ps}
    if isinstance(sl, L.ConstantValueLayer):
        return {"t": "constv", "k": sl.num_output_units, "log_space": bool(sl.log_space), "p": ps}
    if isinstance(sl, L.SumLayer):
        return {"t": "sum", "kin": sl.num_input_units, "kout": sl.num_output_units, "ar": sl.arity, "p": ps}
    if isinstance(sl, L.HadamardLayer):
        return {"t": "had", "k": sl.num_input_units, "ar": sl.arity}
    if isinstance(sl, L.KroneckerLayer):
        return {"t": "kron", "k": sl.num_input_units, "ar": sl.arity}
    raise Unsupported(f"layer {type(sl).__name__}")


def ser_circuit(sc: Circuit, mode: str = "rat", uids: UidMap = UIDS) -> dict:
    order = list(sc.topological_ordering())
    pos = {id(sl): i for i, sl in enumerate(order)}
    layers = []
    for sl in order:
        d = ser_layer_kind(sl, mode, uids)
        d["in"] = [pos[id(x)] for x in sc.layer_inputs(sl)]
        layers.append(d)
    return {"layers": layers, "outputs": [pos[id(o)] for o in sc.outputs]}


def tensor_params(sc: Circuit):
    """All non-constant TensorParameter leaves of a circuit (incl. evidence inner layers)."""
    out, seen = [], set()

    def visit_layer(sl):
        for pg in sl.params.values():
            for n in pg.nodes:
                if isinstance(n, P.TensorParameter) and not isinstance(n, P.ConstantParameter):
                    if id(n) not in seen:
                        seen.add(id(n)); out.append(n)
        if isinstance(sl, L.EvidenceLayer):
            visit_layer(sl.layer)

    for sl in sc.layers:
        visit_layer(sl)
    return out


def referenced_params(sc: Circuit):
    """Tensor parameters referenced (through ReferenceParameter) by a circuit."""
    out, seen = [], set()

    def visit_layer(sl):
        for pg in sl.params.values():
            for n in pg.nodes:
                if isinstance(n, P.ReferenceParameter):
                    t = n.deref()
                    if not isinstance(t, P.ConstantParameter) and id(t) not in seen:
                        seen.add(id(t)); out.append(t)
        if isinstance(sl, L.EvidenceLayer):
            visit_layer(sl.layer)

    for sl in sc.layers:
        visit_layer(sl)
    return out


ALGEBRAIC_OPS = {"tensor", "ref", "const", "index", "sum", "hadamard", "kronecker", "outer_product",
                 "outer_sum", "square", "conj", "reduce_sum", "reduce_prod", "mixing",
                 "poly_product", "poly_diff", "matmul", "flatten"}


def pexpr_is_algebraic(e: dict) -> bool:
    if e["o"] not in ALGEBRAIC_OPS:
        return False
    return all(pexpr_is_algebraic(a) for a in e.get("a", []))


def layer_is_algebraic(d: dict) -> bool:
    t = d["t"]
    if t in ("had", "kron"):
        return True
    if t == "evi":
        return layer_is_algebraic(d["inner"]) and all(pexpr_is_algebraic(p) for p in d["p"].values())
    if t in ("gauss",):
        return False
    if t == "cat" and "logits" in d["p"]:
        return False
    if t == "bin" and "logits" in d["p"]:
        return False
    if t == "constv" and d.get("log_space"):
        return False
    return all(pexpr_is_algebraic(p) for p in d.get("p", {}).values())


def circuit_is_algebraic(ser: dict) -> bool:
    """True iff the Lean model can evaluate the circuit exactly over Rat / GaussRat."""
    return all(layer_is_algebraic(d) for d in ser["layers"])
