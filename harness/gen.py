"""Scenario generator: circuit *specs* (plain JSON-able data) and their construction as real
cirkit symbolic circuits.  Every random choice is drawn from the `random.Random` passed in, so a
scenario replays from (seed, index); the spec itself is stored in replay files so a replay does not
depend on the generator."""
from __future__ import annotations

import random
from typing import Any

import numpy as np

import cirkit.symbolic.layers as L
import cirkit.symbolic.parameters as P
from cirkit.symbolic.circuit import Circuit
from cirkit.symbolic.dtypes import DataType
from cirkit.symbolic.initializers import ConstantTensorInitializer
from cirkit.utils.scope import Scope

VAR_POOL_SMALL = [0, 1, 2, 3, 4, 5]
VAR_POOL_WIDE = [0, 1, 2, 3, 5, 8, 9, 12, 17]

# ------------------------------------------------------------------------------------------
# parameter specs


def dyadics(rng: random.Random, n: int, *, signed=False, lo=1, hi=24, denom=8):
    pool = list(range(lo, hi + 1))
    if signed:
        pool += [-k for k in pool]
    ks = rng.sample(pool, n) if n <= len(pool) else [rng.choice(pool) for _ in range(n)]
    return [k / denom for k in ks]


def pspec(rng, shape, *, pz="id", signed=False, cplx=False, mix=False, normalise_axis=None):
    """A parameter spec: leaf tensor values + reparameterisation."""
    shape = list(shape)
    inner = shape
    if mix:
        k, kh = shape
        inner = [k, kh // k]
    n = int(np.prod(inner))
    vals: list[Any] = dyadics(rng, n, signed=signed)
    if cplx:
        im = dyadics(rng, n, signed=True)
        vals = [[a, b] for a, b in zip(vals, im)]
    if normalise_axis is not None and not cplx:
        # make the entries along the axis sum to one with dyadic values (k/16)
        arr = np.array(vals, dtype=float).reshape(inner)
        arr = np.moveaxis(arr, normalise_axis, -1)
        m = arr.shape[-1]
        flat = arr.reshape(-1, m)
        for r in range(flat.shape[0]):
            cuts = sorted(rng.sample(range(1, 16), m - 1)) if m - 1 <= 15 else None
            parts = np.diff([0] + cuts + [16]) / 16.0
            flat[r] = parts
        arr = np.moveaxis(flat.reshape(arr.shape), -1, normalise_axis)
        vals = arr.reshape(-1).tolist()
    const = pz == "id" and rng.random() < 0.15
    return {"shape": shape, "inner": inner, "vals": vals, "pz": pz, "mix": mix, "cplx": cplx, "const": const}


def zero_some(spec: dict, rng) -> dict:
    """Sets whole rows (units) of some embedding / polynomial leaves to exactly zero: the unit's function is the
    zero function, i.e. -inf in the log-space semirings."""
    import copy
    s = copy.deepcopy(spec)
    for d in s["layers"]:
        if d["t"] in ("emb", "poly") and d["w"]["pz"] == "id" and rng.random() < 0.4:
            k, n = d["w"]["inner"]
            r = rng.randrange(k)
            z = [0, 0] if d["w"].get("cplx") else 0
            for j in range(n):
                d["w"]["vals"][r * n + j] = z
    return s


def nested_kron_spec(rng, cplx=False) -> dict:
    """Two right-nested chains kron(l0, kron(l1, kron(l2, ...))) of one-unit embeddings over the same variables,
    mixed by one sum layer; one leaf of the first chain is identically zero (a zero factor deep inside a product)."""
    m = rng.choice([3, 3, 4])
    vs = sorted(rng.sample(range(0, 12), m))
    states = {v: rng.choice([2, 3]) for v in vs}
    layers = []
    tops = []
    for chain in range(2):
        leaves = []
        for v in vs:
            layers.append({"t": "emb", "v": v, "k": 1, "n": states[v],
                           "w": dict(pspec(rng, [1, states[v]], signed=True, cplx=cplx), const=False)})
            leaves.append(len(layers) - 1)
        if chain == 0:
            z = rng.randrange(1, m)
            w = layers[leaves[z]]["w"]
            w["vals"] = [[0, 0] if cplx else 0 for _ in w["vals"]]
        cur = leaves[-1]
        for l in reversed(leaves[:-1]):
            layers.append({"t": "kron", "in": [l, cur], "k": 1})
            cur = len(layers) - 1
        tops.append(cur)
    kout = rng.choice([1, 2])
    layers.append({"t": "sum", "in": tops, "kin": 1, "kout": kout,
                   "w": dict(pspec(rng, [kout, 2], signed=True, cplx=cplx), const=False)})
    outs = [len(layers) - 1] + ([tops[0]] if kout == 1 else [])  # outputs of one circuit share their unit count
    return {"layers": layers, "outputs": outs, "vars": vs,
            "states": {str(v): n for v, n in states.items()}, "continuous": []}


def sibling_sums_spec(rng, cplx=False, signed=False, *, splits=None, vs=None, states=None, kout=None) -> dict:
    """Two (or three) sibling regions whose sum layers have the same weight shape but different (arity, units)
    splits — e.g. arity 2 x 3 units next to arity 3 x 2 units — joined by a Hadamard product.  Products of such
    circuits carry index parameters of equal shape and different index lists side by side."""
    splits = splits or rng.choice([[(2, 3), (3, 2)], [(2, 2), (4, 1)], [(1, 4), (2, 2), (4, 1)], [(3, 2), (2, 3), (1, 6)]])
    kout = kout or rng.choice([1, 2])
    vs = vs or sorted(rng.sample(range(0, 12), len(splits)))
    states = dict(states or {})
    layers, tops = [], []
    for v, (ar, k) in zip(vs, splits):
        n = states.get(v) or rng.choice([2, 3])
        states[v] = n
        ins = []
        for _ in range(ar):
            layers.append({"t": "emb", "v": v, "k": k, "n": n,
                           "w": dict(pspec(rng, [k, n], signed=signed, cplx=cplx), const=False)})
            ins.append(len(layers) - 1)
        layers.append({"t": "sum", "in": ins, "kin": k, "kout": kout,
                       "w": dict(pspec(rng, [kout, ar * k], signed=signed, cplx=cplx), const=False)})
        tops.append(len(layers) - 1)
    layers.append({"t": "had", "in": tops, "k": kout})
    layers.append({"t": "sum", "in": [len(layers) - 1], "kin": kout, "kout": 1,
                   "w": dict(pspec(rng, [1, kout], signed=signed, cplx=cplx), const=False)})
    return {"layers": layers, "outputs": [len(layers) - 1], "vars": vs, "splits": [list(x) for x in splits],
            "states": {str(v): n for v, n in states.items()}, "continuous": []}


def build_param(ps: dict) -> P.Parameter:
    inner = tuple(ps["inner"])
    if ps.get("cplx"):
        arr = np.array([complex(a, b) for a, b in ps["vals"]], dtype=np.complex128).reshape(inner)
        dtype = DataType.COMPLEX
    else:
        arr = np.array(ps["vals"], dtype=np.float64).reshape(inner)
        dtype = DataType.REAL
    if ps.get("frozen"):
        # a non-learnable tensor with a random initialiser: its value exists only in the compiled tensor
        from cirkit.symbolic.initializers import UniformInitializer
        t = P.TensorParameter(*inner, initializer=UniformInitializer(0.25, 1.5), learnable=False)
    elif ps.get("const"):
        t = P.ConstantParameter(*inner, value=arr)
    else:
        t = P.TensorParameter(*inner, initializer=ConstantTensorInitializer(arr), dtype=dtype)
    p = P.Parameter.from_input(t)
    pz = ps.get("pz", "id")
    if pz == "softmax":
        p = P.Parameter.from_unary(P.SoftmaxParameter(inner, axis=ps.get("axis", -1)), p)
    elif pz == "exp":
        p = P.Parameter.from_unary(P.ExpParameter(inner), p)
    elif pz == "sigmoid":
        p = P.Parameter.from_unary(P.SigmoidParameter(inner), p)
    elif pz == "square":
        p = P.Parameter.from_unary(P.SquareParameter(inner), p)
    elif pz == "softplus":
        p = P.Parameter.from_unary(P.SoftplusParameter(inner), p)
    elif pz == "scaled_sigmoid":
        p = P.Parameter.from_unary(P.ScaledSigmoidParameter(inner, vmin=0.5, vmax=2.0), p)
    elif pz == "clamp":
        p = P.Parameter.from_unary(P.ClampParameter(inner, vmin=0.75, vmax=2.5), p)
    elif pz == "log_softmax_exp":
        p = P.Parameter.from_unary(P.LogSoftmaxParameter(inner, axis=-1), p)
        p = P.Parameter.from_unary(P.ExpParameter(inner), p)
    elif pz != "id":
        raise ValueError(pz)
    if ps.get("mix"):
        p = P.Parameter.from_unary(P.MixingWeightParameter(inner), p)
    return p


# ------------------------------------------------------------------------------------------
# circuit specs


class SpecBuilder:
    def __init__(self, rng: random.Random, opts: dict):
        self.rng = rng
        self.o = opts
        self.layers: list[dict] = []
        self.cache: dict[frozenset, list[int]] = {}

    def add(self, d: dict) -> int:
        self.layers.append(d)
        return len(self.layers) - 1

    def units(self, i: int) -> int:
        d = self.layers[i]
        t = d["t"]
        if t == "sum":
            return d["kout"]
        if t == "had":
            return d["k"]
        if t == "kron":
            return d["k"] ** len(d["in"])
        return d["k"]

    # -- leaves
    def leaf(self, v: int) -> int:
        rng, o = self.rng, self.o
        # a variable is either discrete or continuous, once and for all
        cont_kinds = [x for x in o["leaf_kinds"] if x in ("poly", "gauss", "gauss_lp")]
        disc_kinds = [x for x in o["leaf_kinds"] if x not in ("poly", "gauss", "gauss_lp")]
        fam = o["varkind"].get(v)
        if fam is None:
            fam = "cont" if (cont_kinds and (not disc_kinds or rng.random() < 0.5)) else "disc"
            o["varkind"][v] = fam
        kind = rng.choice(cont_kinds if fam == "cont" else disc_kinds)
        k = rng.choice(o["units"])
        cplx = o.get("complex", False)
        signed = o.get("signed", False)
        if kind == "emb":
            n = o["states"].get(v) or rng.choice([2, 3, 4])
            o["states"][v] = n
            return self.add({"t": "emb", "v": v, "k": k, "n": n,
                             "w": pspec(rng, [k, n], signed=signed, cplx=cplx)})
        if kind == "poly":
            deg = rng.choice([0, 1, 2, 3])
            o["continuous"].add(v)
            return self.add({"t": "poly", "v": v, "k": k, "degree": deg,
                             "w": pspec(rng, [k, deg + 1], signed=True, cplx=cplx)})
        if kind in ("cat_probs", "cat_softmax", "cat_logits"):
            n = o["states"].get(v) or rng.choice([2, 3, 4])
            o["states"][v] = n
            if kind == "cat_probs":
                w = pspec(rng, [k, n], normalise_axis=1)
                return self.add({"t": "cat", "v": v, "k": k, "n": n, "probs": w})
            if kind == "cat_softmax":
                w = pspec(rng, [k, n], pz="softmax", signed=True)
                return self.add({"t": "cat", "v": v, "k": k, "n": n, "probs": w})
            w = pspec(rng, [k, n], signed=True)
            return self.add({"t": "cat", "v": v, "k": k, "n": n, "logits": w})
        if kind in ("bin_probs", "bin_logits"):
            total = o["states"].get(v)
            total = (total - 1) if total else rng.choice([1, 2, 3])
            o["states"][v] = total + 1
            if kind == "bin_probs":
                w = pspec(rng, [k], pz="sigmoid", signed=True)
                return self.add({"t": "bin", "v": v, "k": k, "total": total, "probs": w})
            return self.add({"t": "bin", "v": v, "k": k, "total": total,
                             "logits": pspec(rng, [k], signed=True)})
        if kind in ("gauss", "gauss_lp"):
            d = {"t": "gauss", "v": v, "k": k,
                 "mean": pspec(rng, [k], signed=True),
                 "stddev": pspec(rng, [k], pz=rng.choice(["id", "scaled_sigmoid"]))}
            # keep stddev in [1/2, 2]: id-parameterised values are k/8 with k in 4..16
            if d["stddev"]["pz"] == "id":
                d["stddev"]["vals"] = [rng.choice(range(4, 17)) / 8 for _ in range(k)]
            d["mean"]["vals"] = [rng.choice(range(-16, 17)) / 8 for _ in range(k)]
            if kind == "gauss_lp":
                d["log_partition"] = pspec(rng, [k], signed=True)
            o["continuous"].add(v)
            return self.add(d)
        raise ValueError(kind)

    def sum_over(self, ins: list[int], kout: int | None = None, *, force_dense=False) -> int:
        rng, o = self.rng, self.o
        kin = self.units(ins[0])
        assert all(self.units(i) == kin for i in ins)
        ar = len(ins)
        kout = kout or rng.choice(o["units"])
        mix = (not force_dense) and ar > 1 and kin == kout and rng.random() < 0.5
        pz = rng.choice(o["weight_pz"])
        w = pspec(rng, [kout, ar * kin], pz=pz, mix=mix, signed=o.get("signed", False) and pz == "id",
                  cplx=o.get("complex", False) and pz == "id")
        return self.add({"t": "sum", "in": list(ins), "kin": kin, "kout": kout, "w": w})

    def to_units(self, i: int, k: int) -> int:
        return i if self.units(i) == k else self.sum_over([i], k, force_dense=True)

    def product(self, chs: list[int]) -> int:
        rng, o = self.rng, self.o
        kind = rng.choice(o["prod_kinds"])
        ks = [self.units(c) for c in chs]
        k = rng.choice(ks) if rng.random() < 0.7 else rng.choice(o["units"])
        if kind == "kron":
            k = min(k, 2 if len(chs) >= 3 else 3)
        chs = [self.to_units(c, k) for c in chs]
        if kind == "kron":
            return self.add({"t": "kron", "in": chs, "k": k})
        return self.add({"t": "had", "in": chs, "k": k})

    def partition(self, vs: list[int]) -> list[list[int]]:
        rng = self.rng
        k = 2 if len(vs) < 3 or rng.random() < 0.7 else 3
        vs = list(vs)
        rng.shuffle(vs)
        cuts = sorted(rng.sample(range(1, len(vs)), k - 1))
        return [vs[a:b] for a, b in zip([0] + cuts, cuts + [len(vs)])]

    def region(self, vs: list[int]) -> int:
        rng, o = self.rng, self.o
        key = frozenset(vs)
        if key in self.cache and rng.random() < o.get("share", 0.3):
            return rng.choice(self.cache[key])
        if len(vs) == 1:
            i = self.leaf(vs[0])
            if rng.random() < 0.5:
                i = self.sum_over([i])
        else:
            nalt = 1 if rng.random() < 0.55 else rng.choice([2, 2, 3])
            if o.get("structured"):
                # one fixed decomposition per variable set (a vtree): structured-decomposable circuits
                if not hasattr(self, "parts"):
                    self.parts = {}
                if key not in self.parts:
                    self.parts[key] = self.partition(vs)
                part = self.parts[key]
            else:
                part = self.partition(vs)
            alts = []
            for a in range(nalt):
                if a > 0 and len(vs) > 1 and rng.random() < o.get("p_nonsmooth", 0.0):
                    # an alternative over a strict subset of the variables: the sum is not smooth
                    alts.append(self.region(rng.sample(vs, len(vs) - 1)))
                    continue
                if a > 0:
                    r = rng.random()
                    if r < (0.0 if o.get("structured") else o.get("p_new_partition", 0.25)):
                        part = self.partition(vs)  # a different decomposition: not structured
                    elif r < 0.6:
                        part = list(part)
                        rng.shuffle(part)  # the same decomposition, listed in another order
                chs = [self.region(p) for p in part]
                # malformed stream: overlapping product inputs / constant inputs / non-smooth alternatives
                if rng.random() < o.get("p_nondecomp", 0.0):
                    extra = rng.sample(vs, rng.randint(1, len(vs)))
                    chs.insert(rng.randrange(len(chs) + 1), self.region(extra))
                if rng.random() < o.get("p_const", 0.0):
                    kc = rng.choice(o["units"])
                    chs.insert(rng.randrange(len(chs) + 1),
                               self.add({"t": "constv", "k": kc, "w": pspec(rng, [kc])}))
                pr = self.product(chs)
                if rng.random() < 0.6:
                    pr = self.sum_over([pr])
                alts.append(pr)
            if len(alts) > 1:
                k = self.units(rng.choice(alts))
                alts = [self.to_units(a, k) for a in alts]
                i = self.sum_over(alts)
            else:
                i = alts[0]
        self.cache.setdefault(key, []).append(i)
        return i


DEFAULT_OPTS = {
    "leaf_kinds": ["emb"], "units": [1, 2, 3], "prod_kinds": ["had", "had", "kron"],
    "weight_pz": ["id"], "signed": False, "complex": False, "share": 0.3,
}


def gen_spec(rng: random.Random, **kw) -> dict:
    o = dict(DEFAULT_OPTS)
    o.update(kw)
    o["states"] = dict(o.get("states", {}))
    o["continuous"] = set()
    o["varkind"] = dict(o.get("varkind", {}))
    nv = o.get("nv") or rng.choice([1, 2, 2, 3, 3, 4, 5])
    pool = VAR_POOL_WIDE if rng.random() < 0.5 else VAR_POOL_SMALL
    vs = o.get("vars") or rng.sample(pool, min(nv, len(pool)))
    b = SpecBuilder(rng, o)
    if o.get("parts"):
        # reuse the decomposition (vtree) of another spec: the two circuits are compatible
        b.parts = {frozenset(k): [list(p) for p in v] for k, v in o["parts"]}
    nout = o.get("nout") or rng.choice([1, 1, 1, 2, 3])
    kout = o.get("kout") or rng.choice(o["units"])
    outs = []
    for oi in range(nout):
        sub = vs if (oi == 0 or o.get("full_outputs") or rng.random() < 0.6) else rng.sample(vs, rng.randint(1, len(vs)))
        r = b.region(sub)
        if b.units(r) != kout or rng.random() < 0.7:
            r = b.sum_over([r], kout, force_dense=True)
        outs.append(r)
    # an inner layer that is also an output (must have the same number of units)
    if o.get("inner_outputs", True) and rng.random() < 0.3:
        cands = [i for i in range(len(b.layers)) if b.units(i) == kout and i not in outs
                 and b.layers[i]["t"] in ("had", "sum", "kron")]
        if cands:
            outs.insert(rng.randrange(len(outs) + 1), rng.choice(cands))
    spec = {"layers": b.layers, "outputs": outs, "vars": sorted(vs),
            "states": {str(k): v for k, v in o["states"].items()},
            "continuous": sorted(o["continuous"])}
    out = prune_spec(spec)
    if hasattr(b, "parts"):
        out["parts"] = [[sorted(k), v] for k, v in b.parts.items()]
    return out


def prune_spec(spec: dict) -> dict:
    """Drop layers not reachable from the outputs and renumber."""
    keep = set()
    stack = list(spec["outputs"])
    while stack:
        i = stack.pop()
        if i in keep:
            continue
        keep.add(i)
        stack.extend(spec["layers"][i].get("in", []))
    order = sorted(keep)
    ren = {old: new for new, old in enumerate(order)}
    layers = []
    for old in order:
        d = dict(spec["layers"][old])
        if "in" in d:
            d["in"] = [ren[j] for j in d["in"]]
        layers.append(d)
    out = dict(spec)
    out["layers"] = layers
    out["outputs"] = [ren[i] for i in spec["outputs"]]
    used = set()
    for d in layers:
        if "v" in d:
            used.add(d["v"])
    out["vars"] = sorted(used)
    out["states"] = {k: v for k, v in spec["states"].items() if int(k) in used}
    out["continuous"] = [v for v in spec.get("continuous", []) if v in used]
    return out


def build_circuit(spec: dict) -> Circuit:
    """Construct the real symbolic circuit described by a spec."""
    objs: list[L.Layer] = []
    in_layers: dict[L.Layer, list[L.Layer]] = {}
    for d in spec["layers"]:
        t = d["t"]
        if t == "emb":
            sl = L.EmbeddingLayer(Scope([d["v"]]), d["k"], num_states=d["n"], weight=build_param(d["w"]))
        elif t == "poly":
            sl = L.PolynomialLayer(Scope([d["v"]]), d["k"], degree=d["degree"], coeff=build_param(d["w"]))
        elif t == "cat":
            if "probs" in d:
                sl = L.CategoricalLayer(Scope([d["v"]]), d["k"], num_categories=d["n"], probs=build_param(d["probs"]))
            else:
                sl = L.CategoricalLayer(Scope([d["v"]]), d["k"], num_categories=d["n"], logits=build_param(d["logits"]))
        elif t == "bin":
            if "probs" in d:
                sl = L.BinomialLayer(Scope([d["v"]]), d["k"], total_count=d["total"], probs=build_param(d["probs"]))
            else:
                sl = L.BinomialLayer(Scope([d["v"]]), d["k"], total_count=d["total"], logits=build_param(d["logits"]))
        elif t == "gauss":
            sl = L.GaussianLayer(Scope([d["v"]]), d["k"], mean=build_param(d["mean"]),
                                 stddev=build_param(d["stddev"]),
                                 log_partition=build_param(d["log_partition"]) if "log_partition" in d else None)
        elif t == "constv":
            sl = L.ConstantValueLayer(d["k"], log_space=d.get("log_space", False), value=build_param(d["w"]))
        elif t == "sum":
            sl = L.SumLayer(d["kin"], d["kout"], arity=len(d["in"]), weight=build_param(d["w"]))
        elif t == "had":
            sl = L.HadamardLayer(d["k"], arity=len(d["in"]))
        elif t == "kron":
            sl = L.KroneckerLayer(d["k"], arity=len(d["in"]))
        else:
            raise ValueError(t)
        objs.append(sl)
        if "in" in d:
            in_layers[sl] = [objs[j] for j in d["in"]]
    return Circuit(objs, in_layers, [objs[i] for i in spec["outputs"]])


def gen_inputs(rng: random.Random, spec: dict, B: int) -> list[list[float]]:
    """B input rows of width D = max var + 1; discrete variables in-domain, continuous dyadic."""
    vs = spec["vars"]
    D = (max(vs) + 1) if vs else 1
    cont = set(spec.get("continuous", []))
    poly = {d["v"] for d in spec["layers"] if d["t"] == "poly"}
    rows = []
    for _ in range(B):
        r = [0] * D
        for v in vs:
            if v in cont or v in poly:
                r[v] = rng.choice(range(-12, 13)) / 4
            else:
                r[v] = rng.randrange(spec["states"][str(v)])
        rows.append(r)
    return rows


def spec_features(spec: dict) -> dict:
    ls = spec["layers"]
    sums = [d for d in ls if d["t"] == "sum"]
    return {
        "layers": len(ls),
        "vars": len(spec["vars"]),
        "max_var": max(spec["vars"]) if spec["vars"] else -1,
        "outputs": len(spec["outputs"]),
        "sum_arity_max": max([len(d["in"]) for d in sums], default=0),
        "mixing": sum(1 for d in sums if d["w"].get("mix")),
        "had": sum(1 for d in ls if d["t"] == "had"),
        "kron": sum(1 for d in ls if d["t"] == "kron"),
        "leaf_kinds": sorted({d["t"] for d in ls if "in" not in d}),
        "units": sorted({d.get("k", d.get("kout", 0)) for d in ls}),
    }
