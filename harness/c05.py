"""C05 — differentiate returns the partial derivatives in variable order."""
from __future__ import annotations

import math
import random

import numpy as np
import torch

import common
import gen
import real
import ser
from c03 import same_nested
from framework import Run
import cirkit.symbolic.functional as SF

RULE = ("generated smooth decomposable polynomial-input circuits (degrees 0-3, signed dyadic coefficients, variable "
        "ids with gaps and ids >= 8 in non-sorted insertion order, arity-3 products, nested sums/products, shared "
        "regions, 1-3 outputs over different scopes) x order k in 1..3; the outputs of the real differentiate() "
        "evaluated by the Lean model (exact, Rat) vs the k-th partial derivatives computed by the Lean model over "
        "truncated power series (jets: coefficient of t^k of c(x + t e_v) times k!), in increasing variable-id order "
        "followed by c itself; compiled differentiate() under every (fold, optimize) vs the same; nested autograd of "
        "the compiled operand for k <= 2; non-trivial = distinct (spec, k) with >= 2 variables and a product layer")

OPTS = dict(leaf_kinds=["poly"], weight_pz=["id"], signed=True)


def expected_from_jets(sc, spec, theta, rows, k):
    """E[b] = for every output o: [d^k o / d v^k for v in sorted(scope o)] + [o]"""
    mj = common.ModelCircuit(sc, mode=f"jet{k}")
    try:
        per_var = {}
        for v in spec["vars"]:
            X = [[([x, 1] if j == v else x) for j, x in enumerate(row)] for row in rows]
            per_var[v] = mj.d.eval(mj.cid, theta, X)
        base = mj.d.eval(mj.cid, theta, rows)
    finally:
        mj.drop()
    fact = math.factorial(k)
    E = []
    for b in range(len(rows)):
        outs = []
        for oi, o in enumerate(sc.outputs):
            for v in sorted(sc.layer_scope(o)):
                outs.append([fact * jet[k] for jet in per_var[v][b][oi]])
            outs.append([jet[0] for jet in base[b][oi]])
        E.append(outs)
    return E


def run_scenario(run: Run, scen: dict, rng: random.Random):
    spec, k = scen["spec"], scen["order"]
    sc = gen.build_circuit(spec)
    if not (sc.is_smooth and sc.is_decomposable):
        return
    try:
        dsc = SF.differentiate(sc, order=k)
    except Exception as e:  # noqa: BLE001
        run.violation("differentiate-raised", scen, f"{type(e).__name__}: {e}")
        return
    nexp = sum(len(sc.layer_scope(o)) + 1 for o in sc.outputs)
    if len(dsc.outputs) != nexp:
        run.violation("num-outputs", scen, f"{len(dsc.outputs)} outputs, expected {nexp}")
        return
    rows = gen.gen_inputs(rng, spec, 3)
    scen_x = dict(scen, rows=rows)
    comp0 = real.TorchCompiler()
    comp0.compile(sc)
    theta = real.read_theta(comp0, ser.tensor_params(sc))
    md = common.ModelCircuit(dsc, mode="rat")
    try:
        A = md.eval(theta, rows)
        E = expected_from_jets(sc, spec, theta, rows, k)
        run.evaluations += 1
        ok, why = same_nested(A, E, "rat")
        if not ok:
            # say which output position differs
            pos = next(((b, o) for b in range(len(A)) for o in range(len(A[b])) if A[b][o] != E[b][o]), None)
            run.violation("derivative-wrong", scen_x,
                          f"outputs of differentiate(order={k}) are not [d^k/dv^k for v in increasing id] + [c]: first difference at (row, output) {pos}: {why}")
            return
        run.exact += 1
        # compiled under flags
        for fold, optimize in real.FLAGS:
            try:
                comp = real.TorchCompiler(fold=fold, optimize=optimize, semiring=scen["semiring"])
                comp.compile(sc)
                dtc = comp.compile(dsc)
                y = real.evaluate(dtc, common.input_array(rows, spec), semiring=scen["semiring"])
            except Exception as e:  # noqa: BLE001
                run.violation("eval-crash", scen_x, f"compiled differentiate (fold={fold}, optimize={optimize}): {type(e).__name__}: {e}")
                return
            try:
                mag = md.magnitude(theta, rows)
                ne, nt = common.compare(y, A, mag, "rat")
                run.exact += ne; run.tolerance += nt
            except common.Mismatch as mm:
                run.violation("compiled-derivative-wrong", scen_x, f"{mm} {mm.detail} (fold={fold}, optimize={optimize})")
                return
        # real-code-only oracle: nested autograd of the compiled operand
        if k <= 2 and scen["semiring"] == "sum-product":
            tc = comp0.get_compiled_circuit(sc)
            x = torch.tensor(common.input_array(rows, spec), requires_grad=True)
            out = tc(x)  # (B, O, K)
            exp = []
            for oi, o in enumerate(sc.outputs):
                for v in sorted(sc.layer_scope(o)):
                    cols = []
                    for u in range(out.shape[2]):
                        g, = torch.autograd.grad(out[:, oi, u].sum(), x, create_graph=True)
                        if k == 1:
                            cols.append(g[:, v])
                        else:
                            if not g[:, v].requires_grad:
                                # the first derivative is constant in x (degree <= 1): the second one is 0
                                cols.append(torch.zeros(len(rows)))
                                continue
                            g2, = torch.autograd.grad(g[:, v].sum(), x, retain_graph=True, allow_unused=True)
                            cols.append(g2[:, v] if g2 is not None else torch.zeros(len(rows)))
                    exp.append(torch.stack(cols, dim=1))
                exp.append(out[:, oi])
            exp = torch.stack(exp, dim=1).detach().numpy()
            dtc0 = comp0.compile(dsc)
            got = real.evaluate(dtc0, common.input_array(rows, spec))
            # autograd round-off scales with the operand's magnitude, not with the derivative's
            ref = np.array([[[float(u) for u in o] for o in row] for row in A])
            mo = common.ModelCircuit(sc, mode="rat")
            try:
                scale = max(1.0, max(float(u) for row in mo.magnitude(theta, rows) for o in row for u in o))
            finally:
                mo.drop()
            xs = max(1.0, float(np.abs(np.array(rows, dtype=float)).max()))
            if exp.shape != ref.shape or not np.all(np.abs(exp - ref) <= 1e-7 * scale * xs ** (2 * k)):
                bad = np.argwhere(np.abs(exp - ref) > 1e-7 * scale * xs ** (2 * k))[:1].tolist() if exp.shape == ref.shape else "shape"
                run.violation("autograd-disagrees", scen_x, f"nested autograd of the compiled operand vs differentiate() at {bad}")
                return
    finally:
        md.drop()


def check(run: Run, tier: str, seed: int):
    n = 140 if tier == "quick" else 1000
    for i in range(n):
        srng = random.Random(f"C05-{seed}-{i}")
        o = dict(OPTS)
        if i % 3 == 0:
            o["vars"] = srng.sample([1, 4, 8, 9, 12, 17, 3, 0], srng.choice([2, 3, 3, 4]))
        spec = gen.gen_spec(srng, **o)
        if len(spec["layers"]) > 30:
            spec = gen.gen_spec(srng, nv=srng.choice([2, 3]), **o)
        k = [1, 2, 3, 1, 2][i % 5]
        feats = gen.spec_features(spec)
        scen = {"spec": spec, "order": k, "semiring": srng.choice(["sum-product", "sum-product", "complex-lse-sum"])}
        run.case({"spec": spec, "order": k}, nontrivial=feats["vars"] >= 2 and feats["had"] + feats["kron"] > 0,
                 sample=scen if i < 1 else None,
                 features={"order": k, "vars": feats["vars"], "max_var>=8": feats["max_var"] >= 8,
                           "outputs": feats["outputs"], "semiring": scen["semiring"]})
        run_scenario(run, scen, srng)


def replay(run: Run, body: dict):
    run_scenario(run, body["scenario"], random.Random(0))
