"""C14 — every parameter operator computes its documented tensor function."""
from __future__ import annotations

import random
from fractions import Fraction

import numpy as np
import torch

import gen
import leanmodel
import real
import ser
from framework import Run
import cirkit.symbolic.parameters as P
from cirkit.symbolic.dtypes import DataType
from cirkit.symbolic.initializers import ConstantTensorInitializer

RULE = ("random parameter graphs built forward from 1-3 tensor / constant leaves of rank 1-4 (dims 1-4) through 1-4 "
        "operators drawn from every symbolic node type (index, sum, Hadamard, Kronecker, outer product/sum, exp, log, "
        "square, softplus, sigmoid, scaled sigmoid, clamp, conjugate, reduce sum/prod/LSE, softmax, log-softmax, "
        "mixing weights, Gaussian product mean/stddev/log-partition, polynomial product/differential) with every "
        "admissible axis given as a positive or negative number; compiled alone (F = 1) and folded with 1-3 "
        "structurally identical copies holding different values (F = 2..4), optimize on/off; the compiled tensor vs "
        "Lean PExpr.eval per fold slice (exact over Rat / Q[i] for the algebraic operators, 1e-9 otherwise) and the "
        "declared symbolic shape vs the actual shape; non-trivial = distinct graph with at least one operator")

UNARY_ENTRY = ["exp", "log", "square", "softplus", "sigmoid", "scaled_sigmoid", "clamp", "conj"]


class G:
    """Forward builder of one parameter graph spec."""

    def __init__(self, rng, cplx):
        self.rng, self.cplx = rng, cplx
        self.leaves = []

    def leaf(self, shape, positive=False):
        rng = self.rng
        n = int(np.prod(shape))
        vals = gen.dyadics(rng, n, signed=not positive)
        if self.cplx:
            im = gen.dyadics(rng, n, signed=True)
            vals = [[a, b] for a, b in zip(vals, im)]
        kind = "const" if rng.random() < 0.15 else "tensor"
        d = {"op": kind, "shape": list(shape), "vals": vals}
        self.leaves.append(d)
        return d

    def step(self, cur, shape, positive, force=None):
        """Apply one random operator to (cur, shape); returns (spec, shape, positive?)."""
        rng = self.rng
        rank = len(shape)
        cands = ["sum", "hadamard", "kronecker", "square", "index", "reduce_sum", "reduce_prod", "outer_product", "outer_sum"]
        cands += ["conj"]
        if not self.cplx:
            cands += ["exp", "softplus", "sigmoid", "scaled_sigmoid", "clamp", "softmax", "log_softmax", "reduce_lse"]
            if positive:
                cands += ["log"]
            if rank == 1:
                cands += ["gauss_mean", "gauss_stddev", "gauss_logpart"]
        if rank == 2:
            cands += ["mixing", "poly_product", "poly_diff"]
        if rank == 1 and shape[0] == 1:
            cands = [c for c in cands if c not in ("reduce_sum", "reduce_prod", "reduce_lse")] or ["square"]
        if rank == 1:
            cands = [c for c in cands if not c.startswith("reduce")]  # would give rank 0
        op = force if force in cands else rng.choice(cands)
        ax = rng.randrange(rank)
        ax_arg = ax if rng.random() < 0.5 else ax - rank
        if op in ("sum", "hadamard"):
            other = self.leaf(shape, positive=positive)
            return {"op": op, "args": [cur, other]}, shape, positive and True
        if op == "kronecker":
            s2 = [rng.choice([1, 2, 3]) for _ in shape]
            other = self.leaf(s2, positive=positive)
            return {"op": op, "args": [cur, other]}, [a * b for a, b in zip(shape, s2)], positive
        if op in ("outer_product", "outer_sum"):
            s2 = list(shape); s2[ax] = rng.choice([1, 2, 3])
            other = self.leaf(s2, positive=positive)
            out = list(shape); out[ax] = shape[ax] * s2[ax]
            return {"op": op, "axis": ax_arg, "args": [cur, other]}, out, positive
        if op == "index":
            m = rng.choice([1, 2, 3, 4, shape[ax], shape[ax]])
            idx = [rng.randrange(shape[ax]) for _ in range(m)]
            out = list(shape); out[ax] = m
            return {"op": op, "axis": ax_arg, "indices": idx, "in_shape": list(shape), "args": [cur]}, out, positive
        if op in ("reduce_sum", "reduce_prod", "reduce_lse"):
            out = shape[:ax] + shape[ax + 1:]
            return {"op": op, "axis": ax_arg, "args": [cur]}, out, positive and op != "reduce_lse"
        if op in ("softmax", "log_softmax"):
            return {"op": op, "axis": ax_arg, "args": [cur]}, shape, op == "softmax"
        if op == "mixing":
            return {"op": op, "args": [cur]}, [shape[0], shape[0] * shape[1]], False
        if op == "poly_product":
            s2 = [rng.choice([1, 2, 3]), rng.choice([1, 2, 3])]
            other = self.leaf(s2)
            return {"op": op, "args": [cur, other]}, [shape[0] * s2[0], shape[1] + s2[1] - 1], False
        if op == "poly_diff":
            k = rng.choice([1, 1, 2, 3])
            return {"op": op, "order": k, "args": [cur]}, [shape[0], shape[1] - k if shape[1] > k else 1], False
        if op in ("gauss_mean", "gauss_logpart"):
            k2 = rng.choice([1, 2, 3])
            s1 = self.leaf(shape, positive=True); m2 = self.leaf([k2]); s2 = self.leaf([k2], positive=True)
            return {"op": op, "args": [cur, s1, m2, s2]}, [shape[0] * k2], False
        if op == "gauss_stddev":
            k2 = rng.choice([1, 2, 3])
            if not positive:
                cur = {"op": "square", "args": [cur]}
            s2 = self.leaf([k2], positive=True)
            return {"op": op, "args": [cur, s2]}, [shape[0] * k2], True
        # entrywise
        if op == "scaled_sigmoid":
            return {"op": op, "vmin": 0.25, "vmax": 2.5, "args": [cur]}, shape, True
        if op == "clamp":
            lo, hi = rng.choice([(0.5, None), (None, 1.5), (0.25, 2.0)])
            return {"op": op, "vmin": lo, "vmax": hi, "args": [cur]}, shape, lo is not None
        pos = {"exp": True, "softplus": True, "sigmoid": True, "square": False, "log": False, "conj": positive}[op]
        return {"op": op, "args": [cur]}, shape, pos


TRANSCENDENTAL = {"exp", "log", "softplus", "sigmoid", "scaled_sigmoid", "softmax", "log_softmax", "reduce_lse",
                  "gauss_mean", "gauss_stddev", "gauss_logpart"}


def graph_ops(d):
    if "args" not in d:
        return []
    return [d["op"]] + [o for a in d["args"] for o in graph_ops(a)]


def gen_graph(rng: random.Random, forced=()):
    cplx = rng.random() < 0.25
    g = G(rng, cplx)
    rank = rng.choice([1, 2, 2, 2, 3, 3, 4]) if not forced else rng.choice([3, 3, 4])
    shape = [rng.choice([1, 2, 3, 4] if not forced else [2, 2, 3]) for _ in range(rank)]
    positive = (not cplx) and rng.random() < 0.5
    cur = g.leaf(shape, positive=positive)
    cur["op"] = "tensor"
    for f in forced:
        cur, shape, positive = g.step(cur, shape, positive, force=f)
    for _ in range(rng.randint(1, 4) if not forced else rng.randint(0, 1)):
        cur, shape, positive = g.step(cur, shape, positive)
    return {"graph": cur, "shape": shape, "cplx": cplx}


def revalue(spec, rng):
    """The same graph with fresh values in its tensor leaves (a structurally identical copy)."""
    import copy
    s = copy.deepcopy(spec)

    def rec(d):
        if d["op"] in ("tensor",):
            n = len(d["vals"])
            pos = all((v[0] if isinstance(v, list) else v) > 0 for v in d["vals"])
            vals = gen.dyadics(rng, n, signed=not pos)
            if isinstance(d["vals"][0], list):
                vals = [[a, b] for a, b in zip(vals, gen.dyadics(rng, n, signed=True))]
            d["vals"] = vals
        # hyper-parameters that do not change the output shape may differ between folded copies
        if d["op"] == "clamp" and rng.random() < 0.7:
            # a positive lower bound stays positive: later operators (log) may rely on it
            opts = [(0.5, None), (0.25, 2.0), (1.0, 3.0)] if (d.get("vmin") or 0) > 0 else \
                [(0.5, None), (None, 1.5), (0.25, 2.0), (-0.5, 0.75), (1.0, 3.0)]
            d["vmin"], d["vmax"] = rng.choice(opts)
        if d["op"] == "scaled_sigmoid" and rng.random() < 0.7:
            d["vmin"], d["vmax"] = rng.choice([(0.25, 2.5), (0.5, 1.0), (0.0, 4.0)])
        if d["op"] in ("softmax", "log_softmax") and rng.random() < 0.7:
            rank = rank_of(d["args"][0])
            if rank:
                ax = rng.randrange(rank)
                d["axis"] = ax if rng.random() < 0.5 else ax - rank
        if d["op"] == "index" and rng.random() < 0.7:
            d["indices"] = [rng.randrange(max(d["indices"]) + 1) for _ in d["indices"]]
        if d["op"] == "index" and d.get("in_shape"):
            # another axis of the same size with as many indices as that size: same output shape, other axis
            ish = d["in_shape"]
            a = d["axis"] % len(ish)
            same = [b for b in range(len(ish)) if b != a and ish[b] == ish[a] == len(d["indices"])]
            if same and rng.random() < 0.6:
                b = rng.choice(same)
                d["axis"] = b if rng.random() < 0.5 else b - len(ish)
        for a in d.get("args", []):
            rec(a)

    def rank_of(d):
        # rank is preserved by every operator except the reductions
        if d["op"] in ("tensor", "const"):
            return len(d["shape"])
        r = rank_of(d["args"][0])
        if d["op"] in ("reduce_sum", "reduce_prod", "reduce_lse"):
            return r - 1
        return r

    rec(s["graph"])
    return s


def build(d) -> P.Parameter:
    op = d["op"]
    if op in ("tensor", "const"):
        shape = tuple(d["shape"])
        if isinstance(d["vals"][0], list):
            arr = np.array([complex(a, b) for a, b in d["vals"]], dtype=np.complex128).reshape(shape)
            dt = DataType.COMPLEX
        else:
            arr = np.array(d["vals"], dtype=np.float64).reshape(shape)
            dt = DataType.REAL
        if op == "const":
            return P.Parameter.from_input(P.ConstantParameter(*shape, value=arr))
        return P.Parameter.from_input(P.TensorParameter(*shape, initializer=ConstantTensorInitializer(arr), dtype=dt))
    args = [build(a) for a in d["args"]]
    sh = [a.shape for a in args]
    un = {"exp": P.ExpParameter, "log": P.LogParameter, "square": P.SquareParameter, "softplus": P.SoftplusParameter,
          "sigmoid": P.SigmoidParameter, "conj": P.ConjugateParameter, "mixing": P.MixingWeightParameter}
    if op in un:
        return P.Parameter.from_unary(un[op](sh[0]), args[0])
    if op == "scaled_sigmoid":
        return P.Parameter.from_unary(P.ScaledSigmoidParameter(sh[0], vmin=d["vmin"], vmax=d["vmax"]), args[0])
    if op == "clamp":
        return P.Parameter.from_unary(P.ClampParameter(sh[0], vmin=d["vmin"], vmax=d["vmax"]), args[0])
    red = {"reduce_sum": P.ReduceSumParameter, "reduce_prod": P.ReduceProductParameter, "reduce_lse": P.ReduceLSEParameter,
           "softmax": P.SoftmaxParameter, "log_softmax": P.LogSoftmaxParameter}
    if op in red:
        return P.Parameter.from_unary(red[op](sh[0], axis=d["axis"]), args[0])
    if op == "index":
        return P.Parameter.from_unary(P.IndexParameter(sh[0], indices=list(d["indices"]), axis=d["axis"]), args[0])
    if op == "poly_diff":
        return P.Parameter.from_unary(P.PolynomialDifferential(sh[0], order=d["order"]), args[0])
    bi = {"sum": P.SumParameter, "hadamard": P.HadamardParameter, "kronecker": P.KroneckerParameter,
          "poly_product": P.PolynomialProduct, "gauss_stddev": P.GaussianProductStddev}
    if op in bi:
        return P.Parameter.from_binary(bi[op](sh[0], sh[1]), args[0], args[1])
    if op in ("outer_product", "outer_sum"):
        cls = P.OuterProductParameter if op == "outer_product" else P.OuterSumParameter
        return P.Parameter.from_binary(cls(sh[0], sh[1], axis=d["axis"]), args[0], args[1])
    if op in ("gauss_mean", "gauss_logpart"):
        cls = P.GaussianProductMean if op == "gauss_mean" else P.GaussianProductLogPartition
        return P.Parameter.from_nary(cls(*sh), *args)
    raise ValueError(op)


def tensor_nodes(pg: P.Parameter):
    return [n for n in pg.nodes if isinstance(n, P.TensorParameter) and not isinstance(n, P.ConstantParameter)]


def run_scenario(run: Run, scen: dict, rng: random.Random):
    specs = scen["specs"]
    optimize = scen["optimize"]
    cplx = specs[0]["cplx"]
    try:
        pgs = [build(s["graph"]) for s in specs]
    except Exception as e:  # noqa: BLE001
        run.violation("symbolic-construction", scen, f"building the symbolic graph raised {type(e).__name__}: {e}")
        return
    for pg, s in zip(pgs, specs):
        if list(pg.shape) != list(s["shape"]):
            run.violation("symbolic-shape", scen, f"symbolic shape {pg.shape}, expected {s['shape']}")
            return
    from cirkit.backend.torch.compiler import TorchCompiler
    comp = TorchCompiler(semiring="complex-lse-sum" if cplx else "sum-product", fold=len(specs) > 1, optimize=optimize)
    try:
        tps = [comp.compile_parameter(pg) for pg in pgs]
        if optimize:
            from cirkit.backend.torch.graph.optimize import optimize_graph
            import cirkit.backend.torch.compiler as CC
            patterns = comp.retrieve_parameter_optimization_registry().signatures
            new = []
            for tp in tps:
                res = optimize_graph(tp.topological_ordering(), tp.outputs, patterns, incomings_fn=tp.node_inputs,
                                     outcomings_fn=tp.node_outputs, pattern_matcher_fn=CC._match_parameter_nodes_pattern,
                                     match_optimizer_fn=lambda m: comp.retrieve_parameter_optimization_rule(m.pattern)(comp, m))
                new.append(tp if res is None else type(tp)(*res))
            tps = new
        if len(tps) > 1:
            import cirkit.backend.torch.compiler as CC
            tp = CC._fold_parameters(comp, tps)
        else:
            tp = tps[0]
        tp.reset_parameters()
        with torch.no_grad():
            y = tp()
    except Exception as e:  # noqa: BLE001
        run.violation("compile-crash", scen, f"compiling / evaluating the parameter graph raised {type(e).__name__}: {e} (folds={len(specs)}, optimize={optimize})")
        return
    F = len(specs)
    if tuple(y.shape) != (F, *specs[0]["shape"]):
        run.violation("shape", scen, f"compiled tensor has shape {tuple(y.shape)}, declared (folds, *shape) = {(F, *specs[0]['shape'])}")
        return
    if tuple(tp.shape) != tuple(specs[0]["shape"]):
        run.violation("shape", scen, f"compiled parameter declares shape {tuple(tp.shape)}, symbolic {specs[0]['shape']}")
        return
    yn = y.numpy()
    probe = ser.ser_param(pgs[0], "rat" if not cplx else "gauss")
    mode = ("gauss" if cplx else "rat") if ser.pexpr_is_algebraic(probe) else "float"
    d = leanmodel.driver(mode)
    for f, (pg, s) in enumerate(zip(pgs, specs)):
        theta = {}
        for n in tensor_nodes(pg):
            v = n.initializer.value
            theta[ser.UIDS.uid(n)] = [complex(x) if cplx else float(x) for x in np.asarray(v).reshape(-1)]
        expr = ser.ser_param(pg, mode)
        try:
            shape, symshape, vals = d.param(expr, theta)
        except leanmodel.ModelError as e:
            raise RuntimeError(f"model evaluation failed: {e}")
        run.evaluations += 1
        sens = None
        if mode == "float":
            # conditioning probe: the model on leaves perturbed by a relative 1e-9 (two sign patterns); an algorithm
            # in float64 cannot be expected to agree better than (output change / 1e-9) x a few hundred ulps
            sens = np.zeros(len(vals))
            for pat in (lambda i: 1.0, lambda i: -1.0 if i % 2 else 1.0):
                th2 = {u: [x * (1.0 + 1e-9 * pat(i)) for i, x in enumerate(vs_)] for u, vs_ in theta.items()}
                try:
                    _, _, vals2 = d.param(expr, th2)
                    dv = np.array([abs(float(a) - float(b)) for a, b in zip(vals2, vals)])
                    dv[~np.isfinite(dv)] = 0.0
                    sens = np.maximum(sens, dv / 1e-9)
                except leanmodel.ModelError:
                    pass
        if symshape != list(s["shape"]) or shape != list(s["shape"]):
            run.violation("model-shape", scen, f"model shape {shape}/{symshape} vs {s['shape']}", no_failing_input=True, broken="correspondence POp.shape")
            return
        got = yn[f].reshape(-1)
        vmax = 1.0
        if mode == "float":
            fin = [abs(float(v_)) for v_ in vals if np.isfinite(float(v_))]
            vmax = max(fin) if fin else 1.0
        for j, (g, e) in enumerate(zip(got, vals)):
            if mode == "rat":
                gg = float(np.real(g))
                if Fraction(gg) == e:
                    run.exact += 1
                    continue
                if abs(gg - float(e)) <= 1e-9 * max(1.0, abs(float(e))) * 100 and s.get("fft"):
                    run.tolerance += 1
                    continue
                ok = abs(gg - float(e)) <= 1e-10 * max(1.0, abs(float(e)))
            elif mode == "gauss":
                ee = complex(float(e[0]), float(e[1]))
                ok = abs(complex(g) - ee) <= 1e-10 * max(1.0, abs(ee))
                run.exact += ok
            else:
                gg = float(np.real(g)); ee = float(e)
                # leaf values are O(1) dyadics: an absolute floor of 1e-12 absorbs x - log(exp(x)) style round-off
                # every transcendental operator on the path multiplies the relative error by the size of its argument
                # (and torch's softplus switches to the identity above 20): 1e-9 for one such operator, up to 1e-6
                nt = sum(1 for o_ in graph_ops(s["graph"]) if o_ in TRANSCENDENTAL)
                rtol = min(1e-6, 1e-9 * 30 ** max(0, nt - 1))
                # plus an absolute term: x - lse(x) style cancellations leave absolute errors of a few ulps of the
                # largest intermediate, whatever the size of the entry
                ok = (gg == ee) or abs(gg - ee) <= rtol * abs(ee) + 1e-10 * max(1.0, vmax) + (500 * 2.3e-16 * sens[j] if sens is not None else 0.0)
                if np.isnan(gg) and np.isnan(ee):
                    ok = True  # outside the domain of the operator (log of a negative entry) in both
                    run.feature("outside_domain_in_both", True)
            if ok:
                run.tolerance += 1
                continue
            run.violation("value", dict(scen, fold=f, entry=j),
                          f"fold slice {f}, flat entry {j}: compiled {g!r}, documented tensor function gives {e} (folds={F}, optimize={optimize}, mode {mode})")
            return


def check(run: Run, tier: str, seed: int):
    n = 800 if tier == "quick" else 5000
    for i in range(n):
        srng = random.Random(f"C14-{seed}-{i}")
        forced = ()
        if i % 12 == 9:
            # operator chains that the optimiser fuses (outer product + reduction -> einsum), followed by an
            # operator that reshapes its input
            forced = ("outer_product", srng.choice(["reduce_sum", "reduce_sum", "reduce_prod"]),
                      srng.choice(["outer_sum", "outer_product", "outer_sum", "outer_product", "kronecker", "index", "softmax"]))
        spec = gen_graph(srng, forced)
        F = [1, 1, 2, 3, 4][i % 5]
        specs = [spec] + [revalue(spec, srng) for _ in range(F - 1)]
        scen = {"specs": specs, "optimize": i % 3 == 0}
        ops = []

        def collect(d):
            if "args" in d:
                ops.append(d["op"])
                for a in d["args"]:
                    collect(a)
        collect(spec["graph"])
        run.case(spec, nontrivial=bool(ops), sample=scen if i < 2 else None,
                 features={"folds": F, "rank": len(spec["shape"]), "cplx": spec["cplx"], "optimize": scen["optimize"]})
        for o in set(ops):
            run.feature("op", o)
        run_scenario(run, scen, srng)


def replay(run: Run, body: dict):
    run_scenario(run, body["scenario"], random.Random(0))
