"""C09 — operators refuse invalid inputs and results keep the promised structure."""
from __future__ import annotations

import random

import torch

import common
import gen
import gen2
import pipelines
import real
from c08 import definitions
from framework import Run
import cirkit.symbolic.functional as SF
from cirkit.backend.torch.queries import IntegrateQuery, SamplingQuery
from cirkit.symbolic.circuit import are_compatible
from cirkit.utils.scope import Scope

RULE = ("well-formed stream (unstructured + vtree-skeleton generators, embedding/categorical/polynomial inputs) and "
        "malformed stream (non-smooth sums, overlapping product inputs, constant product inputs, empty / out-of-scope "
        "variable sets, empty observations, orders <= 0, pairs over different scopes, incompatible pairs): error class "
        "of the real operator vs the model's argument checks (Lean SCirc.*Pre), and for every returned circuit the "
        "flags smooth / decomposable / structured-decomposable / compatible-with-operands, scope and number of outputs "
        "recomputed by the Lean model from the serialised result (independently of the real predicates); "
        "IntegrateQuery / SamplingQuery constructors on compiled non-smooth / non-decomposable circuits; "
        "non-trivial = distinct (operator, arguments) case on a circuit with a product layer")


def err_class(fn):
    try:
        return "ok", fn()
    except Exception as e:  # noqa: BLE001
        return pipelines.error_class(e), None


def model_flags(sc, other=None):
    mc = common.ModelCircuit(sc)
    try:
        if other is not None:
            mo = common.ModelCircuit(other, mode=mc.mode)
            try:
                return mc.d.props(mc.cid, other=mo.cid)
            finally:
                mo.drop()
        return mc.d.props(mc.cid)
    finally:
        mc.drop()


def precheck(sc, op, **kw):
    mc = common.ModelCircuit(sc)
    try:
        if op == "multiply":
            mo = common.ModelCircuit(kw["other"], mode=mc.mode)
            try:
                return mc.d.call({"cmd": "precheck", "id": mc.cid, "op": op, "id2": mo.cid})["pre"]
            finally:
                mo.drop()
        q = {"cmd": "precheck", "id": mc.cid, "op": op}
        q.update(kw)
        return mc.d.call(q)["pre"]
    finally:
        mc.drop()


def check_result(run, scen, res, *, scope, nouts, what):
    mp = model_flags(res)
    if not mp["wf"]:
        run.violation("result-ill-formed", scen, f"{what}: the returned circuit is not well-formed")
        return False
    if not mp["smooth"] or not mp["decomposable"]:
        run.violation("result-structure", scen, f"{what}: the returned circuit is smooth={mp['smooth']} decomposable={mp['decomposable']}")
        return False
    if mp["scope"] != sorted(scope):
        run.violation("result-scope", scen, f"{what}: scope {mp['scope']} expected {sorted(scope)}")
        return False
    if mp["num_outputs"] != nouts:
        run.violation("result-outputs", scen, f"{what}: {mp['num_outputs']} outputs expected {nouts}")
        return False
    return True


def run_scenario(run: Run, scen: dict, rng: random.Random):
    spec = scen["spec"]
    sc = gen.build_circuit(spec)
    op = scen["op"]
    _, smooth, decomp, splits = definitions(spec)
    sd_ok = smooth and decomp
    run.evaluations += 1
    if op == "integrate":
        zs = scen["vars"]
        cls, res = err_class(lambda: SF.integrate(sc, Scope(zs)))
        pre = precheck(sc, "integrate", vars=zs)
        expected = "structural" if not sd_ok else ("value" if (not zs or not set(zs) <= set(spec["vars"])) else "ok")
        if cls != expected and not (expected == "ok" and cls in ("signature_not_found", "other:OperatorSignatureNotFound")):
            run.violation("integrate-refusal", scen, f"integrate: error class {cls}, expected {expected} (smooth={smooth}, decomposable={decomp}, Z={zs})")
            return
        run.disagreements_checked += 1
        if pre != expected:
            run.violation("model-precheck", scen, f"model predicts {pre}, definitions say {expected}", no_failing_input=True, broken="correspondence SCirc.integratePre")
            return
        if res is not None:
            check_result(run, scen, res, scope=set(spec["vars"]) - set(zs), nouts=len(sc.outputs), what="integrate")
    elif op == "differentiate":
        k = scen["order"]
        cls, res = err_class(lambda: SF.differentiate(sc, order=k))
        expected = "structural" if not sd_ok else ("value" if k <= 0 else "ok")
        pre = precheck(sc, "differentiate", order=k)
        if expected == "ok" and cls in ("signature_not_found", "other:OperatorSignatureNotFound"):
            # no differentiation rule for a layer of the circuit (e.g. a constant layer): a refusal, not a result
            run.feature("no_rule_refusal", "differentiate")
            return
        if cls != expected:
            run.violation("differentiate-refusal", scen, f"differentiate: error class {cls}, expected {expected} (order={k})")
            return
        run.disagreements_checked += 1
        if pre != expected:
            run.violation("model-precheck", scen, f"model predicts {pre}, definitions say {expected}", no_failing_input=True, broken="correspondence SCirc.differentiatePre")
            return
        if res is not None:
            nouts = sum(len(sc.layer_scope(o)) + 1 for o in sc.outputs)
            check_result(run, scen, res, scope=set(spec["vars"]), nouts=nouts, what="differentiate")
    elif op == "evidence":
        obs = {int(k): v for k, v in scen["obs"].items()}
        cls, res = err_class(lambda: SF.evidence(sc, obs))
        expected = "value" if (not obs or not set(obs) <= set(spec["vars"])) else "ok"
        pre = precheck(sc, "evidence", vars=sorted(obs))
        if cls != expected:
            run.violation("evidence-refusal", scen, f"evidence: error class {cls}, expected {expected} (obs={obs})")
            return
        run.disagreements_checked += 1
        if pre != expected:
            run.violation("model-precheck", scen, f"model predicts {pre}, definitions say {expected}", no_failing_input=True, broken="correspondence SCirc.evidencePre")
            return
        if res is not None:
            mp = model_flags(res)
            if mp["scope"] != sorted(set(spec["vars"]) - set(obs)) or mp["num_outputs"] != len(sc.outputs):
                run.violation("result-scope", scen, f"evidence: scope {mp['scope']} outputs {mp['num_outputs']}")
                return
            mo = model_flags(sc)
            if (mp["smooth"], mp["decomposable"]) != (mo["smooth"], mo["decomposable"]) and sd_ok:
                run.violation("result-structure", scen, "evidence changed smoothness/decomposability of a smooth decomposable circuit")
                return
    elif op == "conjugate":
        cls, res = err_class(lambda: SF.conjugate(sc))
        if res is not None:
            a, b = model_flags(res), model_flags(sc)
            for k in ("smooth", "decomposable", "structured_decomposable", "omni_compatible", "scope", "num_outputs"):
                if a[k] != b[k]:
                    run.violation("conjugate-flags", scen, f"conjugate changed {k}: {b[k]} -> {a[k]}")
                    return
    elif op == "multiply":
        other = gen.build_circuit(scen["other"])
        compat = are_compatible(sc, other)
        same_scope = set(sc.scope) == set(other.scope)
        cls, res = err_class(lambda: SF.multiply(sc, other))
        # property oracle first: whatever multiply returns must be smooth and decomposable
        if res is not None and not check_result(run, scen, res, scope=set(spec["vars"]),
                                                nouts=len(sc.outputs) * len(other.outputs), what="multiply"):
            return
        # by the definition: not compatible when some scope is split in two different ways across the pair
        _, sm2, dc2, sp2 = definitions(scen["other"])
        allsp = {}
        for sps in (splits, sp2):
            for k_, v_ in sps.items():
                allsp.setdefault(k_, set()).update(v_)
        def_incompatible = not (sd_ok and sm2 and dc2) or any(len(v_) > 1 for v_ in allsp.values())
        if same_scope and def_incompatible and cls != "structural":
            run.violation("multiply-refusal", scen, f"multiply on a pair that splits some scope in two different ways (or is not smooth/decomposable): error class {cls}, expected a structural-property error")
            return
        pre = precheck(sc, "multiply", other=other)
        expected = "not_implemented" if not same_scope else ("structural" if not compat else "ok")
        run.disagreements_checked += 1
        if pre != expected:
            run.violation("model-precheck", scen, f"model predicts {pre}, real are_compatible/scope say {expected}", no_failing_input=True, broken="correspondence SCirc.multiplyPre")
            return
        if expected != "ok":
            if cls != expected:
                run.violation("multiply-refusal", scen, f"multiply on a pair that is not compatible / not over the same scope: error class {cls}, expected {expected}")
                return
        elif res is not None:
            if not check_result(run, scen, res, scope=set(spec["vars"]), nouts=len(sc.outputs) * len(other.outputs), what="multiply"):
                return
            m1, m2 = model_flags(sc), model_flags(other)
            if m1["structured_decomposable"] and m2["structured_decomposable"]:
                mp = model_flags(res, other=sc)
                mp2 = model_flags(res, other=other)
                if not mp["structured_decomposable"]:
                    run.violation("product-not-sd", scen, "product of structured-decomposable operands is not structured-decomposable")
                    return
                if not (mp["compatible"] and mp2["compatible"]):
                    run.violation("product-not-compatible", scen, "product of structured-decomposable operands is not compatible with its operands")
                    return
        else:
            run.feature("multiply_refused_compatible", cls)
    elif op == "query":
        # query constructors on compiled circuits
        try:
            tc = real.TorchCompiler(fold=scen.get("fold", False)).compile(sc)
        except Exception as e:  # noqa: BLE001
            run.feature("compile_refused", type(e).__name__)
            return
        expected = "ok" if sd_ok else "value"
        for Q in (IntegrateQuery, SamplingQuery):
            cls, _ = err_class(lambda: Q(tc))
            if cls != expected:
                run.violation("query-refusal", scen, f"{Q.__name__}: error class {cls}, expected {expected} (smooth={smooth}, decomposable={decomp})")
                return
        pre = precheck(sc, "query")
        if pre != expected:
            run.violation("model-precheck", scen, f"model predicts {pre}, definitions say {expected}", no_failing_input=True, broken="correspondence SCirc.queryPre")
            return
        # arguments of the marginal query: variables outside the scope (in a gap of the numbering or beyond it) are refused
        if sd_ok and all(d["t"] != "constv" for d in spec["layers"]):
            import common
            import torch
            vs = list(spec["vars"])
            x = torch.as_tensor(common.input_array(gen.gen_inputs(rng, spec, 2), spec))
            q = IntegrateQuery(tc)
            holes = [v for v in range(max(vs)) if v not in vs]
            bad = rng.choice(holes) if holes and rng.random() < 0.7 else max(vs) + rng.choice([1, 2])
            good = rng.sample(vs, rng.randint(1, len(vs)))
            cases = [(Scope(good), "ok"), (Scope(good + [bad]), "value"), ([Scope(good), Scope([bad])], "value")]
            for arg, want in cases:
                cls, _ = err_class(lambda: q(x, integrate_vars=arg))
                run.evaluations += 1
                if want == "ok" and cls != "value":
                    continue  # layers without an integration rule refuse with TypeError: not an argument error
                if cls != want:
                    run.violation("query-argument", dict(scen, integrate_vars=str(arg)),
                                  f"IntegrateQuery over scope {vs} with integrate_vars={arg}: error class {cls}, expected {want}")
                    return


def check(run: Run, tier: str, seed: int):
    n = 520 if tier == "quick" else 3000
    ops = ["integrate", "multiply", "differentiate", "evidence", "integrate", "multiply", "conjugate", "query"]
    for i in range(n):
        srng = random.Random(f"C09-{seed}-{i}")
        op = ops[i % len(ops)]
        malformed = (i // len(ops)) % 3 == 1
        base = dict(leaf_kinds=["poly"] if op == "differentiate" else ["emb", "cat_logits"], weight_pz=["id"], units=[1, 2, 3])
        if op == "multiply":
            base["leaf_kinds"] = ["emb"]
        scen = {"op": op, "malformed": malformed}
        if op == "multiply" and not malformed and (i // len(ops)) % 2 == 0:
            vs = srng.sample(gen.VAR_POOL_WIDE, srng.choice([2, 3, 3, 4]))
            sk = gen2.make_skeleton(srng, vs)
            spec = gen2.gen_structured(srng, sk, **base)
            r = srng.random()
            if r < 0.6:
                other = gen2.gen_structured(srng, sk, **dict(base, **gen2.twin_opts(spec)))
            elif r < 0.8:
                other = gen2.gen_structured(srng, gen2.make_skeleton(srng, vs), **dict(base, **gen2.twin_opts(spec)))
            else:
                vs2 = srng.sample(gen.VAR_POOL_WIDE, len(vs))
                other = gen2.gen_structured(srng, gen2.make_skeleton(srng, vs2), **base)
            scen.update(spec=spec, other=other)
        else:
            o = dict(base)
            if malformed:
                o.update(p_nonsmooth=0.5, p_nondecomp=0.4, p_const=0.2)
            spec = gen.gen_spec(srng, **o)
            if len(spec["layers"]) > 40:
                spec = gen.gen_spec(srng, nv=3, **o)
            scen["spec"] = spec
            vs = spec["vars"]
            if op == "integrate":
                r = srng.random()
                if r < 0.15:
                    scen["vars"] = []
                elif r < 0.3:
                    holes = [v for v in range(max(vs)) if v not in vs]
                    bad = srng.choice(holes) if holes and srng.random() < 0.5 else max(vs) + srng.choice([1, 2])
                    scen["vars"] = sorted(set(srng.sample(vs, srng.randint(1, len(vs))) + [bad]))
                else:
                    scen["vars"] = sorted(srng.sample(vs, srng.randint(1, len(vs))))
            elif op == "differentiate":
                scen["order"] = srng.choice([-1, 0, 1, 1, 2, 3])
            elif op == "evidence":
                r = srng.random()
                zs = [] if r < 0.15 else srng.sample(vs, srng.randint(1, len(vs)))
                if 0.15 <= r < 0.3:
                    holes = [v for v in range(max(vs)) if v not in vs]
                    zs = zs + [srng.choice(holes) if holes and srng.random() < 0.5 else max(vs) + 1]
                scen["obs"] = {str(v): (srng.randrange(spec["states"].get(str(v), 2))) for v in zs}
            elif op == "multiply":
                if srng.random() < 0.5:
                    # the same (usually non-structured) circuit again, inputs listed in another order
                    from c08 import permute_inputs
                    scen["other"] = permute_inputs(spec, srng)
                else:
                    o2 = dict(o, vars=vs, states={int(k): v for k, v in spec["states"].items()})
                    scen["other"] = gen.gen_spec(srng, **o2)
            elif op == "query":
                scen["fold"] = srng.random() < 0.5
        feats = gen.spec_features(scen["spec"])
        run.case(scen, nontrivial=feats["had"] + feats["kron"] > 0, sample=scen if i < 1 else None,
                 features={"op": op, "malformed": malformed})
        run_scenario(run, scen, srng)


def replay(run: Run, body: dict):
    run_scenario(run, body["scenario"], random.Random(0))
