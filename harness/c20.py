"""C20 — model templates compute the formulas they document."""
from __future__ import annotations

import itertools
import random
from fractions import Fraction

import numpy as np
import torch

import common
import gen
import leanmodel
import real
import ser
from framework import Run
import cirkit.symbolic.functional as SF
from cirkit.symbolic.layers import (BinomialLayer, CategoricalLayer, EmbeddingLayer, GaussianLayer, HadamardLayer,
                                    InputLayer, KroneckerLayer, SumLayer)
from cirkit.templates import pgms, tensor_factorizations
from cirkit.templates.logic.graph import (BottomNode, ConjunctionNode, DisjunctionNode, LiteralNode, LogicalCircuit,
                                          NegatedLiteralNode, TopNode)
from cirkit.templates.utils import Parameterization

RULE = ("cp / tucker / tensor_train with 1-4 modes of size 1-4 and rank 1-3 (embedding factors with exact dyadic values "
        "written through the registry, weighted / unweighted, also categorical / binomial factors and softmax cores), "
        "pgms.hmm with random orderings x 1-3 latent states x categorical / binomial / Gaussian emissions with "
        "per-variable argument lists, pgms.fully_factorized, and logic circuits (random Boolean functions of 1-4 "
        "variables as reduced OBDD-style graphs with skipped variables, shared sub-graphs and True/False constants, "
        "smoothed and pruned by the library); compiled under random (fold, optimize, semiring): the compiled value at "
        "every index tuple / assignment vs the documented contraction recomputed from the factor tables (each table = "
        "Lean evaluation of the input layer whose scope is that variable, core / transition tables = Lean evaluation "
        "of the weight parameters) vs the Lean evaluation of the whole template circuit vs the model's own template "
        "builders (Model/Templates.lean, the objects of the theorems) fed with the same factors; per-variable arguments "
        "checked on the input layer of that variable id; logic: truth table and model count by enumeration; "
        "non-trivial = distinct template configuration")

EXACT = Parameterization(activation="none", initialization="uniform")
SOFTMAX = Parameterization(activation="softmax", initialization="normal")


# ------------------------------------------------------------------------------------------------
# factor tables through the Lean model
# ------------------------------------------------------------------------------------------------
class Tables:
    """Evaluates single layers / parameters of a template circuit with the Lean model."""

    _n = 0

    def __init__(self, mode: str, theta: dict):
        self.mode, self.theta = mode, theta
        self.d = leanmodel.driver(mode)
        self.cids = []

    def layer(self, sl: InputLayer, xs: list) -> list[list]:
        """[[unit values] for x in xs] of the univariate input layer `sl`."""
        Tables._n += 1
        cid = f"t{Tables._n}"
        d = ser.ser_layer_kind(sl, self.mode, ser.UIDS)
        d["in"] = []
        self.d.put_circuit(cid, {"layers": [d], "outputs": [0]})
        self.cids.append(cid)
        (v,) = tuple(sl.scope)
        rows = []
        for x in xs:
            r = [0] * (v + 1)
            r[v] = x
            rows.append(r)
        out = self.d.eval(cid, self.theta, rows)
        return [self.lift(o[0]) for o in out]

    def lift(self, v):
        return lift(v) if self.mode == "gauss" else v

    def param(self, pg) -> tuple[list[int], list]:
        shape, _sym, vals = self.d.param(ser.ser_param(pg, self.mode), self.theta)
        return shape, self.lift(vals)

    def enc(self, v):
        if isinstance(v, list):
            return [self.enc(x) for x in v]
        if isinstance(v, GQ):
            v = (v.re, v.im)
        return leanmodel.enc_num(v, self.mode)

    def template(self, req: dict, X):
        """The model's own template circuit (lean/CirkitModel/Model/Templates.lean) evaluated on the rows X."""
        r = self.d.call({"cmd": "template", **req, "X": [[int(v) for v in x] for x in X]})
        return [self.lift(leanmodel.dec_nested(o, self.mode))[0] for o in r["ok"]]

    def close(self):
        for c in self.cids:
            try:
                self.d.call({"cmd": "drop", "id": c})
            except Exception:  # noqa: BLE001
                pass


class GQ:
    """Gaussian rational (exact arithmetic for the complex templates)."""

    def __init__(self, re, im=0):
        self.re, self.im = Fraction(re), Fraction(im)

    def __add__(self, o):
        o = o if isinstance(o, GQ) else GQ(o)
        return GQ(self.re + o.re, self.im + o.im)

    __radd__ = __add__

    def __mul__(self, o):
        o = o if isinstance(o, GQ) else GQ(o)
        return GQ(self.re * o.re - self.im * o.im, self.re * o.im + self.im * o.re)

    __rmul__ = __mul__

    def __eq__(self, o):
        o = o if isinstance(o, GQ) else GQ(o)
        return self.re == o.re and self.im == o.im

    def __complex__(self):
        return complex(float(self.re), float(self.im))

    def __repr__(self):
        return f"({self.re}+{self.im}i)"


def lift(v):
    """nested decode: [re, im] pairs of the gauss mode become GQ"""
    if isinstance(v, tuple) and len(v) == 2 and isinstance(v[0], Fraction):
        return GQ(v[0], v[1])
    if isinstance(v, (list, tuple)):
        return [lift(x) for x in v]
    return v


def transpose(t):
    return [[t[a][r] for a in range(len(t))] for r in range(len(t[0]))]


def num_abs(v):
    if isinstance(v, GQ):
        return abs(complex(v))
    return abs(v)


# ------------------------------------------------------------------------------------------------
# documented formulas (plain Python over Fractions / floats)
# ------------------------------------------------------------------------------------------------
def f_cp(A, w, x):
    """sum_r w_r prod_j A_j[x_j][r]"""
    return sum(w[r] * prod(A[j][x[j]][r] for j in range(len(A))) for r in range(len(w)))


def f_tucker(A, core, rank, x):
    """sum_{r_1..r_n} core[r_1,...,r_n] prod_j A_j[x_j][r_j] (core flattened row-major)"""
    n = len(A)
    tot = 0
    for rs in itertools.product(range(rank), repeat=n):
        flat = 0
        for r in rs:
            flat = flat * rank + r
        tot = tot + core[flat] * prod(A[j][x[j]][rs[j]] for j in range(n))
    return tot


def f_tt(first, inner, last, rank, x):
    """sum_{r_1..r_{n-1}} v1[x_1][r_1] v2[x_2][r_1][r_2] ... vn[x_n][r_{n-1}];
    inner[i][k][x][j] = entry (r_prev = j, r_next = k) of the factor of inner mode i+1."""
    n = len(inner) + 2
    tot = 0
    for rs in itertools.product(range(rank), repeat=n - 1):
        t = first[x[0]][rs[0]]
        for i in range(len(inner)):
            t = t * inner[i][rs[i + 1]][x[i + 1]][rs[i]]
        tot = tot + t * last[x[n - 1]][rs[n - 2]]
    return tot


def f_hmm(pi, trans, emis, x_by_step):
    """sum over hidden sequences b_0..b_{n-1} of pi[b_0] e_0[b_0] T_1[b_0][b_1] e_1[b_1] ...;
    emis[i] = emission values (per latent state) of the variable at step i for its observed value."""
    n = len(emis)
    K = len(emis[0])
    tot = 0
    for bs in itertools.product(range(K), repeat=n):
        t = pi[bs[0]] * emis[0][bs[0]]
        for i in range(1, n):
            t = t * trans[i - 1][bs[i - 1]][bs[i]] * emis[i][bs[i]]
        tot = tot + t
    return tot


def prod(it):
    p = 1
    for v in it:
        p = p * v
    return p


# ------------------------------------------------------------------------------------------------
# scenarios
# ------------------------------------------------------------------------------------------------
def rand_scen(rng: random.Random, i: int) -> dict:
    kind = ["cp", "tucker", "tt", "hmm", "ff", "logic", "tt", "hmm"][i % 8]
    scen = {"kind": kind, "fold": rng.random() < 0.5, "optimize": rng.random() < 0.5, "torch_seed": rng.randrange(10 ** 6)}
    if kind in ("cp", "tucker", "tt"):
        nm = rng.choice([1, 2, 2, 3, 3, 4]) if kind != "tt" else rng.choice([2, 3, 4, 4, 5])
        scen["shape"] = [rng.choice([2, 3, 4]) if rng.random() < 0.95 else 1 for _ in range(nm)]
        scen["rank"] = rng.choice([1, 2, 3]) if kind != "tucker" or nm < 4 else rng.choice([1, 2])
        if kind == "tt":
            scen["input"] = "embedding"
            scen["complex"] = rng.random() < 0.2
            scen["semiring"] = "complex-lse-sum" if scen["complex"] else rng.choice(["sum-product", "complex-lse-sum"])
        else:
            scen["input"] = rng.choice(["embedding", "embedding", "categorical", "binomial"])
            scen["weights"] = rng.choice(["none", "exact", "softmax"]) if kind == "cp" else rng.choice(["exact", "softmax"])
            scen["semiring"] = "sum-product" if scen["input"] == "embedding" else rng.choice(["sum-product", "lse-sum"])
        return scen
    if kind in ("hmm", "ff"):
        n = rng.randint(1, 5)
        inp = rng.choice(["categorical", "categorical", "binomial", "gaussian"])
        if inp == "categorical":
            kwargs = [{"num_categories": c} for c in rng.sample([2, 3, 4, 5, 6], n)]
        elif inp == "binomial":
            kwargs = [{"total_count": c} for c in rng.sample([1, 2, 3, 4, 5], n)]
        else:
            kwargs = None
        if kwargs and rng.random() < 0.2:
            kwargs = kwargs[0]
        scen.update(n=n, input=inp, kwargs=kwargs, exact=inp == "categorical" and rng.random() < 0.5,
                    semiring=rng.choice(["sum-product", "lse-sum"]))
        if kind == "hmm":
            o = list(range(n)); rng.shuffle(o)
            scen.update(ordering=o, states=rng.choice([1, 2, 3]))
        return scen
    # logic: a random Boolean function as a truth table over n variables
    n = rng.randint(2, 4)
    while True:
        tt = [rng.random() < 0.5 for _ in range(2 ** n)]
        # the formula depends on at least two variables (a constant or a single literal is not a graph)
        dep = [v for v in range(n) if any(tt[i] != tt[i ^ (1 << (n - 1 - v))] for i in range(2 ** n))]
        if len(dep) >= 2:
            break
    scen.update(n=n, table=tt, semiring=rng.choice(["sum-product", "lse-sum"]), decorate=rng.random() < 0.5,
                enforce_smoothness=True, trim=rng.random() < 0.9)
    return scen


def build_logic(scen) -> LogicalCircuit:
    """Reduced OBDD of the truth table as a logic graph: (¬v ∧ lo) ∨ (v ∧ hi), variables skipped where lo = hi,
    constant cofactors as True / False nodes (removed by the library's unit propagation)."""
    n, table = scen["n"], tuple(scen["table"])
    nodes, in_nodes = [], {}
    lits, nlits = {}, {}
    memo = {}
    top, bot = TopNode(), BottomNode()

    def lit(v, pos):
        d = lits if pos else nlits
        if v not in d:
            d[v] = LiteralNode(v) if pos else NegatedLiteralNode(v)
            nodes.append(d[v])
        return d[v]

    def rec(level, sub):
        # sub: truth table over variables level..n-1 (variable `level` is the most significant bit)
        if all(sub):
            return top
        if not any(sub):
            return bot
        key = (level, sub)
        if key in memo:
            return memo[key]
        half = len(sub) // 2
        lo, hi = sub[:half], sub[half:]
        if lo == hi:
            r = rec(level + 1, lo)
        elif scen.get("trim", True) and all(hi) and not any(lo):
            r = lit(level, True)  # trimming rule of SDD / OBDD packages: (¬v ∧ F) ∨ (v ∧ T) = v
        elif scen.get("trim", True) and all(lo) and not any(hi):
            r = lit(level, False)
        else:
            l, h = rec(level + 1, lo), rec(level + 1, hi)
            c0, c1 = ConjunctionNode(), ConjunctionNode()
            in_nodes[c0] = [lit(level, False), l]
            in_nodes[c1] = [lit(level, True), h]
            r = DisjunctionNode()
            in_nodes[r] = [c0, c1]
            nodes.extend([c0, c1, r])
        memo[key] = r
        return r

    root = rec(0, table)
    if scen.get("decorate") and isinstance(root, DisjunctionNode):
        # neutral decorations: x ∧ True, x ∨ False
        c = ConjunctionNode(); in_nodes[c] = [root, top]
        d = DisjunctionNode(); in_nodes[d] = [c, bot]
        nodes.extend([c, d])
        root = d
    used = set()
    for k, vs in in_nodes.items():
        used.add(k); used.update(vs)
    used.add(root)
    return LogicalCircuit([x for x in [top, bot] + nodes if x in used], in_nodes, [root])


def build(scen):
    k = scen["kind"]
    torch.manual_seed(scen["torch_seed"])
    if k == "cp":
        wp = {"none": None, "exact": EXACT, "softmax": SOFTMAX}[scen["weights"]]
        return tensor_factorizations.cp(tuple(scen["shape"]), scen["rank"], input_layer=scen["input"], weight_param=wp)
    if k == "tucker":
        cp_ = {"exact": EXACT, "softmax": SOFTMAX}[scen["weights"]]
        return tensor_factorizations.tucker(tuple(scen["shape"]), scen["rank"], input_layer=scen["input"], core_param=cp_)
    if k == "tt":
        fp = Parameterization(activation="none", initialization="normal", dtype="complex") if scen.get("complex") else None
        return tensor_factorizations.tensor_train(tuple(scen["shape"]), scen["rank"], factor_param=fp)
    if k in ("ff", "hmm"):
        ip = {"probs": EXACT} if scen.get("exact") else None
        if k == "ff":
            return pgms.fully_factorized(scen["n"], input_layer=scen["input"], input_params=ip, input_layer_kwargs=scen["kwargs"])
        return pgms.hmm(scen["ordering"], input_layer=scen["input"], num_latent_states=scen["states"], input_params=ip,
                        input_layer_kwargs=scen["kwargs"], weight_param=EXACT if scen.get("exact") else None)
    return build_logic(scen).build_circuit(enforce_smoothness=scen.get("enforce_smoothness", True))


def domain_of(sl):
    if isinstance(sl, EmbeddingLayer):
        return sl.num_states
    if isinstance(sl, CategoricalLayer):
        return sl.num_categories
    if isinstance(sl, BinomialLayer):
        return sl.total_count + 1
    return None


def var_of(sl) -> int:
    (v,) = tuple(sl.scope)
    return int(v)


def kwargs_for(scen, v):
    kw = scen.get("kwargs")
    if kw is None:
        return {}
    return kw if isinstance(kw, dict) else kw[v]


class Bad(Exception):
    def __init__(self, tag, detail):
        super().__init__(detail)
        self.tag, self.detail = tag, detail


def oracle_tensor_factorization(scen, sc, T: Tables, X):
    """Values of the documented contraction at the rows X, and the same with absolute values (magnitude)."""
    kind, rank = scen["kind"], scen["rank"]
    n = len(scen["shape"])
    ins = list(sc.inputs)
    (out,) = list(sc.outputs)

    def table(sl, absolute=False):
        t = T.layer(sl, list(range(domain_of(sl))))
        return [[num_abs(v) for v in row] for row in t] if absolute else t

    if kind in ("cp", "tucker"):
        by_var = {}
        for sl in ins:
            if var_of(sl) in by_var:
                raise Bad("template-structure", f"two input layers over variable {var_of(sl)}")
            by_var[var_of(sl)] = sl
        if sorted(by_var) != list(range(n)):
            raise Bad("template-structure", f"input layers over variables {sorted(by_var)}, expected 0..{n - 1}")
        for j in range(n):
            if domain_of(by_var[j]) != scen["shape"][j] + (1 if scen["input"] == "binomial" else 0):
                raise Bad("wrong-dimension", f"mode {j} has {domain_of(by_var[j])} states for dimension {scen['shape'][j]}")
        if not isinstance(out, SumLayer):
            raise Bad("template-structure", "output is not a sum layer")
        _shape, w = T.param(out.weight)
        vals = []
        for absolute in (False, True):
            A = [table(by_var[j], absolute) for j in range(n)]
            ww = [num_abs(v) for v in w] if absolute else w
            if kind == "cp":
                vals.append([f_cp(A, ww, x) for x in X])
            else:
                vals.append([f_tucker(A, ww, rank, x) for x in X])
        A = [table(by_var[j]) for j in range(n)]
        req = {"kind": kind, "rank": rank, "factors": [T.enc(transpose(A[j])) for j in range(n)]}
        req["weights" if kind == "cp" else "core"] = T.enc(list(w))
        return vals + [req]
    # tensor train: the factors are identified by the wiring, walking down from the output: the output sum sits on
    # a Hadamard of [chain, last embedding]; every chain sum sits on `rank` Hadamards of [chain, embedding k]
    if not isinstance(out, SumLayer):
        raise Bad("template-structure", "output is not a sum layer")
    (top,) = sc.layer_inputs(out)

    def split(h):
        """(running layer, factor) of a two-input Hadamard step; the factor is the input layer over the later mode
        (Hadamard products are commutative: the order of the two inputs is not part of the documented formula)"""
        hin = list(sc.layer_inputs(h)) if isinstance(h, HadamardLayer) else []
        if len(hin) != 2:
            raise Bad("template-structure", "a tensor-train step should be a Hadamard product of the chain and one factor")
        a, b = hin
        if max(sc.layer_scope(a)) > max(sc.layer_scope(b)):
            a, b = b, a
        if not isinstance(b, InputLayer):
            raise Bad("template-structure", "the later mode of a tensor-train step is not an input layer")
        return a, b

    cur, last_sl = split(top)
    inner_sls = []
    while not isinstance(cur, InputLayer):
        if not isinstance(cur, SumLayer):
            raise Bad("template-structure", f"expected a chain sum layer, found {type(cur).__name__}")
        embs, below = [], None
        for h in sc.layer_inputs(cur):
            a, b = split(h)
            if below is not None and a is not below:
                raise Bad("template-structure", "the Hadamard layers of one chain step do not share the running layer")
            below = a
            embs.append(b)
        if len(embs) != rank:
            raise Bad("template-structure", f"a chain step has {len(embs)} embeddings, expected rank={rank}")
        inner_sls.insert(0, embs)
        cur = below
    first_sl = cur
    modes = [var_of(first_sl)] + [var_of(e[0]) for e in inner_sls] + [var_of(last_sl)]
    if modes != list(range(n)) or any(var_of(e) != var_of(es[0]) for es in inner_sls for e in es):
        raise Bad("wrong-mode-order", f"the chain contracts the modes in the order {modes}, the documented order is 0..{n - 1}")
    vals = []
    for absolute in (True, False):
        first = table(first_sl, absolute)
        last = table(last_sl, absolute)
        inner = [[table(e, absolute) for e in embs] for embs in inner_sls]
        vals.insert(0, [f_tt(first, inner, last, rank, x) for x in X])
    req = {"kind": "tt", "rank": rank, "first": T.enc(transpose(first)), "last": T.enc(transpose(last)),
           "inner": [[T.enc(transpose(e)) for e in mode] for mode in inner]}
    return vals + [req]


def hmm_walk(sc):
    """Top-down walk of the HMM chain: [(sum layer, emission layer)] from the first step to the last."""
    (out,) = list(sc.outputs)
    steps = []
    cur = out
    while True:
        if not isinstance(cur, SumLayer):
            raise Bad("template-structure", f"expected a sum layer, found {type(cur).__name__}")
        (below,) = sc.layer_inputs(cur)
        if isinstance(below, InputLayer):
            steps.append((cur, below))
            return steps
        if not isinstance(below, HadamardLayer):
            raise Bad("template-structure", f"expected a Hadamard layer, found {type(below).__name__}")
        ins = sc.layer_inputs(below)
        em = [x for x in ins if isinstance(x, InputLayer)]
        rest = [x for x in ins if not isinstance(x, InputLayer)]
        if len(em) != 1 or len(rest) != 1:
            raise Bad("template-structure", "Hadamard layer of an HMM step should join one emission and one sum layer")
        steps.append((cur, em[0]))
        cur = rest[0]


def check_kwargs(scen, sc):
    """each variable uses the per-variable arguments given for that variable id"""
    for sl in sc.inputs:
        v = var_of(sl)
        kw = kwargs_for(scen, v)
        if "num_categories" in kw and getattr(sl, "num_categories", None) != kw["num_categories"]:
            raise Bad("wrong-variable-arguments", f"variable {v} was given num_categories={kw['num_categories']} but its input layer has {getattr(sl, 'num_categories', None)}")
        if "total_count" in kw and getattr(sl, "total_count", None) != kw["total_count"]:
            raise Bad("wrong-variable-arguments", f"variable {v} was given total_count={kw['total_count']} but its input layer has {getattr(sl, 'total_count', None)}")
        want = {"categorical": CategoricalLayer, "binomial": BinomialLayer, "gaussian": GaussianLayer}[scen["input"]]
        if not isinstance(sl, want):
            raise Bad("wrong-input-layer", f"variable {v}: {type(sl).__name__} instead of {want.__name__}")


def oracle_pgm(scen, sc, T: Tables, X):
    check_kwargs(scen, sc)
    n = scen["n"]
    if sorted(sc.scope) != list(range(n)):
        raise Bad("template-structure", f"scope {sorted(sc.scope)} != 0..{n - 1}")
    if scen["kind"] == "ff":
        by_var = {var_of(sl): sl for sl in sc.inputs}
        vals = []
        for absolute in (False, True):
            col = {v: T.layer(by_var[v], [x[v] for x in X]) for v in range(n)}
            vals.append([prod((num_abs(col[v][b][0]) if absolute else col[v][b][0]) for v in range(n)) for b in range(len(X))])
        req = None
        if all(domain_of(by_var[v]) is not None for v in range(n)):
            req = {"kind": "ff", "factors": [T.enc([row[0] for row in T.layer(by_var[v], list(range(domain_of(by_var[v]))))]) for v in range(n)]}
        return vals + [req]
    steps = hmm_walk(sc)
    seq = [var_of(e) for _, e in steps]
    if seq != list(scen["ordering"]):
        raise Bad("wrong-ordering", f"the chain visits variables {seq}, the ordering is {scen['ordering']}")
    K = scen["states"]
    mats = []
    for s, _ in steps:
        shape, w = T.param(s.weight)
        mats.append([[w[a * shape[1] + b] for b in range(shape[1])] for a in range(shape[0])])
    if len(mats[0]) != 1:
        raise Bad("template-structure", f"the output sum layer has {len(mats[0])} units")
    vals = []
    for absolute in (False, True):
        ab = (lambda v: num_abs(v)) if absolute else (lambda v: v)
        em = [T.layer(e, [x[var_of(e)] for x in X]) for _, e in steps]
        out = []
        for b in range(len(X)):
            emis = [[ab(v) for v in em[i][b]] for i in range(len(steps))]
            pi = [ab(v) for v in mats[0][0]]
            trans = [[[ab(v) for v in row] for row in m] for m in mats[1:]]
            out.append(f_hmm(pi, trans, emis, None))
        vals.append(out)
    req = None
    if all(domain_of(e) is not None for _, e in steps):
        by_var = {var_of(e): e for _, e in steps}
        req = {"kind": "hmm", "K": K, "ordering": list(scen["ordering"]),
               "emissions": [T.enc(transpose(T.layer(by_var[v], list(range(domain_of(by_var[v])))))) for v in range(n)],
               "transitions": [T.enc(m_) for m_ in mats]}
    return vals + [req]


def truth(scen, x):
    idx = 0
    for v in range(scen["n"]):
        idx = idx * 2 + (int(x[v]) if v < len(x) else 0)  # variables beyond the circuit's scope: f does not depend on them
    return bool(scen["table"][idx])


def rows_for(scen, sc, rng):
    vs = sorted(sc.scope)
    D = max(vs) + 1
    doms = {}
    for sl in sc.inputs:
        doms[var_of(sl)] = domain_of(sl)
    if all(doms[v] is not None for v in vs):
        total = int(np.prod([doms[v] for v in vs], dtype=float))
        if total <= 64:
            rows = []
            for a in itertools.product(*[range(doms[v]) for v in vs]):
                r = [0] * D
                for v, val in zip(vs, a):
                    r[v] = val
                rows.append(r)
            return rows
    rows = []
    for _ in range(24):
        r = [0] * D
        for v in vs:
            r[v] = rng.randrange(doms[v]) if doms[v] is not None else rng.randrange(-16, 17) / 8
        rows.append(r)
    return rows


def close_enough(got: complex, exp, mag, mode) -> tuple[bool, bool]:
    """(ok, exact)"""
    if mode == "rat":
        g = float(np.real(got))
        if abs(np.imag(got)) > 1e-9 * max(1.0, float(mag)):
            return False, False
        if np.isfinite(g) and Fraction(g) == exp:
            return True, True
        return (np.isfinite(g) and abs(g - float(exp)) <= 1e-9 * max(float(mag), 1e-300)), False
    if mode == "gauss":
        e = complex(exp)
        return abs(complex(got) - e) <= 1e-9 * max(float(mag), 1e-300), complex(got) == e
    g = float(np.real(got))
    return (np.isfinite(g) and abs(g - float(exp)) <= 1e-9 * max(abs(float(exp)), float(mag), 1e-300)), g == float(exp)


def run_scenario(run: Run, scen: dict, rng: random.Random):
    kind = scen["kind"]
    try:
        sc = build(scen)
    except Exception as e:  # noqa: BLE001
        tag = "template-crash"
        if kind in ("cp", "tucker") and len(scen["shape"]) == 1 and "arity" in str(e):
            tag = "template-1mode"
        elif kind in ("cp", "tucker", "tt") and 1 in scen["shape"] and ("at least 2" in str(e) or "categories" in str(e)):
            tag = "template-dim1"
        elif kind == "logic" and "arity should be at least 2" in str(e):
            tag = "logic-unary-conjunction"
        run.violation(tag, scen, f"building the template raised {type(e).__name__}: {e}")
        return
    cplx = bool(scen.get("complex"))
    try:
        comp, tc = real.compile_circuit(sc, fold=scen["fold"], optimize=scen["optimize"], semiring=scen["semiring"])
    except Exception as e:  # noqa: BLE001
        run.violation("compile-crash", scen, f"{type(e).__name__}: {e}")
        return
    params = ser.tensor_params(sc)
    exact_class = (kind in ("cp", "tucker") and scen["input"] == "embedding" and scen["weights"] != "softmax") or kind == "tt" \
        or (kind in ("hmm", "ff") and scen.get("exact"))
    if exact_class:
        vals = {}
        for p_ in params:
            if not getattr(p_, "learnable", True):
                continue
            size = int(np.prod(p_.shape))
            re_ = gen.dyadics(rng, size, signed=kind in ("cp", "tucker", "tt"))
            vals[ser.UIDS.uid(p_)] = [complex(a, b) for a, b in zip(re_, gen.dyadics(rng, size, signed=True))] if cplx else re_
        real.write_theta(comp, [p_ for p_ in params if ser.UIDS.uid(p_) in vals], vals)
    theta = real.read_theta(comp, params)
    mc = common.ModelCircuit(sc, cplx=cplx)
    T = Tables(mc.mode, theta)
    try:
        if not mc.wf:
            run.violation("model-wf", scen, "the model calls the template circuit ill-formed", no_failing_input=True,
                          broken="correspondence: Circuit.__init__ accepts vs SCirc.wf")
            return
        X = rows_for(scen, sc, rng)
        scen_x = dict(scen, rows=X)
        try:
            cont = any(domain_of(sl) is None for sl in sc.inputs)
            y = real.evaluate(tc, np.array(X, dtype=np.float64 if cont else np.int64), semiring=scen["semiring"])
        except Exception as e:  # noqa: BLE001
            run.violation("eval-crash", scen_x, f"{type(e).__name__}: {e}")
            return
        if y.shape[1:] != (1, 1):
            run.violation("output-shape", scen_x, f"template output of shape {y.shape}")
            return
        m = mc.eval(theta, X)
        # 1. the documented formula from the factor tables
        try:
            req = None
            if kind in ("cp", "tucker", "tt"):
                want, mag, req = oracle_tensor_factorization(scen, sc, T, X)
            elif kind in ("hmm", "ff"):
                want, mag, req = oracle_pgm(scen, sc, T, X)
            else:
                want = [Fraction(1) if truth(scen, x) else Fraction(0) for x in X]
                if mc.mode != "rat":
                    want = [float(v) for v in want]
                mag = [1] * len(X)
        except Bad as b:
            run.violation(b.tag, scen_x, b.detail)
            return
        for b in range(len(X)):
            run.evaluations += 1
            ok, exact = close_enough(y[b, 0, 0], want[b], mag[b], mc.mode)
            if not ok:
                run.violation("formula-mismatch", dict(scen_x, row=b),
                              f"{kind}: compiled value {y[b, 0, 0]} at {X[b]} but the documented formula gives {want[b]} "
                              f"(fold={scen['fold']}, optimize={scen['optimize']}, {scen['semiring']})")
                return
            run.exact += exact
            run.tolerance += (not exact)
            # 2. Lean evaluation of the real circuit = formula (the template theorems, on this instance)
            mv = lift(m[b][0][0]) if mc.mode == "gauss" else m[b][0][0]
            same = (mv == want[b]) if mc.mode in ("rat", "gauss") else close_enough(mv, want[b], mag[b], mc.mode)[0]
            if not same:
                run.violation("model-formula-mismatch", dict(scen_x, row=b),
                              f"{kind}: the model evaluates the template circuit to {mv} at {X[b]}, the formula gives {want[b]}")
                return
        # 2b. the model's template builder (the object of the C20 theorems) on the same factors = the real circuit
        if req is not None:
            try:
                tv = T.template(req, X)
            except leanmodel.ModelError as e:
                if "copies" in str(e) or "large" in str(e):
                    run.feature("model_template_too_large", True)
                    tv = None
                else:
                    run.violation("model-template", scen_x, f"the model's template builder rejects the factors: {e}",
                                  no_failing_input=True, broken="correspondence: Model/Templates.lean vs cirkit/templates")
                    return
            if tv is not None:
                for b in range(len(X)):
                    mv = lift(m[b][0][0]) if mc.mode == "gauss" else m[b][0][0]
                    same = (tv[b] == mv) if mc.mode in ("rat", "gauss") else close_enough(tv[b], mv, mag[b], mc.mode)[0]
                    run.evaluations += 1
                    if not same:
                        # the formula agreed with the real circuit above, so this is a break of the tie, with the input at hand
                        run.violation("model-template-mismatch", dict(scen_x, row=b),
                                      f"{kind}: the model's template evaluates to {tv[b]} at {X[b]}, the real template circuit (model evaluation) to {mv}",
                                      no_failing_input=True, broken="correspondence: Model/Templates.lean builders vs the circuits built by cirkit/templates")
                        return
                run.feature("model_template_compared", kind)
        # 3. logic: model count
        if kind == "logic":
            vs = sorted(sc.scope)
            count = sum(1 for a in itertools.product([0, 1], repeat=len(vs))
                        if any(truth(scen, full) for full in completions(scen["n"], vs, a)))
            # the function may not depend on every variable: count over the circuit's scope
            count = sum(1 for a in itertools.product([0, 1], repeat=len(vs)) if truth(scen, embed(scen["n"], vs, a)))
            try:
                itc = comp.compile(SF.integrate(sc))
                with torch.no_grad():
                    z = itc()
                z = torch.exp(z) if scen["semiring"] != "sum-product" else z
                z = float(z.real.flatten()[0]) if z.is_complex() else float(z.flatten()[0])
            except Exception as e:  # noqa: BLE001
                run.violation("integrate-crash", scen_x, f"{type(e).__name__}: {e}")
                return
            run.evaluations += 1
            if abs(z - count) > 1e-9 * max(1, count):
                run.violation("model-count", scen_x, f"the logic circuit integrates to {z}, the formula has {count} models over {vs}")
                return
            run.exact += 1
    finally:
        T.close()
        mc.drop()


def embed(n, vs, a):
    x = [0] * n
    for v, val in zip(vs, a):
        x[v] = val
    return x


def completions(n, vs, a):
    yield embed(n, vs, a)


def check(run: Run, tier: str, seed: int):
    n = 240 if tier == "quick" else 1600
    for i in range(n):
        srng = random.Random(f"C20-{seed}-{i}")
        scen = rand_scen(srng, i)
        key = {k: v for k, v in scen.items() if k not in ("torch_seed",)}
        run.case(key, nontrivial=True, sample=scen if i < 2 else None,
                 features={"kind": scen["kind"], "flags": f"{scen['fold']},{scen['optimize']}", "semiring": scen["semiring"],
                           "modes": len(scen.get("shape", [])) or scen.get("n"), "input": scen.get("input", "logic")})
        run_scenario(run, scen, srng)


def replay(run: Run, body: dict):
    run_scenario(run, {k: v for k, v in body["scenario"].items() if k not in ("rows", "row")}, random.Random(0))
