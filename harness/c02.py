"""C02 — folding and optimization never change the computed function; every symbolic tensor
parameter stays addressable as exactly one slice of exactly one compiled tensor."""
from __future__ import annotations

import random

import numpy as np
import torch

import common
import foldcert
import gen
import pipelines
import real
import ser
from framework import Run
from cirkit.backend.torch.parameters.nodes import TorchTensorParameter
import cirkit.symbolic.parameters as P

RULE = ("generated circuits and operator pipelines (integrate / multiply / evidence / conjugate / differentiate "
        "results), compiled under the four (fold, optimize) combinations in four compilers; one fresh random "
        "valuation is written into all four through the compiler registry; outputs compared pairwise with the "
        "unfolded unoptimized compilation and with the Lean evaluation; registry checked for range, shape, "
        "injectivity and coverage of the compiled tensors; fold certificates (groups, address-book entries) of the "
        "real compiled circuit validated by the Lean model; non-trivial = distinct spec with a sum and a product layer")

CLASSES = [
    ("emb_real", dict(leaf_kinds=["emb"], weight_pz=["id"]), ["sum-product", "lse-sum"]),
    ("emb_poly_signed", dict(leaf_kinds=["emb", "poly"], weight_pz=["id"], signed=True), ["sum-product", "complex-lse-sum"]),
    ("expfam", dict(leaf_kinds=["cat_probs", "cat_softmax", "cat_logits", "bin_probs", "bin_logits", "gauss",
                                "gauss_lp", "emb"], units=[1, 2],
                    weight_pz=["id", "softmax", "exp", "sigmoid", "softplus", "mix"]), ["sum-product", "lse-sum"]),
    ("complex", dict(leaf_kinds=["emb", "poly"], weight_pz=["id"], signed=True, complex=True), ["complex-lse-sum"]),
]


def compiled_tensor_nodes(tc):
    """All TorchTensorParameter nodes reachable from the compiled circuit (by identity)."""
    seen, out = set(), []

    def visit_layer(l):
        for p in l.params.values():
            for n in p.nodes:
                if isinstance(n, TorchTensorParameter) and id(n) not in seen:
                    seen.add(id(n)); out.append(n)
        for sub in l.sub_modules.values():
            visit_layer(sub)

    for l in tc.layers:
        visit_layer(l)
    return out


def all_symbolic_tensors(sc):
    """Every TensorParameter (learnable or constant) owned by the circuit's layers."""
    import cirkit.symbolic.layers as L
    out, seen = [], set()

    def visit(sl):
        for pg in sl.params.values():
            for n in pg.nodes:
                if isinstance(n, P.TensorParameter) and id(n) not in seen:
                    seen.add(id(n)); out.append(n)
        if isinstance(sl, L.EvidenceLayer):
            visit(sl.layer)

    for sl in sc.layers:
        visit(sl)
    return out


def check_addressable(run: Run, scen: dict, sc, comp, tc, flags) -> bool:
    syms = all_symbolic_tensors(sc)
    seen = {}
    for n in syms:
        try:
            pt, idx = comp.state.retrieve_compiled_parameter(n)
        except KeyError:
            run.violation("registry-missing", scen, f"symbolic tensor parameter of shape {n.shape} is not addressable after compilation with {flags}")
            return False
        if not (0 <= idx < pt.num_folds):
            run.violation("registry-range", scen, f"slice index {idx} outside the {pt.num_folds} folds ({flags})")
            return False
        if tuple(pt.shape) != tuple(n.shape) or pt._ptensor is None or tuple(pt._ptensor.shape) != (pt.num_folds, *n.shape):
            run.violation("registry-shape", scen, f"compiled tensor shape {tuple(pt._ptensor.shape) if pt._ptensor is not None else None} vs symbolic {n.shape} ({flags})")
            return False
        key = (id(pt), idx)
        if key in seen:
            run.violation("registry-injective", scen, f"two symbolic tensor parameters map to the same slice {idx} of one compiled tensor ({flags})")
            return False
        seen[key] = n
    # coverage: every slice of every compiled tensor of this circuit belongs to a symbolic parameter
    for pt in compiled_tensor_nodes(tc):
        for f in range(pt.num_folds):
            if (id(pt), f) not in seen:
                run.violation("registry-coverage", scen, f"slice {f} of a compiled tensor {tuple(pt._ptensor.shape)} is owned by no symbolic tensor parameter ({flags})")
                return False
    return True


def fresh_theta(rng, params, cplx, signed):
    theta = {}
    for n in params:
        size = int(np.prod(n.shape))
        vals = gen.dyadics(rng, size, signed=signed)
        if cplx:
            im = gen.dyadics(rng, size, signed=True)
            vals = [complex(a, b) for a, b in zip(vals, im)]
        theta[ser.UIDS.uid(n)] = vals
    return theta


def run_scenario(run: Run, scen: dict, rng: random.Random):
    spec, semiring = scen["spec"], scen["semiring"]
    pctx: dict = {}
    try:
        chain = pipelines.build_pipeline(spec, scen.get("ops", []), pctx)
    except pipelines.Refused:
        return
    others = pctx.get("others", [])
    sc = chain[-1]
    base_sc = chain[0]
    cplx = common.spec_is_complex(spec)
    signed = scen["class"] in ("emb_poly_signed", "complex")
    params = ser.tensor_params(base_sc)  # learnable tensors live in the base circuit; derived ones reference them
    for c in others + chain[1:]:
        for n in ser.tensor_params(c):
            if all(n is not m for m in params):
                params.append(n)
    mc = common.ModelCircuit(sc, cplx=cplx)
    try:
        comps = {}
        fold_recs = {}
        for fold, opt in real.FLAGS:
            try:
                comp = real.TorchCompiler(semiring=semiring, fold=fold, optimize=opt)
                with foldcert.spy() as recs:
                    for c in others + chain:
                        tc = comp.compile(c)
                    if fold and recs:
                        fold_recs[(fold, opt)] = recs[-1]
                    if foldcert.UNOBSERVABLE["flag"]:
                        run.feature("unobservable", "build_folded_graph")
                comps[(fold, opt)] = (comp, tc)
            except Exception as e:  # noqa: BLE001
                run.violation("compile-crash", scen, f"compilation with fold={fold}, optimize={opt} raised {type(e).__name__}: {e}")
                return
        # fresh values, written through the registry of each compiler
        if scen["class"] == "expfam":
            theta = None  # keep the initial (valid) values: probabilities must stay normalised
        else:
            theta = fresh_theta(rng, params, cplx, signed)
        for (fold, opt), (comp, tc) in comps.items():
            if not check_addressable(run, scen, sc, comp, tc, f"fold={fold}, optimize={opt}"):
                return
            if theta is not None:
                real.write_theta(comp, params, theta)
        if theta is None:
            theta = real.read_theta(comps[(False, False)][0], params)
            for k, (comp, tc) in comps.items():
                if k != (False, False):
                    real.write_theta(comp, params, theta)
        B = rng.choice([1, 2, 3, 5])
        X = gen.gen_inputs(rng, spec, B)
        scen_x = dict(scen, X=X, theta={str(k): [str(v) for v in vs] for k, vs in theta.items()})
        outs = {}
        for k, (comp, tc) in comps.items():
            try:
                outs[k] = real.evaluate(tc, common.input_array(X, spec) if sc.scope else None, semiring=semiring)
                if not sc.scope:
                    outs[k] = np.broadcast_to(outs[k], (B, *outs[k].shape[1:]))
            except Exception as e:  # noqa: BLE001
                run.violation("eval-crash", scen_x, f"evaluation with fold={k[0]}, optimize={k[1]} raised {type(e).__name__}: {e}")
                return
        run.evaluations += len(outs)
        base = outs[(False, False)]
        for k, y in outs.items():
            if k == (False, False):
                continue
            try:
                common.compare_arrays(y, base, tol=1e-9, what=f"fold={k[0]},optimize={k[1]} vs unfolded unoptimized")
            except common.Mismatch as mm:
                # cancellation-aware second opinion: compare against the exact model with magnitude bound
                try:
                    m = mc.eval(theta, X); mag = mc.magnitude(theta, X)
                    common.compare(y, m, mag, mc.mode)
                    common.compare(base, m, mag, mc.mode)
                    continue
                except common.Mismatch:
                    pass
                run.violation("flag-mismatch", scen_x, f"{mm} {mm.detail}")
                return
        try:
            m = mc.eval(theta, X)
            mag = mc.magnitude(theta, X)
            for k, y in outs.items():
                ne, nt = common.compare(y, m, mag, mc.mode)
                run.exact += ne; run.tolerance += nt
        except common.Mismatch as mm:
            run.violation("value-mismatch", scen_x, f"compiled output (fold={k[0]}, optimize={k[1]}) after writing parameters through the registry differs from the denotation: {mm} {mm.detail}")
            return
        # structural certificate of the folded compilations
        for k, (comp, tc) in comps.items():
            if k[0] and k in fold_recs:
                if not foldcert.check_fold_certificate(run, scen_x, fold_recs[k], tc, f"fold={k[0]}, optimize={k[1]}"):
                    return
    finally:
        mc.drop()


def check(run: Run, tier: str, seed: int):
    n = 240 if tier == "quick" else 1500
    for i in range(n):
        cls, opts, semirings = CLASSES[i % len(CLASSES)]
        srng = random.Random(f"C02-{seed}-{i}")
        o = dict(opts)
        if "mix" in o.get("weight_pz", []):
            o["weight_pz"] = [z for z in o["weight_pz"] if z != "mix"]
        spec = gen.gen_spec(srng, **o)
        if len(spec["layers"]) > (40 if tier == "quick" else 70):
            spec = gen.gen_spec(srng, nv=2, **o)
        ops = pipelines.random_ops(srng, spec, cls) if i % 2 == 1 else []
        if i % 6 == 5 and cls != "expfam":
            # squares of circuits with one-unit layers: Kronecker-parameterised sum layers (tensor-dot rewrite)
            spec = gen.gen_spec(srng, **dict(o, units=[1, 1, 2], nv=srng.choice([1, 2, 3])))
            ops = [{"op": "square"}]
        if i % 6 == 2 and cls != "expfam":
            # squares of circuits whose sibling sum layers share a weight shape but not the (arity, units) split:
            # index parameters of equal shape and different index lists end up in one fold group
            spec = gen.sibling_sums_spec(srng, cplx=cls == "complex", signed=cls != "emb_real")
            other = gen.sibling_sums_spec(srng, cplx=cls == "complex", signed=cls != "emb_real",
                                          splits=[tuple(x) for x in reversed(spec["splits"])], vs=spec["vars"],
                                          states={int(k): v for k, v in spec["states"].items()})
            ops = [{"op": "multiply", "other": other}]
        if i % 8 == 3 and cls == "complex":
            # conjugate of a square with Kronecker layers: the product of Kronecker layers introduces a real constant
            # permutation matrix next to complex weights (mixed dtypes under the sum-collapse rewrite)
            spec = gen.gen_spec(srng, **dict(o, prod_kinds=["kron"], units=[2], nv=srng.choice([2, 3])))
            ops = [{"op": "square"}, {"op": "conjugate"}]
        feats = gen.spec_features(spec)
        nontrivial = feats["had"] + feats["kron"] > 0 and any(d["t"] == "sum" for d in spec["layers"])
        semiring = srng.choice(semirings)
        scen = {"spec": spec, "class": cls, "semiring": semiring, "ops": ops}
        run.case({"spec": spec, "ops": ops}, nontrivial=nontrivial, sample=scen if i < 2 else None,
                 features={"class": cls, "semiring": semiring, "ops": "+".join(o_["op"] for o_ in ops) or "none",
                           "outputs": feats["outputs"], "sum_arity_max": feats["sum_arity_max"]})
        run_scenario(run, scen, srng)


def replay(run: Run, body: dict):
    run_scenario(run, body["scenario"], random.Random(0))
