"""C10 — derived circuits share parameters with their operands at all times."""
from __future__ import annotations

import copy
import random

import numpy as np
import torch

import common
import gen
import gen2
import pipelines
import real
import ser
from framework import Run
import cirkit.symbolic.parameters as P
from cirkit.backend.torch.parameters.nodes import TorchTensorParameter

RULE = ("operator pipelines (integrate, multiply(c,c), evidence, conjugate, differentiate and chains of two) over "
        "generated circuits incl. frozen (non-learnable, randomly initialised) and constant parameters, compiled "
        "together with their operand in ONE compiler under a (fold, optimize, semiring) combination; then a random "
        "history (quick 12, thorough 60 steps) of {optimizer step on a random loss, in-place copy_ of fresh values, "
        "reset_parameters(), load_state_dict of an earlier snapshot, evaluation under no_grad / with grad}; at every "
        "evaluation the current values are read from the operand's tensors through the registry and every compiled "
        "derived circuit is compared with the Lean evaluation of its symbolic circuit under those values; derived "
        "circuits must own no tensor parameter of their own (symbolically: only references and constants; compiled: "
        "every parameter storage is one of the operand's); non-trivial = distinct (pipeline, history)")

CLASSES = [
    ("emb", dict(leaf_kinds=["emb"], weight_pz=["id"]), ["sum-product", "lse-sum"]),
    ("cat", dict(leaf_kinds=["cat_logits", "cat_softmax", "emb"], weight_pz=["id", "softmax"], units=[1, 2]), ["sum-product", "lse-sum"]),
    ("poly", dict(leaf_kinds=["poly"], weight_pz=["id"], signed=True), ["sum-product"]),
    # Gaussians incl. unnormalised ones with a learnable log-partition: their integrals are parameter graphs
    ("gauss", dict(leaf_kinds=["gauss", "gauss_lp", "gauss_lp", "cat_softmax"], weight_pz=["id", "softmax"], units=[1, 2]),
     ["sum-product", "lse-sum"]),
]


def owned_tensor_nodes(sc):
    """Non-constant TensorParameter nodes appearing directly in the parameter graphs of a circuit."""
    return ser.tensor_params(sc)


def storages(tc):
    out = {}
    for name, p in tc.named_parameters():
        if p.requires_grad:  # constants introduced by the operators (observations, log 1 = 0) are not learnable
            out.setdefault(p.data_ptr(), []).append(name)
    return out


def freeze_some(spec, rng):
    """Mark some parameter tensors as frozen random (learnable=False, NormalInitializer)."""
    s = copy.deepcopy(spec)
    for d in s["layers"]:
        for k, v in d.items():
            if isinstance(v, dict) and "vals" in v and not v.get("const") and v.get("pz") == "id" and not v.get("mix"):
                if rng.random() < 0.2 and d["t"] in ("sum", "emb"):
                    v["frozen"] = True
    return s


def run_scenario(run: Run, scen: dict, rng: random.Random):
    spec, ops, semiring, fold, optimize = scen["spec"], scen["ops"], scen["semiring"], scen["fold"], scen["optimize"]
    try:
        chain = pipelines.build_pipeline(spec, ops)
    except pipelines.Refused:
        run.feature("refused", "+".join(o["op"] for o in ops))
        return
    base = chain[0]
    derived = chain[1:]
    # --- symbolic: derived circuits introduce no tensor parameters of their own
    for i, dsc in enumerate(derived):
        own = owned_tensor_nodes(dsc)
        if own:
            run.violation("new-parameters", scen, f"the circuit derived by {ops[i]['op']} owns {len(own)} tensor parameter(s) of its own (shapes {[n.shape for n in own]}) instead of references to its operand's")
            return
    try:
        comp = real.TorchCompiler(semiring=semiring, fold=fold, optimize=optimize)
        tcs = [comp.compile(c) for c in chain]
    except Exception as e:  # noqa: BLE001
        run.violation("compile-crash", scen, f"{type(e).__name__}: {e}")
        return
    tb = tcs[0]
    base_ptrs = storages(tb)
    for i, t in enumerate(tcs[1:]):
        extra = [names for ptr, names in storages(t).items() if ptr not in base_ptrs]
        if extra:
            run.violation("own-storage", scen, f"the compiled circuit derived by {ops[i]['op']} holds tensors that are not the operand's: {extra[:3]}")
            return
    params = ser.tensor_params(base)
    learnable = [n for n in params if n.learnable]
    models = [common.ModelCircuit(c) for c in chain]
    snapshot = None
    nsteps = scen["steps"]
    opt = torch.optim.SGD([p for p in tb.parameters() if p.requires_grad], lr=0.0625) if any(p.requires_grad for p in tb.parameters()) else None
    history = []
    try:
        for step in range(nsteps + 1):
            kind = "evaluate" if step in (0, nsteps) else rng.choice(["sgd", "copy", "reset", "load", "save", "evaluate", "evaluate"])
            history.append(kind)
            try:
                if kind == "sgd" and opt is not None and scen["class"] != "poly":
                    rows = gen.gen_inputs(rng, spec, 2)
                    y = tb(torch.as_tensor(common.input_array(rows, spec)))
                    # ascent on a monotone circuit keeps positive weights positive (log-space semirings need that)
                    loss = -(y.real if y.is_complex() else y).sum() * 0.125
                    if semiring != "sum-product":
                        loss = loss * 0.01
                    opt.zero_grad(); loss.backward(); opt.step()
                elif kind == "copy":
                    theta = {}
                    for n in learnable:
                        if any(True for _ in [0]):
                            theta[ser.UIDS.uid(n)] = gen.dyadics(rng, int(np.prod(n.shape)), signed=scen["class"] == "poly")
                    if scen["class"] != "cat":
                        real.write_theta(comp, learnable, theta)
                elif kind == "reset":
                    tb.reset_parameters()
                elif kind == "save":
                    snapshot = {k: v.clone() for k, v in tb.state_dict().items()}
                elif kind == "load" and snapshot is not None:
                    tb.load_state_dict(snapshot)
                elif kind == "evaluate":
                    theta = real.read_theta(comp, params)
                    rows = gen.gen_inputs(rng, spec, 2)
                    for i, (c, t, m) in enumerate(zip(chain, tcs, models)):
                        X = common.input_array(rows, spec)
                        if rng.random() < 0.5:
                            with torch.no_grad():
                                y = real.evaluate(t, X if c.scope else None, semiring=semiring)
                        else:
                            y = real.evaluate(t, X if c.scope else None, semiring=semiring)
                        if not c.scope:
                            y = np.broadcast_to(y, (len(rows), *y.shape[1:]))
                        mv = m.eval(theta, rows)
                        mag = m.magnitude(theta, rows)
                        run.evaluations += 1

                        def too_big(v):
                            try:
                                f = float(v[0] if isinstance(v, (list, tuple)) else v)
                            except OverflowError:
                                return True
                            return not np.isfinite(f) or abs(f) > 1e250

                        if any(too_big(v) for row in (mag if mag is not None else mv) for out in row for v in out) or \
                                any(too_big(v) for th in theta.values() for v in th):
                            # the optimiser has driven the parameters out of the floating-point range: the history ends
                            run.feature("history_diverged", True)
                            return
                        try:
                            ne, nt = common.compare(y, mv, mag, m.mode, tol=1e-8)
                            run.exact += ne; run.tolerance += nt
                        except common.Mismatch as mm:
                            who = "operand" if i == 0 else f"circuit derived by {'+'.join(o['op'] for o in ops[:i])}"
                            run.violation("stale-derived", dict(scen, history=history),
                                          f"after the history {history} the compiled {who} no longer matches its symbolic circuit under the operand's current parameter values: {mm} {mm.detail}")
                            return
            except Exception as e:  # noqa: BLE001
                if "GreaterThan(lower_bound=0.0)" in str(e) or "to satisfy the constraint" in str(e):
                    # the optimiser has left the parameter domain (negative standard deviation): the history ends
                    run.feature("history_left_domain", True)
                    return
                run.violation("history-crash", dict(scen, history=history), f"step {kind} raised {type(e).__name__}: {e}")
                return
    finally:
        for m in models:
            m.drop()


def check(run: Run, tier: str, seed: int):
    n = 120 if tier == "quick" else 500
    steps = 12 if tier == "quick" else 60
    for i in range(n):
        cls, opts, semirings = CLASSES[i % len(CLASSES)]
        srng = random.Random(f"C10-{seed}-{i}")
        if i % 2 == 0:
            vs = srng.sample(gen.VAR_POOL_WIDE if srng.random() < 0.5 else gen.VAR_POOL_SMALL, srng.choice([2, 3, 3]))
            spec = gen2.gen_structured(srng, gen2.make_skeleton(srng, vs, prod_kinds=("had",)), nout=1, **opts)
        else:
            spec = gen.gen_spec(srng, **opts)
            if len(spec["layers"]) > 30:
                spec = gen.gen_spec(srng, nv=2, **opts)
        spec = freeze_some(spec, srng)
        ops = pipelines.random_ops(srng, spec, cls)
        if i % 2 == 0 and cls != "poly" and srng.random() < 0.6:
            ops = [{"op": "square"}] + ([{"op": "integrate", "vars": spec["vars"]}] if srng.random() < 0.6 else [])
        scen = {"spec": spec, "class": cls, "ops": ops, "semiring": srng.choice(semirings),
                "fold": srng.random() < 0.6, "optimize": srng.random() < 0.5, "steps": steps}
        run.case({"spec": spec, "ops": ops}, nontrivial=True, sample=scen if i < 1 else None,
                 features={"class": cls, "ops": "+".join(o["op"] for o in ops), "flags": f"{scen['fold']},{scen['optimize']}"})
        run_scenario(run, scen, srng)


def replay(run: Run, body: dict):
    run_scenario(run, body["scenario"], random.Random(0))
