"""C04 — multiply returns the pointwise product or refuses."""
from __future__ import annotations

import random

import numpy as np

import common
import gen
import gen2
import pipelines
import real
import ser
from c03 import same_nested
from framework import Run
import cirkit.symbolic.functional as SF

RULE = ("pairs and chains of generated circuits that follow one vtree (structured generator: same decomposition, "
        "independently drawn units, sum arities, repetitions listed in different input orders, parameterisations) "
        "over embedding / polynomial / categorical (probs+logits) / Gaussian (with and without log-partition) inputs, "
        "Hadamard and Kronecker products; multiply(c1, c2), multiply(c, c), (c1*c2)*c3, operands conditioned on "
        "evidence; whenever the real multiply returns: interface, Lean eval of the result vs Kronecker product of the "
        "Lean evals of the operands (exact for embedding/polynomial), Lean model operator vs real operator, compiled "
        "product vs product of compiled operands under flags/semirings; refusals are counted; "
        "non-trivial = distinct pair with a sum of arity >= 1 and a product layer where multiply returned")

CLASSES = [
    ("emb", dict(leaf_kinds=["emb"], weight_pz=["id"], signed=True), ["sum-product", "complex-lse-sum"]),
    ("emb_pos", dict(leaf_kinds=["emb"], weight_pz=["id"]), ["sum-product", "lse-sum"]),
    ("poly", dict(leaf_kinds=["poly"], weight_pz=["id"], signed=True), ["sum-product", "complex-lse-sum"]),
    ("cat", dict(leaf_kinds=["cat_probs", "cat_logits", "cat_softmax"], weight_pz=["id", "softmax"], units=[1, 2]),
     ["sum-product", "lse-sum"]),
    ("gauss", dict(leaf_kinds=["gauss", "gauss_lp"], weight_pz=["id"], units=[1, 2]), ["sum-product", "lse-sum"]),
]
COMMON = dict(structured=True, full_outputs=True, inner_outputs=False)


def kron_nested(a, b, mode):
    """Per row: outputs (o1, o2) at o1*|O2|+o2, units i*K2+j."""
    out = []
    for ra, rb in zip(a, b):
        row = []
        for oa in ra:
            for ob in rb:
                if mode == "gauss":
                    row.append([(x[0] * y[0] - x[1] * y[1], x[0] * y[1] + x[1] * y[0]) for x in oa for y in ob])
                else:
                    row.append([x * y for x in oa for y in ob])
        out.append(row)
    return out


def kron_arrays(ya, yb):
    B = ya.shape[0]
    return np.einsum("bok,bpl->bopkl", ya, yb).reshape(B, ya.shape[1] * yb.shape[1], ya.shape[2] * yb.shape[2])


def build_operand(d: dict):
    sc = gen.build_circuit(d["spec"])
    if d.get("obs"):
        sc0 = sc
        sc = SF.evidence(sc, {int(k): v for k, v in d["obs"].items()})
        return sc, sc0
    return sc, sc


def run_scenario(run: Run, scen: dict, rng: random.Random):
    semiring, fold, optimize = scen["semiring"], scen["fold"], scen["optimize"]
    ops = scen["operands"]
    built = [build_operand(d) for d in ops[:1]]
    if scen["kind"] == "square":
        built.append(built[0])
    else:
        built += [build_operand(d) for d in ops[1:]]
    scs = [b[0] for b in built]
    bases = []
    for b in built:
        if all(b[1] is not x for x in bases):
            bases.append(b[1])
    spec0 = ops[0]["spec"]
    # left-to-right product chain
    prod = scs[0]
    chain = []
    for nxt in scs[1:]:
        try:
            p = SF.multiply(prod, nxt)
        except Exception as e:  # noqa: BLE001
            run.feature("refused", pipelines.error_class(e))
            return
        chain.append((prod, nxt, p))
        prod = p
    run.feature("returned", scen["kind"])
    cplx = False
    rows = gen.gen_inputs(rng, spec0, 3)
    # observed variables are no longer inputs of the conditioned operands; any column value will do
    scen_x = dict(scen, rows=rows)
    try:
        comp = real.TorchCompiler(semiring=semiring, fold=fold, optimize=optimize)
        for b in bases:
            comp.compile(b)
        tcs = {id(s): comp.compile(s) for s in scs}
    except Exception as e:  # noqa: BLE001
        run.violation("compile-crash", scen_x, f"compiling an operand raised {type(e).__name__}: {e}")
        return
    theta = {}
    for b in bases:
        theta.update(real.read_theta(comp, ser.tensor_params(b)))
    mode = None
    models = {}
    try:
        def model(sc):
            nonlocal mode
            if id(sc) not in models:
                models[id(sc)] = common.ModelCircuit(sc, cplx=cplx, mode=mode)
                if mode is None:
                    mode = models[id(sc)].mode
            return models[id(sc)]

        # decide the number mode from the final product (it contains every parameter operator)
        mode = common.ModelCircuit(prod).mode
        for (c1, c2, p) in chain:
            # interface
            if sorted(p.scope) != sorted(set(c1.scope) | set(c2.scope)):
                run.violation("scope", scen_x, f"scope of the product {sorted(p.scope)}")
                return
            if len(p.outputs) != len(c1.outputs) * len(c2.outputs):
                run.violation("num-outputs", scen_x, f"{len(p.outputs)} outputs for {len(c1.outputs)} x {len(c2.outputs)}")
                return
            for (o1, o2), op in zip([(a, b) for a in c1.outputs for b in c2.outputs], p.outputs):
                if op.num_output_units != o1.num_output_units * o2.num_output_units:
                    run.violation("num-units", scen_x, f"product output has {op.num_output_units} units for {o1.num_output_units} x {o2.num_output_units}")
                    return
            m1, m2, mp = model(c1), model(c2), model(p)
            a = mp.eval(theta, rows)
            b = kron_nested(m1.eval(theta, rows), m2.eval(theta, rows), mode)
            run.evaluations += 1
            ok, why = same_nested(a, b, mode, tol=1e-9)
            if not ok:
                run.violation("product-wrong", scen_x, f"Lean evaluation of the circuit returned by multiply() differs from the product of the operands (outputs (i,j) at i*|O2|+j, units in Kronecker order): {why}")
                return
            if mode in ("rat", "gauss"):
                run.exact += 1
            else:
                run.tolerance += 1
            # model operator vs real operator
            r = m1.d.call({"cmd": "op_mul", "id": m1.cid, "id2": m2.cid, "theta": m1.d._theta(theta), "X": m1.d._rows(rows)})
            run.disagreements_checked += 1
            if "refused" in r:
                run.feature("outside_model_domain", r["refused"])
            else:
                import leanmodel
                c = leanmodel.dec_nested(r["ok"], mode)
                ok, why = same_nested(a, c, mode, tol=1e-9)
                if not ok:
                    run.violation("model-operator", scen_x, f"model multiply vs real multiply denote different functions: {why}",
                                  no_failing_input=True, broken="correspondence Node.mul vs functional.multiply")
                    return
        # compiled product vs product of compiled operands (real-code-only), and vs the model
        try:
            tp = comp.compile(prod)
            X = common.input_array(rows, spec0)
            yp = real.evaluate(tp, X if prod.scope else None, semiring=semiring)
            if not prod.scope:
                yp = np.broadcast_to(yp, (len(rows), *yp.shape[1:]))
            ys = []
            for s in scs:
                y = real.evaluate(tcs[id(s)], X if s.scope else None, semiring=semiring)
                if not s.scope:
                    y = np.broadcast_to(y, (len(rows), *y.shape[1:]))
                ys.append(y)
        except Exception as e:  # noqa: BLE001
            run.violation("eval-crash", scen_x, f"{type(e).__name__}: {e} (fold={fold}, optimize={optimize}, {semiring})")
            return
        ref = ys[0]
        for y in ys[1:]:
            ref = kron_arrays(ref, y)
        try:
            mp = model(prod)
            m = mp.eval(theta, rows); mag = mp.magnitude(theta, rows)
            common.compare(yp, m, mag, mode)
            if scen["class"] in ("emb_pos", "cat", "gauss"):
                common.compare_arrays(yp, ref, tol=1e-8, what="compiled product vs product of compiled operands")
        except common.Mismatch as mm:
            run.violation("compiled-product-wrong", scen_x, f"{mm} {mm.detail} (fold={fold}, optimize={optimize}, {semiring})")
            return
    finally:
        for m in models.values():
            m.drop()


def gen_operands(rng: random.Random, opts: dict, kind: str):
    o = dict(opts)
    nv = rng.choice([1, 2, 2, 3, 3, 4])
    pool = gen.VAR_POOL_WIDE if rng.random() < 0.5 else gen.VAR_POOL_SMALL
    vs = rng.sample(pool, nv)
    sk = gen2.make_skeleton(rng, vs)
    s1 = gen2.gen_structured(rng, sk, max_alt=2 if kind == "chain" else 3, **o)
    ops = [{"spec": s1}]
    n_more = {"square": 0, "pair": 1, "chain": 2, "evidence": 1}[kind]
    for _ in range(n_more):
        o2 = dict(o)
        o2.update(gen2.twin_opts(s1))
        s2 = gen2.gen_structured(rng, sk, max_alt=2, **o2)
        ops.append({"spec": s2})
    if kind == "evidence" and len(s1["vars"]) > 1:
        zs = rng.sample(s1["vars"], rng.randint(1, len(s1["vars"]) - 1))
        obs = {}
        for v in zs:
            if v in s1.get("continuous", []):
                obs[str(v)] = rng.choice([-3, -1, 1, 2, 3]) / 2
            else:
                obs[str(v)] = rng.randrange(s1["states"][str(v)])
        for d in ops:
            d["obs"] = obs
    return ops


def check(run: Run, tier: str, seed: int):
    n = 280 if tier == "quick" else 1500
    kinds = ["pair", "pair", "square", "chain", "evidence", "pair", "square"]
    for i in range(n):
        cls, opts, semirings = CLASSES[i % len(CLASSES)]
        srng = random.Random(f"C04-{seed}-{i}")
        kind = kinds[i % len(kinds)]
        ops = gen_operands(srng, opts, kind)
        semiring = srng.choice(semirings)
        fold, optimize = srng.choice(real.FLAGS)
        if i % 10 == 9 and cls in ("emb", "emb_pos", "poly"):
            # operands whose sum layers split one weight shape differently, in opposite order: the product has sum
            # layers of equal arity / units whose column permutations differ
            kind = "pair"
            p1 = gen.sibling_sums_spec(srng, signed=cls != "emb_pos" and semiring != "lse-sum")
            p2 = gen.sibling_sums_spec(srng, signed=cls != "emb_pos" and semiring != "lse-sum",
                                       splits=[tuple(x) for x in reversed(p1["splits"])], vs=p1["vars"],
                                       states={int(k): v for k, v in p1["states"].items()})
            ops = [{"spec": p1}, {"spec": p2}]
            fold = True
        scen = {"kind": kind, "class": cls, "operands": ops, "semiring": semiring, "fold": fold, "optimize": optimize}
        f1 = gen.spec_features(ops[0]["spec"])
        run.case(ops, nontrivial=f1["had"] + f1["kron"] > 0, sample=scen if i < 1 else None,
                 features={"class": cls, "kind": kind, "semiring": semiring, "flags": f"{fold},{optimize}",
                           "sum_arity_max": max(gen.spec_features(d["spec"])["sum_arity_max"] for d in ops),
                           "kron": f1["kron"] > 0})
        run_scenario(run, scen, srng)


def replay(run: Run, body: dict):
    run_scenario(run, body["scenario"], random.Random(0))
