"""C18 — compiler registry and pipeline context stay coherent over any call history."""
from __future__ import annotations

import random

import numpy as np

import leanmodel
from framework import Run
import cirkit.pipeline as PL
import cirkit.symbolic.functional as SF
from cirkit.backend.torch.compiler import TorchCompiler
from cirkit.symbolic.circuit import Circuit
from cirkit.symbolic.layers import EmbeddingLayer, HadamardLayer, SumLayer
from cirkit.symbolic.registry import OPERATOR_REGISTRY
from cirkit.utils.scope import Scope

RULE = ("random histories (quick 25, thorough 200 steps) over {build circuit, symbolic operator, new context, "
        "compile through a context object or through the active context, operator functions on compiled circuits "
        "(integrate / multiply / conjugate, incl. circuits unknown to that context; plus argument forwarding: differentiate order 1-3, integrate over a sub-scope, concatenate order, each vs compile(symbolic operator with the same arguments) via method / module function with ctx= / module function inside the block), enter / exit of distinct contexts "
        "nested and sequentially reused (incl. exits with an exception), lookups in both directions} executed on the "
        "real PipelineContext / TorchCompiler / ContextVar and on the Lean state machine (Model/Registry.lean); after "
        "every step the output (object identity -> canonical id), the sequence of _compile_circuit calls (harness spy) "
        "and the active context and operator registry are compared; non-trivial = distinct history with >= 2 contexts, "
        "a derived circuit and a nested or reused context")


def tiny_circuit(rng) -> Circuit:
    e0 = EmbeddingLayer(Scope([0]), 2, num_states=2)
    e1 = EmbeddingLayer(Scope([1]), 2, num_states=2)
    h = HadamardLayer(2, arity=2)
    s = SumLayer(2, 1)
    return Circuit([e0, e1, h, s], {h: [e0, e1], s: [h]}, [s])


class World:
    """The real objects and their canonical ids."""

    def __init__(self):
        self.scs = []          # symbolic circuits by id
        self.ctxs = [PL._PIPELINE_CONTEXT.get()]   # context 0 = the default of the ContextVar
        self.cc_ids = {}       # id(compiled) -> canonical id
        self.ccs = []
        self.log = []          # (ctx id, sc id) of every _compile_circuit call
        self.entered = []      # stack of entered context ids

    def ctx_of_compiler(self, comp):
        for i, c in enumerate(self.ctxs):
            if c._compiler is comp:
                return i
        return -1

    def sc_id(self, sc):
        for i, s in enumerate(self.scs):
            if s is sc:
                return i
        return -1


def run_history(run: Run, scen: dict, rng: random.Random):
    nsteps = scen["steps"]
    w = World()
    base_ctx0_known = set()
    orig = getattr(TorchCompiler, "_compile_circuit", None)
    observable = orig is not None
    if not observable:
        # compiled circuits are numbered in the order the compiler produces them; without the spy the
        # numbering of the model cannot be matched, so the history is not compared
        run.feature("unobservable", "TorchCompiler._compile_circuit")
        return

    def spy(self, sc):
        cc = orig(self, sc)
        sid = w.sc_id(sc)
        if sid < 0:
            w.scs.append(sc); sid = len(w.scs) - 1
        w.log.append([w.ctx_of_compiler(self), sid])
        w.cc_ids[id(cc)] = len(w.ccs)
        w.ccs.append(cc)
        return cc

    if observable:
        TorchCompiler._compile_circuit = spy
    start_active = PL._PIPELINE_CONTEXT.get()
    # the default context may already know circuits from earlier histories: use a private default
    ops, real_outs = [], []
    d = leanmodel.driver("rat")
    try:
        # context 0 of the model is "whatever is active now"; make it a fresh context object entered for the history
        fresh0 = PL.PipelineContext(backend="torch", semiring="sum-product", fold=rng.random() < 0.5, optimize=rng.random() < 0.5)
        fresh0.__enter__()
        w.ctxs[0] = fresh0
        for step in range(nsteps):
            kinds = ["new", "sym", "compile", "compile", "ccop", "ccop", "newctx", "enter", "exit", "lookup", "lookup"]
            kind = rng.choice(kinds)
            op = None
            out = None
            try:
                if kind == "new" or not w.scs:
                    w.scs.append(tiny_circuit(rng)); op = {"op": "new"}; out = {"sc": len(w.scs) - 1}
                elif kind == "sym":
                    which = rng.choice(["integrate", "multiply", "conjugate"])
                    try:
                        if which == "multiply":
                            a, b = rng.randrange(len(w.scs)), rng.randrange(len(w.scs))
                            res = SF.multiply(w.scs[a], w.scs[b]); operands = [a, b]
                        else:
                            a = rng.randrange(len(w.scs))
                            res = SF.integrate(w.scs[a]) if which == "integrate" else SF.conjugate(w.scs[a]); operands = [a]
                    except Exception:  # noqa: BLE001  (the symbolic layer refuses: not part of this property)
                        continue
                    real_operands = [w.sc_id(o) for o in res.operation.operands]
                    if real_operands != operands:
                        run.violation("operands", dict(scen, step=step), f"operation.operands of the derived circuit are {real_operands}, expected {operands}")
                        return
                    w.scs.append(res); op = {"op": "sym", "operands": operands}; out = {"sc": len(w.scs) - 1}
                elif kind == "compile":
                    sc = rng.randrange(len(w.scs))
                    if rng.random() < 0.5:
                        c = rng.randrange(len(w.ctxs))
                        cc = w.ctxs[c].compile(w.scs[sc]); op = {"op": "compile", "ctx": c, "sc": sc}
                    else:
                        cc = PL.compile(w.scs[sc]); op = {"op": "compile", "sc": sc}
                    out = {"cc": w.cc_ids.get(id(cc), -1)}
                elif kind == "ccop":
                    if not w.ccs:
                        continue
                    which = rng.choice(["integrate", "multiply", "conjugate"])
                    n = 2 if which == "multiply" else 1
                    ccs = [rng.randrange(len(w.ccs)) for _ in range(n)]
                    use_ctx = rng.random() < 0.6
                    c = rng.randrange(len(w.ctxs)) if use_ctx else None
                    ctx = w.ctxs[c] if use_ctx else PL._PIPELINE_CONTEXT.get()
                    known = all(ctx.has_symbolic(w.ccs[i]) for i in ccs)
                    if known:
                        # dry run of the symbolic operator: skip histories the symbolic layer refuses
                        scs = [ctx.get_symbolic_circuit(w.ccs[i]) for i in ccs]
                        try:
                            {"integrate": lambda: SF.integrate(scs[0]), "conjugate": lambda: SF.conjugate(scs[0]),
                             "multiply": lambda: SF.multiply(scs[0], scs[1])}[which]()
                        except Exception:  # noqa: BLE001
                            continue
                    op = {"op": "ccop", "ccs": ccs}
                    if use_ctx:
                        op["ctx"] = c
                    try:
                        fn = {"integrate": (ctx.integrate if use_ctx else PL.integrate),
                              "multiply": (ctx.multiply if use_ctx else PL.multiply),
                              "conjugate": (ctx.conjugate if use_ctx else PL.conjugate)}[which]
                        cc = fn(*[w.ccs[i] for i in ccs])
                        out = {"cc": w.cc_ids.get(id(cc), -1)}
                        # the result must be the compilation of the corresponding symbolic operator result
                        rsc = ctx.get_symbolic_circuit(cc)
                        exp_ops = [w.sc_id(ctx.get_symbolic_circuit(w.ccs[i])) for i in ccs]
                        if [w.sc_id(o) for o in rsc.operation.operands] != exp_ops:
                            run.violation("ccop-operands", dict(scen, step=step), "operator on compiled circuits did not return the compilation of the symbolic operator applied to the operands' symbolic circuits")
                            return
                    except ValueError:
                        out = "error"
                elif kind == "newctx":
                    if len(w.ctxs) >= 4:
                        continue
                    w.ctxs.append(PL.PipelineContext(backend="torch", semiring=rng.choice(["sum-product", "lse-sum"]),
                                                     fold=rng.random() < 0.5, optimize=rng.random() < 0.5))
                    op = {"op": "newctx"}; out = {"ctx": len(w.ctxs) - 1}
                elif kind == "enter":
                    cands = [i for i in range(1, len(w.ctxs)) if i not in w.entered]
                    if not cands:
                        continue
                    c = rng.choice(cands)
                    w.ctxs[c].__enter__(); w.entered.append(c)
                    op = {"op": "enter", "ctx": c}; out = "unit"
                elif kind == "exit":
                    if not w.entered:
                        continue
                    c = w.entered.pop()
                    if rng.random() < 0.3:
                        e = RuntimeError("escaping the block")
                        w.ctxs[c].__exit__(RuntimeError, e, None)
                    else:
                        w.ctxs[c].__exit__(None, None, None)
                    op = {"op": "exit", "ctx": c}; out = "unit"
                else:
                    use_ctx = rng.random() < 0.6
                    c = rng.randrange(len(w.ctxs)) if use_ctx else None
                    ctx = w.ctxs[c] if use_ctx else PL._PIPELINE_CONTEXT.get()
                    q = rng.choice(["is_compiled", "has_symbolic", "get_compiled", "get_symbolic"])
                    if q in ("is_compiled", "get_compiled"):
                        sc = rng.randrange(len(w.scs))
                        op = {"op": q, "sc": sc}
                        if q == "is_compiled":
                            out = {"bool": bool(ctx.is_compiled(w.scs[sc]))}
                        else:
                            try:
                                out = {"cc": w.cc_ids.get(id(ctx.get_compiled_circuit(w.scs[sc])), -1)}
                            except KeyError:
                                out = "error"
                    else:
                        if not w.ccs:
                            continue
                        cc = rng.randrange(len(w.ccs))
                        op = {"op": q, "cc": cc}
                        if q == "has_symbolic":
                            out = {"bool": bool(ctx.has_symbolic(w.ccs[cc]))}
                        else:
                            try:
                                out = {"sc": w.sc_id(ctx.get_symbolic_circuit(w.ccs[cc]))}
                            except KeyError:
                                out = "error"
                    if use_ctx:
                        op["ctx"] = c
            except Exception as e:  # noqa: BLE001
                run.violation("history-crash", dict(scen, ops=ops, failing=kind, step=step), f"step {step} ({kind}) raised {type(e).__name__}: {e}")
                return
            if op is None:
                continue
            ops.append(op); real_outs.append(out)
            run.feature("op", op["op"])
            r = d.call({"cmd": "registry", "ops": ops})
            run.evaluations += 1
            mo = r["outs"][-1]
            act = PL._PIPELINE_CONTEXT.get()
            act_id = next((i for i, c in enumerate(w.ctxs) if c is act), -1)
            reg_ok = OPERATOR_REGISTRY.get() is act._op_registry
            hist = dict(scen, ops=ops, real_outs=real_outs)
            if mo != out:
                run.violation("step-output", hist, f"step {len(ops) - 1} {op}: real {out}, model {mo}")
                return
            if observable and r["compile_log"] != w.log:
                run.violation("compile-order", hist, f"_compile_circuit calls (ctx, circuit) {w.log} vs model {r['compile_log']} after step {len(ops) - 1} {op}: operands must be compiled before, and only once for, the circuits derived from them")
                return
            if act_id != r["active"] or not reg_ok:
                run.violation("active-context", hist, f"active context {act_id} (operator registry consistent: {reg_ok}) vs model {r['active']} after step {len(ops) - 1} {op}")
                return
            run.exact += 1
        scen["n_ops"] = len(ops)
    finally:
        if observable:
            TorchCompiler._compile_circuit = orig
        # unwind whatever is still entered, then our private default
        for c in reversed(w.entered):
            try:
                w.ctxs[c].__exit__(None, None, None)
            except Exception:  # noqa: BLE001
                pass
        try:
            w.ctxs[0].__exit__(None, None, None)
        except Exception:  # noqa: BLE001
            pass
    if PL._PIPELINE_CONTEXT.get() is not start_active:
        run.violation("context-not-restored", dict(scen, ops=ops), "after leaving every context the previously active context is not restored")


def run_own_registry(run: Run, scen: dict, rng: random.Random):
    """The operator functions of a context use that context's operator registry, wherever they are called from:
    a context with its own integration / conjugation rule must give 'compile of the symbolic operator under that
    registry' inside its block, outside any block, inside another context's block and through the module-level
    functions with ctx=..."""
    import itertools
    import torch
    import cirkit.symbolic.parameters as P
    from cirkit.symbolic.circuit import CircuitBlock
    from cirkit.symbolic.dtypes import DataType
    from cirkit.symbolic.initializers import NormalInitializer
    from cirkit.symbolic.layers import ConstantValueLayer, LayerOperator

    torch.set_default_dtype(torch.float64)
    op = scen["op"]
    cplx = op == "conjugate"
    nv, K, S = scen["nv"], scen["units"], scen["states"]
    dt = DataType.COMPLEX if cplx else DataType.REAL

    def tp(*shape):
        return P.Parameter.from_input(P.TensorParameter(*shape, initializer=NormalInitializer(), dtype=dt))

    embs = [EmbeddingLayer(Scope([v]), K, num_states=S, weight=tp(K, S)) for v in range(nv)]
    layers, inl = list(embs), {}
    top = embs[0]
    if nv > 1:
        top = HadamardLayer(K, arity=nv); layers.append(top); inl[top] = embs
    out = SumLayer(K, 1, weight=tp(1, K)); layers.append(out); inl[out] = [top]
    sc = Circuit(layers, inl, [out])

    def my_integrate(sl: EmbeddingLayer, *, scope: Scope) -> CircuitBlock:
        # counting measure of mass 2 per state: twice the default integral
        red1 = P.Parameter.from_unary(P.ReduceSumParameter(sl.weight.shape, axis=1), sl.weight.ref())
        red2 = P.Parameter.from_unary(P.ReduceSumParameter(sl.weight.shape, axis=1), sl.weight.ref())
        two = P.Parameter.from_binary(P.SumParameter(red1.shape, red2.shape), red1, red2)
        return CircuitBlock.from_layer(ConstantValueLayer(sl.num_output_units, log_space=False, value=two))

    def my_conjugate(sl: EmbeddingLayer) -> CircuitBlock:
        # a registry in which embeddings are declared self-conjugate (weights are not conjugated)
        return CircuitBlock.from_layer(EmbeddingLayer(sl.scope, sl.num_output_units, num_states=sl.num_states, weight=sl.weight.ref()))

    # this module uses postponed annotations; the registry reads the classes from __annotations__
    my_integrate.__annotations__ = {"sl": EmbeddingLayer, "scope": Scope, "return": CircuitBlock}
    my_conjugate.__annotations__ = {"sl": EmbeddingLayer, "return": CircuitBlock}
    semiring = "complex-lse-sum" if cplx else "sum-product"
    ctx = PL.PipelineContext(backend="torch", semiring=semiring, fold=scen["fold"], optimize=scen["optimize"])
    other = PL.PipelineContext(backend="torch", semiring=semiring, fold=False, optimize=False)
    try:
        ctx.add_operator_rule(LayerOperator.INTEGRATION if op == "integrate" else LayerOperator.CONJUGATION,
                              my_integrate if op == "integrate" else my_conjugate)
        cc = ctx.compile(sc)
    except Exception as e:  # noqa: BLE001
        run.feature("unobservable", f"own-registry scenario: {type(e).__name__}")
        return
    X = torch.tensor(list(itertools.product(range(S), repeat=nv)))
    with torch.no_grad():
        base = cc(X)
    lin = (lambda t: torch.exp(t)) if cplx else (lambda t: t)
    if op == "integrate":
        want = (2.0 ** nv) * lin(base).sum(dim=0)
    else:
        want = lin(base)  # under this registry "conjugate" leaves the embeddings, hence (with the sum weights conjugated) ...
    situations = ["inside", "outside", "inside-other", "module-ctx", "module-ctx-inside-other"]
    for sit in situations:
        try:
            def call():
                if sit.startswith("module"):
                    return PL.integrate(cc, ctx=ctx) if op == "integrate" else PL.conjugate(cc, ctx=ctx)
                return ctx.integrate(cc) if op == "integrate" else ctx.conjugate(cc)
            if sit == "inside":
                with ctx:
                    res = call()
            elif sit in ("inside-other", "module-ctx-inside-other"):
                with other:
                    res = call()
            else:
                res = call()
            # reference: the symbolic operator under the context's own registry, compiled by the context
            with ctx:
                ref = ctx.compile(SF.integrate(sc) if op == "integrate" else SF.conjugate(sc))
            with torch.no_grad():
                got = lin(res()) if op == "integrate" else lin(res(X))
                exp = lin(ref()) if op == "integrate" else lin(ref(X))
        except Exception as e:  # noqa: BLE001
            run.violation("own-registry-crash", dict(scen, situation=sit), f"{op} called {sit}: {type(e).__name__}: {e}")
            return
        run.evaluations += 1
        if got.shape != exp.shape or not torch.allclose(got, exp, rtol=1e-9, atol=1e-12):
            run.violation("own-registry", dict(scen, situation=sit),
                          f"{op} of a circuit compiled in a context with its own {op} rule, called {sit}: {got.flatten()[:3].tolist()} "
                          f"but the context's registry gives {exp.flatten()[:3].tolist()} (the operator functions of a context must use its registry)")
            return
        if op == "integrate" and not torch.allclose(exp.flatten()[0], want.flatten()[0].to(exp.dtype), rtol=1e-9):
            run.violation("own-registry-reference", dict(scen, situation=sit), f"reference {exp.flatten()[:2].tolist()} vs brute force {want.flatten()[:2].tolist()}",
                          no_failing_input=True, broken="harness: custom integration rule oracle")
            return
        run.exact += 1


def run_ccop_args(run: Run, scen: dict, srng: random.Random):
    """The operator functions applied to compiled circuits return the compilation of the corresponding symbolic
    operator result *with the arguments they were given*: differentiate(cc, order=k) is compile(SF.differentiate(sc,
    order=k)), integrate(cc, scope=Z) is compile(SF.integrate(sc, scope=Z)), concatenate(cc1, cc2) keeps the order -
    through the context method, the module-level function with ctx=..., and the module-level function inside the block.
    The reference is compiled by the same context (derived circuits share the operand's parameters), so outputs are
    compared exactly up to float rounding."""
    import itertools
    import torch
    from cirkit.symbolic.layers import PolynomialLayer

    torch.set_default_dtype(torch.float64)
    op, nv, K = scen["op"], scen["nv"], scen["units"]
    if op == "differentiate":
        ins = [PolynomialLayer(Scope([v]), K, degree=scen["degree"]) for v in range(nv)]
        X = torch.tensor([[srng.uniform(-1.2, 1.2) for _ in range(nv)] for _ in range(4)])
    else:
        ins = [EmbeddingLayer(Scope([v]), K, num_states=scen["states"]) for v in range(nv)]
        X = torch.tensor(list(itertools.product(range(scen["states"]), repeat=nv)))
    layers, inl = list(ins), {}
    top = ins[0]
    if nv > 1:
        top = HadamardLayer(K, arity=nv); layers.append(top); inl[top] = ins
    out = SumLayer(K, 1); layers.append(out); inl[out] = [top]
    sc = Circuit(layers, inl, [out])
    sc2 = None
    ctx = PL.PipelineContext(backend="torch", semiring="sum-product", fold=scen["fold"], optimize=scen["optimize"])
    try:
        cc = ctx.compile(sc)
        if op == "concatenate":
            sc2 = SF.integrate(sc, scope=Scope([0])) if nv > 1 else SF.conjugate(sc)
            cc2 = ctx.compile(sc2)
    except Exception as e:  # noqa: BLE001
        run.feature("unobservable", f"ccop-args scenario: {type(e).__name__}")
        return
    zs = Scope(scen.get("zscope", [0]))
    for via in ("method", "module-ctx", "module-inside"):
        try:
            if op == "differentiate":
                k = scen["order"]
                sym = lambda: SF.differentiate(sc, order=k)  # noqa: E731
                call = {"method": lambda: ctx.differentiate(cc, order=k), "module-ctx": lambda: PL.differentiate(cc, ctx=ctx, order=k),
                        "module-inside": lambda: PL.differentiate(cc, order=k)}[via]
            elif op == "integrate":
                sym = lambda: SF.integrate(sc, scope=zs)  # noqa: E731
                call = {"method": lambda: ctx.integrate(cc, scope=zs), "module-ctx": lambda: PL.integrate(cc, scope=zs, ctx=ctx),
                        "module-inside": lambda: PL.integrate(cc, zs)}[via]
            else:
                sym = lambda: SF.concatenate([sc2, sc])  # noqa: E731
                call = {"method": lambda: ctx.concatenate(cc2, cc), "module-ctx": lambda: PL.concatenate(cc2, cc, ctx=ctx),
                        "module-inside": lambda: PL.concatenate(cc2, cc)}[via]
            if via == "module-inside":
                with ctx:
                    res = call()
            else:
                res = call()
            with ctx:
                ref = ctx.compile(sym())
            with torch.no_grad():
                got, exp = res(X), ref(X)
        except Exception as e:  # noqa: BLE001
            run.violation("ccop-args-crash", dict(scen, via=via), f"{op} of a compiled circuit ({via}): {type(e).__name__}: {e}")
            return
        run.evaluations += 1
        if got.shape != exp.shape or not torch.allclose(got, exp, rtol=1e-9, atol=1e-12):
            run.violation("ccop-args", dict(scen, via=via),
                          f"{op} applied to a compiled circuit ({via}, arguments {({'order': scen.get('order')} if op == 'differentiate' else {'scope': list(zs)} if op == 'integrate' else 'cc2, cc')}) "
                          f"gives shape {tuple(got.shape)} values {got.flatten()[:3].tolist()}, but the compilation of the symbolic operator result with the same "
                          f"arguments gives shape {tuple(exp.shape)} values {exp.flatten()[:3].tolist()}")
            return
        try:
            ok = ctx.get_compiled_circuit(ctx.get_symbolic_circuit(res)) is res
        except Exception:  # noqa: BLE001
            ok = False
        if not ok:
            run.violation("ccop-args-registry", dict(scen, via=via), f"result of {op} ({via}) is not registered in the context both ways")
            return
        run.exact += 1


def check(run: Run, tier: str, seed: int):
    for i in range(8 if tier == "quick" else 60):
        srng = random.Random(f"C18-reg-{seed}-{i}")
        scen = {"kind": "own-registry", "op": ["integrate", "conjugate"][i % 2], "nv": srng.choice([1, 2, 3]),
                "units": srng.choice([1, 2, 3]), "states": srng.choice([2, 3]), "fold": srng.random() < 0.5,
                "optimize": srng.random() < 0.5, "torch_seed": srng.randrange(10 ** 6)}
        import torch
        torch.manual_seed(scen["torch_seed"])
        run.case(scen, nontrivial=True, sample=scen if i < 1 else None, features={"kind": "own-registry", "op": scen["op"]})
        run_own_registry(run, scen, srng)
    for i in range(18 if tier == "quick" else 120):
        srng = random.Random(f"C18-args-{seed}-{i}")
        nv = srng.choice([1, 2, 3])
        scen = {"kind": "ccop-args", "op": ["differentiate", "integrate", "concatenate"][i % 3], "nv": nv,
                "units": srng.choice([1, 2, 3]), "states": srng.choice([2, 3]), "degree": srng.choice([3, 4]),
                "order": 1 + (i // 3) % 3, "zscope": sorted(srng.sample(range(nv), srng.randint(1, nv))),
                "fold": srng.random() < 0.5, "optimize": srng.random() < 0.5, "torch_seed": srng.randrange(10 ** 6)}
        import torch
        torch.manual_seed(scen["torch_seed"])
        run.case(scen, nontrivial=True, sample=scen if i < 1 else None, features={"kind": "ccop-args", "op": scen["op"]})
        run_ccop_args(run, scen, srng)
    n = 60 if tier == "quick" else 300
    steps = 25 if tier == "quick" else 200
    for i in range(n):
        srng = random.Random(f"C18-{seed}-{i}")
        scen = {"steps": steps, "seed": f"C18-{seed}-{i}"}
        run_history(run, scen, srng)
        run.case(scen, nontrivial=True, sample=None, features={"steps": steps})
    run.samples.append({"history_seed": f"C18-{seed}-0", "steps": steps})


def replay(run: Run, body: dict):
    s = body["scenario"]
    if s.get("kind") == "ccop-args":
        import torch
        torch.manual_seed(s["torch_seed"])
        run_ccop_args(run, {k: v for k, v in s.items() if k != "via"}, random.Random(f"C18-args-replay"))
        return
    if s.get("kind") == "own-registry":
        import torch
        torch.manual_seed(s["torch_seed"])
        run_own_registry(run, {k: v for k, v in s.items() if k != "situation"}, random.Random(0))
        return
    run_history(run, {"steps": s["steps"], "seed": s["seed"]}, random.Random(s["seed"]))
