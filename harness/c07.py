"""C07 — conjugate computes the complex conjugate (identity on real circuits)."""
from __future__ import annotations

import random

import numpy as np

import common
import gen
import real
import ser
from c03 import same_nested
from framework import Run
import cirkit.symbolic.functional as SF
from cirkit.utils.scope import Scope

RULE = ("generated circuits with complex (Gaussian-dyadic) embedding / polynomial inputs and sum weights (exact over "
        "Q[i]), real circuits with every input kind (incl. Gaussian with log-partition) and unnormalised products "
        "multiply(c, c); Lean eval of the real conjugate() result vs conj of the Lean eval of the operand, Lean model "
        "operator vs real operator, compiled conjugate() vs conj of the compiled operand under flags, "
        "conjugate(conjugate(c)) vs c, integrate(conjugate(c)) vs conj(integrate(c)); "
        "non-trivial = distinct spec with a sum and a product layer")

CLASSES = [
    ("complex", dict(leaf_kinds=["emb", "poly"], weight_pz=["id"], signed=True, complex=True), ["complex-lse-sum"]),
    ("complex_emb", dict(leaf_kinds=["emb"], weight_pz=["id"], signed=True, complex=True), ["complex-lse-sum"]),
    ("real_signed", dict(leaf_kinds=["emb", "poly"], weight_pz=["id"], signed=True), ["sum-product", "complex-lse-sum"]),
    ("expfam", dict(leaf_kinds=["cat_probs", "cat_logits", "cat_softmax", "gauss", "gauss_lp", "emb"], units=[1, 2],
                    weight_pz=["id", "softmax", "exp"]), ["sum-product", "lse-sum"]),
    ("gauss_square", dict(leaf_kinds=["gauss", "gauss_lp"], units=[1, 2], weight_pz=["id"], prod_kinds=["had"],
                          structured=True, nout=1, inner_outputs=False), ["sum-product", "lse-sum"]),
]


def conj_nested(a, mode):
    if isinstance(a, list):
        return [conj_nested(x, mode) for x in a]
    if mode == "gauss":
        return (a[0], -a[1])
    return a


def run_scenario(run: Run, scen: dict, rng: random.Random):
    spec, semiring, fold, optimize = scen["spec"], scen["semiring"], scen["fold"], scen["optimize"]
    base = gen.build_circuit(spec)
    sc = base
    if scen.get("square"):
        try:
            sc = SF.multiply(base, base)
        except Exception:  # noqa: BLE001
            run.feature("square_refused", True)
            sc = base
    cplx = common.spec_is_complex(spec)
    try:
        csc = SF.conjugate(sc)
        ccsc = SF.conjugate(csc)
    except Exception as e:  # noqa: BLE001
        # no circuit is returned: nothing to check (Binomial / constant layers have no conjugation rule)
        run.feature("refused", type(e).__name__)
        return
    for name, a, b in [("smooth", csc.is_smooth, sc.is_smooth), ("decomposable", csc.is_decomposable, sc.is_decomposable),
                       ("structured", csc.is_structured_decomposable, sc.is_structured_decomposable)]:
        if a != b:
            run.violation("flags", scen, f"conjugate changed the structural flag {name}: {b} -> {a}")
            return
    if sorted(csc.scope) != sorted(sc.scope) or len(csc.outputs) != len(sc.outputs):
        run.violation("interface", scen, "conjugate changed scope or number of outputs")
        return
    rows = gen.gen_inputs(rng, spec, 3)
    scen_x = dict(scen, rows=rows)
    mc = common.ModelCircuit(sc, cplx=cplx)
    mj = common.ModelCircuit(csc, cplx=cplx, mode=mc.mode)
    mjj = common.ModelCircuit(ccsc, cplx=cplx, mode=mc.mode)
    try:
        try:
            comp = real.TorchCompiler(semiring=semiring, fold=fold, optimize=optimize)
            tb = comp.compile(base)
            tc = comp.compile(sc)
            tj = comp.compile(csc)
        except Exception as e:  # noqa: BLE001
            run.violation("compile-crash", scen, f"{type(e).__name__}: {e} (fold={fold}, optimize={optimize})")
            return
        theta = real.read_theta(comp, ser.tensor_params(base))
        a = mj.eval(theta, rows)
        b = conj_nested(mc.eval(theta, rows), mc.mode)
        run.evaluations += 1
        ok, why = same_nested(a, b, mc.mode)
        if not ok:
            run.violation("conjugate-wrong", scen_x, f"Lean evaluation of conjugate(c) differs from the conjugate of c: {why}")
            return
        c = mc.d.op_eval(mc.cid, theta, rows, "conjugate")
        run.disagreements_checked += 1
        ok, why = same_nested(a, c, mc.mode)
        if not ok:
            run.violation("model-operator", scen_x, f"model conjugate vs real conjugate: {why}", no_failing_input=True,
                          broken="correspondence Node.conj vs functional.conjugate")
            return
        ok, why = same_nested(mjj.eval(theta, rows), mc.eval(theta, rows), mc.mode)
        if not ok:
            run.violation("conjugate-twice", scen_x, f"conjugate(conjugate(c)) differs from c: {why}")
            return
        if mc.mode in ("rat", "gauss"):
            run.exact += 1
        else:
            run.tolerance += 1
        # compiled
        try:
            X = common.input_array(rows, spec)
            yc = real.evaluate(tc, X, semiring=semiring)
            yj = real.evaluate(tj, X, semiring=semiring)
        except Exception as e:  # noqa: BLE001
            run.violation("eval-crash", scen_x, f"{type(e).__name__}: {e}")
            return
        try:
            m = mj.eval(theta, rows); mag = mj.magnitude(theta, rows)
            common.compare(yj, m, mag, mj.mode)
            if not cplx and scen["class"] != "real_signed":
                common.compare_arrays(yj, np.conj(yc), tol=1e-9, what="compiled conjugate vs conj of compiled operand")
        except common.Mismatch as mm:
            run.violation("compiled-conjugate-wrong", scen_x, f"{mm} {mm.detail} (fold={fold}, optimize={optimize}, {semiring})")
            return
        # same integral (real circuits with an integration rule for every input)
        if not cplx and all(d["t"] in ("emb", "cat", "gauss") for d in spec["layers"] if "v" in d) \
                and sc.is_smooth and sc.is_decomposable:
            try:
                i1 = comp.compile(SF.integrate(csc))
                i2 = comp.compile(SF.integrate(sc))
                y1 = real.evaluate(i1, None, semiring=semiring)
                y2 = real.evaluate(i2, None, semiring=semiring)
                common.compare_arrays(y1, np.conj(y2), tol=1e-9, what="integral of conjugate vs conjugate of integral")
            except common.Mismatch as mm:
                run.violation("conjugate-integral", scen_x, f"{mm} {mm.detail}")
                return
            except Exception as e:  # noqa: BLE001
                run.violation("eval-crash", scen_x, f"integrate of conjugate: {type(e).__name__}: {e}")
                return
    finally:
        mc.drop(); mj.drop(); mjj.drop()


def check(run: Run, tier: str, seed: int):
    n = 200 if tier == "quick" else 1200
    for i in range(n):
        cls, opts, semirings = CLASSES[i % len(CLASSES)]
        srng = random.Random(f"C07-{seed}-{i}")
        spec = gen.gen_spec(srng, **opts)
        if len(spec["layers"]) > (30 if tier == "quick" else 50):
            spec = gen.gen_spec(srng, nv=2, **opts)
        feats = gen.spec_features(spec)
        nontrivial = feats["had"] + feats["kron"] > 0 and any(d["t"] == "sum" for d in spec["layers"])
        semiring = srng.choice(semirings)
        fold, optimize = srng.choice(real.FLAGS)
        scen = {"spec": spec, "class": cls, "semiring": semiring, "fold": fold, "optimize": optimize,
                "square": cls == "gauss_square" or (cls == "expfam" and srng.random() < 0.3)}
        run.case(spec, nontrivial=nontrivial, sample=scen if i < 1 else None,
                 features={"class": cls, "semiring": semiring, "flags": f"{fold},{optimize}", "square": scen["square"]})
        run_scenario(run, scen, srng)


def replay(run: Run, body: dict):
    run_scenario(run, body["scenario"], random.Random(0))
