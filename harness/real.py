"""Running the real cirkit (always the current working tree of /repo, in-process)."""
from __future__ import annotations

import itertools
from fractions import Fraction

import numpy as np
import torch

torch.set_default_dtype(torch.float64)

import cirkit.symbolic.parameters as P  # noqa: E402
from cirkit.backend.torch.compiler import TorchCompiler  # noqa: E402
from cirkit.symbolic.circuit import Circuit  # noqa: E402

import ser  # noqa: E402

FLAGS = [(False, False), (True, False), (False, True), (True, True)]
SEMIRINGS = ["sum-product", "lse-sum", "complex-lse-sum"]


def compile_circuit(sc: Circuit, *, fold=False, optimize=False, semiring="sum-product",
                    compiler: TorchCompiler | None = None):
    comp = compiler or TorchCompiler(semiring=semiring, fold=fold, optimize=optimize)
    tc = comp.compile(sc)
    return comp, tc


def read_theta(comp: TorchCompiler, params, uids=ser.UIDS) -> dict:
    """Current values of the symbolic tensor parameters, read through the compiler registry."""
    theta = {}
    for n in params:
        pt, idx = comp.state.retrieve_compiled_parameter(n)
        t = pt._ptensor[idx].detach()
        theta[uids.uid(n)] = _flat(t)
    return theta


def _flat(t: torch.Tensor):
    if t.is_complex():
        return [complex(v) for v in t.reshape(-1).tolist()]
    return [float(v) for v in t.reshape(-1).tolist()]


def write_theta(comp: TorchCompiler, params, values: dict, uids=ser.UIDS):
    """Write values (uid -> flat list) into the compiled tensors through the registry."""
    with torch.no_grad():
        for n in params:
            pt, idx = comp.state.retrieve_compiled_parameter(n)
            v = values[uids.uid(n)]
            t = torch.tensor(v, dtype=pt._ptensor.dtype).reshape(n.shape)
            pt._ptensor[idx].copy_(t)


def dyadic_values(rng, n: int, *, lo=1, hi=24, denom=8, signed=False, distinct=True):
    """n pairwise-distinct small dyadic rationals k/denom (so float64 arithmetic stays exact)."""
    pool = list(range(lo, hi + 1))
    if signed:
        pool = pool + [-k for k in pool]
    if distinct and n <= len(pool):
        ks = rng.sample(pool, n)
    else:
        ks = [rng.choice(pool) for _ in range(n)]
    return [k / denom for k in ks]


class RawNaN(Exception):
    """The compiled circuit returned NaN in a component of its (log-space) output."""


def evaluate(tc, X: np.ndarray | None, *, semiring="sum-product", nan_check=False):
    """Evaluate the compiled circuit; returns a numpy array (B, O, K) in *linear* space.
    With nan_check, a NaN real or imaginary part of the raw output raises RawNaN (exp() would hide a NaN
    phase of a log-space zero: exp(-inf + nan j) = 0)."""
    if X is None:
        y = tc()
        y = y.unsqueeze(0)
    else:
        y = tc(torch.as_tensor(X))
    y = y.detach()
    if nan_check:
        parts = torch.view_as_real(y) if y.is_complex() else y
        if torch.isnan(parts).any():
            idx = torch.nonzero(torch.isnan(parts))[0].tolist()
            raise RawNaN(f"raw output entry {idx[:3]} = {y[tuple(idx[:3])].item()}")
    if semiring in ("lse-sum", "complex-lse-sum"):
        y = torch.exp(y)
    return y.numpy()


def all_assignments(domains: dict[int, int], D: int):
    """Every complete assignment of the discrete variables (array rows of width D)."""
    vs = sorted(domains)
    rows = []
    for vals in itertools.product(*[range(domains[v]) for v in vs]):
        r = [0] * D
        for v, a in zip(vs, vals):
            r[v] = a
        rows.append(r)
    return rows


def to_fraction_nested(a):
    if isinstance(a, (list, tuple)):
        return [to_fraction_nested(x) for x in a]
    return Fraction(float(a))
