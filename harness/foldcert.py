"""Observation of the real folding (harness-side spy, no hook in /repo) and validation of the fold
certificate and address-book entries by the Lean model (Model/Fold.lean)."""
from __future__ import annotations

import contextlib

import torch

import cirkit.backend.torch.compiler as CC
import framework
import leanmodel
from cirkit.backend.torch.layers import TorchLayer

_records: list[dict] = []


UNOBSERVABLE = {"flag": False}


@contextlib.contextmanager
def spy():
    """Record every layer-level call of build_folded_graph made by the compiler. If the function is gone or is
    called differently after a refactoring, nothing is recorded (UNOBSERVABLE) and the compilation is untouched."""
    import inspect
    orig = getattr(CC, "build_folded_graph", None)
    _records.clear()
    if orig is None:
        UNOBSERVABLE["flag"] = True
        yield _records
        return

    def wrapped(*args, **kwargs):
        try:
            bound = inspect.signature(orig).bind(*args, **kwargs)
            a = bound.arguments
            frontiers = [list(f) for f in a["ordering"]]
            outs = list(a["outputs"])
            incomings_fn, fold_group_fn = a["incomings_fn"], a["fold_group_fn"]
        except Exception:  # noqa: BLE001
            UNOBSERVABLE["flag"] = True
            return orig(*args, **kwargs)
        groups = []

        def group_fn(group):
            groups.append(list(group))
            return fold_group_fn(group)

        a["ordering"], a["outputs"], a["fold_group_fn"] = frontiers, outs, group_fn
        res = orig(*bound.args, **bound.kwargs)
        try:
            flat = [m for f in frontiers for m in f]
            if flat and isinstance(flat[0], TorchLayer):
                _records.append({"frontiers": frontiers, "outputs": outs, "incomings_fn": incomings_fn,
                                 "groups": groups, "info": res[3], "modules": res[0]})
        except Exception:  # noqa: BLE001
            UNOBSERVABLE["flag"] = True
        return res

    CC.build_folded_graph = wrapped
    try:
        yield _records
    finally:
        CC.build_folded_graph = orig


def _key_of(m):
    ss = [type(m).__name__, *m.fold_settings]
    for _, sub in m.sub_modules.items():
        ss.extend(_key_of(sub))
    return tuple(ss)


def certificate(rec: dict) -> dict:
    flat = [m for f in rec["frontiers"] for m in f]
    ident = {id(m): i for i, m in enumerate(flat)}
    keys_map: dict = {}
    keys = []
    for m in flat:
        k = repr(_key_of(m))
        keys.append(keys_map.setdefault(k, len(keys_map)))
    info = rec["info"]
    groups = [[ident[id(m)] for m in g] for g in rec["groups"]]
    in_idx = []
    for gi, g in enumerate(groups):
        rows = info.in_fold_idx[gi]
        if not rows:
            rows = [[] for _ in g]
        in_idx.append([[list(map(int, p)) for p in row] for row in rows])
    return {
        "n": len(flat),
        "ins": [[ident[id(x)] for x in rec["incomings_fn"](m)] for m in flat],
        "keys": keys,
        "outputs": [ident[id(m)] for m in rec["outputs"]],
        "frontiers": [[ident[id(m)] for m in f] for f in rec["frontiers"]],
        "groups": groups,
        "in_idx": in_idx,
        "out_idx": [list(map(int, p)) for p in info.out_fold_idx],
    }


def real_entries(tc, num_folds):
    """The address-book entries of the compiled circuit as (ids, index matrix)."""
    out = []
    for entry in tc.address_book:
        if not entry.in_module_ids:
            out.append(None)
            continue
        ids = list(entry.in_module_ids[0])
        fi = entry.in_fold_idx[0]
        total = sum(num_folds[i] for i in ids)
        if isinstance(fi, torch.Tensor):
            idx = fi.tolist()
            if fi.dim() == 1:
                idx = [idx]
        elif fi == (None,):
            idx = [list(range(total))]
        else:
            idx = [[i] for i in range(total)]
        out.append((ids, idx))
    return out


def check_fold_certificate(run, scen, rec, tc, flags) -> bool:
    cert = certificate(rec)
    d = leanmodel.driver("rat")
    r = d.call({"cmd": "foldcert", **cert})
    run.extra["fold_certificates_checked"] = run.extra.get("fold_certificates_checked", 0) + 1
    if not r["topo"]:
        run.violation("fold-order", dict(scen, cert=cert), "layer-wise ordering handed to build_folded_graph is not topological", no_failing_input=True, broken="fold certificate: topological order")
        return False
    if not r["valid"]:
        run.violation("fold-certificate", dict(scen, cert=cert),
                      f"the fold index information produced by build_folded_graph is not a valid certificate ({flags}): "
                      "groups must partition the layers, share key/arity, and in/out indices must name the locations of the inputs/outputs",
                      no_failing_input=True, broken="theorem C02.fold_sound: hypothesis FoldCert.valid fails on the real certificate")
        return False
    # theorem C02.buildFolded_valid: Layered ordering => the model's certificate is valid (diagnostic counters)
    if r.get("layered"):
        run.extra["fold_layered_orderings"] = run.extra.get("fold_layered_orderings", 0) + 1
        if not r.get("model_valid"):
            raise framework.MachineryError("model certificate invalid on a Layered ordering: contradicts theorem C02.buildFolded_valid")
    if r["model_same"]:
        run.extra["fold_model_same"] = run.extra.get("fold_model_same", 0) + 1
    if not r["model_same"]:
        run.extra["fold_model_differs"] = run.extra.get("fold_model_differs", 0) + 1  # diagnostic only
    num_folds = [len(g) for g in cert["groups"]]
    ents = real_entries(tc, num_folds)
    model_ents = r["entries"] + [r["out_entry"]]
    if len(ents) != len(model_ents):
        run.violation("address-book", dict(scen, cert=cert), f"{len(ents)} address-book entries for {len(model_ents) - 1} folded layers", no_failing_input=True, broken="address book length")
        return False
    for gi, (e, me) in enumerate(zip(ents, model_ents)):
        if e is None:
            continue
        if e[0] != me["ids"] or e[1] != me["idx"]:
            run.violation("address-book", dict(scen, cert=cert, entry=gi, real=[e[0], e[1]], model=me),
                          f"address-book entry {gi} differs from the model of build_address_book_stacked_entry ({flags})",
                          no_failing_input=True, broken="theorem C02.stackedEntry_gather: real entry is not stackedEntry of the certificate")
            return False
    return True
