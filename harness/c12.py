"""C12 — circuits built with normalised parameterisations are normalised."""
from __future__ import annotations

import itertools
import random

import numpy as np
import torch

import common
import real
import ser
from framework import Run
import cirkit.symbolic.functional as SF
from cirkit.symbolic.layers import BinomialLayer, CategoricalLayer, GaussianLayer
from cirkit.symbolic.parameters import mixing_weight_factory
from cirkit.templates import data_modalities, pgms, tensor_factorizations
from cirkit.templates.utils import Parameterization, parameterization_to_factory
from c16 import make_rg, rand_rg_spec

RULE = ("template grid: every region-graph algorithm (random arguments, repetitions) x {cp, cp-t, tucker} x input "
        "layer in {categorical (softmax probs), binomial (sigmoid probs, heterogeneous total_count), Gaussian} x units "
        "1-3 x mixing or dense n-ary sums, image_data / tabular_data entry points, pgms.fully_factorized and pgms.hmm "
        "with random orderings and per-variable arguments, probabilistic cp / tucker factorisations; compiled under a "
        "(fold, optimize, semiring) combination: the compiled partition function (symbolic integrate) is 1 (log 0) "
        "before and after optimizer steps and random re-initialisation, brute-force sums over all assignments equal 1 "
        "for small discrete circuits with non-negative values, the Lean masked evaluation of the serialised circuit "
        "with every variable marginalised equals 1, log-space values of in-support inputs are finite; "
        "non-trivial = distinct template configuration with at least one sum layer")


def softmax_wf():
    return parameterization_to_factory(Parameterization(activation="softmax", initialization="normal"))


def build(scen, rng):
    k = scen["kind"]
    if k == "rg":
        rg = make_rg(scen["rg"])
        b = scen["build"]
        wf = softmax_wf()
        it = scen["input"]
        nvars = rg.num_variables
        counts = scen.get("counts")
        if it == "categorical":
            factory = lambda scope, n: CategoricalLayer(scope, n, num_categories=scen["cats"])  # noqa: E731
        elif it == "binomial":
            factory = lambda scope, n: BinomialLayer(scope, n, total_count=counts[list(scope)[0] % len(counts)])  # noqa: E731
        else:
            factory = lambda scope, n: GaussianLayer(scope, n)  # noqa: E731
        nary = (lambda shape: mixing_weight_factory(shape, param_factory=wf)) if b["mixing"] else wf
        nin = b["num_sum_units"] if b["sp"] in ("cp-t", "tucker") else b["num_input_units"]
        return rg.build_circuit(input_factory=factory, sum_product=b["sp"], sum_weight_factory=wf,
                                nary_sum_weight_factory=nary, num_input_units=nin,
                                num_sum_units=b["num_sum_units"], num_classes=1)
    if k == "image":
        return data_modalities.image_data(tuple(scen["shape"]), region_graph=scen["region_graph"], input_layer=scen["input"],
                                          num_input_units=scen["units"], sum_product_layer=scen["sp"],
                                          num_sum_units=scen["units"], use_mixing_weights=scen["mixing"])
    if k == "tabular":
        layers = [{"name": "categorical", "args": {"num_categories": c}} if c else {"name": "gaussian", "args": {}}
                  for c in scen["features"]]
        data = None
        if scen["region_graph"] == "chow-liu-tree":
            g = torch.Generator().manual_seed(scen["seed"])
            data = torch.stack([torch.randint(0, c, (50,), generator=g).float() if c else torch.randn(50, generator=g)
                                for c in scen["features"]], dim=1)
        return data_modalities.tabular_data(region_graph=scen["region_graph"], num_features=len(layers), data=data,
                                            input_layers=layers, num_input_units=scen["units"],
                                            sum_product_layer=scen["sp"], num_sum_units=scen["units"],
                                            use_mixing_weights=scen["mixing"])
    if k == "ff":
        return pgms.fully_factorized(scen["n"], input_layer=scen["input"], input_layer_kwargs=scen["kwargs"])
    if k == "hmm":
        return pgms.hmm(scen["ordering"], input_layer=scen["input"], num_latent_states=scen["states"],
                        input_layer_kwargs=scen["kwargs"])
    if k == "cp":
        return tensor_factorizations.cp(tuple(scen["shape"]), scen["rank"], input_layer=scen["input"],
                                        weight_param=Parameterization(activation="softmax", initialization="normal"))
    if k == "tucker":
        return tensor_factorizations.tucker(tuple(scen["shape"]), scen["rank"], input_layer=scen["input"],
                                            core_param=Parameterization(activation="softmax", initialization="normal"))
    raise ValueError(k)


def domains(sc):
    out = {}
    for sl in sc.input_layers:
        if isinstance(sl, CategoricalLayer):
            out[list(sl.scope)[0]] = sl.num_categories
        elif isinstance(sl, BinomialLayer):
            out[list(sl.scope)[0]] = sl.total_count + 1
        elif isinstance(sl, GaussianLayer):
            out[list(sl.scope)[0]] = None
    return out


def rand_scen(rng: random.Random, i: int) -> dict:
    k = ["rg", "rg", "rg", "image", "tabular", "ff", "hmm", "hmm", "cp", "tucker"][i % 10]
    inp = rng.choice(["categorical", "categorical", "binomial", "gaussian"])
    if k == "rg":
        rgs = rand_rg_spec(rng)
        return {"kind": k, "rg": rgs, "input": inp, "cats": rng.choice([2, 3]), "counts": [rng.choice([1, 2, 3]) for _ in range(3)],
                "build": {"sp": rng.choice(["cp", "cp-t", "tucker"]), "num_sum_units": rng.choice([1, 2, 3]),
                          "num_input_units": rng.choice([1, 2, 3]), "mixing": rng.random() < 0.5}}
    if k == "image":
        return {"kind": k, "shape": [rng.choice([1, 2]), rng.randint(1, 3), rng.randint(1, 3)],
                "region_graph": rng.choice(["quad-tree-2", "quad-tree-4", "quad-graph", "random-binary-tree", "poon-domingos"]),
                "input": rng.choice(["categorical", "binomial", "gaussian"]), "units": rng.choice([1, 2]),
                "sp": rng.choice(["cp", "cp-t", "tucker"]), "mixing": rng.random() < 0.5}
    if k == "tabular":
        n = rng.randint(2, 5)
        return {"kind": k, "features": [rng.choice([0, 2, 3, 4]) for _ in range(n)], "units": rng.choice([1, 2]),
                "region_graph": rng.choice(["random-binary-tree", "chow-liu-tree"]), "sp": rng.choice(["cp", "cp-t", "tucker"]),
                "mixing": rng.random() < 0.5, "seed": rng.randrange(1000)}
    if k in ("ff", "hmm"):
        n = rng.randint(1, 5)
        if inp == "categorical":
            kwargs = [{"num_categories": rng.choice([2, 3, 4])} for _ in range(n)]
        elif inp == "binomial":
            kwargs = [{"total_count": rng.choice([1, 2, 3])} for _ in range(n)]
        else:
            kwargs = None
        if rng.random() < 0.3 and kwargs:
            kwargs = kwargs[0]
        sc = {"kind": k, "n": n, "input": inp, "kwargs": kwargs}
        if k == "hmm":
            o = list(range(n)); rng.shuffle(o)
            sc.update(ordering=o, states=rng.choice([1, 2, 3]))
        return sc
    return {"kind": k, "shape": [rng.choice([2, 3]) for _ in range(rng.randint(1, 3))], "rank": rng.choice([1, 2, 3]),
            "input": rng.choice(["categorical", "binomial"])}


def run_scenario(run: Run, scen: dict, rng: random.Random):
    semiring, fold, optimize = scen["semiring"], scen["fold"], scen["optimize"]
    try:
        torch.manual_seed(scen.get("torch_seed", 0))
        sc = build(scen, rng)
    except Exception as e:  # noqa: BLE001
        tag = "template-1mode" if scen["kind"] in ("cp", "tucker") and len(scen["shape"]) == 1 else "template-crash"
        run.violation(tag, scen, f"building the template raised {type(e).__name__}: {e}")
        return
    if len(list(sc.layers)) > 400:
        run.feature("skipped_large", True)
        return
    # the distribution must be over the *declared* domains: per-variable arguments belong to that variable id
    if scen["kind"] in ("ff", "hmm") and scen.get("kwargs"):
        for sl in sc.input_layers:
            v = list(sl.scope)[0]
            kw = scen["kwargs"] if isinstance(scen["kwargs"], dict) else scen["kwargs"][v]
            for name in ("num_categories", "total_count"):
                if name in kw and getattr(sl, name, None) != kw[name]:
                    run.violation("declared-domain", scen, f"variable {v} was declared with {name}={kw[name]} but its input layer has {getattr(sl, name, None)}: the circuit is not a distribution over the declared domain")
                    return
    if not (sc.is_smooth and sc.is_decomposable):
        run.violation("template-structure", scen, f"template circuit is smooth={sc.is_smooth} decomposable={sc.is_decomposable}")
        return
    try:
        comp = real.TorchCompiler(semiring=semiring, fold=fold, optimize=optimize)
        tc = comp.compile(sc)
        try:
            itc = comp.compile(SF.integrate(sc))
        except Exception as e:  # noqa: BLE001
            if "INTEGRATION" not in str(e):
                raise
            # no symbolic integration rule (Binomial): use the integration query on the compiled circuit
            from cirkit.backend.torch.queries import IntegrateQuery
            from cirkit.utils.scope import Scope as _Scope
            q = IntegrateQuery(tc)
            Dq = max(sc.scope) + 1
            itc = lambda: q(torch.zeros((1, Dq), dtype=torch.int64), integrate_vars=_Scope(sc.scope))[0]  # noqa: E731
    except Exception as e:  # noqa: BLE001
        run.violation("compile-crash", scen, f"{type(e).__name__}: {e}")
        return
    doms = domains(sc)
    vs = sorted(sc.scope)
    D = max(vs) + 1
    discrete_small = all(d is not None for d in doms.values()) and np.prod([doms[v] for v in vs], dtype=float) <= 3000
    opt = torch.optim.SGD([p for p in tc.parameters() if p.requires_grad], lr=0.1) if any(p.requires_grad for p in tc.parameters()) else None
    for phase in ["init", "trained", "reset"]:
        try:
            if phase == "trained" and opt is not None:
                for _ in range(2):
                    x = torch.stack([torch.randint(0, doms[v], (4,)).float() if doms.get(v) else torch.randn(4) for v in range(D)], dim=1) \
                        if all(v in doms for v in range(D)) else None
                    if x is None:
                        break
                    if all(d is not None for d in doms.values()):
                        x = x.long()
                    loss = -tc(x).real.sum() if tc(x).is_complex() else -tc(x).sum()
                    opt.zero_grad(); loss.backward(); opt.step()
            if phase == "reset":
                tc.reset_parameters()
            with torch.no_grad():
                z = itc()
            z = torch.exp(z) if semiring != "sum-product" else z
            run.evaluations += 1
            zr = z.real if z.is_complex() else z
            if not torch.allclose(zr, torch.ones_like(zr), atol=1e-9):
                run.violation("not-normalised", dict(scen, phase=phase), f"partition function {z.flatten().tolist()} != 1 ({phase}; fold={fold}, optimize={optimize}, {semiring})")
                return
            if discrete_small:
                rows = [list(a) for a in itertools.product(*[range(doms[v]) for v in vs])]
                X = np.zeros((len(rows), D), dtype=np.int64)
                for j, v in enumerate(vs):
                    X[:, v] = [r[j] for r in rows]
                with torch.no_grad():
                    y = tc(torch.as_tensor(X))
                lin = torch.exp(y) if semiring != "sum-product" else y
                lin = lin.real if lin.is_complex() else lin
                if (lin < -1e-12).any():
                    run.violation("negative-value", dict(scen, phase=phase), f"negative value {float(lin.min())}")
                    return
                tot = lin.sum(dim=0)  # per output and unit
                if not torch.allclose(tot, torch.ones_like(tot), atol=1e-9):
                    run.violation("not-normalised", dict(scen, phase=phase), f"sums over all {len(rows)} assignments are {tot.flatten().tolist()} ({phase}; fold={fold}, optimize={optimize}, {semiring})")
                    return
                if semiring != "sum-product":
                    insupp = lin > 1e-300
                    if not torch.isfinite(y.real if y.is_complex() else y)[insupp].all():
                        run.violation("log-not-finite", dict(scen, phase=phase), "log-space value of an in-support input is not finite")
                        return
                run.exact += 1
        except Exception as e:  # noqa: BLE001
            run.violation("eval-crash", dict(scen, phase=phase), f"{type(e).__name__}: {e}")
            return
    # Lean: masked evaluation with every variable marginalised (model of the partition function)
    if all(d is not None for d in doms.values()) and len(list(sc.layers)) <= 120:
        mc = common.ModelCircuit(sc)
        try:
            if mc.tree_size > common.TREE_LIMIT:
                run.feature("model_skipped_large_tree", True)
                return
            theta = real.read_theta(comp, ser.tensor_params(sc))
            m = mc.d.masked_eval(mc.cid, theta, [[0] * D], [vs])
            for o in m[0]:
                for u in o:
                    if abs(float(u) - 1.0) > 1e-9:
                        run.violation("model-not-normalised", scen, f"Lean masked evaluation of the serialised circuit gives partition function {float(u)}")
                        return
            run.tolerance += 1
        finally:
            mc.drop()


def check(run: Run, tier: str, seed: int):
    n = 120 if tier == "quick" else 1200
    for i in range(n):
        srng = random.Random(f"C12-{seed}-{i}")
        scen = rand_scen(srng, i)
        scen.update(semiring=srng.choice(["sum-product", "lse-sum"]), fold=srng.random() < 0.6, optimize=srng.random() < 0.5,
                    torch_seed=srng.randrange(10 ** 6))
        run.case(scen, nontrivial=True, sample=scen if i < 2 else None,
                 features={"kind": scen["kind"], "input": scen.get("input", "-"), "flags": f"{scen['fold']},{scen['optimize']}",
                           "semiring": scen["semiring"]})
        run_scenario(run, scen, srng)


def replay(run: Run, body: dict):
    run_scenario(run, body["scenario"], random.Random(0))
