"""C11 — marginal queries on compiled circuits equal true marginals per sample."""
from __future__ import annotations

import random

import numpy as np
import torch

import common
import gen
import real
import ser
from c03 import GRID, brute_force_per_output, same_nested
from framework import Run
import cirkit.symbolic.functional as SF
from cirkit.backend.torch.queries import IntegrateQuery
from cirkit.utils.scope import Scope

RULE = ("generated smooth decomposable circuits over categorical (probs / softmax / logits, normalised or not), "
        "binomial and Gaussian (with / without log-partition) inputs x (fold, optimize) x semiring x batch sizes "
        "{1, 2, F, F+1, 5} x per-sample marginalisation sets given as a bool mask tensor, one Scope (broadcast) or one "
        "Scope per sample (incl. empty sets); IntegrateQuery vs Lean maskedEval (sum over the discrete domain, "
        "trapezoid rule for Gaussian variables), vs brute-force sums of the compiled circuit, vs the compiled symbolic "
        "integrate(); variables outside the scope must be rejected; non-trivial = distinct (spec, masks) with a "
        "product layer and at least one non-empty and one proper mask")

CLASSES = [
    ("cat", dict(leaf_kinds=["cat_probs", "cat_softmax", "cat_logits"], units=[1, 2, 3], weight_pz=["id", "softmax"])),
    ("cat_bin", dict(leaf_kinds=["cat_logits", "bin_probs", "bin_logits", "cat_probs"], units=[1, 2], weight_pz=["id", "exp"])),
    ("gauss_mix", dict(leaf_kinds=["gauss", "gauss_lp", "cat_logits"], units=[1, 2], weight_pz=["id", "softmax"])),
]

QUAD = None


def quad_rule():
    global QUAD
    if QUAD is None:
        w = np.full(len(GRID), GRID[1] - GRID[0]); w[0] *= 0.5; w[-1] *= 0.5
        QUAD = [(float(p), float(wi)) for p, wi in zip(GRID, w)]
    return QUAD


def run_scenario(run: Run, scen: dict, rng: random.Random):
    spec, semiring, fold, optimize = scen["spec"], scen["semiring"], scen["fold"], scen["optimize"]
    sc = gen.build_circuit(spec)
    if not (sc.is_smooth and sc.is_decomposable):
        return
    try:
        comp, tc = real.compile_circuit(sc, fold=fold, optimize=optimize, semiring=semiring)
    except Exception as e:  # noqa: BLE001
        run.violation("compile-crash", scen, f"{type(e).__name__}: {e}")
        return
    theta = real.read_theta(comp, ser.tensor_params(sc))
    vs = spec["vars"]
    D = max(vs) + 1
    cont = set(spec.get("continuous", []))
    Fs = common.fold_counts(tc)
    sizes = sorted({1, 2, max(Fs), max(Fs) + 1, 5})
    lin = (lambda t: torch.exp(t)) if semiring != "sum-product" else (lambda t: t)
    q = IntegrateQuery(tc)
    mc = common.ModelCircuit(sc)
    try:
        for B in sizes:
            rows = gen.gen_inputs(rng, spec, B)
            X = torch.as_tensor(common.input_array(rows, spec))
            form = rng.choice(["tensor", "scopes", "one"])
            if form == "one":
                m1 = rng.sample(vs, rng.randint(0, len(vs)))
                masks = [m1] * B
                arg = Scope(m1)
            else:
                masks = [rng.sample(vs, rng.randint(0, len(vs))) for _ in range(B)]
                if form == "tensor":
                    arg = torch.zeros((B, D), dtype=torch.bool)
                    for b, m in enumerate(masks):
                        arg[b, m] = True
                else:
                    arg = [Scope(m) for m in masks]
            scen_b = dict(scen, rows=rows, masks=masks, form=form)
            try:
                y = lin(q(X, integrate_vars=arg)).detach().numpy()
            except Exception as e:  # noqa: BLE001
                run.violation("query-crash", scen_b, f"IntegrateQuery raised {type(e).__name__}: {e} (batch size {B}, folds {Fs}, masks as {form})")
                return
            run.evaluations += 1
            if y.shape[0] != B:
                run.violation("query-shape", scen_b, f"result has batch dimension {y.shape[0]} for {B} samples (folds {Fs})")
                return
            # Lean masked evaluation (model of the query = true marginal by C11.maskedEval_correct)
            ncont = max((len([v for v in m if v in cont]) for m in masks), default=0)
            if ncont <= 1:
                m = mc.d.masked_eval(mc.cid, theta, rows, masks, quad=quad_rule() if cont else None)
                try:
                    tol = 1e-9 if not cont else 1e-7
                    ne, nt = common.compare(y, m, None, mc.mode, tol=tol)
                    run.exact += ne; run.tolerance += nt
                except common.Mismatch as mm:
                    run.violation("marginal-wrong", scen_b, f"IntegrateQuery differs from the per-sample marginal: {mm} {mm.detail} (batch size {B}, folds {Fs}, masks as {form}, fold={fold}, optimize={optimize}, {semiring})")
                    return
            # real-code-only oracle: brute force per sample
            for b in range(B):
                zs = sorted(masks[b])
                if len([z for z in zs if z in cont]) > 1:
                    continue
                size = np.prod([len(GRID) if z in cont else spec["states"][str(z)] for z in zs]) if zs else 1
                if size > 50000:
                    continue
                try:
                    bf = brute_force_per_output(tc, sc, spec, [rows[b]], zs, semiring)
                    common.compare_arrays(y[b:b + 1], bf, tol=1e-7 if cont else 1e-9, what="IntegrateQuery vs brute-force sum")
                except common.Mismatch as mm:
                    run.violation("marginal-wrong", scen_b, f"{mm} {mm.detail} (sample {b}, mask {zs}, batch size {B}, folds {Fs})")
                    return
        # the query must follow parameter updates (evaluation without autograd, update in place, again)
        rows = gen.gen_inputs(rng, spec, 2)
        X = torch.as_tensor(common.input_array(rows, spec))
        m0 = [rng.sample(vs, rng.randint(1, len(vs))) for _ in rows]
        # (directly parameterised probabilities must stay normalised: documented precondition; not perturbed)
        direct_probs = any(isinstance(d.get("probs"), dict) and d["probs"].get("pz") == "id" for d in spec["layers"])
        try:
            with torch.no_grad():
                q(X, integrate_vars=[Scope(m) for m in m0])
                for p in tc.parameters():
                    if p.requires_grad and not direct_probs:
                        p.add_(torch.rand_like(p) * 0.5)
                y2 = lin(q(X, integrate_vars=[Scope(m) for m in m0])).numpy()
            for b in range(len(rows)):
                zs = sorted(m0[b])
                if len([z for z in zs if z in cont]) > 1:
                    continue
                bf = brute_force_per_output(tc, sc, spec, [rows[b]], zs, semiring)
                common.compare_arrays(y2[b:b + 1], bf, tol=1e-7 if cont else 1e-9, what="IntegrateQuery after an in-place parameter update vs brute-force sum")
        except common.Mismatch as mm:
            run.violation("marginal-stale", dict(scen, rows=rows, masks=m0), f"{mm} {mm.detail}")
            return
        except Exception as e:  # noqa: BLE001
            run.violation("query-crash", dict(scen, rows=rows, masks=m0), f"after parameter update: {type(e).__name__}: {e}")
            return
        # agreement with the symbolic operator (variables that have an integration rule)
        zs = [v for v in vs if all(d["t"] in ("cat", "gauss", "emb") for d in spec["layers"] if d.get("v") == v)]
        if zs:
            zs = rng.sample(zs, rng.randint(1, len(zs)))
            try:
                itc = comp.compile(SF.integrate(sc, Scope(zs)))
                rows = gen.gen_inputs(rng, spec, 3)
                X = torch.as_tensor(common.input_array(rows, spec))
                a = lin(q(X, integrate_vars=Scope(zs))).detach().numpy()
                bq = real.evaluate(itc, X.numpy() if itc.scope else None, semiring=semiring)
                if not itc.scope:
                    bq = np.broadcast_to(bq, a.shape)
                common.compare_arrays(a, bq, tol=1e-9, what="IntegrateQuery vs compiled integrate()")
            except common.Mismatch as mm:
                run.violation("query-vs-operator", dict(scen, rows=rows, Z=zs), f"{mm} {mm.detail}")
                return
            except Exception as e:  # noqa: BLE001
                run.violation("query-crash", dict(scen, Z=zs), f"{type(e).__name__}: {e}")
                return
        # variables outside the scope are rejected
        bad = max(vs) + 1 if rng.random() < 0.5 else next(v for v in range(D + 2) if v not in vs)
        try:
            q(torch.as_tensor(common.input_array(gen.gen_inputs(rng, spec, 1), spec)), integrate_vars=Scope([bad]))
            run.violation("no-rejection", dict(scen, bad_var=bad), f"variable {bad} outside the scope {vs} was accepted")
            return
        except (ValueError, IndexError):
            pass
        except Exception as e:  # noqa: BLE001
            run.feature("rejection_exc", type(e).__name__)
    finally:
        mc.drop()


def check(run: Run, tier: str, seed: int):
    n = 120 if tier == "quick" else 800
    for i in range(n):
        cls, opts = CLASSES[i % len(CLASSES)]
        srng = random.Random(f"C11-{seed}-{i}")
        spec = gen.gen_spec(srng, **opts)
        if len(spec["layers"]) > (30 if tier == "quick" else 50):
            spec = gen.gen_spec(srng, nv=2, **opts)
        feats = gen.spec_features(spec)
        semiring = srng.choice(["sum-product", "lse-sum"])
        fold, optimize = srng.choice(real.FLAGS) if i % 3 else (True, srng.random() < 0.5)
        scen = {"spec": spec, "class": cls, "semiring": semiring, "fold": fold, "optimize": optimize}
        run.case(spec, nontrivial=feats["had"] + feats["kron"] > 0, sample=scen if i < 1 else None,
                 features={"class": cls, "semiring": semiring, "flags": f"{fold},{optimize}", "vars": feats["vars"]})
        run_scenario(run, scen, srng)


def replay(run: Run, body: dict):
    s = body["scenario"]
    run_scenario(run, s, random.Random(0))
