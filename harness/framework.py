"""Shared machinery of all checks: proof audit, verdict rules, known findings, evidence, replay."""
from __future__ import annotations

import hashlib
import json
import os
import re
import subprocess
import sys
import time
import traceback

VERIF = os.path.dirname(os.path.dirname(os.path.abspath(__file__)))
LEAN_DIR = os.path.join(VERIF, "lean")
# runs against deliberately modified trees (tools/try_seeded.sh, catch_matrix.sh) must not overwrite the evidence
EVIDENCE_DIR = os.environ.get("VERIF_EVIDENCE_DIR") or os.path.join(VERIF, "evidence")
REPLAY_DIR = os.path.join(VERIF, "replays")
KNOWN_FINDINGS = os.path.join(VERIF, "known_findings.json")

PROCESS_T0 = time.time()

ALLOWED_AXIOMS = {"propext", "Classical.choice", "Quot.sound"}
FORBIDDEN = re.compile(r"\bsorry\b|\badmit\b|^axiom |native_decide|bv_decide|implemented_by|\bunsafe |maxHeartbeats 0",
                       re.M)

TRUSTED_BASE = [
    "Lean 4.33 kernel; Mathlib v4.33 (checked library); axioms allowed: propext, Classical.choice, Quot.sound",
    "hand-written Lean model (lean/CirkitModel/Model/*.lean) of the cirkit code named in each file header: modelled, not verified; tied to /repo by the correspondence check of this run",
    "correspondence harness: serialiser (harness/ser.py), generators, comparators/tolerances, Lean driver JSON parsing and DAG unfolding",
    "PyTorch kernels, broadcasting, autograd, RNG, nn.Module state_dict; NumPy/SciPy; CPython dict order / contextvars",
]


MAX_VIOLATIONS = 8


class TooManyViolations(Exception):
    """Enough violations were reported; stop exploring."""


class MachineryError(Exception):
    """The verification machinery itself is broken (exit 2, never a VIOLATION)."""


def strip_comments(src: str) -> str:
    src = re.sub(r"/-.*?-/", "", src, flags=re.S)
    src = re.sub(r"--.*", "", src)
    return src


def lake_build(targets: list[str]) -> None:
    # several checks may run at the same time: lake serialises builds with a lock file, a second process can fail
    # on it transiently — retry before calling the machinery broken
    last = None
    for attempt in range(4):
        r = subprocess.run(["lake", "build", *targets], cwd=LEAN_DIR, capture_output=True, text=True)
        if r.returncode == 0:
            return
        last = r
        time.sleep(3 + 4 * attempt)
    raise MachineryError("lake build failed:\n" + (last.stdout + last.stderr)[-4000:])


def proof_audit(pid: str) -> dict:
    """Build the property module, list its theorems, `#print axioms` each, grep for escapes."""
    t0 = time.time()
    module = f"CirkitModel.Properties.{pid}"
    path = os.path.join(LEAN_DIR, "CirkitModel", "Properties", f"{pid}.lean")
    if not os.path.exists(path):
        raise MachineryError(f"missing {path}")
    lake_build([module, "driver"])
    src = open(path).read()
    code = strip_comments(src)
    # all model/proof files reachable: grep the whole CirkitModel tree for escape hatches
    bad = []
    for root, _, files in os.walk(os.path.join(LEAN_DIR, "CirkitModel")):
        for f in files:
            if f.endswith(".lean"):
                c = strip_comments(open(os.path.join(root, f)).read())
                for m in FORBIDDEN.finditer(c):
                    bad.append(f"{f}: {m.group(0).strip()}")
    if bad:
        raise MachineryError("forbidden constructs in Lean sources: " + "; ".join(bad[:10]))
    # theorem names with their namespace (namespaces may be nested: `namespace A.B … namespace C … end C`)
    stack: list[str] = []
    names = []
    for line in code.splitlines():
        m = re.match(r"^namespace\s+(\S+)", line)
        if m:
            stack.append(m.group(1))
            continue
        m = re.match(r"^end\s+(\S+)", line)
        if m and stack and stack[-1] == m.group(1):
            stack.pop()
            continue
        m = re.match(r"^(?:protected\s+)?theorem\s+(\S+)", line)
        if m:
            names.append(".".join(stack + [m.group(1)]))
    prefix = ""
    if not names:
        raise MachineryError(f"no theorems in {path}")
    audit = os.path.join(LEAN_DIR, f".audit_{pid}_{os.getpid()}.lean")  # unique: the same check may run twice at once
    with open(audit, "w") as fh:
        fh.write(f"import {module}\n")
        for n in names:
            fh.write(f"#print axioms {prefix}{n}\n")
    try:
        for attempt in range(3):
            r = subprocess.run(["lake", "env", "lean", audit], cwd=LEAN_DIR, capture_output=True, text=True)
            if r.returncode == 0:
                break
            time.sleep(3 + 4 * attempt)  # e.g. an .olean being rewritten by a concurrent build
    finally:
        os.remove(audit)
    if r.returncode != 0:
        raise MachineryError("axiom audit failed:\n" + (r.stdout + r.stderr)[-3000:])
    out = r.stdout.replace("\n  ", " ")
    discharged, report = 0, []
    for n in names:
        full = prefix + n
        m = re.search(r"'" + re.escape(full) + r"' (does not depend on any axioms|depends on axioms: \[([^\]]*)\])", out)
        if not m:
            raise MachineryError(f"no axiom report for {full}")
        axs = set(a.strip() for a in (m.group(2) or "").split(",") if a.strip())
        ok = axs <= ALLOWED_AXIOMS
        discharged += ok
        report.append({"theorem": full, "axioms": sorted(axs), "ok": ok})
    if discharged != len(names):
        raise MachineryError("theorems depending on disallowed axioms: " +
                             ", ".join(x["theorem"] for x in report if not x["ok"]))
    return {"obligations": len(names), "discharged": discharged, "theorems": report,
            "partial": [n for n in names if n.endswith("_partial")],
            "checker_cmd": f"cd lean && lake build {module} && lake env lean <#print axioms of every theorem in Properties/{pid}.lean>",
            "audit_wall_s": round(time.time() - t0, 2)}


def leanchecker(pid: str) -> dict:
    module = f"CirkitModel.Properties.{pid}"
    t0 = time.time()
    r = subprocess.run(["lake", "env", "leanchecker", module], cwd=LEAN_DIR, capture_output=True, text=True)
    if r.returncode != 0:
        raise MachineryError("leanchecker failed:\n" + (r.stdout + r.stderr)[-3000:])
    return {"leanchecker": "ok", "leanchecker_wall_s": round(time.time() - t0, 2)}


def load_known_findings() -> list[dict]:
    if not os.path.exists(KNOWN_FINDINGS):
        return []
    return json.load(open(KNOWN_FINDINGS)).get("findings", [])


def canon_hash(obj) -> str:
    return hashlib.sha1(json.dumps(obj, sort_keys=True, default=str).encode()).hexdigest()[:16]


class Run:
    """One run of one check: collects cases, violations, writes evidence, decides the exit code."""

    def __init__(self, pid: str, tier: str, seed: int, *, rule: str, level: str = "proof", clean: bool = True):
        self.pid, self.tier, self.seed, self.rule, self.level = pid, tier, seed, rule, level
        self.t0 = PROCESS_T0
        self.evaluations = 0
        self.programs = 0
        self.nontrivial: set[str] = set()
        self.samples: list = []
        self.features: dict[str, dict] = {}
        self.violations: list[dict] = []
        self.known_hits: list[str] = []
        self.disagreements_checked = 0
        self.unobservable: list[str] = []
        self.extra: dict = {}
        self.assumptions: list[str] = []
        self.known = [k for k in load_known_findings() if k.get("property") == pid and k.get("status") == "open"]
        self.exact = 0
        self.tolerance = 0
        # stale replay files of an earlier run with the same seed would be misleading
        if clean and os.path.isdir(REPLAY_DIR):
            for f in os.listdir(REPLAY_DIR):
                if f.startswith(f"{pid}_{seed}_") and f.endswith(".json"):
                    os.remove(os.path.join(REPLAY_DIR, f))

    # -- bookkeeping ------------------------------------------------------------------------
    def case(self, scenario_key, *, nontrivial: bool, sample=None, features: dict | None = None):
        self.programs += 1
        if nontrivial:
            self.nontrivial.add(canon_hash(scenario_key))
        if sample is not None and len(self.samples) < 3:
            self.samples.append(sample)
        for k, v in (features or {}).items():
            h = self.features.setdefault(k, {})
            key = json.dumps(v, sort_keys=True) if not isinstance(v, (str, int, bool)) else str(v)
            h[key] = h.get(key, 0) + 1

    def feature(self, k: str, v):
        h = self.features.setdefault(k, {})
        h[str(v)] = h.get(str(v), 0) + 1

    # -- verdicts ---------------------------------------------------------------------------
    def match_known(self, tag: str, scenario: dict, detail: str) -> dict | None:
        for k in self.known:
            if k.get("tag") == tag:
                return k
        return None

    def violation(self, tag: str, scenario: dict, detail: str, *, no_failing_input: bool = False,
                  broken: str | None = None):
        """Report a property violation (rule 1) or an unexplained break (rule 2)."""
        k = None if no_failing_input else self.match_known(tag, scenario, detail)
        if k is not None:
            msg = f"KNOWN-FINDING: property={self.pid} {k['what']}"
            if msg not in self.known_hits:
                self.known_hits.append(msg)
                print(msg, flush=True)
            return
        os.makedirs(REPLAY_DIR, exist_ok=True)
        n = len(self.violations)
        path = os.path.join("replays", f"{self.pid}_{self.seed}_{n}.json")
        body = {"property": self.pid, "tag": tag, "detail": detail, "scenario": scenario,
                "seed": self.seed, "tier": self.tier,
                "replay_cmd": f"./check {self.pid} --replay {path}"}
        if no_failing_input:
            body["no_failing_input_found"] = True
            body["broken"] = broken or tag
        with open(os.path.join(VERIF, path), "w") as fh:
            json.dump(body, fh, indent=1, default=str)
        line = f"VIOLATION property={self.pid} replay={path}"
        if no_failing_input:
            line += " no-failing-input-found"
        print(line, flush=True)
        self.violations.append({"tag": tag, "detail": detail[:500], "replay": path})
        if len(self.violations) >= MAX_VIOLATIONS:
            raise TooManyViolations()

    # -- finish -----------------------------------------------------------------------------
    def finish(self, proof: dict) -> int:
        cov = {
            "obligations": proof["obligations"], "discharged": proof["discharged"],
            "checker_cmd": proof["checker_cmd"], "trusted_base": TRUSTED_BASE,
            "theorems": proof["theorems"], "partial_theorems": proof.get("partial", []),
            "programs": self.programs, "evaluations": self.evaluations,
            "distinct_nontrivial": len(self.nontrivial), "rule": self.rule,
            "samples": self.samples or ["(no sample recorded)"],
            "disagreements_checked": self.disagreements_checked,
            "exact_comparisons": self.exact, "tolerance_comparisons": self.tolerance,
            "feature_histogram": self.features, "unobservable": self.unobservable,
            "known_findings_hit": self.known_hits,
        }
        cov.update({k: v for k, v in proof.items() if k.startswith("leanchecker") or k == "audit_wall_s"})
        cov.update(self.extra)
        ev = {"property_id": self.pid, "tier": self.tier, "seed": self.seed, "level": self.level,
              "coverage": cov, "assumptions": self.assumptions, "wall_s": round(time.time() - self.t0, 2),
              "violations": len(self.violations)}
        os.makedirs(EVIDENCE_DIR, exist_ok=True)
        with open(os.path.join(EVIDENCE_DIR, f"{self.pid}.json"), "w") as fh:
            json.dump(ev, fh, indent=1, default=str)
        return 1 if self.violations else 0


def main_wrapper(fn):
    """Run a check function; machinery failures are exit 2 without a VIOLATION line."""
    try:
        code = fn()
    except MachineryError as e:
        print(f"MACHINERY-ERROR: {e}", file=sys.stderr)
        code = 2
    except Exception:  # noqa: BLE001
        traceback.print_exc()
        print("MACHINERY-ERROR: unexpected exception in the harness", file=sys.stderr)
        code = 2
    sys.exit(code)
