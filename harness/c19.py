"""C19 — saved parameters reproduce the circuit after reload."""
from __future__ import annotations

import io
import random

import numpy as np
import torch

import common
import gen
import gen2
import pipelines
import real
import ser
from framework import Run

RULE = ("generated circuits and operator pipelines x (fold, optimize, semiring): compile in context A, write fresh "
        "random values through the registry, save the state dictionaries (through torch.save / torch.load in memory), "
        "compile the same symbolic circuits in a fresh context B (different initial values; evaluated once, in eval() mode half of the time), load, and compare the "
        "outputs of every circuit bitwise on random inputs; also after reset_parameters() + load again; key sets of A "
        "and B must coincide; census of keys per tensor storage: every learnable tensor of a circuit without "
        "references must appear under exactly one key, none may be missing; non-trivial = distinct (pipeline, flags)")

CLASSES = [
    ("emb", dict(leaf_kinds=["emb"], weight_pz=["id"]), ["sum-product", "lse-sum"]),
    ("mixed", dict(leaf_kinds=["cat_logits", "cat_softmax", "gauss", "emb", "bin_logits"], weight_pz=["id", "softmax"], units=[1, 2]),
     ["sum-product", "lse-sum"]),
    ("complex", dict(leaf_kinds=["emb", "poly"], weight_pz=["id"], signed=True, complex=True), ["complex-lse-sum"]),
]


def roundtrip(sd):
    buf = io.BytesIO()
    torch.save(sd, buf)
    buf.seek(0)
    return torch.load(buf)


def census(tc):
    """storage -> keys, for learnable tensors"""
    out = {}
    for k, v in tc.state_dict(keep_vars=True).items():
        if isinstance(v, torch.nn.Parameter) and v.requires_grad:
            out.setdefault(v.data_ptr(), []).append(k)
    return out


def run_scenario(run: Run, scen: dict, rng: random.Random):
    spec, ops, semiring, fold, optimize = scen["spec"], scen["ops"], scen["semiring"], scen["fold"], scen["optimize"]
    try:
        chain = pipelines.build_pipeline(spec, ops)
    except pipelines.Refused:
        run.feature("refused", "+".join(o["op"] for o in ops))
        return
    try:
        A = real.TorchCompiler(semiring=semiring, fold=fold, optimize=optimize)
        tA = [A.compile(c) for c in chain]
        B = real.TorchCompiler(semiring=semiring, fold=fold, optimize=optimize)
        tB = [B.compile(c) for c in chain]
    except Exception as e:  # noqa: BLE001
        run.violation("compile-crash", scen, f"{type(e).__name__}: {e}")
        return
    params = [n for n in ser.tensor_params(chain[0])]
    cplx = common.spec_is_complex(spec)
    if scen["class"] != "mixed":
        theta = {}
        for n in params:
            size = int(np.prod(n.shape))
            vals = gen.dyadics(rng, size, signed=cplx)
            if cplx:
                vals = [complex(a, b) for a, b in zip(vals, gen.dyadics(rng, size, signed=True))]
            theta[ser.UIDS.uid(n)] = vals
        real.write_theta(A, params, theta)
    else:
        with torch.no_grad():
            for p in tA[0].parameters():
                if p.requires_grad:
                    p.add_(torch.rand_like(p) * 0.25)
    # make B differ before loading
    with torch.no_grad():
        for p in tB[0].parameters():
            if p.requires_grad:
                p.mul_(0.5)
    rows = gen.gen_inputs(rng, spec, 3)
    X = common.input_array(rows, spec)
    scen_x = dict(scen, rows=rows)
    # the fresh instance is used once before the checkpoint is loaded, in evaluation mode half of the time
    if scen.get("eval_mode", rng.random() < 0.5):
        for b in tB:
            b.eval()
        run.feature("eval_mode", True)
    try:
        with torch.no_grad():
            for b, c in zip(tB, chain):
                b(torch.as_tensor(X)) if c.scope else b()
    except Exception as e:  # noqa: BLE001
        run.violation("eval-crash", scen_x, f"{type(e).__name__}: {e}")
        return
    for i, (a, b, c) in enumerate(zip(tA, tB, chain)):
        sda = a.state_dict()
        who = "operand" if i == 0 else f"circuit derived by {'+'.join(o['op'] for o in ops[:i])}"
        if set(sda.keys()) != set(b.state_dict().keys()):
            run.violation("key-sets-differ", scen, f"{who}: state-dict keys of two compilations of one symbolic circuit under the same flags differ")
            return
        # census
        cen = census(a)
        learn_ptrs = {p.data_ptr() for p in a.parameters() if p.requires_grad}
        missing = learn_ptrs - set(cen)
        # frozen tensors too: count tensor parameter nodes vs saved storages
        from c02 import compiled_tensor_nodes
        all_ptrs = {n._ptensor.data_ptr() for n in compiled_tensor_nodes(a) if n._ptensor is not None}
        saved_ptrs = {v.data_ptr() for v in a.state_dict(keep_vars=True).values() if hasattr(v, "data_ptr")}
        missing = missing | (all_ptrs - saved_ptrs)
        if missing:
            run.violation("missing-key", scen, f"{who}: {len(missing)} learnable tensor(s) do not appear in the state dictionary")
            return
        dup = {ptr: ks for ptr, ks in cen.items() if len(ks) > 1}
        if dup:
            tag = "duplicate-keys-derived" if i > 0 else "duplicate-keys-base"
            run.violation(tag, scen, f"{who}: a learnable tensor appears under {max(len(k) for k in dup.values())} keys, e.g. {list(dup.values())[0][:3]}")
            if tag == "duplicate-keys-base":
                return
    try:
        for i, (a, b, c) in enumerate(zip(tA, tB, chain)):
            b.load_state_dict(roundtrip(a.state_dict()))
        for rep in range(2):
            for i, (a, b, c) in enumerate(zip(tA, tB, chain)):
                with torch.no_grad():
                    ya = a(torch.as_tensor(X)) if c.scope else a()
                    yb = b(torch.as_tensor(X)) if c.scope else b()
                run.evaluations += 1
                if ya.shape != yb.shape or not torch.equal(torch.view_as_real(ya) if ya.is_complex() else ya,
                                                           torch.view_as_real(yb) if yb.is_complex() else yb):
                    nan_same = torch.isnan(ya.real if ya.is_complex() else ya).any()
                    who = "operand" if i == 0 else f"circuit derived by {'+'.join(o['op'] for o in ops[:i])}"
                    if not nan_same:
                        run.violation("reload-differs", scen_x, f"{who}: outputs after loading the saved state dictionary into a fresh compilation differ (fold={fold}, optimize={optimize}, {semiring}, pass {rep})")
                        return
                run.exact += 1
            # reset then load again
            tB[0].reset_parameters()
            for a, b in zip(tA, tB):
                b.load_state_dict(a.state_dict())
    except Exception as e:  # noqa: BLE001
        run.violation("load-crash", scen_x, f"{type(e).__name__}: {e}")


def check(run: Run, tier: str, seed: int):
    n = 120 if tier == "quick" else 600
    for i in range(n):
        cls, opts, semirings = CLASSES[i % len(CLASSES)]
        srng = random.Random(f"C19-{seed}-{i}")
        spec = gen.gen_spec(srng, **opts)
        if len(spec["layers"]) > 30:
            spec = gen.gen_spec(srng, nv=2, **opts)
        if cls != "complex":
            from c10 import freeze_some
            spec = freeze_some(spec, srng)  # frozen, randomly initialised tensors: their values live in the state dict only
        ops = pipelines.random_ops(srng, spec, cls) if i % 2 else []
        scen = {"spec": spec, "class": cls, "ops": ops, "semiring": srng.choice(semirings),
                "fold": srng.random() < 0.5, "optimize": srng.random() < 0.5}
        run.case({"spec": spec, "ops": ops, "f": scen["fold"], "o": scen["optimize"]}, nontrivial=True,
                 sample=scen if i < 1 else None,
                 features={"class": cls, "ops": "+".join(o["op"] for o in ops) or "none", "flags": f"{scen['fold']},{scen['optimize']}"})
        run_scenario(run, scen, srng)


def replay(run: Run, body: dict):
    run_scenario(run, body["scenario"], random.Random(0))
